"""EXT stage "smooth": smooth solvers, line searches and step-length rules.

Covers odl/solvers/smooth/{newton,gradient,nonlinear_cg}.py (newtons_method, bfgs_method, broydens_method,
steepest_descent, adam, conjugate_gradient_nonlinear) and odl/solvers/util/steplen.py (LineSearch,
BacktrackingLineSearch, ConstantLineSearch, LineSearchFromIterNum) - behaviour no listed property talks about (C11 / C12
only use steepest descent with a fixed step / a monotone objective and treat the other smooth solvers as drift).

  layer A  spec/sem/SmoothSem.tla     textbook iterations in a weighted Hilbert space, exact rationals, written from the
                                      docstrings and the texts they cite
  layer B  spec/mach/SmoothMachine.tla  solver calls (one Iterate per iteration, Return ; call-again boundaries) and
                                      call histories on ONE step-length object; invariants = the theorems (Newton exact
                                      after one step, BFGS / nonlinear CG with exact line search = linear CG, exact after
                                      dim steps, conjugacy, secant / hereditary secant / inverse-after-dim, Broyden secant
                                      and 2 dim termination, orthogonal gradients, descent, Armijo, resumption)
  layer C  spec/impl/SmoothImpl.tla   the code as written (two-loop L-BFGS recursion, num_store slice, safeguard / reset,
                                      Broyden factor lists, backtracking loop with counters, nonlinear CG loop nest, tol
                                      tests), checked by TLC to refine layer A on the catalogue
  layer D  spec/trace/Trace_Smooth.tla  total trace specification for recorded runs

spec -> code: TLC exports every finished behaviour of the catalogue (expected rule calls (x, d, dir_derivative, step),
iterates, final x, rule-object state); each is replayed on real ODL objects under several concretisations (rn, weighted
rn, uniform_discr with cell volume != 1, product / power spaces; user-defined and ODL-built functionals; Hessians with and
without .inverse; every spelling of the step-length rule, of the options and of the callback).
code -> spec: seeded drivers run real ODL on instances beyond the TLC constants (dimension 1..4, other matrices, weights,
starts, options, nreset, interleaved histories on one rule object, float32), record NDJSON events and TLC validates them.

The Python re-implementation below (`Mirror...`) only SELECTS instances (exact run inside 32 bits, no ties, lattice
denominators for snapping) and serves as the plain partner of the relational events; it never decides a verdict.

  python -m harness.extras.smooth gencat     regenerates spec/cfg/MC_SmoothCat.tla (seeded search; result is frozen)
"""
import itertools
import json
import math
import os
import random
import re
import sys
import zlib
from concurrent.futures import ThreadPoolExecutor
from fractions import Fraction
from math import gcd, isqrt, sqrt

import numpy as np

from ..common import MachineryError, VERIF
from ..tlc import run_tlc, parse_fails
from .. import exact

STANDALONE = True
STAGE = 'smooth'
F = Fraction
MAXDEN = 4096              # iterates whose lattice denominator is larger are compared with a relative tolerance
COARSE = 2.0 ** -26
TOL_BITS = 20              # solvers are run with tol = 2^-20 (layer C checks that no tested quantity is near it)
SOLVERS = ['newton', 'bfgs', 'broyden', 'ncg', 'sd', 'adam']
GROUPS = SOLVERS + ['ls0', 'ls1']         # families of MC_Smooth (the step-length histories in two halves)
# quirks of the tree as pinned that layer C mirrors (SMOOTH_QUIRKS of MC_SmoothImpl); remove a name once the
# corresponding proposal has been applied to /repo
PINNED_QUIRKS = ['ncg-first']
if os.environ.get('VERIF_SMOOTH_QUIRKS') is not None:          # e.g. "" when every proposal is applied to the tree under test
    PINNED_QUIRKS = [q_ for q_ in os.environ['VERIF_SMOOTH_QUIRKS'].split('+') if q_]


# =====================================================================================================================
# Mirror of SmoothSem on Python numbers (selection of instances / lattices, relational partner) - never a verdict
# =====================================================================================================================
LIMIT = 2 ** 29


class Q32(object):
    """Fraction whose intermediate products (as formed by SolverSem's SAdd / SMul) are checked against LIMIT."""
    __slots__ = ('f',)

    def __init__(self, f):
        self.f = f if isinstance(f, Fraction) else Fraction(f)
        if abs(self.f.numerator) > LIMIT or self.f.denominator > LIMIT:
            raise OverflowError

    @staticmethod
    def _chk(*vals):
        for v in vals:
            if abs(v) > LIMIT:
                raise OverflowError

    def __add__(self, o):
        o = o if isinstance(o, Q32) else Q32(o)
        p, q = self.f, o.f
        g = gcd(p.denominator, q.denominator)
        a, b = p.denominator // g, q.denominator // g
        self._chk(p.numerator * b, q.numerator * a, p.numerator * b + q.numerator * a, a * q.denominator)
        return Q32(p + q)
    __radd__ = __add__

    def __neg__(self):
        return Q32(-self.f)

    def __sub__(self, o):
        o = o if isinstance(o, Q32) else Q32(o)
        return self + (-o)

    def __rsub__(self, o):
        return Q32(o) + (-self)

    def __mul__(self, o):
        o = o if isinstance(o, Q32) else Q32(o)
        p, q = self.f, o.f
        g1 = gcd(abs(p.numerator), q.denominator) or 1
        g2 = gcd(abs(q.numerator), p.denominator) or 1
        self._chk((p.numerator // g1) * (q.numerator // g2), (p.denominator // g2) * (q.denominator // g1))
        return Q32(p * q)
    __rmul__ = __mul__

    def __truediv__(self, o):
        o = o if isinstance(o, Q32) else Q32(o)
        return self * Q32(1 / o.f)

    def __rtruediv__(self, o):
        return Q32(o) / self

    def __lt__(self, o):
        return (self - o).f < 0

    def __le__(self, o):
        return (self - o).f <= 0

    def __gt__(self, o):
        return (self - o).f > 0

    def __ge__(self, o):
        return (self - o).f >= 0

    def __eq__(self, o):
        return self.f == (o.f if isinstance(o, Q32) else o)

    def __hash__(self):
        return hash(self.f)

    def __abs__(self):
        return Q32(abs(self.f))

    def __repr__(self):
        return 'Q(%s)' % self.f


def frac(v):
    return v.f if isinstance(v, Q32) else v


def is_zero(v):
    return frac(v) == 0


def msqrt(v):
    """square root: exact on rationals (None if irrational), float otherwise"""
    f = frac(v)
    if isinstance(f, Fraction):
        if f <= 0:
            return None
        a, b = isqrt(f.numerator), isqrt(f.denominator)
        if a * a != f.numerator or b * b != f.denominator:
            return None
        r = Fraction(a, b)
        return Q32(r) if isinstance(v, Q32) else r
    return sqrt(f)


class Prob(object):
    """kind quad: 1/2 x^T M x - c^T x ; quart: 1/4 sum w_i (x_i - t_i)^4 ; lin: c^T x ; inner product weights w"""

    def __init__(self, Pd, num=Fraction):
        self.kind, self.num = Pd['kind'], num
        cv = lambda v: [num(x) for x in v]
        self.w = cv(Pd['w'])
        self.n = len(self.w)
        self.M = [cv(r) for r in Pd['M']] if Pd.get('M') else None
        self.c = cv(Pd['c']) if Pd.get('c') else None
        self.t = cv(Pd['t']) if Pd.get('t') else None
        self.sol = cv(Pd['sol']) if Pd.get('sol') else None
        self.half = 0.5 if num is float else num(Fraction(1, 2))
        self.quarter = 0.25 if num is float else num(Fraction(1, 4))

    def dot(self, u, v):
        s = self.num(0)
        for a, b in zip(u, v):
            s = s + a * b
        return s

    def inner(self, u, v):
        s = self.num(0)
        for wi, a, b in zip(self.w, u, v):
            s = s + wi * (a * b)
        return s

    def matvec(self, v):
        return [self.dot(r, v) for r in self.M]

    def val(self, x):
        if self.kind == 'quad':
            return self.half * self.dot(x, self.matvec(x)) - self.dot(self.c, x)
        if self.kind == 'lin':
            return self.dot(self.c, x)
        s = self.num(0)
        for wi, a, b in zip(self.w, x, self.t):
            d = a - b
            s = s + wi * ((d * d) * (d * d))
        return self.quarter * s

    def egrad(self, x):
        if self.kind == 'quad':
            return [a - b for a, b in zip(self.matvec(x), self.c)]
        if self.kind == 'lin':
            return list(self.c)
        return [wi * ((a - b) * (a - b) * (a - b)) for wi, a, b in zip(self.w, x, self.t)]

    def grad(self, x):
        return [e / wi for e, wi in zip(self.egrad(x), self.w)]

    def hessv(self, x, v):
        if self.kind == 'quad':
            return [e / wi for e, wi in zip(self.matvec(v), self.w)]
        if self.kind == 'lin':
            return [self.num(0)] * self.n
        return [3 * ((a - b) * (a - b)) * vi for a, b, vi in zip(x, self.t, v)]

    def stationary(self, x):
        return all(is_zero(e) for e in self.egrad(x))


def axpy(a, x, y):
    return [a * xi + yi for xi, yi in zip(x, y)]


def scal(a, x):
    return [a * xi for xi in x]


def vsub(x, y):
    return [a - b for a, b in zip(x, y)]


def vadd(x, y):
    return [a + b for a, b in zip(x, y)]


def vneg(x):
    return [-a for a in x]


class MirrorRule(object):
    """ls = dict(k=, a=, seq=, tau=, disc=, alpha0=, est=, maxit=); object state: calls, alpha, total"""

    def __init__(self, ls, num):
        self.ls, self.num = ls, num
        self.calls, self.total = 0, 0
        self.alpha = num(ls.get('alpha0', 1))
        self.ok, self.tie = True, False
        self.margin = None            # smallest relative distance of a tested value from its threshold

    def bt(self, P, x, d, dd):
        ls, num = self.ls, self.num
        if is_zero(dd):
            return 'nodescent', num(0), 0, False
        start = self.alpha if (ls['est'] and self.calls > 0) else num(ls['alpha0'])
        a = -start if frac(dd) > 0 else start
        fx = P.val(x)
        for j in range(ls['maxit'] + 1):
            fv = P.val(axpy(a, d, x))
            thr = fx + num(ls['disc']) * (a * dd)
            gap = abs(float(frac(fv)) - float(frac(thr))) / max(1.0, abs(float(frac(fx))), abs(float(frac(fv))))
            self.margin = gap if self.margin is None else min(self.margin, gap)
            if fv <= thr:
                return ('edge' if j == ls['maxit'] else 'ok'), a, j, frac(fv) == frac(thr)
            a = a * num(ls['tau'])
        return 'raise', a, -1, False

    def __call__(self, P, x, d, dd):
        ls = self.ls
        k = ls['k']
        if k == 'const':
            a = self.num(ls['a'])
        elif k == 'iternum':
            a = self.num(ls['seq'][self.calls])
        elif k == 'exact':
            a = -dd / P.inner(d, P.hessv(x, d))
        else:
            status, a, j, tie = self.bt(P, x, d, dd)
            if status in ('ok', 'edge'):
                self.alpha = abs(a)
                self.total += j
            self.ok = self.ok and status == 'ok'
            self.tie = self.tie or tie
        self.calls += 1
        return a


def bfgs_apply(P, pairs, h0, v):
    if not pairs:
        return [a * b for a, b in zip(h0, v)]
    s, y = pairs[-1]
    rho = 1 / P.inner(y, s)
    sv = P.inner(s, v)
    v1 = axpy(-(rho * sv), y, v)
    u = bfgs_apply(P, pairs[:-1], h0, v1)
    return vadd(axpy(-(rho * P.inner(y, u)), s, u), scal(rho * sv, s))


def wcg(P, x, r0, j):
    p, r, q = [P.num(0)] * P.n, list(r0), list(r0)
    for _ in range(j):
        if all(is_zero(a) for a in r):
            break
        Hq = P.hessv(x, q)
        rr = P.inner(r, r)
        al = rr / P.inner(q, Hq)
        p = axpy(al, q, p)
        r = axpy(-al, Hq, r)
        be = P.inner(r, r) / rr
        q = axpy(be, q, r)
    return p


def power(b, t, num):
    r = num(1)
    for _ in range(t):
        r = r * b
    return r


def mirror_run(I, num=Fraction, x_start=None, rule=None, restarts=()):
    """Textbook run of instance I (dict in the shape of the TLA+ record, numbers as Fractions).
    restarts: iteration counts (nonlinear CG only) at which the direction is reset to steepest descent."""
    P = Prob(I['P'], num)
    n = P.n
    x = [num(v) for v in (x_start if x_start is not None else I['x0'])]
    rule = rule or MirrorRule(I['ls'], num)
    h0 = [num(v) for v in (I.get('h0') or [1] * n)]
    solver = I['solver']
    ok, tie = True, False
    log = []
    pairs = []
    H = [[h0[i] if i == j else num(0) for j in range(n)] for i in range(n)]
    gp = sp = None
    m, v, t = [num(0)] * n, [num(0)] * n, 0
    small = None               # smallest |quantity| a tolerance test could look at
    for it in range(I['N']):
        if not ok or P.stationary(x):
            break
        g = P.grad(x)
        gg = abs(float(frac(P.inner(g, g))))
        small = gg if small is None else min(small, gg)
        if it in restarts:
            gp = sp = None
        if solver == 'newton':
            if I.get('cgit', 0) == 0:
                d = vsub(P.sol, x) if P.kind == 'quad' else [-(a - b) / 3 for a, b in zip(x, P.t)]
            else:
                d = wcg(P, x, vneg(g), I['cgit'])
            dd = P.inner(g, d)
            a = rule(P, x, d, dd)
            xn = axpy(a, d, x)
        elif solver == 'bfgs':
            d = vneg(bfgs_apply(P, pairs, h0, g))
            dd = P.inner(g, d)
            a = rule(P, x, d, dd)
            sv = scal(a, d)
            xn = vadd(x, sv)
            y = vsub(P.grad(xn), g)
            curv = P.inner(y, sv)
            small = min(small, abs(float(frac(curv))))
            if frac(curv) > 0:
                pairs.append((sv, y))
                st = I.get('store', -1)
                if st >= 0:
                    pairs = pairs[len(pairs) - st:] if st < len(pairs) else pairs
            else:
                ok = False
        elif solver == 'broyden':
            d = vneg([P.dot(H[i], g) for i in range(n)])
            dd = P.inner(g, d)
            a = rule(P, x, d, dd)
            dx = scal(a, d)
            xn = vadd(x, dx)
            dg = vsub(P.grad(xn), g)
            Hdg = [P.dot(H[i], dg) for i in range(n)]
            den = P.inner(dx, Hdg) if I['impl'] == 'first' else P.inner(dg, dg)
            small = min(small, abs(float(frac(den))))
            if is_zero(den):
                ok = False
            else:
                u = scal(1 / den, vsub(dx, Hdg))
                if I['impl'] == 'first':
                    row = [sum((dx[l] * P.w[l] * H[l][j] for l in range(n)), num(0)) for j in range(n)]
                else:
                    row = [dg[j] * P.w[j] for j in range(n)]
                H = [[H[i][j] + u[i] * row[j] for j in range(n)] for i in range(n)]
        elif solver == 'ncg':
            if sp is None:
                d = vneg(g)
            else:
                bm = I['beta']
                den = P.inner(gp, gp) if bm in ('FR', 'PR') else P.inner(sp, vsub(g, gp))
                if is_zero(den):
                    ok = False
                    be = num(0)
                else:
                    nume = P.inner(g, g) if bm in ('FR', 'DY') else P.inner(g, vsub(g, gp))
                    be = nume / den
                if frac(be) < 0:
                    tie = True
                d = axpy(be, sp, vneg(g))
            dd = P.inner(g, d)
            a = rule(P, x, d, dd)
            xn = axpy(a, d, x)
            gp, sp = g, d
        elif solver == 'sd':
            d = vneg(g)
            dd = P.inner(g, d)
            a = rule(P, x, d, dd)
            xn = axpy(a, d, x)
            if I.get('box'):
                lo, hi = num(I['box'][0]), num(I['box'][1])
                xn = [min(max(c, lo), hi) for c in xn]
        elif solver == 'adam':
            t += 1
            b1, b2, lr = num(I['b1']), num(I['b2']), num(I['lr'])
            m = [b1 * mi + (1 - b1) * gi for mi, gi in zip(m, g)]
            v = [b2 * vi + (1 - b2) * (gi * gi) for vi, gi in zip(v, g)]
            c1, c2 = 1 - power(b1, t, num), 1 - power(b2, t, num)
            mh = [mi / c1 for mi in m]
            vh = [vi / c2 for vi in v]
            if num is float:
                eps = float(I.get('eps', 1e-8))
                up = [mi / (sqrt(vi) + eps) for mi, vi in zip(mh, vh)]
                small = min(small, min(sqrt(vi) for vi in vh))
            else:
                sq = [msqrt(vi) for vi in vh]
                if any(s is None for s in sq):
                    ok = False
                    break
                up = [mi / s for mi, s in zip(mh, sq)]
                small = min(small, min(abs(float(frac(s))) for s in sq))
            d, dd, a = vneg(up), num(0), lr
            xn = axpy(-lr, up, x)
        else:
            raise ValueError(solver)
        if solver != 'adam':
            small = min(small, abs(float(frac(dd))))
        ok = ok and rule.ok
        tie = tie or rule.tie
        log.append(dict(x=x, d=d, dd=dd, a=a, xn=xn, pairs=list(pairs), H=H))
        x = xn
    return dict(log=log, x=x, ok=ok, tie=tie, rule=rule, conv=P.stationary(x), P=P, small=small)


def touch_laws(I, r):
    """evaluate the quantities of the SmoothMachine invariants with the run's number type (overflow check only)"""
    P = r['P']
    n = P.n
    solver = I['solver']
    unit = lambda j: [P.num(1 if i == j else 0) for i in range(n)]
    h0 = [P.num(v) for v in (I.get('h0') or [1] * n)]
    if solver == 'newton' and P.kind == 'quad':
        for x in [r['log'][0]['x']] if r['log'] else []:
            wcg(P, x, vneg(P.grad(x)), n)
    lsk = I['ls']['k']
    for e in r['log']:
        if lsk in ('exact', 'bt') and solver in ('newton', 'bfgs', 'ncg', 'sd'):
            P.val(e['x']), P.val(e['xn'])
        if solver == 'sd' and lsk == 'exact':
            P.inner(P.grad(e['x']), P.grad(e['xn']))
        if solver == 'bfgs':
            prs = e['pairs']
            for j in range(n):
                hj = bfgs_apply(P, prs, h0, unit(j))
                for i in range(n):
                    P.inner(unit(i), hj)
                if P.kind == 'quad' and len(prs) == n:
                    bfgs_apply(P, prs, h0, P.hessv(e['xn'], unit(j)))
            for (s_, y_) in prs:
                bfgs_apply(P, prs, h0, y_)
        if solver == 'broyden':
            dg = vsub(P.grad(e['xn']), P.grad(e['x']))
            [P.dot(e['H'][i], dg) for i in range(n)]
    if P.kind == 'quad' and lsk == 'exact' and solver in ('bfgs', 'ncg'):
        for i, e in enumerate(r['log']):
            for f in r['log'][i + 1:]:
                P.inner(e['d'], P.hessv(e['x'], f['d']))


def mirror_split(I, split, num=Q32):
    """mirror of SmoothMachine with a Return ; call-again boundary after `split` iterations"""
    if split < 0:
        return [mirror_run(I, num=num)]
    r1 = mirror_run(dict(I, N=split), num=num)
    if len(r1['log']) < split or not r1['ok'] or r1['conv']:
        return [r1]
    r2 = mirror_run(dict(I, N=I['N'] - split), num=num, x_start=[frac(v) for v in r1['x']], rule=r1['rule'])
    return [r1, r2]


def feasible(I, need_full=None, splits=True):
    """every boundary placement of instance I fits into 32 bits; the unsplit run is ok and tie-free"""
    try:
        out = None
        for sp in [-1] + (list(range(1, I['N'])) if splits else []):
            rs = mirror_split(I, sp)
            for r_ in rs:
                touch_laws(I, r_)
            if sp == -1:
                out = rs[0]
                if not out['ok'] or out['tie']:
                    return None
                if need_full is not None and len(out['log']) < need_full:
                    return None
    except (OverflowError, ZeroDivisionError):
        return None
    return out


# =====================================================================================================================
# Catalogue generator (python -m harness.extras.smooth gencat) - mirrors the families of spec/cfg/MC_Smooth.tla
# =====================================================================================================================
MATS = {'S2a': [[2, 1], [1, 2]], 'S2b': [[4, 1], [1, 3]], 'S2c': [[1, 2], [2, 5]], 'S2d': [[10, 3], [3, 1]],
        'S2e': [[5, -2], [-2, 1]], 'D2': [[100, 0], [0, 1]],
        'S3': [[2, -1, 0], [-1, 2, -1], [0, -1, 2]], 'S3b': [[2, 1, 0], [1, 2, 1], [0, 1, 2]],
        'S3c': [[2, 1, 0], [1, 3, 1], [0, 1, 2]], 'S3d': [[4, 1, 1], [1, 3, 0], [1, 0, 2]],
        'D3': [[1, 0, 0], [0, 2, 0], [0, 0, 4]]}
LS0 = dict(k='const', a=1, seq=[], tau=F(1, 2), disc=F(1, 100), alpha0=1, est=False, maxit=40)


def WT(nm, n):
    return {'1': [1] * n, 'c2': [2] * n, 'ch': [F(1, 2)] * n, 'a12': [1, 2, 1][:n], 'a21': [2, 1, 4][:n]}[nm]


def H0(nm, n):
    return {'I': None, 'D': [F(1, 2), F(1, 4), F(1)][:n], 'S': [F(1, 2)] * n}[nm]


def matvec_int(M, v):
    return [sum(a * b for a, b in zip(r, v)) for r in M]


def lsconst(a):
    return dict(LS0, a=a)


LSEX = dict(LS0, k='exact')


def lsiter(seq):
    return dict(LS0, k='iternum', seq=list(seq))


def lsbt(tau, disc, a0=1, est=False, mx=30):
    return dict(LS0, k='bt', tau=tau, disc=disc, alpha0=a0, est=est, maxit=mx)


def quadP(M, w, sol, tag=''):
    return dict(kind='quad', tag=tag, w=list(w), M=[list(r) for r in M], c=matvec_int(M, sol), t=[], sol=list(sol))


def otherP(kind, w, v, tag=''):
    if kind == 'lin':
        return dict(kind='lin', tag=tag, w=list(w), M=[], c=list(v), t=[], sol=[])
    return dict(kind='quart', tag=tag, w=list(w), M=[], c=[], t=list(v), sol=list(v))


def base_inst(solver, P, x0, **kw):
    I = dict(solver=solver, fam='', P=P, x0=list(x0), N=3, ls=LS0, store=-1, h0=None, impl='first', beta='FR', cgit=0,
             box=None, lr=1, b1=0, b2=0, queries=[])
    I.update(kw)
    return I


def _gen_catalogue():
    VALS = [-2, -1, 0, 1, 2, 3]

    def cand_pairs(n, rnd, k, halves=False):
        out = []
        while len(out) < k:
            s = tuple(rnd.choice(VALS) for _ in range(n))
            x = tuple(rnd.choice(VALS) * (rnd.choice([1, 1, F(1, 2)]) if halves else 1) for _ in range(n))
            if s != x:
                out.append((s, x))
        return out

    def base(solver, mn, wn, sol, x0, **kw):
        return base_inst(solver, quadP(MATS[mn], WT(wn, len(sol)), sol), x0, **kw)

    def parallel(u, v):
        u, v = [frac(a) for a in u], [frac(a) for a in v]
        return all(u[i] * v[j] == u[j] * v[i] for i in range(len(u)) for j in range(i))

    def turns(r):
        """the run is not confined to one line (a start on an eigenvector makes every method look alike)"""
        ds = [e['d'] for e in r['log']]
        return len(ds[0]) == 1 or any(not parallel(ds[0], d) for d in ds[1:])

    def pick(name, combos, variants, nfull, per=1, extra=(None,), ntry=300, quick=None, cond=None, anyof=None):
        """anyof: options that are drawn per candidate instead of being enumerated (step lengths)"""
        rnd = random.Random(sum(map(ord, name)))
        res = []
        for (mn, wn) in combos:
            n = len(MATS[mn])
            for ex0 in extra:
                got = 0
                for sol, x0 in cand_pairs(n, rnd, ntry, halves=anyof is not None):
                    ex = ex0
                    if anyof is not None:
                        ex = (rnd.choice(anyof),) if ex0 is None else (ex0, rnd.choice(anyof))
                    okall = True
                    runs = []
                    for I in variants(mn, wn, sol, x0, ex):
                        nf = nfull(I) if callable(nfull) else nfull
                        r = feasible(I, nf)
                        if r is None:
                            okall = False
                            break
                        runs.append((I, r))
                    if okall and cond is not None and not cond(runs):
                        okall = False
                    if okall:
                        tier = 0 if (got == 0 and (quick is None or (mn, wn) in quick)) else 1
                        res.append((mn, wn, sol, x0, tier, ex))
                        got += 1
                        if got >= per:
                            break
                if got == 0:
                    sys.stderr.write('%s: nothing for %s %s %s\n' % (name, mn, wn, ex0))
        return res

    C2 = [('S2a', '1'), ('S2b', 'c2'), ('S2c', 'a12'), ('S2e', 'ch'), ('S2d', '1'), ('D2', 'a21'), ('S2a', 'a21'),
          ('S2b', 'ch'), ('S2c', '1'), ('S2d', 'c2')]
    C3 = [('S3', '1'), ('S3b', 'a12'), ('D3', 'c2'), ('S3c', 'ch'), ('S3', 'a21'), ('S3b', 'c2'), ('S3c', '1'),
          ('D3', 'a21'), ('S3d', '1')]
    QUICK = {('S2a', '1'), ('S2b', 'c2'), ('S2c', 'a12'), ('S2e', 'ch'), ('S2d', '1'), ('S3', '1'), ('S3b', 'a12'),
             ('D3', 'c2'), ('S3c', 'ch')}
    ALLC = C2 + C3
    out = {}
    BT1 = lsbt(F(1, 2), F(1, 100))

    def v_newton(mn, wn, sol, x0, ex):
        return [base('newton', mn, wn, sol, x0, ls=ls, cgit=cg)
                for ls in (lsconst(1), lsconst(F(1, 2)), LSEX, BT1) for cg in (0, 1)]
    out['NewtonCases'] = pick('newton', ALLC, v_newton, None, per=2, quick=QUICK)

    def v_cg(mn, wn, sol, x0, ex):
        n = len(sol)
        return [base('bfgs', mn, wn, sol, x0, ls=LSEX, store=m, N=n + 1) for m in (-1, 1, 2)] + \
               [base('ncg', mn, wn, sol, x0, ls=LSEX, beta=b, N=n + 1) for b in ('FR', 'PR', 'HS', 'DY')]
    out['CGCases'] = pick('cg', ALLC, v_cg, lambda I: len(I['x0']), per=2, quick=QUICK, cond=lambda rs: all(turns(r) for _, r in rs))

    def v_bfgsh(mn, wn, sol, x0, ex):
        n = len(sol)
        return [base('bfgs', mn, wn, sol, x0, ls=LSEX, h0=H0('D', n), N=n + 1)]
    out['BFGSHCases'] = pick('bfgsh', ALLC, v_bfgsh, lambda I: len(I['x0']), per=2, quick=QUICK, cond=lambda rs: all(turns(r) for _, r in rs))

    def v_sdx(mn, wn, sol, x0, ex):
        return [base('sd', mn, wn, sol, x0, ls=LSEX), base('bfgs', mn, wn, sol, x0, ls=LSEX, store=0)]
    out['SDXCases'] = pick('sdx', ALLC, v_sdx, 3, per=2, quick=QUICK, cond=lambda rs: all(turns(r) for _, r in rs))

    def v_bfgsc(mn, wn, sol, x0, ex):
        n = len(sol)
        return [base('bfgs', mn, wn, sol, x0, ls=lsconst(ex[0]), store=m, h0=H0(h, n))
                for (m, h) in ((-1, 'I'), (1, 'I'), (-1, 'S'))]
    def c_bfgsc(rs):
        # the memory size and the initial estimate must matter: every variant ends somewhere else
        ends = [tuple(frac(v) for v in r['x']) for _, r in rs]
        return all(turns(r) for _, r in rs) and len(set(ends)) == len(ends)
    out['BFGSCCases'] = pick('bfgsc', ALLC, v_bfgsc, 3, per=2, quick=QUICK, cond=c_bfgsc, anyof=[F(1), F(1, 2), F(1, 4), F(1, 8)], ntry=1500)

    def v_bfgsb(mn, wn, sol, x0, ex):
        return [base('bfgs', mn, wn, sol, x0, ls=BT1, store=m) for m in (-1, 1)]
    out['BFGSBCases'] = pick('bfgsb', ALLC, v_bfgsb, 3, per=2, quick=QUICK, cond=c_bfgsc)

    def v_bfull(mn, wn, sol, x0, ex):
        return [base('broyden', mn, wn, sol, x0, impl=ex, N=2 * len(sol))]
    out['BroydenFullCases'] = pick('bfull', ALLC, v_bfull, lambda I: min(3, len(I['x0']) + 1), per=2,
                                   extra=['first', 'second'], quick=QUICK, ntry=600, cond=lambda rs: all(turns(r) for _, r in rs))

    def v_bstep(mn, wn, sol, x0, ex):
        n = len(sol)
        return [base('broyden', mn, wn, sol, x0, impl=ex, ls=ls, h0=H0(h, n))
                for ls in (lsconst(F(1, 2)), LSEX) for h in ('I', 'S')]
    out['BroydenStepCases'] = pick('bstep', ALLC, v_bstep, 3, per=1, extra=['first', 'second'], quick=QUICK, ntry=600,
                                   cond=lambda rs: all(turns(r) for _, r in rs))

    def v_ncgc(mn, wn, sol, x0, ex):
        return [base('ncg', mn, wn, sol, x0, beta=ex[0], ls=lsconst(ex[1]))]
    out['NCGCCases'] = pick('ncgc', ALLC, v_ncgc, 3, per=1, extra=['FR', 'PR', 'HS', 'DY'], quick=QUICK, ntry=1500,
                            anyof=[F(1, 2), F(1, 4), F(1, 8), F(1, 16)], cond=lambda rs: all(turns(r) for _, r in rs))

    def v_sdc(mn, wn, sol, x0, ex):
        return [base('sd', mn, wn, sol, x0, ls=ls, box=bx, N=4)
                for ls in (lsconst(F(1, 8)), lsiter([F(1, 4), F(1, 8), F(1, 16), F(1, 8)])) for bx in (None, [0, 2])]
    out['SDCCases'] = pick('sdc', ALLC, v_sdc, None, per=2, quick=QUICK)

    def v_sdb(mn, wn, sol, x0, ex):
        return [base('sd', mn, wn, sol, x0, ls=ls) for ls in (BT1, lsbt(F(1, 4), F(1, 4), 2, True))]
    out['SDBCases'] = pick('sdb', ALLC, v_sdb, 3, per=2, quick=QUICK, cond=lambda rs: all(turns(r) for _, r in rs))

    def v_adam(mn, wn, sol, x0, ex):
        return [base('adam', mn, wn, sol, x0, lr=F(1, 4), b1=b1) for b1 in (0, F(1, 2), F(9, 10))]
    out['AdamCases'] = pick('adam', ALLC, v_adam, 3, per=2, quick=QUICK)

    # ---- problems on which the step-length objects are called: every history of 3 calls x every rule must fit
    def ls_rules():
        rules = [lsbt(tau, disc, a0, est, mx) for tau in (F(1, 2), F(1, 4)) for disc in (F(1, 100), F(1, 2))
                 for a0 in (1, 2, F(1, 2)) for est in (False, True) for mx in (0, 1, 2, 3, 30)]
        return rules + [lsconst(F(3, 4)), lsiter([1, F(1, 2), F(1, 3)])]

    def ls_feasible(Pd, x0):
        P = Prob(Pd, Q32)
        try:
            x = [Q32(v) for v in x0]
            g = P.grad(x)
            qs = [(x, vneg(g)), (x, scal(-4, g)), (x, g),
                  (axpy(Q32(F(-1, 2)), g, x), [Q32(1 if i == 0 else 0) for i in range(P.n)])]
            dds = [P.inner(P.grad(xx), d) for xx, d in qs]
            nok = 0
            for ls in ls_rules():
                for hist in itertools.product(range(4), repeat=3):
                    rule = MirrorRule(ls, Q32)
                    for qi in hist:
                        xx, d = qs[qi]
                        if ls['k'] == 'bt':
                            st, a, j, tie = rule.bt(P, xx, d, dds[qi])
                            if tie:
                                break
                            if st in ('ok', 'edge'):
                                rule.alpha = abs(a)
                                rule.total += j
                                nok += 1
                            rule.calls += 1
                        else:
                            rule(P, xx, d, dds[qi])
        except (OverflowError, ZeroDivisionError):
            return None
        return nok

    rnd = random.Random(4711)
    lsres = []
    for ci, (mn, wn) in enumerate([('S2a', '1'), ('S2b', 'a12'), ('S3', 'ch'), ('S2c', 'c2'), ('D3', 'a21'), ('S2d', '1')]):
        n = len(MATS[mn])
        for sol, x0 in cand_pairs(n, rnd, 200):
            if ls_feasible(quadP(MATS[mn], WT(wn, n), sol), x0):
                lsres.append((mn, wn, sol, x0, 0 if ci < 3 else 1, None))
                break
    for ci, wn in enumerate(['1', 'a12', 'c2']):
        n = 2 if ci < 2 else 3
        for t, x0 in cand_pairs(n, rnd, 200):
            if all(a != b for a, b in zip(t, x0)) and ls_feasible(otherP('quart', WT(wn, n), t), x0):
                lsres.append(('quart', wn, t, x0, 0 if ci < 1 else 1, None))
                break
    out['LSCases'] = lsres
    return out


CAT_HEADER = '''---------------------------- MODULE MC_SmoothCat ----------------------------
(***************************************************************************)
(* Base problems of the SmoothMachine catalogue (generated by              *)
(*   python -m harness.extras.smooth gencat  and then frozen): tuples      *)
(*   <<matrix, weights, minimiser, 2 * start, tier (, options)>>           *)
(* picked by a seeded search so that the exact rational run of every       *)
(* variant of the family (all option combinations of MC_Smooth, every      *)
(* Return ; call-again boundary, the quantities of the invariants) needs   *)
(* its full number of iterations, is free of exact ties and stays inside   *)
(* TLC's 32-bit integers.  The search only SELECTS; every expected value   *)
(* is computed by TLC from SmoothSem.                                      *)
(***************************************************************************)
EXTENDS Integers

'''
CAT_FIXED = '''\\* separable quartics  <<"quart", weights, t, 2 * start, tier>>  and linear functionals  <<"lin", weights, c, 2 * start, tier>>
QuartCases ==
  { <<"quart", "1", <<1, -1>>, <<8, 4>>, 0>>, <<"quart", "a12", <<0, 2>>, <<6, -2>>, 0>>,
    <<"quart", "c2", <<1, 0, -1>>, <<-4, 6, 4>>, 0>>, <<"quart", "ch", <<2, 1>>, <<-2, 8>>, 1>>,
    <<"quart", "a21", <<0, 1, 2>>, <<6, -4, 10>>, 1>> }
LinCases ==
  { <<"lin", "1", <<3, -4>>, <<2, 4>>, 0>>, <<"lin", "c2", <<2, -6, 4>>, <<0, 2, -2>>, 0>>,
    <<"lin", "a12", <<-1, 4>>, <<4, 4>>, 0>>, <<"lin", "ch", <<1, 1, -3>>, <<2, 0, 4>>, 1>>,
    <<"lin", "a21", <<4, -3, 8>>, <<-2, 2, 0>>, 1>> }
'''


def gencat(path=None):
    def tla_tuple(c):
        mn, wn, sol, x0, tier, ex = c
        s = '<<"%s", "%s", <<%s>>, <<%s>>, %d' % (mn, wn, ', '.join(map(str, sol)),
                                                  ', '.join(str(int(2 * Fraction(v))) for v in x0), tier)
        for item in (() if ex is None else ex if isinstance(ex, tuple) else (ex,)):
            s += ', <<%d, %d>>' % (item.numerator, item.denominator) if isinstance(item, Fraction) else ', "%s"' % item
        return s + '>>'
    res = _gen_catalogue()
    body = ''
    for k, v in res.items():
        if k == 'LSCases':
            body += CAT_FIXED + '\\* problems on which the step-length objects are called\n'
        body += '%s ==\n  { ' % k + ',\n    '.join(tla_tuple(c) for c in v) + ' }\n\n'
    path = path or os.path.join(VERIF, 'spec', 'cfg', 'MC_SmoothCat.tla')
    with open(path, 'w') as f:
        f.write(CAT_HEADER + body + '=' * 77 + '\n')
    return {k: len(v) for k, v in res.items()}


# =====================================================================================================================
# Real ODL objects
# =====================================================================================================================
import odl                                                              # noqa: E402
from odl.operator import Operator                                       # noqa: E402
from odl.solvers.functional.functional import Functional               # noqa: E402
from odl.solvers.util.steplen import LineSearch                         # noqa: E402

SOL = odl.solvers
REALNAME = {'newton': 'newtons_method', 'bfgs': 'bfgs_method', 'broyden': 'broydens_method',
            'ncg': 'conjugate_gradient_nonlinear', 'sd': 'steepest_descent', 'adam': 'adam'}


def fr(q):
    """[n, d] / int / Fraction -> Fraction"""
    if isinstance(q, (list, tuple)):
        return Fraction(q[0], q[1])
    return Fraction(q)


def frv(v):
    return [fr(q) for q in v]


def inst_from_json(J):
    """exported TLA+ record -> instance with Fractions (same shape as base_inst)"""
    P = J['P']
    Pd = dict(kind=P['kind'], tag=P.get('tag', ''), w=frv(P['w']), M=[frv(r) for r in P['M']], c=frv(P['c']),
              t=frv(P['t']), sol=frv(P['sol']))
    if 'dg' in P:
        Pd.update(dg=frv(P['dg']), tr=frv(P['tr']))
    ls = J['ls']
    lsd = dict(k=ls['k'], a=fr(ls['a']), seq=frv(ls['seq']), tau=fr(ls['tau']), disc=fr(ls['disc']),
               alpha0=fr(ls['alpha0']), est=bool(ls['est']), maxit=int(ls['maxit']))
    return dict(solver=J['solver'], fam=J.get('fam', ''), P=Pd, x0=frv(J['x0']), N=int(J['N']), ls=lsd,
                store=int(J['store']), h0=frv(J['h0']) or None, impl=J['impl'], beta=J['beta'], cgit=int(J['cgit']),
                box=frv(J['box']) or None, lr=fr(J['lr']), b1=fr(J['b1']), b2=fr(J['b2']),
                queries=[dict(x=frv(qq['x']), d=frv(qq['d'])) for qq in J.get('queries', [])])


def inst_to_json(I):
    """instance -> JSON in the shape of the TLA+ record (for events)"""
    qv = lambda v: [exact.to_q(Fraction(x)) for x in v]
    P, ls = I['P'], I['ls']
    Pj = dict(kind=P['kind'], tag=P.get('tag', ''), w=qv(P['w']), M=[qv(r) for r in (P.get('M') or [])],
              c=qv(P.get('c') or []), t=qv(P.get('t') or []), sol=qv(P.get('sol') or []))
    if 'dg' in P:                               # (diagonal problem that is also built from ODL's own classes)
        Pj.update(dg=qv(P['dg']), tr=qv(P['tr']))
    return dict(solver=I['solver'], fam=I.get('fam', ''), P=Pj,
                x0=qv(I['x0']), N=I['N'],
                ls=dict(k=ls['k'], a=exact.to_q(Fraction(ls['a'])), seq=qv(ls['seq']), tau=exact.to_q(Fraction(ls['tau'])),
                        disc=exact.to_q(Fraction(ls['disc'])), alpha0=exact.to_q(Fraction(ls['alpha0'])),
                        est=bool(ls['est']), maxit=int(ls['maxit'])),
                store=I['store'], h0=qv(I['h0'] or []), impl=I['impl'], beta=I['beta'], cgit=I['cgit'],
                box=qv(I['box'] or []), lr=exact.to_q(Fraction(I['lr'])), b1=exact.to_q(Fraction(I['b1'])),
                b2=exact.to_q(Fraction(I['b2'])),
                queries=[dict(x=qv(qq['x']), d=qv(qq['d'])) for qq in I.get('queries', [])])


# ---------------------------------------------------------------- spaces
def weight_class(w):
    if all(v == 1 for v in w):
        return 'one'
    if all(v == w[0] for v in w):
        return 'const'
    return 'array'


CONCS = {'one': ['rn', 'pspace', 'power', 'rn-2d'],
         'const': ['rn-wconst', 'discr', 'pspace', 'power', 'discr-2d'],
         'array': ['rn-warray', 'pspace', 'power']}


def build_space(w, conc, dtype='float64'):
    n = len(w)
    wf = [float(v) for v in w]
    cls = weight_class(w)
    if conc == 'rn':
        return odl.rn(n, dtype=dtype)
    if conc == 'rn-2d':                       # a tensor space with two axes
        return odl.rn((1, n), dtype=dtype)
    if conc == 'rn-wconst':
        return odl.rn(n, weighting=wf[0], dtype=dtype)
    if conc == 'rn-warray':
        return odl.rn(n, weighting=np.array(wf, dtype=dtype), dtype=dtype)
    if conc == 'discr':                       # cell volume wf[0]
        return odl.uniform_discr(0, wf[0] * n, n, dtype=dtype)
    if conc == 'discr-2d':                    # n = 2 m cells in a 2 x m grid (odd n: 1 x n), cell volume wf[0]
        if n % 2 or n < 2:
            return odl.uniform_discr([0, 0], [wf[0], n], (1, n), dtype=dtype)
        return odl.uniform_discr([0, 0], [2 * wf[0], n // 2], (2, n // 2), dtype=dtype)
    if conc == 'pspace':                      # first coordinate | the rest
        if n == 1:
            return odl.ProductSpace(odl.rn(1, dtype=dtype), 1, weighting=wf[0])
        if cls == 'one':
            return odl.ProductSpace(odl.rn(1, dtype=dtype), odl.rn(n - 1, dtype=dtype))
        if cls == 'const':
            return odl.ProductSpace(odl.rn(1, dtype=dtype), odl.rn(n - 1, dtype=dtype), weighting=wf[0])
        return odl.ProductSpace(odl.rn(1, weighting=wf[0], dtype=dtype),
                                odl.rn(n - 1, weighting=np.array(wf[1:], dtype=dtype), dtype=dtype))
    if conc == 'power':                       # n copies of R with one weight each
        return odl.ProductSpace(odl.rn(1, dtype=dtype), n, weighting=wf)
    raise ValueError(conc)


def flat(el):
    """flat float64 copy of a tensor / product-space element"""
    if isinstance(el.space, odl.ProductSpace):
        return np.concatenate([flat(p) for p in el]) if len(el) else np.zeros(0)
    return np.array(el.asarray(), dtype=float).ravel().copy()


def unflat(space, v):
    v = np.asarray(v, dtype=float)
    if isinstance(space, odl.ProductSpace):
        out, i = [], 0
        for sp in space:
            out.append(unflat(sp, v[i:i + sp.size]))
            i += sp.size
        return space.element(out)
    return space.element(v.reshape(space.shape))


def assign_flat(el, v):
    """in-place assignment of flat values"""
    el.assign(unflat(el.space, v))


def total_size(space):
    if isinstance(space, odl.ProductSpace):
        return sum(total_size(sp) for sp in space)
    return int(space.size)


def weights_of(space):
    """weights of the inner product, observed on the real object: w_i = <e_i, e_i> (and <e_i, e_j> = 0)"""
    n = total_size(space)
    es = [unflat(space, np.eye(n)[i]) for i in range(n)]
    w = [float(space.inner(e, e)) for e in es]
    for i in range(n):
        for j in range(i):
            if float(space.inner(es[i], es[j])) != 0.0:
                raise MachineryError('inner product of %r is not diagonal' % space)
    return np.array(w)


# ---------------------------------------------------------------- functionals
class _Hess(Operator):
    """linear operator v -> A v with A self-adjoint in the inner product of the space"""

    def __init__(self, space, A, with_inverse):
        super(_Hess, self).__init__(space, space, linear=True)
        self.A = A
        self.with_inverse = with_inverse

    def _call(self, x):
        return unflat(self.domain, self.A.dot(flat(x)))

    @property
    def adjoint(self):
        return self

    @property
    def inverse(self):
        if not self.with_inverse:
            raise NotImplementedError('no inverse (the caller has to solve the system iteratively)')
        return _Hess(self.domain, np.linalg.inv(self.A), True)


class _Grad(Operator):
    def __init__(self, f):
        super(_Grad, self).__init__(f.domain, f.domain, linear=False)
        self.f = f

    def _call(self, x):
        f = self.f
        f.ngrad += 1
        return unflat(self.domain, f.egrad(flat(x)) / f.w)

    def derivative(self, point):
        f = self.f
        p = flat(point)
        if f.kind == 'quad':
            A = f.M / f.w[:, None]
        elif f.kind == 'quart':
            A = np.diag(3.0 * (p - f.t) ** 2)
        else:
            A = np.zeros((p.size, p.size))
        return _Hess(self.domain, A, f.with_inverse)


class UserFunctional(Functional):
    """A user-defined functional, as the solvers' docstrings ask for: `f.gradient` is the gradient in the inner product
    of `space` (Riesz representative of the derivative), `f.gradient.derivative(x)` the Hessian operator."""

    def __init__(self, space, P, with_inverse=False):
        super(UserFunctional, self).__init__(space=space, linear=False)
        self.kind = P['kind']
        fl = lambda v: np.array([float(x) for x in v], dtype=float)
        self.M = np.array([[float(x) for x in r] for r in P['M']], dtype=float) if P.get('M') else None
        self.c = fl(P['c']) if P.get('c') else None
        self.t = fl(P['t']) if P.get('t') else None
        self.w = weights_of(space)
        self.wp = fl(P['w'])
        if not np.array_equal(self.w, self.wp):
            raise MachineryError('space %r does not realise the weights %s (has %s)' % (space, self.wp, self.w))
        self.with_inverse = with_inverse
        self.ngrad = 0

    def egrad(self, v):
        if self.kind == 'quad':
            return self.M.dot(v) - self.c
        if self.kind == 'lin':
            return self.c.copy()
        return self.wp * (v - self.t) ** 3

    def _call(self, x):
        v = flat(x)
        if self.kind == 'quad':
            return 0.5 * v.dot(self.M.dot(v)) - self.c.dot(v)
        if self.kind == 'lin':
            return self.c.dot(v)
        return 0.25 * float(np.sum(self.wp * (v - self.t) ** 4))

    @property
    def gradient(self):
        return _Grad(self)


def build_functional(space, P, form, with_inverse=False):
    """form 'user': UserFunctional ; 'odl': a functional assembled from ODL's own classes (where one exists)"""
    if form == 'user':
        return UserFunctional(space, P, with_inverse)
    if form == 'odl':
        # 1/2 x^T M x - c^T x = <x, (M/2) x> + <x, -c>  on an unweighted rn
        M = np.array([[float(x) for x in r] for r in P['M']], dtype=float)
        c = np.array([float(x) for x in P['c']], dtype=float)
        return SOL.QuadraticForm(operator=odl.MatrixOperator(M / 2.0, domain=space, range=space),
                                 vector=space.element(-c))
    if form == 'odl-l2diag':
        # 1/2 || d . x - t ||^2 in the space's norm:  M = diag(w d^2), c = w d t   (P carries d and t in 'dg', 'tr')
        d = np.array([float(x) for x in P['dg']], dtype=float)
        t = np.array([float(x) for x in P['tr']], dtype=float)
        return 0.5 * SOL.L2NormSquared(space).translated(unflat(space, t)) * odl.MultiplyOperator(unflat(space, d), domain=space)
    raise ValueError(form)


def odl_form_ok(I, conc):
    P = I['P']
    return P['kind'] == 'quad' and conc == 'rn' and weight_class(P['w']) == 'one'


# ---------------------------------------------------------------- step-length rules and recorders
class ExactRule(LineSearch):
    """User-defined line search (the interface LineSearch documents): exact minimiser of a quadratic along `direction`,
    computed from the directional derivative the solver hands over:  a = -dir_derivative / d^T M d."""

    def __init__(self, M):
        self.M = np.array(M, dtype=float)

    def __call__(self, x, direction, dir_derivative):
        d = flat(direction)
        return -float(dir_derivative) / float(d.dot(self.M.dot(d)))


class UserConstRule(LineSearch):
    def __init__(self, a):
        self.a = a

    def __call__(self, x, direction, dir_derivative):
        return self.a


class Tape(object):
    """time-ordered record of what a solver does with the caller's objects"""

    def __init__(self):
        self.ev = []

    def callback(self, x):
        self.ev.append(('cb', flat(x)))


class RecRule(LineSearch):
    """wraps a rule: records (x, direction, dir_derivative, returned step) of every call on the tape"""

    def __init__(self, inner, tape):
        self.inner = inner
        self.tape = tape

    def __call__(self, x, direction, dir_derivative):
        xa, da = flat(x), flat(direction)
        try:
            ddf = float(dir_derivative)
        except Exception:
            ddf = float('nan')
        try:
            a = self.inner(x, direction, dir_derivative)
        except Exception as ex:
            self.tape.ev.append(('ls-raise', xa, da, ddf, type(ex).__name__))
            raise
        self.tape.ev.append(('ls', xa, da, ddf, float(a)))
        return a


def build_rule(I, f, spelling, rnd):
    """-> (object handed to the solver, the underlying ODL rule object or None).
    spelling: 'float' 'npfloat' 'int' 'default' (constant steps only) | 'object' (ODL's class) | 'user'"""
    ls = I['ls']
    k = ls['k']
    if k == 'const':
        a = float(ls['a'])
        if spelling == 'default':
            assert a == 1.0
            return None, None
        if spelling == 'float':
            return a, None
        if spelling == 'int':
            assert a == int(a)
            return int(a), None
        if spelling == 'npfloat':
            return np.float64(a), None
        if spelling == 'object':
            o = SOL.ConstantLineSearch(a if rnd.random() < 0.5 else np.float32(a))
            return o, o
        return UserConstRule(a), None
    if k == 'iternum':
        seq = [float(v) for v in ls['seq']]
        o = SOL.LineSearchFromIterNum(lambda i: seq[i])
        return o, o
    if k == 'exact':
        return ExactRule([[float(x) for x in r] for r in I['P']['M']]), None
    if k == 'bt':
        return build_bt(ls, f, rnd, spelling), None
    raise ValueError(k)


def build_bt(ls, f, rnd, spelling='kw', plain_function=False, default_maxit=False):
    fun = (lambda x: f(x)) if plain_function else f
    tau, disc, a0, est, mx = float(ls['tau']), float(ls['disc']), float(ls['alpha0']), bool(ls['est']), int(ls['maxit'])
    if default_maxit:
        mx = None
    if spelling == 'pos':
        return SOL.BacktrackingLineSearch(fun, tau, disc, a0, mx, est)
    if spelling == 'np':
        return SOL.BacktrackingLineSearch(fun, tau=np.float64(tau), discount=np.float64(disc), alpha=np.float64(a0),
                                          max_num_iter=None if mx is None else np.int64(mx), estimate_step=np.bool_(est))
    kw = {}
    if tau != 0.5 or rnd.random() < 0.5:
        kw['tau'] = tau
    if disc != 0.01 or rnd.random() < 0.5:
        kw['discount'] = disc
    if a0 != 1.0 or rnd.random() < 0.5:
        kw['alpha'] = a0
    if mx is not None:
        kw['max_num_iter'] = mx
    if est or rnd.random() < 0.5:
        kw['estimate_step'] = est
    return SOL.BacktrackingLineSearch(fun, **kw)


def build_h0(I, space, spelling):
    if not I['h0']:
        return None
    h = np.array([float(v) for v in I['h0']])
    if np.all(h == h[0]) and spelling != 'multiply':
        return odl.ScalingOperator(space, float(h[0]))
    if spelling == 'user' or isinstance(space, odl.ProductSpace):
        return _Hess(space, np.diag(h), False)
    return odl.MultiplyOperator(unflat(space, h), domain=space)


def make_projection(box):
    lo, hi = float(box[0]), float(box[1])

    def projection(x):
        assign_flat(x, np.clip(flat(x), lo, hi))
    return projection


# =====================================================================================================================
# Running the real solvers
# =====================================================================================================================
DEFAULT_TOL = {'newton': 1e-16, 'sd': 1e-16, 'ncg': 1e-16, 'adam': 1e-16, 'bfgs': 1e-15, 'broyden': 1e-15}
TOL = 2.0 ** -TOL_BITS


def make_callback(kind, tape):
    if kind == 'none':
        return None
    if kind == 'func':
        return tape.callback
    if kind == 'apply':
        return SOL.CallbackApply(tape.callback)
    if kind == 'and':                          # a derived callback object: store & apply
        return SOL.CallbackStore() & SOL.CallbackApply(tape.callback)
    raise ValueError(kind)


def call_solver(I, f, x, rule, maxiter, cb, cz, space, nreset=0):
    """one call of the real solver under the spellings of concretisation cz; returns the solver's return value"""
    s = I['solver']
    tolk = cz.get('tol', 'explicit')
    tol = {'explicit': TOL, 'np': np.float64(TOL), 'default': DEFAULT_TOL[s]}[tolk]
    mi = np.int64(maxiter) if cz.get('maxiter') == 'np' else int(maxiter)
    pos = cz.get('args') == 'pos'
    if s == 'adam':
        lr, b1, b2 = float(I['lr']), float(I['b1']), float(I['b2'])
        eps = cz.get('eps', 1e-8)
        if pos:
            return SOL.adam(f, x, lr, b1, b2, eps, mi, tol, cb)
        kw = dict(learning_rate=lr, beta1=b1, beta2=b2, maxiter=mi)
        if cz.get('npopts'):
            kw.update(learning_rate=np.float64(lr), beta1=np.float64(b1), beta2=np.float64(b2))
        if eps != 1e-8:
            kw['eps'] = eps
        if tolk != 'default':
            kw['tol'] = tol
        if cb is not None:
            kw['callback'] = cb
        return SOL.adam(f, x, **kw)
    ls = 1.0 if rule is None else rule
    if s == 'newton':
        cg = I['cgit'] if I['cgit'] > 0 else (total_size(space) if cz.get('cg') == 'n' else None)
        if pos:
            return SOL.newtons_method(f, x, ls, mi, tol, cg, cb)
        kw = dict(maxiter=mi)
        if cg is not None:
            kw['cg_iter'] = cg
        fn = SOL.newtons_method
    elif s == 'bfgs':
        ns = None if I['store'] < 0 else (np.int64(I['store']) if cz.get('npopts') else I['store'])
        h0 = build_h0(I, space, cz.get('h0', 'scaling'))
        if pos:
            return SOL.bfgs_method(f, x, ls, mi, tol, ns, h0, cb)
        kw = dict(maxiter=mi)
        if ns is not None:
            kw['num_store'] = ns
        if h0 is not None:
            kw['hessinv_estimate'] = h0
        fn = SOL.bfgs_method
    elif s == 'broyden':
        impl = {'lower': I['impl'], 'upper': I['impl'].upper(), 'title': I['impl'].title()}[cz.get('impl', 'lower')]
        h0 = build_h0(I, space, cz.get('h0', 'scaling'))
        if pos:
            return SOL.broydens_method(f, x, ls, impl, mi, tol, h0, cb)
        kw = dict(maxiter=mi)
        if impl != 'first' or cz.get('npopts'):
            kw['impl'] = impl
        if h0 is not None:
            kw['hessinv_estimate'] = h0
        fn = SOL.broydens_method
    elif s == 'ncg':
        if pos:
            return SOL.conjugate_gradient_nonlinear(f, x, ls, mi, nreset, tol, I['beta'], cb)
        kw = dict(maxiter=mi)
        if I['beta'] != 'FR' or cz.get('npopts'):
            kw['beta_method'] = I['beta']
        if nreset:
            kw['nreset'] = nreset
        fn = SOL.conjugate_gradient_nonlinear
    elif s == 'sd':
        proj = make_projection(I['box']) if I['box'] else None
        if pos:
            return SOL.steepest_descent(f, x, ls, mi, tol, proj, cb)
        kw = dict(maxiter=mi)
        if proj is not None:
            kw['projection'] = proj
        fn = SOL.steepest_descent
    else:
        raise ValueError(s)
    if rule is not None:
        kw['line_search'] = rule
    if tolk != 'default':
        kw['tol'] = tol
    if cb is not None:
        kw['callback'] = cb
    return fn(f, x, **kw)


def run_real(I, cz, segs, nreset=0, restart_x=None):
    """Real run of instance I under concretisation cz; segs = maxiter of each consecutive call on ONE x, ONE
    functional and ONE rule object.  restart_x: flat start values of the later calls (None: continue from x).
    Returns dict(segs=[dict(maxiter, ops, x, raised, ret)], recorded, attrs)."""
    rnd = random.Random(cz.get('seed', 0))
    space = build_space(I['P']['w'], cz['conc'], cz.get('dtype', 'float64'))
    f = build_functional(space, I['P'], cz.get('form', 'user'), cz.get('hinv', False))
    x = unflat(space, [float(v) for v in I['x0']])
    tape = Tape()
    recorded = False
    rule = odlrule = None
    if I['solver'] != 'adam':
        rule, odlrule = build_rule(I, f, cz.get('rule', 'user'), rnd)
        if rule is not None and cz.get('rec', True) and not isinstance(rule, (float, int, np.floating)):
            rule = RecRule(rule, tape)
            recorded = True
    out = []
    for si, m in enumerate(segs):
        if si > 0 and restart_x is not None and restart_x[si] is not None:
            assign_flat(x, restart_x[si])
        tape.ev = []
        cb = make_callback(cz.get('cb', 'func'), tape)
        raised = ret = None
        x_id = id(x)
        try:
            r = call_solver(I, f, x, rule, m, cb, cz, space, nreset)
            if r is not None:
                ret = type(r).__name__
        except Exception as ex:                      # an exception is an observation
            raised = type(ex).__name__ + ': ' + str(ex)[:120]
        out.append(dict(maxiter=m, ops=ops_of(tape.ev, recorded), x=flat(x), raised=raised, ret=ret, same=id(x) == x_id))
    attrs = {}
    inner = rule.inner if isinstance(rule, RecRule) else rule
    if isinstance(inner, SOL.BacktrackingLineSearch):
        attrs = dict(total=int(inner.total_num_iter), alpha=float(inner.alpha))
    elif isinstance(inner, SOL.LineSearchFromIterNum):
        attrs = dict(calls=int(inner.iter_count))
    return dict(segs=out, recorded=recorded, attrs=attrs, has_cb=cz.get('cb', 'func') != 'none')


def ops_of(ev, recorded):
    """group the tape into iterations: a rule call opens one, the callbacks that follow belong to it"""
    ops = []
    for e in ev:
        if e[0] in ('ls', 'ls-raise'):
            ops.append(dict(call=e, cbs=[]))
        elif recorded and ops:
            ops[-1]['cbs'].append(e[1])
        else:
            ops.append(dict(call=None, cbs=[e[1]], orphan=recorded))
    return ops


# ---------------------------------------------------------------- comparison with exported expectations
def match_q(v, q):
    """observed float v against the exact rational q"""
    q = Fraction(q)
    if not math.isfinite(v):
        return False
    if q.denominator <= MAXDEN:
        return exact.snap(v, q.denominator) == q
    return abs(v - float(q)) <= COARSE * max(1.0, abs(float(q)))


def match_vec(arr, qs):
    arr = np.asarray(arr, dtype=float).ravel()
    return arr.size == len(qs) and all(match_q(float(v), q) for v, q in zip(arr, qs))


def opt_class(I):
    """family-level name of the option cell of an instance"""
    s = I['solver']
    if s == 'newton':
        return ('cg-truncated' if I['cgit'] else 'exact-solve') + ('/' + I['P']['kind'] if I['P']['kind'] != 'quad' else '')
    if s == 'bfgs':
        st = 'full' if I['store'] < 0 else 'store=0' if I['store'] == 0 else 'store>0'
        return st + ('/h0' if I['h0'] else '')
    if s == 'broyden':
        return I['impl'] + ('/h0' if I['h0'] else '')
    if s == 'ncg':
        return I['beta']
    if s == 'sd':
        return 'projected' if I['box'] else 'plain'
    if s == 'adam':
        return 'b1%s0,b2%s0' % ('>' if I['b1'] > 0 else '=', '>' if I['b2'] > 0 else '=')
    return ''


def rule_class(I, recorded=True):
    ls = I['ls']
    if I['solver'] == 'adam':
        return 'none'
    k = ls['k']
    if k == 'bt':
        k = 'bt' + ('/estimate' if ls['est'] else '') + ('/alpha!=1' if ls['alpha0'] != 1 else '')
    return k + ('' if recorded else '/unrecorded')


def compare_run(I, obs, exp_segs, conv, x0):
    """exp_segs: per call the expected log entries (dicts with Fractions x, d, dd, a, xn); conv: the reference has
    converged after the last entry.  Returns [(clause, pos, info)] - observations that contradict layer A."""
    bad = []
    rec = obs['recorded']
    x_cur = list(x0)
    nseg = len(exp_segs)
    for si, (so, E) in enumerate(zip(obs['segs'], exp_segs)):
        pre = 'call%d:' % (si + 1) if nseg > 1 else ''
        if so['raised']:
            bad.append(('raised', 'first' if not so['ops'] else 'later', pre + so['raised']))
            return bad
        if so['ret'] is not None:
            bad.append(('return-value', '', pre + so['ret']))
        if not so['same']:
            bad.append(('x-object', '', pre))
        ops = so['ops']
        last_seg = si == nseg - 1
        stop_cmp = False
        for j, op in enumerate(ops):
            pos = 'first' if j == 0 else 'later'
            if j >= len(E):
                # the reference performed len(E) iterations in this call
                if len(E) >= so['maxiter']:
                    extra = len(ops) - so['maxiter']
                    bad.append(('maxiter-plus-one' if extra == 1 else 'maxiter-exceeded', '',
                                pre + '%d iterations with maxiter=%d' % (len(ops), so['maxiter'])))
                    stop_cmp = True
                    break
                if not (last_seg and conv):
                    bad.append(('iterations-after-stop', pos, pre + 'iteration %d' % (j + 1)))
                    stop_cmp = True
                    break
                # junk iterations at the converged point are fine as long as nothing moves
                if (op['call'] is not None and not match_vec(op['call'][1], x_cur)) or \
                        any(not match_vec(c, x_cur) for c in op['cbs']):
                    bad.append(('moved-after-convergence', pos, pre + 'iteration %d' % (j + 1)))
                continue
            e = E[j]
            c = op['call']
            if c is not None:
                if c[0] == 'ls-raise':
                    bad.append(('rule-raised', pos, pre + c[4]))
                    return bad
                if not match_vec(c[1], e['x']):
                    bad.append(('rule-point', pos, pre + 'iteration %d: rule called at %s, iterate is %s' % (j + 1, c[1], e['x'])))
                if I['solver'] != 'adam':
                    if not match_vec(c[2], e['d']):
                        bad.append(('direction', pos, pre + 'iteration %d: %s, expected %s' % (j + 1, c[2], e['d'])))
                    if not match_q(c[3], e['dd']):
                        bad.append(('dir-derivative', pos, pre + 'iteration %d: %r, expected %s' % (j + 1, c[3], e['dd'])))
                    if not match_q(c[4], e['a']):
                        bad.append(('step-length', pos, pre + 'iteration %d: %r, expected %s' % (j + 1, c[4], e['a'])))
            if obs['has_cb']:
                if rec and op.get('orphan'):
                    bad.append(('callback-without-iteration', pos, pre))
                elif len(op['cbs']) == 0:
                    bad.append(('callback-missing', pos, pre + 'iteration %d' % (j + 1)))
                elif len(op['cbs']) > 1:
                    bad.append(('callback-extra', pos, pre + 'iteration %d' % (j + 1)))
                if op['cbs'] and not match_vec(op['cbs'][0], e['xn']):
                    bad.append(('iterate', pos, pre + 'iteration %d: callback saw %s, expected %s' % (j + 1, op['cbs'][0], e['xn'])))
            x_cur = list(e['xn'])
        if stop_cmp:
            return bad
        if len(ops) < len(E) and (rec or obs['has_cb']):
            bad.append(('early-stop', 'first' if not ops else 'later',
                        pre + '%d iterations, reference performs %d' % (len(ops), len(E))))
            return bad
        if len(ops) < len(E):
            x_cur = list(E[-1]['xn'])
        if not match_vec(so['x'], x_cur):
            quiet = not rec and not obs['has_cb']
            bad.append(('final', 'first' if len(E) <= 1 and not quiet else 'later',
                        pre + 'x = %s, expected %s' % (so['x'], x_cur)))
            return bad
    return bad


POSITIONAL = ('iterate', 'final', 'callback-missing', 'early-stop')


def clause_name(clause, pos):
    """the clause names of Trace_Smooth: the first iteration of a call is told apart where a finding depends on it"""
    return clause + '-first' if (pos == 'first' and clause in POSITIONAL) else clause


# =====================================================================================================================
# spec -> code: replay of the exported behaviours
# =====================================================================================================================
def load_export(path):
    out, seen = [], set()
    with open(path) as f:
        for line in f:
            if line.strip() and line not in seen:
                seen.add(line)
                out.append(json.loads(line))
    return out


def expected_segments(case):
    """the exported log split at the Return ; call-again boundary -> (segs maxiter, per call entries)"""
    I = case['I']
    log = [dict(x=frv(e['x']), d=frv(e['d']), dd=fr(e['dd']), a=fr(e['a']), xn=frv(e['xn']), seg=e['seg'])
           for e in case['log']]
    if case['split'] > 0:
        segs = [case['split'], I['N'] - case['split']]
        return segs, [[e for e in log if e['seg'] == 0], [e for e in log if e['seg'] == 1]]
    return [I['N']], [log]


def concretisations(I, key, quick, seed):
    """deterministic rotation through the concretisation axes, so that every value of every axis meets every family"""
    h = zlib.crc32(key.encode()) + 7919 * seed
    rnd = random.Random(h)
    s = I['solver']
    cls = weight_class(I['P']['w'])
    concs = list(CONCS[cls])
    if len(I['x0']) % 2 and 'discr-2d' in concs and rnd.random() < 0.7:
        concs.remove('discr-2d')
    if s == 'adam' and 'pspace' in concs:
        concs.remove('pspace')       # adam needs element-wise powers / roots, which a heterogeneous product space lacks
    k = I['ls']['k']
    rules = {'const': ['user', 'float', 'npfloat', 'object'] + (['default', 'int'] if I['ls']['a'] == 1 else []),
             'iternum': ['object'], 'exact': ['user'], 'bt': ['kw', 'pos', 'np']}[k]
    out = []
    n = 2 if quick else 4
    for i in range(n):
        cz = dict(conc=concs[(h + i) % len(concs)], rule=rules[(h // 7 + i) % len(rules)], seed=h + i,
                  cb=['func', 'apply', 'and', 'func', 'none'][(h // 11 + i) % 5],
                  tol=['explicit', 'default', 'np'][(h // 13 + i) % 3], args=['kw', 'kw', 'pos'][(h // 17 + i) % 3],
                  maxiter=['int', 'np'][(h // 19 + i) % 2], h0=['scaling', 'multiply', 'user'][(h // 23 + i) % 3],
                  impl=['lower', 'upper', 'title'][(h // 29 + i) % 3], npopts=bool((h // 31 + i) % 2),
                  hinv=bool((h // 37 + i) % 2), cg=['default', 'n'][(h // 41 + i) % 2], form='user', rec=True)
        if s == 'newton' and I['cgit'] > 0:
            cz['hinv'] = False                                   # a truncated CG solve needs the CG path
        if s == 'newton' and cz['conc'] in ('pspace', 'power'):
            # the undocumented default of cg_iter is domain.size = the NUMBER OF PARTS of a product space, which does
            # not solve the Newton system; the docstring promises nothing about the default, so it is not used there
            cz['cg'] = 'n'
        if k == 'const' and cz['rule'] != 'user':
            cz['rec'] = (h // 43 + i) % 2 == 0                   # ODL's own objects: recorded through a wrapper or bare
        if cz['rule'] in ('float', 'npfloat', 'default', 'int'):
            cz['rec'] = False
        if odl_form_ok(I, cz['conc']) and (h // 47 + i) % 2 == 0:
            cz['form'] = 'odl'
            cz['hinv'] = False
        out.append(cz)
    return out


def adam_eps(I, points, D, want_default):
    """eps of an ADAM run: the documented default 1e-8 where it stays below the comparison tolerance on the lattice
    (1/D) Z (it perturbs a step by about lr eps / |g_i|), else a smaller positive value - layer A takes eps -> 0"""
    if not want_default:
        return 1e-14
    P = Prob(I['P'], Fraction)
    gmin = min([abs(g) for x in points for g in P.grad([Fraction(frac(v)) for v in x])] or [Fraction(1)])
    if gmin == 0:
        return 1e-14
    return 1e-8 if float(I['lr']) * 1e-8 / float(gmin) <= 2.0 ** -24 / D else 1e-14


def sig_of(I, clause, recorded=True):
    return dict(stage=STAGE, solver=I['solver'], clause=clause, opt=opt_class(I), rule=rule_class(I, recorded))


def replay_solver_case(args):
    case, quick, seed = args
    I = inst_from_json(case['inst'])
    case = dict(case, I=I)
    out = dict(viol=[], counts=[], drift=[], sample=None)
    if case['split'] > 0 and case['seg'] == 0:
        return out                                   # the boundary was never reached: same behaviour as the unsplit run
    if not case['ok'] or case['tie']:
        return out                                   # not comparable (rule failed / breakdown / tie): nothing is claimed
    segs, exp = expected_segments(case)
    key = json.dumps([case['inst'], case['split']], sort_keys=True)
    nontrivial = len(case['log']) >= 1
    for ci, cz in enumerate(concretisations(I, key, quick, seed)):
        if I['solver'] == 'adam':
            Dm = max([1] + [v.denominator for e in exp for en in e for v in en['xn']])
            cz['eps'] = adam_eps(I, [en['x'] for e in exp for en in e], min(Dm, MAXDEN), ci % 2 == 0)
        obs = run_real(I, cz, segs)
        bad = compare_run(I, obs, exp, case['conv'], I['x0'])
        out['counts'].append(([I['solver'], I['fam'], opt_class(I), rule_class(I), cz['conc'], key], nontrivial))
        for clause, pos, info in bad:
            clause = clause_name(clause, pos)
            out['viol'].append((sig_of(I, clause, obs['recorded']),
                                dict(stage_module=STAGE, kind='solver', inst=case['inst'], split=case['split'],
                                     cz=cz, segs=segs, clause=clause, info=info,
                                     expected={k: case[k] for k in ('split', 'seg', 'k', 'log', 'x', 'lo', 'ok', 'tie', 'conv')})))
        # layer C observables (drift only): the rule object's counters
        if not bad and obs['attrs'] and 'total' in obs['attrs']:
            lo = case['lo']
            if obs['attrs']['total'] != lo['total'] or not match_q(obs['attrs']['alpha'], fr(lo['alpha'])):
                out['drift'].append('%s + BacktrackingLineSearch(%s): total_num_iter / alpha after the run differ from the '
                                    'number of step reductions / last step of the reference' % (REALNAME[I['solver']], rule_class(I)))
        if out['sample'] is None and not bad and nontrivial:
            out['sample'] = dict(solver=REALNAME[I['solver']], problem=I['P']['tag'], options=opt_class(I),
                                 rule=rule_class(I), space=cz['conc'], calls=segs,
                                 iterates=[[str(v) for v in e['xn']] for e in case['log']])
    return out


# ---------------------------------------------------------------- step-length objects
def ls_option_class(ls):
    if ls['k'] != 'bt':
        return ls['k']
    return 'estimate=%s,alpha%s1,max_num_iter=%s' % (ls['est'], '=' if ls['alpha0'] == 1 else '!=',
                                                      'small' if ls['maxit'] < 10 else 'large')


def run_ls_history(I, qidx, cz):
    """history of calls on ONE real step-length object; returns per call (raised, step) and the final attributes"""
    rnd = random.Random(cz['seed'])
    space = build_space(I['P']['w'], cz['conc'], cz.get('dtype', 'float64'))
    f = build_functional(space, I['P'], 'user')
    ls = I['ls']
    plain = cz.get('plain', False)
    if ls['k'] == 'bt':
        rule = build_bt(ls, f, rnd, cz['rule'], plain_function=plain, default_maxit=cz.get('defmax', False))
    else:
        rule, _ = build_rule(I, f, 'object', rnd)
    res = []
    for ci, qi in enumerate(qidx):
        qq = I['queries'][qi - 1]
        x = unflat(space, [float(v) for v in qq['x']])
        d = unflat(space, [float(v) for v in qq['d']])
        x0c, d0c = flat(x), flat(d)
        dd = float(np.dot(f.egrad(flat(x)), flat(d)))            # <grad f(x), d> in the space = Euclidean pairing
        how = cz['dd'][ci % len(cz['dd'])]
        if plain and how == 'omit':
            how = 'kw'
        try:
            if how == 'pos':
                a = rule(x, d, dd)
            elif how == 'kw':
                a = rule(x, direction=d, dir_derivative=dd)
            elif how == 'np':
                a = rule(x, d, np.float64(dd))
            elif how == 'int' and dd == int(dd):
                a = rule(x, d, int(dd))
            elif how == 'omit' and ls['k'] == 'bt':
                a = rule(x, d)                                   # documented default: function.gradient(x).inner(direction)
            else:
                a = rule(x, d, dd)
            res.append(dict(raised=None, a=float(a), touched=not (np.array_equal(flat(x), x0c) and np.array_equal(flat(d), d0c))))
        except Exception as ex:
            res.append(dict(raised=type(ex).__name__, a=None, touched=False))
    attrs = {}
    if isinstance(rule, SOL.BacktrackingLineSearch):
        attrs = dict(total=int(rule.total_num_iter), alpha=float(rule.alpha))
    elif isinstance(rule, SOL.LineSearchFromIterNum):
        attrs = dict(calls=int(rule.iter_count))
    return res, attrs


def ls_concretisations(I, key, quick, seed):
    h = zlib.crc32(key.encode()) + 104729 * seed
    concs = CONCS[weight_class(I['P']['w'])]
    out = []
    for i in range(1 if quick else 3):
        dds = [['pos', 'kw', 'np'], ['omit', 'pos', 'kw'], ['kw', 'omit', 'int'], ['np', 'pos', 'omit']][(h // 5 + i) % 4]
        out.append(dict(conc=concs[(h + i) % len(concs)], rule=['kw', 'pos', 'np'][(h // 3 + i) % 3], seed=h + i, dd=dds,
                        plain=(h // 7 + i) % 4 == 0, defmax=I['ls']['maxit'] >= 30 and (h // 11 + i) % 2 == 0))
    return out


def replay_ls_case(args):
    case, quick, seed = args
    I = inst_from_json(case['inst'])
    out = dict(viol=[], counts=[], drift=[], sample=None)
    hist = case['hist']
    qidx = [hh['q'] for hh in hist]
    key = json.dumps([case['inst']['P'], case['inst']['ls'], case['inst']['x0'], qidx], sort_keys=True)
    cls = ls_option_class(I['ls'])
    for cz in ls_concretisations(I, key, quick, seed):
        res, attrs = run_ls_history(I, qidx, cz)
        out['counts'].append((['ls', cls, cz['conc'], key], len(hist) >= 2))
        bad = []
        edge = False
        for ci, (r, hh) in enumerate(zip(res, hist)):
            pos = 'first-call' if ci == 0 else 'later-call'
            st = hh['status']
            if st in ('raise', 'nodescent'):
                if r['raised'] is None:
                    bad.append(('no-error', pos, 'call %d returned %r; no candidate within max_num_iter fulfils the '
                                'decrease condition' % (ci + 1, r['a']) if st == 'raise' else
                                'call %d returned %r for a zero directional derivative' % (ci + 1, r['a'])))
                    break
                if I['ls']['est']:
                    break                    # the remembered step after an error is not specified: the history ends
                continue
            if st == 'edge':
                edge = True                                      # both readings of max_num_iter are acceptable
                if r['raised'] is not None:
                    if I['ls']['est']:
                        break                                    # the object state after an error is not specified
                    continue
                if not match_q(r['a'], fr(hh['a'])):
                    bad.append(('step', pos, 'call %d returned %r, expected %s' % (ci + 1, r['a'], fr(hh['a']))))
                    break
                continue
            if r['raised'] is not None:
                bad.append(('raised', pos, 'call %d raised %s, expected the step %s' % (ci + 1, r['raised'], fr(hh['a']))))
                break
            if not match_q(r['a'], fr(hh['a'])):
                bad.append(('step', pos, 'call %d returned %r, expected %s (search starts at %s)'
                            % (ci + 1, r['a'], fr(hh['a']), fr(hh['start']))))
                break
            if r['touched']:
                bad.append(('arguments-modified', pos, 'call %d' % (ci + 1)))
        for clause, pos, info in bad:
            if clause == 'step' and pos == 'first-call':
                clause = 'step-first-call'
            out['viol'].append((dict(stage=STAGE, solver='linesearch', clause=clause, opt=cls, rule=I['ls']['k']),
                                dict(stage_module=STAGE, kind='ls', inst=case['inst'], hist=qidx, cz=cz, clause=clause,
                                     info=info)))
        if not bad and not edge and attrs and all(r['raised'] is None for r in res):
            lo = case['lo']
            if 'total' in attrs and (attrs['total'] != lo['total'] or not match_q(attrs['alpha'], fr(lo['alpha']))):
                out['drift'].append('BacktrackingLineSearch(%s): total_num_iter / alpha after a history differ from the number '
                                    'of step reductions / last step of the reference' % cls)
            if 'calls' in attrs and attrs['calls'] != lo['calls']:
                out['drift'].append('LineSearchFromIterNum.iter_count differs from the number of calls')
        if out['sample'] is None and not bad and len(hist) == 3 and I['ls']['k'] == 'bt':
            out['sample'] = dict(rule='BacktrackingLineSearch', options=cls, problem=I['P']['tag'], queries=qidx,
                                 steps=[str(fr(hh['a'])) if hh['status'] in ('ok', 'edge') else hh['status'] for hh in hist])
    return out


# =====================================================================================================================
# code -> spec: drivers beyond the TLC constants, NDJSON lines for Trace_Smooth
# =====================================================================================================================
MAXLAT = 2 ** 14            # largest common lattice denominator of a driver instance
OFFQ = [0, 0]


def snapq(v, D):
    """observed float -> [n, d] on the lattice (1/D) Z, or the off-lattice token"""
    s = exact.snap(float(v), D) if math.isfinite(float(v)) else exact.OFF
    if s == exact.OFF or isinstance(s, float):
        return OFFQ
    try:
        return exact.to_q(s)
    except OverflowError:
        return OFFQ


def snapv(arr, D):
    return [snapq(v, D) for v in np.asarray(arr, dtype=float).ravel()]


def lattice_of(runs, starts=()):
    """common denominator of everything the mirror runs touch (selection of the snapping lattice)"""
    D = 1
    for x in starts:
        for v in (x or ()):
            D = D * Fraction(v).denominator // gcd(D, Fraction(v).denominator)
    for r in runs:
        for e in r['log']:
            for key in ('x', 'd', 'xn'):
                for v in e[key]:
                    D = D * frac(v).denominator // gcd(D, frac(v).denominator)
            for key in ('dd', 'a'):
                dv = frac(e[key]).denominator
                D = D * dv // gcd(D, dv)
            if D > MAXLAT:
                return None
    return D


def mirror_calls(I, segs, restart_x, schedule=None):
    """mirror of consecutive calls (fresh solver state per call, ONE rule object); schedule: per call the iteration
    numbers at which nonlinear CG restarts.  Returns the list of runs or None if not usable."""
    runs = []
    rule = None
    x = [Fraction(v) for v in I['x0']]
    try:
        for si, m in enumerate(segs):
            if si > 0 and restart_x and restart_x[si] is not None:
                x = [Fraction(v) for v in restart_x[si]]
            r = mirror_run(dict(I, N=m), num=Q32, x_start=x, rule=rule, restarts=(schedule[si] if schedule else ()))
            if not r['ok'] or r['tie']:
                return None
            if I['solver'] == 'adam' and r['conv']:
                return None                                  # ADAM's normalised step is discontinuous at a stationary point
            if r['small'] is not None and r['small'] < 2.0 ** -10:
                return None                                  # a quantity a tolerance test may look at is too small
            if r['rule'].margin is not None and r['rule'].margin < 1e-9:
                return None                                  # a backtracking trial is too close to a tie
            rule = r['rule']
            x = [frac(v) for v in r['x']]
            runs.append(r)
    except (OverflowError, ZeroDivisionError, IndexError):
        return None
    return runs


DRV_MATS = {1: [[[1]], [[2]], [[3]], [[5]]],
            2: [[[3, 1], [1, 2]], [[2, -1], [-1, 2]], [[6, 2], [2, 1]], [[1, 0], [0, 4]], [[9, 0], [0, 1]], [[2, 1], [1, 1]],
                [[4, -2], [-2, 2]]],
            3: [[[3, 1, 0], [1, 2, 0], [0, 0, 1]], [[1, 0, 0], [0, 2, 0], [0, 0, 3]], [[2, 0, 1], [0, 1, 0], [1, 0, 1]],
                [[2, -1, 0], [-1, 2, -1], [0, -1, 2]], [[4, 0, 0], [0, 1, 0], [0, 0, 1]]],
            4: [[[1, 0, 0, 0], [0, 2, 0, 0], [0, 0, 2, 0], [0, 0, 0, 4]], [[2, 1, 0, 0], [1, 2, 0, 0], [0, 0, 2, 1], [0, 0, 1, 2]],
                [[2, 0, 0, 0], [0, 2, 0, 0], [0, 0, 1, 0], [0, 0, 0, 1]], [[2, -1, 0, 0], [-1, 2, -1, 0], [0, -1, 2, -1], [0, 0, -1, 2]]]}
DYAD = [F(1, 4), F(1, 2), F(1), F(2), F(4)]


def drv_problem(rnd, kind='quad', n=None):
    n = n or rnd.choice([1, 2, 2, 3, 3, 4])
    wc = rnd.choice(['one', 'const', 'array'])
    w = [F(1)] * n if wc == 'one' else [rnd.choice([F(1, 2), F(2), F(4), F(1, 4)])] * n if wc == 'const' \
        else [rnd.choice(DYAD) for _ in range(n)]
    if wc == 'array' and len(set(w)) == 1:
        w[0] = w[0] * 2
    sc = rnd.choice([1, 1, 2, F(1, 2)])
    vec = lambda: [sc * rnd.randint(-3, 3) for _ in range(n)]
    if kind == 'quad':
        M = rnd.choice(DRV_MATS[n])
        sol = vec()
        P = quadP(M, w, sol, tag='drv%dx%d/%s' % (n, n, wc))
        if all(M[i][j] == 0 for i in range(n) for j in range(n) if i != j) and rnd.random() < 0.6:
            # diagonal: also expressible with ODL's own classes, 1/2 || d . x - t ||^2 : M = diag(w d^2), c = w d t
            dg = [rnd.choice([1, 2, 3]) for _ in range(n)]
            tr = [rnd.randint(-3, 3) for _ in range(n)]
            P = dict(P, M=[[w[i] * dg[i] ** 2 if i == j else 0 for j in range(n)] for i in range(n)],
                     c=[w[i] * dg[i] * tr[i] for i in range(n)], sol=[F(tr[i], dg[i]) for i in range(n)], dg=dg, tr=tr)
        return P
    if kind == 'quart':
        return otherP('quart', w, vec(), tag='drvquart%d/%s' % (n, wc))
    c = [rnd.choice([-4, -3, -2, -1, 1, 2, 3, 6]) for _ in range(n)]
    return otherP('lin', w, c, tag='drvlin%d/%s' % (n, wc))


def drv_rule(rnd, solver, kind):
    r = rnd.random()
    if kind != 'quad' or r < 0.35:
        if rnd.random() < 0.3:
            return lsiter([rnd.choice([F(1, 2), F(1, 4), F(1, 8), F(3, 8), F(1, 16)]) for _ in range(12)])
        return lsconst(rnd.choice([F(1), F(1, 2), F(1, 4), F(3, 4), F(1, 8), F(3, 8)]))
    if r < 0.7:
        return LSEX
    return lsbt(rnd.choice([F(1, 2), F(1, 4), F(1, 8)]), rnd.choice([F(1, 100), F(1, 10), F(1, 4), F(1, 2), F(3, 4)]),
                rnd.choice([1, 1, 2, 4, F(1, 2)]), rnd.random() < 0.5, rnd.choice([30, 30, 6, 3]))


def drv_instance(rnd, solver):
    kind = 'quad'
    if solver == 'newton' and rnd.random() < 0.25:
        kind = 'quart'
    if solver == 'adam' and rnd.random() < 0.4:
        kind = 'lin'
    if solver == 'sd' and rnd.random() < 0.15:
        kind = 'quart'
    P = drv_problem(rnd, kind)
    n = len(P['w'])
    sc = rnd.choice([1, 1, 2, F(1, 2)])
    x0 = [sc * rnd.randint(-3, 3) for _ in range(n)]
    if kind == 'quart':
        x0 = [v if v != t else v + 1 for v, t in zip(x0, P['t'])]      # the Hessian is singular where x_i = t_i
    elif rnd.random() < 0.06 and P['sol']:
        x0 = list(P['sol'])                                       # started at the minimiser
    I = base_inst(solver, P, x0, fam='driver', N=rnd.choice([1, 2, 3, 3, 4, 5]))
    if solver != 'adam':
        I['ls'] = drv_rule(rnd, solver, kind)
    if solver == 'newton':
        I['cgit'] = rnd.choice([0, 0, 1, 2]) if kind == 'quad' else 0
    elif solver == 'bfgs':
        I['store'] = rnd.choice([-1, -1, 0, 1, 2, 3, 5])
        I['h0'] = rnd.choice([None, None, [rnd.choice([F(1, 2), F(2), F(1, 4)])] * n, [rnd.choice(DYAD) for _ in range(n)]])
    elif solver == 'broyden':
        I['impl'] = rnd.choice(['first', 'second'])
        I['h0'] = rnd.choice([None, None, [rnd.choice([F(1, 2), F(1, 4)])] * n, [rnd.choice([F(1, 4), F(1, 2), F(1)]) for _ in range(n)]])
    elif solver == 'ncg':
        I['beta'] = rnd.choice(['FR', 'PR', 'HS', 'DY'])
    elif solver == 'sd':
        I['box'] = rnd.choice([None, None, [0, 2], [-1, 1], [1, 3]])
    elif solver == 'adam':
        I['lr'] = rnd.choice([F(1, 4), F(1, 2), F(1, 8), F(1)])
        if kind == 'lin':
            I['b1'], I['b2'] = rnd.choice([F(0), F(1, 2), F(1, 4), F(9, 10)]), rnd.choice([F(0), F(1, 2), F(3, 4), F(9, 10)])
        else:
            I['b1'], I['b2'] = rnd.choice([F(0), F(0), F(1, 2), F(1, 4), F(9, 10)]), F(0)
    return I


def drv_calls(rnd, I):
    """how the N iterations are spread over consecutive calls; a later call may start from other values (the caller
    re-uses x, the functional and the rule object for another start)"""
    N = I['N']
    r = rnd.random()
    if r < 0.55 or N < 2:
        segs = [N]
    elif r < 0.85:
        s = rnd.randint(1, N - 1)
        segs = [s, N - s]
    elif r < 0.93:
        segs = [0, N]                                              # maxiter = 0 performs nothing
    else:
        segs = [1] * N
    restart = [None] * len(segs)
    if len(segs) > 1 and rnd.random() < 0.3:
        k = rnd.randint(1, len(segs) - 1)
        restart[k] = [Fraction(rnd.randint(-2, 2)) for _ in I['x0']]
        if I['P']['kind'] == 'quart':
            restart[k] = [v if v != t else v + 1 for v, t in zip(restart[k], I['P']['t'])]
    return segs, restart


def ncg_schedules(segs, nreset):
    """restart positions of the two readings of `nreset` the harness has to be able to snap: the code as pinned
    (first step of a cycle not counted) and cycles of maxiter // (nreset + 1) iterations"""
    a, b = [], []
    for m in segs:
        per = m // (nreset + 1)
        a.append(tuple((1 + per) * c for c in range(1, nreset + 1)))
        b.append(tuple(per * c for c in range(1, nreset + 1)) if per > 0 else ())
    return a, b


def drv_cz(rnd, I, seed):
    cls = weight_class(I['P']['w'])
    concs = list(CONCS[cls])
    if I['solver'] == 'adam':
        concs.remove('pspace')
    k = I['ls']['k']
    rules = {'const': ['user', 'float', 'npfloat', 'object'] + (['default', 'int'] if I['ls']['a'] == 1 else []),
             'iternum': ['object'], 'exact': ['user'], 'bt': ['kw', 'pos', 'np']}[k]
    cz = dict(conc=rnd.choice(concs), rule=rnd.choice(rules), seed=seed, cb=rnd.choice(['func', 'apply', 'and', 'func', 'none']),
              tol=rnd.choice(['explicit', 'default', 'np']), args=rnd.choice(['kw', 'kw', 'pos']),
              maxiter=rnd.choice(['int', 'np']), h0=rnd.choice(['scaling', 'multiply', 'user']),
              impl=rnd.choice(['lower', 'upper', 'title']), npopts=rnd.random() < 0.5, hinv=rnd.random() < 0.5,
              cg=rnd.choice(['default', 'n']), form='user', rec=True)
    if I['solver'] == 'newton' and (I['cgit'] > 0 or cz['conc'] in ('pspace', 'power')):
        cz['hinv'] = cz['hinv'] and I['cgit'] == 0
        cz['cg'] = 'n'
    if k == 'const' and cz['rule'] != 'user':
        cz['rec'] = rnd.random() < 0.5
    if cz['rule'] in ('float', 'npfloat', 'default', 'int'):
        cz['rec'] = False
    if 'dg' in I['P'] and rnd.random() < 0.7 and (I['solver'] != 'newton' or I['cgit'] == 0):
        cz['form'] = 'odl-l2diag'
        cz['hinv'] = False
    elif odl_form_ok(I, cz['conc']) and rnd.random() < 0.3:
        cz['form'] = 'odl'
        cz['hinv'] = False
    return cz


def run_lines(I, cz, segs, restart, nreset, obs, D, tid):
    """NDJSON lines of one recorded run"""
    lines = [dict(op='begin', tid=tid, inst=inst_to_json(I), nreset=nreset, recorded=obs['recorded'], hascb=obs['has_cb'])]
    nocall = dict(has=False, raised=False, x=[], d=[], dd=[0, 1], a=[0, 1])
    for si, so in enumerate(obs['segs']):
        st = restart[si] if restart and restart[si] is not None else []
        lines.append(dict(op='call', tid=tid, maxiter=int(so['maxiter']), nops=len(so['ops']),
                          start=[exact.to_q(Fraction(v)) for v in st]))
        for op in so['ops']:
            c = op['call']
            if c is None:
                call = nocall
            elif c[0] == 'ls-raise':
                call = dict(nocall, has=True, raised=True)
            else:
                call = dict(has=True, raised=False, x=snapv(c[1], D), d=snapv(c[2], D), dd=snapq(c[3], D), a=snapq(c[4], D))
            lines.append(dict(op='iter', tid=tid, call=call, cbs=[snapv(cb, D) for cb in op['cbs']],
                              orphan=bool(op.get('orphan', False))))
        lines.append(dict(op='ret', tid=tid, x=snapv(so['x'], D), raised=so['raised'] or '', ret=so['ret'] or '',
                          same=bool(so['same'])))
    return lines


def driver_run_case(args):
    """one seeded driver instance: real run -> NDJSON lines (or None if the draw is not usable)"""
    solver, seed = args
    rnd = random.Random(seed)
    for _ in range(40):
        I = drv_instance(rnd, solver)
        segs, restart = drv_calls(rnd, I)
        nreset = rnd.choice([0, 0, 1, 2]) if solver == 'ncg' and I['ls']['k'] in ('exact', 'const') else 0
        if nreset:
            # how many of the maxiter iterations a call with resets performs is not documented either: one call only
            segs, restart = [I['N']], [None]
            scheds = ncg_schedules(segs, nreset)
            runsets = [mirror_calls(I, [m + nreset + 1 for m in segs], restart, scheds[0]), mirror_calls(I, segs, restart, scheds[1])]
        else:
            runsets = [mirror_calls(I, segs, restart)]
        if any(r is None for r in runsets):
            continue
        D = lattice_of([r for rs in runsets for r in rs], [I['x0']] + list(restart))
        if D is None:
            continue
        cz = drv_cz(rnd, I, seed)
        if nreset:
            # where the resets happen is not documented: only a recorded rule shows which reading the run follows
            cz.update(rule='user', rec=True)
            if cz['cb'] == 'none':
                cz['cb'] = 'func'
        if solver == 'adam':
            cz['eps'] = adam_eps(I, [e['x'] for r in runsets[0] for e in r['log']], D, rnd.random() < 0.6)
        obs = run_real(I, cz, segs, nreset=nreset, restart_x=restart)
        lines = run_lines(I, cz, segs, restart, nreset, obs, D, 0)
        meta = dict(kind='run', inst=inst_to_json(I), cz=cz, segs=segs, nreset=nreset,
                    restart=[None if r is None else [str(v) for v in r] for r in restart],
                    recorded=obs['recorded'], lattice=D)
        nontrivial = any(len(so['ops']) > 0 for so in obs['segs']) or any(len(r['log']) for r in runsets[-1])
        return dict(lines=lines, meta=meta, key=[solver, opt_class(I), rule_class(I, obs['recorded']), cz['conc'], len(segs), nreset],
                    nontrivial=nontrivial)
    return None


# ---------------------------------------------------------------- step-length object histories
def step_q(a, ls, D):
    """observed step -> [n, d]: backtracking steps are dyadic (the float IS the rational), the others lie on (1/D) Z"""
    if a is None or not math.isfinite(a):
        return OFFQ
    if ls['k'] != 'bt':
        return snapq(a, D)
    frc = Fraction(a)
    return exact.to_q(frc) if frc.denominator < 2 ** 30 and abs(frc.numerator) < 2 ** 30 else OFFQ


def drv_ls_case(seed):
    rnd = random.Random(seed)
    for _ in range(40):
        kind = rnd.choice(['quad', 'quad', 'quart'])
        P = drv_problem(rnd, kind)
        n = len(P['w'])
        pts = [[Fraction(rnd.randint(-3, 3)) for _ in range(n)] for _ in range(3)]
        Pm = Prob(P, Fraction)
        queries = []
        for x in pts:
            g = Pm.grad(x)
            if all(v == 0 for v in g):
                continue
            queries += [dict(x=x, d=vneg(g)), dict(x=x, d=scal(rnd.choice([-2, -4, -8]), g)), dict(x=x, d=list(g)),
                        dict(x=x, d=[Fraction(1 if i == rnd.randrange(n) else 0) for i in range(n)])]
        if len(queries) < 4:
            continue
        r = rnd.random()
        if r < 0.8:
            ls = lsbt(rnd.choice([F(1, 2), F(1, 4), F(1, 8)]), rnd.choice([F(1, 100), F(1, 10), F(1, 4), F(1, 2), F(3, 4), F(9, 10)]),
                      rnd.choice([1, 1, 2, 4, F(1, 2), F(1, 4)]), rnd.random() < 0.5, rnd.choice([0, 1, 2, 3, 4, 30, 30]))
        elif r < 0.9:
            ls = lsconst(rnd.choice([F(3, 4), F(1, 8), F(5)]))
        else:
            ls = lsiter([F(1, k + 1) if k % 2 else F(k + 1) for k in range(8)])
        hist = [rnd.randrange(len(queries)) + 1 for _ in range(rnd.choice([3, 4, 5, 6]))]
        I = base_inst('ls', P, pts[0], fam='driver', N=len(hist), ls=ls, queries=queries)
        # selection: no exact tie / near tie, steps inside 32 bits
        rule = MirrorRule(ls, Q32)
        Pq = Prob(P, Q32)
        ok = True
        try:
            for hi, qi in enumerate(hist):
                qq = queries[qi - 1]
                x, d = [Q32(v) for v in qq['x']], [Q32(v) for v in qq['d']]
                dd = Pq.inner(Pq.grad(x), d)
                if ls['k'] == 'bt':
                    st, a, j, tie = rule.bt(Pq, x, d, dd)
                    if tie or (rule.margin is not None and rule.margin < 1e-9):
                        ok = False
                        break
                    if st in ('ok', 'edge'):
                        rule.alpha = abs(a)
                        rule.total += j
                    elif st in ('raise', 'nodescent') and ls['est']:
                        hist = hist[:hi + 1]                     # the remembered step after an error is not specified
                        break
                    rule.calls += 1
                else:
                    rule(Pq, x, d, dd)
        except (OverflowError, ZeroDivisionError):
            ok = False
        if not ok:
            continue
        concs = CONCS[weight_class(P['w'])]
        cz = dict(conc=rnd.choice(concs), rule=rnd.choice(['kw', 'pos', 'np']), seed=seed,
                  dd=[rnd.choice(['pos', 'kw', 'np', 'omit', 'int']) for _ in hist], plain=rnd.random() < 0.25,
                  defmax=ls['maxit'] >= 30 and rnd.random() < 0.5)
        res, attrs = run_ls_history(I, hist, cz)
        lines = [dict(op='lsbegin', tid=0, inst=inst_to_json(I))]
        Dl = 1
        for v in [ls['a']] + list(ls['seq']):
            Dl = Dl * Fraction(v).denominator // gcd(Dl, Fraction(v).denominator)
        for qi, rr in zip(hist, res):
            lines.append(dict(op='lscall', tid=0, q=qi, raised=rr['raised'] is not None, a=step_q(rr['a'], ls, Dl)))
        meta = dict(kind='ls', inst=inst_to_json(I), hist=hist, cz=cz)
        return dict(lines=lines, meta=meta, key=['ls-driver', ls_option_class(ls), cz['conc'], len(hist)], nontrivial=True)
    return None


# ---------------------------------------------------------------- relational lines
def quantise_seq(A, B, bits):
    """two sequences of float vectors -> integer vectors relative to the largest magnitude of the pair"""
    m = max([1e-300] + [float(np.max(np.abs(v))) for v in list(A) + list(B) if len(v)])
    sc = (2 ** bits) / m
    qz = lambda S_: [[int(round(float(t) * sc)) for t in v] for v in S_]
    return qz(A), qz(B)


def drv_pair_case(args):
    """real run against the plain re-implementation of the documented recursion, iterate by iterate (float32 spaces,
    larger random problems, ADAM with arbitrary decay rates and the default eps)"""
    lane, seed = args
    rnd = random.Random(seed)
    nprng = np.random.RandomState(seed % (2 ** 31))
    dtype = 'float64'
    if lane == 'adam':
        solver = 'adam'
        n = rnd.choice([2, 3, 5])
        A = nprng.randint(-2, 3, size=(n, n)).astype(float)
        M = (A.T.dot(A) + np.eye(n)).tolist()
        w = [rnd.choice([0.5, 1.0, 2.0])] * n
        sol = [float(rnd.randint(-3, 3)) for _ in range(n)]
        P = dict(kind='quad', tag='rand%d' % n, w=w, M=M, c=np.array(M).dot(sol).tolist(), t=[], sol=sol)
        I = base_inst('adam', P, [float(rnd.randint(-3, 3)) + 0.5 for _ in range(n)], fam='relational', N=5,
                      lr=rnd.choice([0.001, 0.1, 0.5]), b1=rnd.choice([0.9, 0.5, 0.0]), b2=rnd.choice([0.999, 0.9, 0.5]))
    else:
        solver = rnd.choice(['newton', 'bfgs', 'broyden', 'ncg', 'sd'])
        n = rnd.choice([3, 4, 5, 6, 8]) if lane == 'large' else rnd.choice([2, 3])
        A = nprng.randint(-2, 3, size=(n, n)).astype(float)
        M = (A.T.dot(A) + 2 * np.eye(n)).tolist()
        wc = rnd.choice(['one', 'const', 'array'])
        w = [1.0] * n if wc == 'one' else [rnd.choice([0.5, 2.0])] * n if wc == 'const' else [rnd.choice([0.5, 1.0, 2.0, 4.0]) for _ in range(n)]
        if wc == 'array' and len(set(w)) == 1:
            w[0] *= 2
        sol = [float(rnd.randint(-3, 3)) for _ in range(n)]
        P = dict(kind='quad', tag='rand%d' % n, w=w, M=M, c=np.array(M).dot(sol).tolist(), t=[], sol=sol)
        I = base_inst(solver, P, [float(rnd.randint(-3, 3)) for _ in range(n)], fam='relational', N=rnd.choice([2, 3]))
        lam = float(np.linalg.eigvalsh(np.array(M) / np.sqrt(np.outer(w, w))).max())
        small = 2.0 ** -math.ceil(math.log2(lam) + 1)            # a dyadic step below 1 / lambda_max
        I['ls'] = rnd.choice([LSEX, lsconst(small), lsconst(small / 2)]) if solver != 'newton' else rnd.choice([LSEX, lsconst(1.0), lsconst(0.5)])
        if solver == 'bfgs':
            I['store'] = rnd.choice([-1, 1, 2])
        if solver == 'broyden':
            I['impl'] = rnd.choice(['first', 'second'])
        if solver == 'ncg':
            I['beta'] = rnd.choice(['FR', 'PR', 'HS', 'DY'])
        if solver == 'newton':
            I['cgit'] = rnd.choice([0, 1, 2])
        if lane == 'float32':
            dtype = 'float32'
    ref = mirror_run(I, num=float)
    if not ref['ok'] or len(ref['log']) < I['N'] or (ref['small'] is not None and ref['small'] < 1e-4):
        return None
    if solver == 'adam' and ref['small'] < 0.05:
        return None          # the article's two formulations place eps differently: keep eps / |g| far below a quantum
    if solver == 'ncg' and ref['tie']:
        return None
    cls = weight_class([Fraction(v) for v in P['w']])
    concs = [c for c in CONCS[cls] if not (solver == 'adam' and c == 'pspace')]
    cz = dict(conc=rnd.choice(concs), rule='user', seed=seed, cb='func', tol='default', args='kw', dtype=dtype,
              hinv=rnd.random() < 0.5, cg='n', form='user', rec=True)
    if solver == 'newton' and I['cgit'] > 0:
        cz['hinv'] = False
    obs = run_real(I, cz, [I['N']])
    so = obs['segs'][0]
    if so['raised']:
        return dict(viol=(dict(stage=STAGE, solver=solver, clause='raised', opt=opt_class(I), rule=rule_class(I) + '/relational'),
                          dict(stage_module=STAGE, kind='pair', inst=I, cz=cz, info=so['raised'])))
    real = [op['cbs'][0] for op in so['ops'] if op['cbs']]
    # nonlinear CG reports its iterates from the second one on (KF): compare the rule's points, which are complete
    calls = [op['call'][1] for op in so['ops'] if op['call'] is not None and op['call'][0] == 'ls']
    bits = 9 if dtype == 'float32' else 16 if solver == 'adam' else 22
    if solver == 'adam':
        A_, B_ = real, [e['xn'] for e in ref['log']]
    else:
        A_, B_ = calls[:I['N']], [e['x'] for e in ref['log']]
    qa, qb = quantise_seq([np.asarray(v, float) for v in A_] + [so['x']] * 0, [np.asarray(v, float) for v in B_], bits)
    fa, fb = quantise_seq([so['x']], [np.asarray(ref['x'], float)], bits)
    line = dict(op='pair', tid=0, solver=solver, niter=I['N'], a=qa, b=qb, na=len(real) if solver != 'ncg' else -1,
                fa=fa[0] if solver != 'ncg' else fb[0], fb=fb[0])
    meta = dict(kind='pair', lane=lane, inst=json.loads(json.dumps(I, default=str)), cz=cz)
    return dict(lines=[line], meta=meta, key=['pair', lane, solver, opt_class(I), cz['conc']], nontrivial=True,
                sig=dict(stage=STAGE, solver=solver, opt=opt_class(I), rule=rule_class(I) + '/relational'))


def drv_btdefault(args):
    k, dtype, plain = args
    space = odl.rn(2, dtype=dtype)
    f = SOL.L2NormSquared(space)
    rule = SOL.BacktrackingLineSearch((lambda x: f(x)) if plain else f, tau=2.0 ** -k)
    mant = 52 if (plain or dtype == 'float64') else 23
    return dict(lines=[dict(op='btdefault', tid=0, k=k, mant=mant, mx=int(rule.max_num_iter))],
                meta=dict(kind='btdefault', k=k, dtype=dtype, plain=plain), key=['btdefault', k, dtype, plain], nontrivial=True)


# =====================================================================================================================
# The stage
# =====================================================================================================================
def tlc_env(group, tier, out=os.devnull, quirks=None):
    q = PINNED_QUIRKS if quirks is None else quirks
    return {'SMOOTH_GROUP': group, 'SMOOTH_TIER': tier, 'OUT_FILE': out, 'SMOOTH_QUIRKS': '+'.join(q) if q else 'none'}


QUIRK_GROUP = {'adam-bias': 'adam', 'ncg-first': 'ncg', 'bt-alpha': 'ls0', 'store0': 'bfgs'}


def validate_lines(ctx, episodes, on_fail):
    """episodes: list of dict(lines, meta); writes chunks of <= 6000 lines, runs Trace_Smooth on each"""
    chunks, cur, nlines = [], [], 0
    for ei, ep in enumerate(episodes):
        if nlines + len(ep['lines']) > 6000 and cur:
            chunks.append(cur)
            cur, nlines = [], 0
        cur.append(ei)
        nlines += len(ep['lines'])
    if cur:
        chunks.append(cur)
    files = []
    for ci, ch in enumerate(chunks):
        p = os.path.join(ctx.work, 'smooth_trace_%d.ndjson' % ci)
        with open(p, 'w') as f:
            for ei in ch:
                for ln in episodes[ei]['lines']:
                    f.write(json.dumps(dict(ln, id=ei, tid=ei + 1)) + '\n')
        files.append(p)

    def val(p):
        return p, run_tlc('Trace_Smooth.tla', 'Trace_Smooth.cfg', ctx.work, env={'TRACE_FILE': p}, workers=1, timeout=3000)
    with ThreadPoolExecutor(max_workers=8) as ex:
        vres = list(ex.map(val, files))
    nfail = 0
    for p, res in vres:
        ctx.add_tlc('smooth-trace-' + os.path.basename(p), res)
        per = {}
        for (line, eid, text) in parse_fails(res.output):
            per.setdefault(eid, set()).update(re.findall(r'"([\w-]+)"', text))
        for eid, clauses in sorted(per.items()):
            nfail += 1
            on_fail(episodes[eid], sorted(clauses))
    return nfail


def run_stage(ctx):
    quick = ctx.tier == 'quick'
    tier = ctx.tier
    work = ctx.work
    import multiprocessing as mp
    ctx.assumptions += [
        'smooth: "tol" is only claimed to stop the iteration at an exactly stationary point; runs use tol = 2^-20 or the '
        'default, and layer C / the driver selection guarantee that no tested quantity of a compared run is near it',
        'smooth: adam is compared with eps below the snapping tolerance (eps -> 0 in layer A), on lattices where '
        'sqrt(v_hat) is rational (beta2 = 0 or a constant gradient); other decay rates only relationally',
        'smooth: "max_num_iter" of BacktrackingLineSearch may mean step reductions or trials: where the first accepted '
        'candidate needs exactly max_num_iter reductions both outcomes are accepted',
        'smooth: the beta = max(0, beta) variant of nonlinear CG is "a popular choice" in the cited article: instances with '
        'a negative beta are not compared; nreset: the docstring does not say WHEN the resets happen, any placement of at '
        'most nreset restarts is accepted',
        'smooth: an ascent direction makes BacktrackingLineSearch search backwards (negative step), as ODL\'s own unit '
        'test demands; the default cg_iter of newtons_method is undocumented and not relied on for product spaces; adam '
        'needs element-wise powers / roots and is not run on heterogeneous product spaces',
        'smooth: exact ties of the Armijo test are excluded by the machine (guard) and near ties by the driver selection']

    # ---- 1. model: laws of layer A, C [= A, export (one run per family, single worker because of the export) ----
    jobs = []
    for g in GROUPS:
        jobs.append(('smooth-laws+refines+export-' + g, 'MC_SmoothImpl.tla', 'MC_SmoothImpl_both.cfg',
                     tlc_env(g, tier, os.path.join(work, 'smooth_exp_%s.ndjson' % g)), 1, 'ok', None))
    # model-level demonstration of each pinned quirk: without the exemption TLC must find a counter-example
    for qk in PINNED_QUIRKS:
        jobs.append(('smooth-quirk-visible-' + qk, 'MC_SmoothImpl.tla', 'MC_SmoothImpl_all.cfg',
                     tlc_env(QUIRK_GROUP[qk], 'quick', quirks=[qk]), 1, 'any',
                     'invariant:LSRefinesAll' if qk == 'bt-alpha' else 'invariant:RefinesAll'))
    jobs.append(('smooth-bogus', 'MC_Smooth.tla', 'MC_Smooth_bogus.cfg', tlc_env('sd', 'quick'), 1, 'any', 'invariant:Bogus'))
    if not quick:
        # the repaired transcription (every proposal applied) refines layer A on the whole catalogue
        for g in sorted(set(QUIRK_GROUP[qk] for qk in PINNED_QUIRKS)):
            jobs.append(('smooth-repaired-refines-' + g, 'MC_SmoothImpl.tla', 'MC_SmoothImpl_all.cfg',
                         tlc_env(g, tier, quirks=[]), 4, 'ok', None))

    def go(j):
        return j, run_tlc(j[1], j[2], work, env=j[3], workers=j[4], timeout=3000)
    with ThreadPoolExecutor(max_workers=8) as ex:
        results = list(ex.map(go, jobs))
    for j, res in results:
        ctx.add_tlc(j[0], res, expect=j[5])
        if j[6] is not None and res.violated != j[6]:
            raise MachineryError('model self-test %s: expected %s, TLC reports %s' % (j[0], j[6], res.violated))

    # ---- 2. spec -> code: replay of every exported behaviour ----
    stasks, ltasks = [], []
    ninst = {}
    for g in GROUPS:
        cases = load_export(os.path.join(work, 'smooth_exp_%s.ndjson' % g))
        if not cases:
            raise MachineryError('smooth: empty export for ' + g)
        ninst[g] = len(cases)
        if g.startswith('ls'):
            ltasks += [(c, quick, ctx.seed) for c in cases]
        else:
            stasks += [(c, quick, ctx.seed) for c in cases]
    nproc = 8 if quick else 12
    rnd = random.Random(ctx.seed * 7919 + 13)
    nrun, nls, npair = (140, 500, 60) if quick else (1500, 6000, 600)
    dtasks = [(s, zlib.crc32(('%s/%d' % (s, i)).encode()) + 1000003 * ctx.seed) for s in SOLVERS for i in range(nrun)]
    lstasks = [zlib.crc32(('ls/%d' % i).encode()) + 1000003 * ctx.seed for i in range(nls)]
    ptasks = [(lane, zlib.crc32(('%s/%d' % (lane, i)).encode()) + 1000003 * ctx.seed)
              for lane in ('adam', 'float32', 'large') for i in range(npair)]
    btasks = [(k, dt, pl) for k in (1, 2, 3) for dt in ('float64', 'float32') for pl in (False, True)]
    with mp.get_context('fork').Pool(nproc) as pool:
        souts = pool.map(replay_solver_case, stasks, chunksize=8)
        louts = pool.map(replay_ls_case, ltasks, chunksize=64)
        druns = pool.map(driver_run_case, dtasks, chunksize=8)
        dls = pool.map(drv_ls_case, lstasks, chunksize=16)
        dpair = pool.map(drv_pair_case, ptasks, chunksize=8)
    dbt = [drv_btdefault(a) for a in btasks]
    drift = {}
    nreplayed = 0
    for r in souts + louts:
        for sig, detail in r['viol']:
            ctx.violation(sig, detail)
        for key, nt in r['counts']:
            ctx.count(key, nt)
        for d in r['drift']:
            drift[d] = drift.get(d, 0) + 1
        if r['sample'] and len(ctx.samples) < 5 and zlib.crc32(json.dumps(r['sample'], sort_keys=True).encode()) % 11 == 0:
            ctx.sample(r['sample'])
        if r['counts']:
            nreplayed += 1
    for d, c in sorted(drift.items()):
        ctx.drift_note('%s (%d cases)' % (d, c))
    ctx.traces += nreplayed

    # ---- 3. code -> spec: driver episodes validated by the trace specification ----
    episodes = []
    for r in druns + dls + dpair + dbt:
        if r is None:
            continue
        if 'viol' in r:
            ctx.violation(*r['viol'])
            continue
        episodes.append(r)
        ctx.count(r['key'], r['nontrivial'])
    if len(episodes) < (len(dtasks) + len(lstasks)) // 2:
        raise MachineryError('smooth: too few usable driver episodes (%d)' % len(episodes))
    # self-test of the trace specification: one recorded episode with ONE corrupted field must be rejected
    selftest = {'seen': False}
    for ep in episodes:
        its = [k for k, ln in enumerate(ep['lines']) if ln['op'] == 'iter' and ln['call']['has'] and not ln['call']['raised']
               and ln['call']['dd'] != OFFQ]
        if ep['meta']['kind'] == 'run' and its:
            bad_ep = json.loads(json.dumps(dict(lines=ep['lines'], meta=dict(kind='selftest'))))
            bad_ep['lines'][its[0]]['call']['dd'][0] += 1
            episodes.append(bad_ep)
            break

    def on_fail(ep, clauses):
        meta = ep['meta']
        if meta['kind'] == 'selftest':
            selftest['seen'] = 'dir-derivative' in clauses
            return
        harness_cl = [c for c in clauses if c.startswith('harness-') or c == 'unknown-op']
        if harness_cl:
            raise MachineryError('smooth: trace line rejected for a harness reason %s: %s' % (harness_cl, json.dumps(meta)[:300]))
        for cl in clauses:
            if meta['kind'] == 'run':
                I = inst_from_json(meta['inst'])
                sig = sig_of(I, cl, meta['recorded'])
                if meta['nreset']:
                    sig['opt'] += '/nreset'
            elif meta['kind'] == 'ls':
                I = inst_from_json(meta['inst'])
                sig = dict(stage=STAGE, solver='linesearch', clause=cl, opt=ls_option_class(I['ls']), rule=I['ls']['k'])
            elif meta['kind'] == 'pair':
                sig = dict(ep['sig'], clause=cl)
            else:
                sig = dict(stage=STAGE, solver='linesearch', clause=cl, opt='max_num_iter=None', rule='bt')
            ctx.violation(sig, dict(meta, stage_module=STAGE, tlc_clauses=clauses, lines=ep['lines'][:40]))
    nfail = validate_lines(ctx, episodes, on_fail)
    if not selftest['seen']:
        raise MachineryError('smooth: the trace specification accepted an episode with a corrupted dir_derivative')
    episodes = [e for e in episodes if e['meta']['kind'] != 'selftest']
    nfail -= 1
    ctx.traces += len(episodes)
    ctx.extra['smooth'] = {
        'exported_behaviours': ninst, 'replayed_behaviours': nreplayed,
        'driver_episodes': {'run': sum(1 for e in episodes if e['meta']['kind'] == 'run'),
                            'ls': sum(1 for e in episodes if e['meta']['kind'] == 'ls'),
                            'pair': sum(1 for e in episodes if e['meta']['kind'] == 'pair'),
                            'btdefault': sum(1 for e in episodes if e['meta']['kind'] == 'btdefault')},
        'trace_lines_validated_by_tlc': sum(len(e['lines']) for e in episodes),
        'trace_episodes_rejected_by_tlc': nfail,
        'layerC_pinned_quirks': list(PINNED_QUIRKS),
        'tol': '2^-%d' % TOL_BITS, 'max_exact_denominator': MAXDEN}
    return len(episodes)


# ---------------------------------------------------------------- replay of one stored violation
def replay(body):
    d = body['detail']
    sig = body['signature']
    print('signature:', json.dumps(sig))
    kind = d.get('kind')
    if kind == 'solver':
        case_inst = d['inst']
        I = inst_from_json(case_inst)
        obs = run_real(I, d['cz'], d['segs'])
        print('instance :', REALNAME[I['solver']], I['P']['tag'], opt_class(I), rule_class(I), 'space', d['cz']['conc'],
              'calls', d['segs'])
        for si, so in enumerate(obs['segs']):
            print(' call %d: maxiter=%d rule calls/iterations=%d callbacks=%d raised=%s x=%s' % (
                si + 1, so['maxiter'], len(so['ops']), sum(len(o['cbs']) for o in so['ops']), so['raised'], so['x']))
        print(' recorded: %s' % d['info'])
        # the expectation is the behaviour TLC exported (stored with the case)
        case = dict(d['expected'], inst=case_inst, I=I)
        segs, exp = expected_segments(case)
        got = sorted(set(clause_name(c, p_) for c, p_, _ in compare_run(I, obs, exp, case['conv'], I['x0'])))
        print(' contradicts the exported behaviour in:', got or 'nothing')
        bad = sig['clause'] in got
        print('REPRODUCED' if bad else 'NOT-REPRODUCED')
        return 1 if bad else 0
    if kind == 'run':
        I = inst_from_json(d['inst'])
        restart = [None if r is None else [Fraction(v) for v in r] for r in d['restart']]
        return _replay_through_trace(I, d['cz'], d['segs'], restart, d['nreset'], sig['clause'])
    if kind == 'ls':
        I = inst_from_json(d['inst'])
        res, attrs = run_ls_history(I, d['hist'], d['cz'])
        print('rule     :', ls_option_class(I['ls']), json.dumps({k: str(v) for k, v in I['ls'].items()}))
        for qi, r in zip(d['hist'], res):
            print('  query %d -> %s' % (qi, r['raised'] or r['a']))
        print(' recorded:', d.get('info', d.get('tlc_clauses')))
        lines = [dict(op='lsbegin', tid=1, id=0, inst=inst_to_json(I))]
        Dl = 1
        for v in [I['ls']['a']] + list(I['ls']['seq']):
            Dl = Dl * Fraction(v).denominator // gcd(Dl, Fraction(v).denominator)
        for qi, rr in zip(d['hist'], res):
            lines.append(dict(op='lscall', tid=1, id=0, q=qi, raised=rr['raised'] is not None, a=step_q(rr['a'], I['ls'], Dl)))
        return _tlc_lines(lines, sig['clause'])
    if kind == 'pair':
        r = drv_pair_case((d['lane'], d['cz']['seed']))
        if r is None or 'lines' not in r:
            print('NOT-REPRODUCED (instance not regenerated)')
            return 0
        return _tlc_lines([dict(ln, tid=1, id=0) for ln in r['lines']], sig['clause'])
    print('replay: re-run  VERIF_EXT=smooth ./vcheck EXT')
    return 0


def _tlc_lines(lines, clause):
    import tempfile
    import shutil
    work = tempfile.mkdtemp(prefix='smooth-replay-', dir=os.path.join(VERIF, '.work') if os.path.isdir(os.path.join(VERIF, '.work')) else None)
    try:
        p = os.path.join(work, 'trace.ndjson')
        with open(p, 'w') as f:
            for ln in lines:
                f.write(json.dumps(ln) + '\n')
        res = run_tlc('Trace_Smooth.tla', 'Trace_Smooth.cfg', work, env={'TRACE_FILE': p}, workers=1, timeout=600)
        fails = parse_fails(res.output)
        got = set()
        for (_, _, text) in fails:
            got.update(re.findall(r'"([\w-]+)"', text))
        print('TLC (Trace_Smooth) rejects:', sorted(got) or 'nothing', '(status %s)' % res.status)
        alt = {'step-first-call': 'step', 'step': 'step-first-call'}
        bad = clause in got or alt.get(clause) in got
        print('REPRODUCED' if bad else 'NOT-REPRODUCED')
        return 1 if bad else 0
    finally:
        shutil.rmtree(work, ignore_errors=True)


def _replay_through_trace(I, cz, segs, restart, nreset, clause):
    runsets = [mirror_calls(I, segs, restart)] if not nreset else \
        [mirror_calls(I, [m + nreset + 1 for m in segs], restart, ncg_schedules(segs, nreset)[0]),
         mirror_calls(I, segs, restart, ncg_schedules(segs, nreset)[1])]
    D = lattice_of([r for rs in runsets if rs for r in rs], [I['x0']] + list(restart)) if all(runsets) else None
    if D is None:
        # catalogue instances may leave the driver lattice: snap with the largest admissible denominator
        D = MAXLAT
    obs = run_real(I, cz, segs, nreset=nreset, restart_x=restart)
    lines = [dict(ln, id=0, tid=1) for ln in run_lines(I, cz, segs, restart, nreset, obs, D, 1)]
    return _tlc_lines(lines, clause)


if __name__ == '__main__':
    if len(sys.argv) > 1 and sys.argv[1] == 'gencat':
        print(gencat())

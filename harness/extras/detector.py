"""EXT/detector - detector classes of odl/tomo/geometry/detector.py, flying_focal_spot, det_radius of
ParallelHoleCollimatorGeometry.

Specification: spec/sem/DetectorSem.tla (layer A, from the docstrings: documented formulas of surface / surface_deriv,
the orientation rule of surface_normal, surface_measure = arc length / length of the cross product, the documented
output shapes of every parameter form, bounds checking, constructor preconditions), spec/mach/DetectorMachine.tla
(layer B: one detector object under a history of queries and caller-side mutations), spec/impl/DetectorImpl.tla
(layer C: the parameter-form dispatch and the rotation matrices of the curved detectors as written),
spec/trace/Trace_Detector.tla (layer D).

Pipeline of `run_stage`:
  1. TLC, one job per class (flat1 circ flat2 cyl sph) + constructor cases + pure parameter-form cases: laws of the
     reference (tangent-normal orthogonality, unit normal, orientation, closed forms of the measure, surface(0) = 0,
     alignment with the axes, points on the circle / cylinder / sphere), C refines A, the two places where the code as
     written leaves the documentation are pinned (Quirks), every case is exported with the documented expectation;
     the history machine (laws + export); a bogus law has to be refuted.
  2. spec -> code: every exported case is executed on real ODL detectors under rotating spellings (axis as list /
     tuple / ndarray / integer / scaled; keyword / positional; parameters as Python / NumPy scalars, 0-d arrays, lists,
     tuples, stacked arrays, non-contiguous arrays) and compared literally with the exported expectation; every
     exported history on ONE real object.
  3. code -> spec: seeded random detectors beyond the TLC constants (other Pythagorean families, larger shapes up to
     rank 3, sizes 0 / 1, broadcasting forms), detectors DERIVED from geometries (geom.detector of parallel / fan /
     cone beam geometries incl. curved ones and of sliced geometries), longer histories, the relational clause
     deriv ~ symmetric difference quotient of surface, flying_focal_spot, ParallelHoleCollimatorGeometry are recorded
     as events and validated by Trace_Detector.
Python never decides a value: it builds objects, projects observations onto the exact lattice and moves JSON.
"""
import json
import math
import os
import random
import re
import warnings
from concurrent.futures import ThreadPoolExecutor
from fractions import Fraction

import numpy as np

from ..tlc import run_tlc, parse_fails
from ..common import MachineryError, dumps
from ..exact import snap, to_q, OFF

STANDALONE = True
STAGE = 'detector'
GROUPS = ('small', 'circ', 'flat2', 'cyl', 'sph')          # small = flat1 + ctor + shape (one JVM)
MINCASES = {'hist': 100, 'small': 3000}
CORRUPT_ID = 999999999
DMAX = 2 ** 20
NMAX = 20000          # bound on the denominator of a unit normal (TLC is 32-bit: squares of the integer components)
METH = {'surface': 'surface', 'deriv': 'surface_deriv', 'normal': 'surface_normal', 'measure': 'surface_measure'}
F = Fraction


# ------------------------------------------------------------------ exact helpers
def fq(q):
    return F(q[0], q[1])


def qj(x):
    return to_q(F(x))


def P(q=0, c=1, s=0):
    return {'q': qj(q), 'c': qj(c), 's': qj(s)}


def PL(x):
    return P(q=x)


def PA(c, s):
    return P(c=c, s=s)


def ndim_of(cls):
    return 1 if cls in ('flat1', 'circ') else 2


def angular(cls, j):
    return (cls in ('circ', 'cyl') and j == 0) or cls == 'sph'


def ang(c, s):
    """the float angle of the rational point (c, s) - one function for parameters and partition corners"""
    return math.atan2(float(s), float(c))


def pfloat(p, is_ang):
    return ang(fq(p['c']), fq(p['s'])) if is_ang else float(fq(p['q']))


def fsqrt(fr):
    n, d = fr.numerator, fr.denominator
    rn, rd = math.isqrt(n), math.isqrt(d)
    return F(rn, rd) if rn * rn == n and rd * rd == d else None


def lattice(d, q=None):
    """A denominator D such that every documented value of the scenario is a multiple of 1/D (mirrors the arithmetic
    only to choose the snapping lattice); None if the scenario leaves the lattice bound."""
    D = 1
    dens = []
    for a in d['ax']:
        v = [fq(x) for x in a]
        n = fsqrt(sum(x * x for x in v))
        if n is None or n == 0:
            return None
        dens.append(math.lcm(*[(x / n).denominator for x in v]))
    for x in dens:
        D *= x
    if d['cls'] == 'flat2':
        a, b = [[fq(x) for x in v] for v in d['ax']]
        cr = [a[1] * b[2] - a[2] * b[1], a[2] * b[0] - a[0] * b[2], a[0] * b[1] - a[1] * b[0]]
        n = fsqrt(sum(x * x for x in cr))
        na, nb = fsqrt(sum(x * x for x in a)), fsqrt(sum(x * x for x in b))
        if n is None or n == 0:
            return None
        m = n / (na * nb)
        D *= m.numerator * m.denominator
    r = fq(d['r'])
    DN = D
    D *= r.denominator ** 2
    if q is not None:
        for j, vals in enumerate(q['v']):
            dd = 1
            for p in vals:
                if angular(d['cls'], j):
                    dd = math.lcm(dd, fq(p['c']).denominator, fq(p['s']).denominator)
                else:
                    dd = math.lcm(dd, fq(p['q']).denominator)
            D *= dd
            if angular(d['cls'], j) and vals:
                DN *= max(math.lcm(fq(p['c']).denominator, fq(p['s']).denominator) for p in vals)
        if q['m'] in ('normal', 'measure') and DN > NMAX:
            return None
    return D if D <= DMAX else None


# ------------------------------------------------------------------ building real objects
def odl():
    import odl as _odl
    return _odl


def det_class(cls):
    from odl.tomo.geometry import detector as dm
    return {'flat1': dm.Flat1dDetector, 'flat2': dm.Flat2dDetector, 'circ': dm.CircularDetector,
            'cyl': dm.CylindricalDetector, 'sph': dm.SphericalDetector}[cls]


def spell_vec(v, rng, force=None):
    """one vector of Fractions in a spelling; returns (object, owned ndarray or None)"""
    allint = all(x.denominator == 1 for x in v)
    kinds = ['list', 'tuple', 'f64']
    if allint:
        kinds += ['ilist', 'iarr']
    k = force or rng.choice(kinds)
    if k == 'list':
        return [float(x) for x in v], None
    if k == 'tuple':
        return tuple(float(x) for x in v), None
    if k == 'ilist':
        return [int(x) for x in v], None
    if k == 'iarr':
        a = np.array([int(x) for x in v])
        return a, a
    a = np.array([float(x) for x in v])
    return a, a


def build_partition(d, rng):
    o = odl()
    cls = d['cls']
    lo = [pfloat(p, angular(cls, j)) for j, p in enumerate(d['lo'])]
    hi = [pfloat(p, angular(cls, j)) for j, p in enumerate(d['hi'])]
    n = [rng.choice([1, 2, 4, 7]) for _ in lo]
    if len(lo) == 1:
        return o.uniform_partition(lo[0], hi[0], n[0])
    return o.uniform_partition(lo, hi, n)


def build_det(d, rng, owned_axis=False):
    """the real detector of the descriptor (axes AS GIVEN in d); returns (det, owned)"""
    cls = d['cls']
    K = det_class(cls)
    part = build_partition(d, rng)
    vecs = [[fq(x) for x in a] for a in d['ax']]
    owned = None
    if ndim_of(cls) == 1:
        ax, owned = spell_vec(vecs[0], rng, 'f64' if owned_axis else None)
    else:
        if owned_axis or rng.random() < 0.3:
            ax = np.array([[float(x) for x in v] for v in vecs])
            owned = ax
        else:
            parts = [spell_vec(v, rng)[0] for v in vecs]
            ax = tuple(parts) if rng.random() < 0.5 else list(parts)
    r = fq(d['r'])
    rk = rng.choice(['float', 'np', 'int'] if r.denominator == 1 else ['float', 'np', 'f32'])
    rad = {'float': float(r), 'np': np.float64(float(r)), 'int': int(r) if r.denominator == 1 else float(r),
           'f32': np.float32(float(r))}[rk]
    cb = bool(d['cb'])
    form = rng.randrange(3)
    axname = 'axis' if ndim_of(cls) == 1 else 'axes'
    if cls in ('flat1', 'flat2'):
        if form == 0:
            det = K(part, ax, cb)
        elif form == 1:
            det = K(part, ax, check_bounds=cb) if not cb or rng.random() < 0.5 else K(part, ax)
        else:
            det = K(partition=part, check_bounds=cb, **{axname: ax})
    else:
        if form == 0:
            det = K(part, ax, rad, cb)
        elif form == 1:
            det = K(part, ax, radius=rad, check_bounds=cb) if not cb or rng.random() < 0.5 else K(part, ax, rad)
        else:
            det = K(partition=part, radius=rad, check_bounds=cb, **{axname: ax})
    return det, owned


def spell_component(vals, sh, rng, is_ang, allow_scalar_kinds=True):
    """one parameter component: floats `vals` in shape `sh`"""
    if sh == []:
        v = vals[0]
        kinds = ['float', 'np', '0d']
        if not is_ang and float(v).is_integer():
            kinds.append('int')
        k = rng.choice(kinds)
        if k == 'int':
            return int(v)
        return {'float': float(v), 'np': np.float64(v), '0d': np.array(float(v))}[k]
    arr = np.array(vals, dtype=float).reshape(sh)
    kinds = ['arr', 'strided'] + ([] if (arr.size == 0 and len(sh) >= 2) else ['list'])
    if len(sh) >= 2:
        kinds.append('fortran')
    if not is_ang and all(float(np.float32(x)) == x for x in vals):
        kinds.append('f32')
    k = rng.choice(kinds)
    if k == 'list':
        return arr.tolist()
    if k == 'fortran':
        return np.asfortranarray(arr)
    if k == 'f32':
        return arr.astype(np.float32)
    if k == 'strided' and arr.size > 0:
        big = np.zeros(tuple(sh[:-1]) + (2 * sh[-1],))
        big[..., ::2] = arr
        return big[..., ::2]
    return arr


def build_param(d, q, rng):
    cls = d['cls']
    comps = []
    for j, sh in enumerate(q['sh']):
        vals = [pfloat(p, angular(cls, j)) for p in q['v'][j]]
        comps.append(spell_component(vals, list(sh), rng, angular(cls, j)))
    if ndim_of(cls) == 1:
        return comps[0]
    same = list(q['sh'][0]) == list(q['sh'][1])
    kinds = ['list', 'tuple'] + (['stacked'] if same else [])
    k = rng.choice(kinds)
    if k == 'stacked':
        return np.array([np.asarray(c, dtype=float).reshape(tuple(sh)) for c, sh in zip(comps, q['sh'])])
    return list(comps) if k == 'list' else tuple(comps)


def project(r, D):
    """observation -> [sh, v] on the lattice 1/D (a float counts as shape ())"""
    if isinstance(r, (float, int)) and not isinstance(r, np.ndarray):
        sh = []
    else:
        sh = [int(x) for x in np.shape(r)]
    out = []
    for x in np.asarray(r, dtype=float).ravel(order='C'):
        s = snap(x, D)
        out.append([0, 0] if (s == OFF or isinstance(s, float)) else to_q(s))
    return {'k': 'ok', 'sh': sh, 'v': out}


def observe(det, m, param, D):
    try:
        with warnings.catch_warnings():
            warnings.simplefilter('ignore')
            r = getattr(det, METH[m])(param)
    except Exception as ex:                                  # the outcome is decided by the specification
        return {'k': 'err', 'exc': type(ex).__name__}, None
    if m == 'measure' and not isinstance(r, (float, np.ndarray)):
        return {'k': 'ok', 'sh': ['not-float-or-array'], 'v': []}, r
    return project(r, D), r


def form_of(q):
    shs = [list(s) for s in q['sh']]
    if all(s == [] for s in shs):
        return 'scalar'
    if len(shs) == 2 and shs[0] != shs[1]:
        return 'broadcast'
    if any(0 in s for s in shs):
        return 'empty'
    return 'array'


# ------------------------------------------------------------------ spec -> code: exported cases
def literal_clause(exp, o):
    if exp['k'] in ('any', 'shape'):
        return None
    if exp['k'] == 'err':
        return None if o['k'] == 'err' else 'not-raised'
    if o['k'] != 'ok':
        return 'raised'
    if [int(x) for x in exp['sh']] != o['sh']:
        return 'shape'
    if [list(x) for x in exp['v']] != o['v']:
        return 'value'
    return None


def cell_of(tag):
    return 'ragged' if tag.get('ragged') else ('flip' if tag.get('flip') else 'plain')


def make_sig(cls, m, form, cell, prev, clause):
    """family-level signature; the pinned classes (mirrored frame, ragged measure, aliasing) are one family each"""
    if cell == 'ragged':
        return {'stage': STAGE, 'cls': cls, 'm': m, 'cell': cell, 'clause': clause}
    if cell == 'flip':
        return {'stage': STAGE, 'cls': cls, 'cell': cell, 'clause': clause}
    if cls in ('spect', 'ffs', 'elekta') or m == 'props':
        return {'stage': STAGE, 'cls': cls, 'clause': clause}
    if prev in ('mutret', 'mutaxis'):
        return {'stage': STAGE, 'cls': cls, 'prev': prev, 'clause': clause}
    return {'stage': STAGE, 'cls': cls, 'm': m, 'form': form, 'cell': cell, 'prev': prev, 'clause': clause}


def replay_cases(path, seed, variants):
    """every exported case under `variants` spellings; returns (mismatches, n_exec, n_cases, leaves)"""
    bad, nexec, leaves = [], 0, {}
    seen = set()
    with open(path) as f:
        lines = [ln for ln in f if ln.strip()]
    for ln in lines:
        if ln in seen:
            continue
        seen.add(ln)
        rec = json.loads(ln)
        a, exp, tag = rec['a'], rec['exp'], rec['tag']
        g = a['g']
        for var in range(variants):
            rng = random.Random('%s/%s/%d' % (seed, ln[:4000], var))
            if g == 'ctor':
                d = a['d']
                try:
                    build_det(d, rng)
                    o = {'k': 'ok'}
                except Exception as ex:
                    o = {'k': 'err', 'exc': type(ex).__name__}
                nexec += 1
                key = ('ctor', d['cls'], exp['k'])
                leaves[key] = leaves.get(key, 0) + 1
                if o['k'] != exp['k']:
                    bad.append(({'stage': STAGE, 'cls': d['cls'], 'm': 'ctor', 'form': 'ctor',
                                 'cell': 'plain' if exp['k'] == 'ok' else 'degenerate', 'prev': 'fresh',
                                 'clause': 'raised' if exp['k'] == 'ok' else 'not-raised'},
                                {'case': a, 'expected': exp, 'observed': o, 'variant': var}))
                continue
            if g == 'shape':
                # parameter forms only: a canonical detector of the class, parameters 0
                cls = a['cls']
                d = canon_det(cls)
                q = {'m': a['m'], 'sh': a['shs'],
                     'v': [[P()] * int(np.prod(s, dtype=int)) for s in a['shs']]}
                if exp['sh'] == [-1]:
                    continue
                exp2 = {'k': 'shape-only', 'sh': exp['sh']}
            else:
                d, q = a['d'], a['q']
                exp2 = exp
            D = lattice(d, q)
            if D is None:
                raise MachineryError('exported case beyond the lattice bound: %s' % ln[:300])
            det, _ = build_det(d, rng)
            par = build_param(d, q, rng)
            o, _raw = observe(det, q['m'], par, D)
            nexec += 1
            key = (d['cls'], q['m'], form_of(q), exp2['k'])
            leaves[key] = leaves.get(key, 0) + 1
            if exp2['k'] == 'shape-only':
                cl = 'raised' if o['k'] != 'ok' else ('shape' if o['sh'] != [int(x) for x in exp2['sh']] else None)
                tg = {'ragged': a['m'] == 'measure' and len(a['shs']) == 2 and a['shs'][0] != a['shs'][1]}
            else:
                cl = literal_clause(exp2, o)
                tg = tag
            if cl:
                bad.append((make_sig(d['cls'], q['m'], form_of(q), cell_of(tg), 'fresh', cl),
                            {'case': a, 'expected': exp2, 'observed': o, 'variant': var}))
    return bad, nexec, len(seen), leaves


def canon_det(cls):
    ax = {1: [[qj(3), qj(4)]], 2: [[qj(1), qj(0), qj(0)], [qj(0), qj(0), qj(1)]]}[ndim_of(cls)]
    n = ndim_of(cls)
    return {'cls': cls, 'ax': ax, 'r': qj(2), 'cb': True,
            'lo': [PA(F(3, 5), F(-4, 5)) if angular(cls, j) else PL(-2) for j in range(n)],
            'hi': [PA(F(3, 5), F(4, 5)) if angular(cls, j) else PL(2) for j in range(n)]}


def run_hist(hist, rng):
    """execute a history on ONE real object; one outcome per action"""
    d = hist[0]['d']
    res = []
    try:
        det, owned = build_det(d, rng, owned_axis=True)
    except Exception as ex:
        return [{'k': 'err', 'exc': type(ex).__name__}] + [{'k': 'none'}] * (len(hist) - 1)
    res.append({'k': 'ok'})
    last = None
    for h in hist[1:]:
        if h['a'] == 'query':
            D = lattice(d, h['q'])
            par = build_param(d, h['q'], rng)
            o, last = observe(det, h['q']['m'], par, D)
            res.append(o)
        elif h['a'] == 'mutaxis':
            if owned is not None:
                owned[...] = 7.5
            res.append({'k': 'none'})
        elif h['a'] == 'mutret':
            if isinstance(last, np.ndarray):
                try:
                    last[...] = -3.25
                except ValueError:
                    pass                      # a read-only result refuses the write: nothing happened
            res.append({'k': 'none'})
        else:
            raise MachineryError('unknown action ' + str(h))
    return res


def replay_hist(path, seed):
    bad, n = [], 0
    seen = set()
    with open(path) as f:
        for ln in f:
            if not ln.strip() or ln in seen:
                continue
            seen.add(ln)
            st = json.loads(ln)
            hist, exp = st['hist'], st['res']
            if not hist:
                continue
            n += 1
            rng = random.Random('%s/%s' % (seed, ln[:3000]))
            res = run_hist(hist, rng)
            last, o = hist[-1], res[-1]
            if last['a'] == 'ctor':
                if o['k'] != exp['k']:
                    bad.append(({'stage': STAGE, 'cls': last['d']['cls'], 'm': 'ctor', 'form': 'ctor',
                                 'cell': 'degenerate' if exp['k'] == 'err' else 'plain', 'prev': 'fresh',
                                 'clause': 'raised' if exp['k'] == 'ok' else 'not-raised'},
                                {'hist': hist, 'expected': exp, 'observed': o}))
            elif last['a'] == 'query':
                cl = literal_clause(exp, o)
                if cl:
                    acts = [h['a'] for h in hist[1:-1]]
                    prev = 'mutret' if 'mutret' in acts else ('mutaxis' if 'mutaxis' in acts else ('query' if acts else 'fresh'))
                    bad.append((make_sig(hist[0]['d']['cls'], last['q']['m'], form_of(last['q']), 'plain', prev, cl),
                                {'hist': hist, 'expected': exp, 'observed': o}))
    return bad, n


# ------------------------------------------------------------------ code -> spec: drivers
TRIPLES = [(3, 4, 5), (5, 12, 13), (8, 15, 17), (7, 24, 25), (20, 21, 29)]


def rand_cs(rng, maxden=29, half=True):
    """a rational point (c, s) of the unit circle; half: |angle| <= pi/2"""
    k = rng.randrange(8)
    if k == 0:
        return F(1), F(0)
    a, b, h = rng.choice([t for t in TRIPLES if t[2] <= maxden])
    if rng.random() < 0.5:
        a, b = b, a
    c, s = F(a, h), F(b, h) * rng.choice([1, -1])
    if not half and rng.random() < 0.3:
        c = -c
    return c, s


def rand_axis2(rng):
    k = rng.randrange(4)
    if k == 0:
        v = rng.choice([(1, 0), (0, 1), (-1, 0), (0, -1)])
    else:
        a, b, _h = rng.choice(TRIPLES[:4])
        v = rng.choice([(a, b), (-b, a), (b, -a), (-a, -b), (b, a)])
    sc = rng.choice([1, 1, 2, 3])
    return [F(x * sc) for x in v]


ROT3 = None


def rat_rotations():
    """a pool of rational rotation matrices (products of axis rotations by Pythagorean angles)"""
    global ROT3
    if ROT3 is not None:
        return ROT3

    def rz(c, s):
        return [[c, -s, 0], [s, c, 0], [0, 0, 1]]

    def rx(c, s):
        return [[1, 0, 0], [0, c, -s], [0, s, c]]

    def mm(A, B):
        return [[sum(A[i][k] * B[k][j] for k in range(3)) for j in range(3)] for i in range(3)]
    angs = [(F(1), F(0)), (F(0), F(1)), (F(-1), F(0)), (F(0), F(-1)), (F(3, 5), F(4, 5)), (F(4, 5), F(-3, 5)), (F(-3, 5), F(4, 5))]
    out = []
    for a in angs:
        for b in angs:
            for c in angs[:5]:
                out.append(mm(rz(*a), mm(rx(*b), rz(*c))))
    k = [F(1, 3), F(2, 3), F(2, 3)]
    K = [[0, -k[2], k[1]], [k[2], 0, -k[0]], [-k[1], k[0], 0]]
    for c, s in angs[1:]:
        out.append([[c * (i == j) + s * K[i][j] + (1 - c) * k[i] * k[j] for j in range(3)] for i in range(3)])
    ROT3 = out
    return out


def int_vec(v):
    """the primitive integer vector in the direction of the rational vector v"""
    L = math.lcm(*[F(x).denominator for x in v])
    w = [int(F(x) * L) for x in v]
    g = math.gcd(*[abs(x) for x in w]) or 1
    return [F(x // g) for x in w]


def rand_axes3(rng, cls):
    R = rng.choice(rat_rotations())
    a1 = [R[i][0] for i in range(3)]
    a2 = [R[i][2] for i in range(3)]
    if cls == 'flat2' and rng.random() < 0.25:
        # sheared frame: a2 := 3/5 a1 + 4/5 a2 (still a unit vector)
        a2 = [F(3, 5) * x + F(4, 5) * y for x, y in zip(a1, a2)]
    # integer spellings: the perpendicularity test of the curved classes is exact
    a1, a2 = int_vec(a1), int_vec(a2)
    sc = rng.choice([1, 1, 2])
    return [[x * sc for x in a1], a2]


def rand_det(rng, cls=None):
    cls = cls or rng.choice(['flat1', 'circ', 'flat2', 'cyl', 'sph'])
    n = ndim_of(cls)
    ax = [rand_axis2(rng)] if n == 1 else rand_axes3(rng, cls)
    r = rng.choice([F(1), F(2), F(5), F(1, 2), F(3, 2), F(10)]) if cls in ('circ', 'cyl', 'sph') else F(1)
    lo, hi = [], []
    for j in range(n):
        if angular(cls, j):
            k = rng.randrange(3)
            if k == 0 and not (cls == 'sph' and j == 1):
                lo.append(PA(0, -1)), hi.append(PA(0, 1))                  # +- pi/2 as in the docstrings
            elif k == 1:
                lo.append(PA(F(3, 5), F(-4, 5))), hi.append(PA(F(3, 5), F(4, 5)))
            else:
                lo.append(PA(F(12, 13), F(-5, 13))), hi.append(PA(F(4, 5), F(3, 5)))
        else:
            a, b = rng.choice([(-2, 2), (0, 3), (F(-1, 2), F(5, 2))])
            lo.append(PL(a)), hi.append(PL(b))
    return {'cls': cls, 'ax': [[qj(x) for x in v] for v in ax], 'r': qj(r), 'cb': rng.random() < 0.7, 'lo': lo, 'hi': hi}


SH1 = [[], [], [1], [2], [3], [0], [5], [1, 1], [2, 1], [1, 3], [2, 3], [3, 2], [0, 2], [2, 0], [1, 2, 1], [2, 1, 3], [2, 2, 2]]
SH2 = [([], []), ([], []), ([1], [1]), ([3], [3]), ([0], [0]), ([4], [4]), ([2, 3], [2, 3]), ([2, 1], [1, 3]), ([3], []), ([], [2]),
       ([2, 1], [3]), ([1, 1], [1, 1]), ([1], []), ([3, 1], [1, 2]), ([2, 1, 1], [1, 3]), ([2, 2, 2], [2, 2, 2]), ([1, 2], [2, 1]),
       ([0, 2], [0, 2]), ([2, 1], [1, 0])]


def rand_param(rng, d, j, outside):
    cls = d['cls']
    if angular(cls, j):
        lo, hi = d['lo'][j], d['hi'][j]
        klo, khi = fq(lo['s']), fq(hi['s'])          # corners have c >= 0: the sine orders them
        for _ in range(50):
            c, s = rand_cs(rng, 17, half=not outside)
            if cls == 'sph' and j == 1 and c <= 0:
                continue
            inside = c >= 0 and klo <= s <= khi
            if inside != outside:
                return PA(c, s)
        return PA(1, 0) if not outside else PA(F(-3, 5), F(4, 5))
    lo, hi = fq(d['lo'][j]['q']), fq(d['hi'][j]['q'])
    if outside:
        return PL(rng.choice([hi + F(1, 2), lo - 1, hi + 3]))
    return PL(rng.choice([lo, hi, lo + (hi - lo) * F(rng.randrange(0, 9), 8)]))


def rand_query(rng, d, m=None):
    cls = d['cls']
    n = ndim_of(cls)
    m = m or rng.choice(['surface', 'deriv', 'normal', 'measure'])
    shs = [rng.choice(SH1)] if n == 1 else list(rng.choice(SH2))
    some_out = rng.random() < 0.25
    jout = rng.randrange(n)                      # the coordinate that carries the parameter outside
    v = []
    for j, sh in enumerate(shs):
        k = int(np.prod(sh, dtype=int))
        v.append([rand_param(rng, d, j, some_out and j == jout and i == k // 2) for i in range(k)])
    return {'m': m, 'sh': [list(s) for s in shs], 'v': v}


def query_event(d, q, rng, det=None):
    D = lattice(d, q)
    if D is None:
        return None
    if det is None:
        try:
            det, _ = build_det(d, rng)
        except Exception as ex:
            return {'fn': 'ctor', 'a': {'d': d}, 'o': {'k': 'err', 'exc': type(ex).__name__}}
    o, _r = observe(det, q['m'], build_param(d, q, rng), D)
    return {'fn': 'query', 'a': {'d': d, 'q': q}, 'o': o}


def derived_detectors(rng):
    """detectors that geometries build: (descriptor, real detector, label)"""
    o = odl()
    out = []
    apart = o.uniform_partition(0, 2 * np.pi, 8)
    lo1, hi1 = PL(-2), PL(2)
    alo, ahi = PA(F(3, 5), F(-4, 5)), PA(F(3, 5), F(4, 5))
    d1 = o.uniform_partition(-2, 2, 4)
    dang = o.uniform_partition(ang(F(3, 5), F(-4, 5)), ang(F(3, 5), F(4, 5)), 4)
    d2 = o.uniform_partition([-2, -2], [2, 2], [4, 3])
    d2a = o.uniform_partition([ang(F(3, 5), F(-4, 5)), -2], [ang(F(3, 5), F(4, 5)), 2], [4, 3])
    d2s = o.uniform_partition([ang(F(3, 5), F(-4, 5))] * 2, [ang(F(3, 5), F(4, 5))] * 2, [4, 3])
    for cb in (True, False):
        for ax in ([3, 4], [1, 0], [-4, 3]):
            g = o.tomo.Parallel2dGeometry(apart, d1, det_axis_init=ax, det_pos_init=[ax[1], -ax[0]], check_bounds=cb)
            desc = {'cls': 'flat1', 'ax': [[qj(x) for x in ax]], 'r': qj(1), 'cb': cb, 'lo': [lo1], 'hi': [hi1]}
            out.append((desc, g.detector, 'par2d'))
            out.append((desc, g[2:5].detector, 'par2d-sliced'))
            g = o.tomo.FanBeamGeometry(apart, dang, src_radius=3, det_radius=5, det_curvature_radius=2,
                                       det_axis_init=ax, src_to_det_init=[ax[1], -ax[0]], check_bounds=cb)
            desc = {'cls': 'circ', 'ax': [[qj(x) for x in ax]], 'r': qj(2), 'cb': cb, 'lo': [alo], 'hi': [ahi]}
            out.append((desc, g.detector, 'fan-curved'))
            out.append((desc, g[::2].detector, 'fan-curved-sliced'))
        for axes in ([[1, 0, 0], [0, 0, 1]], [[3, 4, 0], [0, 0, 1]]):
            e = [axes[0][1], -axes[0][0], 0]
            g = o.tomo.Parallel3dAxisGeometry(apart, d2, det_axes_init=axes, det_pos_init=e, check_bounds=cb)
            desc = {'cls': 'flat2', 'ax': [[qj(x) for x in v] for v in axes], 'r': qj(1), 'cb': cb,
                    'lo': [lo1, lo1], 'hi': [hi1, hi1]}
            out.append((desc, g.detector, 'par3d'))
            for cls, part, rad, los, his in (('cyl', d2a, (F(5, 2), None), [alo, lo1], [ahi, hi1]),
                                             ('sph', d2s, (F(5, 2), F(5, 2)), [alo, alo], [ahi, ahi])):
                g = o.tomo.ConeBeamGeometry(apart, part, src_radius=3, det_radius=5,
                                            det_curvature_radius=tuple(None if x is None else float(x) for x in rad),
                                            det_axes_init=axes, src_to_det_init=e, check_bounds=cb)
                desc = {'cls': cls, 'ax': [[qj(x) for x in v] for v in axes], 'r': qj(rad[0]), 'cb': cb, 'lo': los, 'hi': his}
                out.append((desc, g.detector, 'cone-' + cls))
                out.append((desc, g[1:6:2].detector, 'cone-%s-sliced' % cls))
    return out


def repr_events(rng):
    """repr(detector) / str(detector) have to return a string"""
    evs = []
    for cls in ('flat1', 'circ', 'flat2', 'cyl', 'sph'):
        d = rand_det(rng, cls)
        for fun in (repr, str):
            try:
                det, _ = build_det(d, rng)
                r = fun(det)
                o = {'k': 'ok' if isinstance(r, str) and type(det).__name__ in r else 'not-a-description'}
            except Exception as ex:
                o = {'k': 'err', 'exc': type(ex).__name__}
            evs.append({'fn': 'repr', 'a': {'cls': cls, 'fun': fun.__name__}, 'o': o, 'src': 'repr'})
    return evs


def props_events(rng, n):
    """Detector base class: partition / params / grid / shape / size / ndim / space_ndim / check_bounds, space_ndim
    argument of the base constructor and its documented domain (positive int; partition must be a RectPartition)"""
    from odl.tomo.geometry.detector import Detector
    o_ = odl()
    evs = []
    for i in range(n):
        d = rand_det(rng)
        shp = [rng.choice([1, 2, 3, 5]) for _ in range(ndim_of(d['cls']))]
        try:
            det, _ = build_det(d, rng)
            part = det.partition
            o = {'k': 'ok', 'shape': [int(x) for x in det.shape], 'size': int(det.size), 'ndim': int(det.ndim),
                 'space_ndim': int(det.space_ndim), 'cb': bool(det.check_bounds),
                 'same': bool(det.params == part.set and det.grid == part.grid and det.shape == part.shape),
                 'pshape': [int(x) for x in part.shape]}
        except Exception as ex:
            o = {'k': 'err', 'exc': type(ex).__name__}
        evs.append({'fn': 'props', 'a': {'cls': d['cls'], 'cb': d['cb'], 'sd': -1}, 'o': o, 'src': 'props'})
        # the base class itself
        nd = rng.choice([1, 2, 3])
        part = o_.uniform_partition([0] * nd, [1] * nd, [rng.choice([1, 2, 4]) for _ in range(nd)])
        sd = rng.choice([-1, 1, 2, 5, 0, -2])           # -1 = argument omitted
        bad_part = rng.random() < 0.15
        try:
            arg = part.set if bad_part else part          # an IntervalProd is not a RectPartition
            det = Detector(arg) if sd == -1 else (Detector(arg, sd) if rng.random() < 0.5 else Detector(arg, space_ndim=sd))
            o = {'k': 'ok', 'shape': [int(x) for x in det.shape], 'size': int(det.size), 'ndim': int(det.ndim),
                 'space_ndim': int(det.space_ndim), 'cb': bool(det.check_bounds),
                 'same': bool(det.params == part.set and det.grid == part.grid), 'pshape': [int(x) for x in part.shape]}
        except Exception as ex:
            o = {'k': 'err', 'exc': type(ex).__name__}
        evs.append({'fn': 'props', 'a': {'cls': 'base', 'cb': True, 'sd': -3 if bad_part else (sd if sd != -1 else -1), 'nd': nd},
                    'o': o, 'src': 'props'})
    return evs


def dq_event(rng):
    """relational: symmetric difference quotient of surface against surface_deriv on the real object"""
    d = rand_det(rng)
    d['cb'] = False
    cls = d['cls']
    try:
        det, _ = build_det(d, rng)
        n = ndim_of(cls)
        p0 = [rng.uniform(-0.9, 0.9) for _ in range(n)]
        h = 1e-5
        dq, dv = [], []
        der = np.asarray(det.surface_deriv(p0[0] if n == 1 else p0), dtype=float).reshape(n, -1)
        for j in range(n):
            pp, pm = list(p0), list(p0)
            pp[j] += h
            pm[j] -= h
            sp = np.asarray(det.surface(pp[0] if n == 1 else pp), dtype=float)
            sm = np.asarray(det.surface(pm[0] if n == 1 else pm), dtype=float)
            quo = (sp - sm) / (2 * h)
            sc = max(1.0, float(np.max(np.abs(der))))
            for a, b in zip(quo.ravel(), der[j].ravel()):
                dq.append(int(round(a / sc * 2 ** 20)))
                dv.append(int(round(b / sc * 2 ** 20)))
        o = {'k': 'ok', 'dq': dq, 'dv': dv}
    except Exception as ex:
        o = {'k': 'err', 'exc': type(ex).__name__}
    return {'fn': 'dq', 'a': {'cls': cls, 'm': 'dq', 'd': d}, 'o': o}


def flatlimit_event(rng):
    """relational: a curved detector with a huge curvature radius against the flat detector with the same axes
    (|difference| <= s^2 / (2 r)); both from real objects, quantised to 2^-20 of the larger magnitude"""
    cls = rng.choice(['circ', 'cyl', 'sph'])
    d = rand_det(rng, cls)
    d['cb'] = False
    R = float(2 ** 24)
    d['r'] = qj(2 ** 24)
    if cls != 'circ':
        # frames outside the (open) mirrored-frame class, so that this clause speaks about the curvature only
        ax = rng.choice([[[1, 0, 0], [0, 0, 1]], [[3, 4, 0], [0, 0, 1]], [[0, 0, 1], [1, 0, 0]], [[3, 4, 0], [-4, 3, 0]]])
        d['ax'] = [[qj(x) for x in v] for v in ax]
    n = ndim_of(cls)
    flat = dict(d, cls='flat1' if cls == 'circ' else 'flat2', r=qj(1), lo=[PL(-3)] * n, hi=[PL(3)] * n)
    try:
        cur, _ = build_det(d, rng)
        fl, _ = build_det(flat, rng)
        n = ndim_of(cls)
        dq, dv = [], []
        for _ in range(4):
            s = [rng.uniform(-2, 2) for _ in range(n)]
            pc = [s[j] / R if angular(cls, j) else s[j] for j in range(n)]
            a = np.asarray(cur.surface(pc[0] if n == 1 else pc), dtype=float)
            b = np.asarray(fl.surface(s[0] if n == 1 else s), dtype=float)
            na = np.asarray(cur.surface_normal(pc[0] if n == 1 else pc), dtype=float)
            nb = np.asarray(fl.surface_normal(s[0] if n == 1 else s), dtype=float)
            sc = max(1.0, float(np.max(np.abs(b))))
            for x, y in list(zip(a.ravel(), b.ravel())) + list(zip(na.ravel() * sc, nb.ravel() * sc)):
                dq.append(int(round(x / sc * 2 ** 20)))
                dv.append(int(round(y / sc * 2 ** 20)))
        o = {'k': 'ok', 'dq': dq, 'dv': dv}
    except Exception as ex:
        o = {'k': 'err', 'exc': type(ex).__name__}
    return {'fn': 'dq', 'a': {'cls': cls, 'm': 'flatlimit', 'd': d}, 'o': o}


def ffs_events(rng, n):
    from odl.tomo.util.source_detector_shifts import flying_focal_spot
    o = odl()
    evs = []
    for i in range(n):
        na = rng.choice([1, 2, 3, 5, 8])
        apart = o.uniform_partition(0, na, na)              # grid points i + 1/2
        k = rng.choice([1, 2, 3])
        dim = rng.choice([2, 3])
        shifts = [[F(rng.randrange(-8, 9), 4) for _ in range(dim)] for _ in range(k)]
        form = rng.choice(['scalar', 'array', 'array', 'list'])
        cnt = 1 if form == 'scalar' else rng.choice([1, 2, 4, 7])
        idx, angles = [], []
        for _ in range(cnt):
            j = rng.randrange(na)
            off = rng.choice([0.0, 0.25, -0.25, 0.375])
            idx.append(j)
            angles.append(j + 0.5 + off)
        if rng.random() < 0.2:                               # beyond the interval: nearest grid point = the edge
            idx[0], angles[0] = (0, -0.75) if rng.random() < 0.5 else (na - 1, na + 1.25)
        arg = angles[0] if form == 'scalar' else (np.array(angles) if form == 'array' else list(angles))
        sk = rng.choice(['list', 'arr', 'tuple'])
        sh = [[float(x) for x in v] for v in shifts]
        sh = np.array(sh) if sk == 'arr' else (tuple(tuple(v) for v in sh) if sk == 'tuple' else sh)
        try:
            r = flying_focal_spot(arg, apart, sh)
            r = np.asarray(r, dtype=float)
            v = [[qj(snap(x, 4)) if snap(x, 4) != OFF else [0, 0] for x in row] for row in r.reshape(-1, dim)]
            ob = {'k': 'ok', 'sh': list(r.shape), 'v': v}
        except Exception as ex:
            ob = {'k': 'err', 'exc': type(ex).__name__}
        evs.append({'fn': 'ffs', 'a': {'idx': idx, 'shifts': [[qj(x) for x in v] for v in shifts], 'form': form}, 'o': ob})
    return evs


def spect_events(rng, n):
    o = odl()
    evs = []
    apart = o.uniform_partition(0, 2 * np.pi, 4)
    dpart = o.uniform_partition([-1, -1], [1, 1], [2, 2])
    angles = [0.0, ang(F(3, 5), F(4, 5)), np.pi / 2, ang(F(-4, 5), F(3, 5))]
    for i in range(n):
        r = rng.choice([F(2), F(7), F(1, 2), F(1), F(13, 4)])
        form = rng.choice(['default', 'explicit', 'matrix', 'default-kw'])
        t = [F(rng.randrange(-4, 5), 2) for _ in range(3)] if rng.random() < 0.5 else [F(0)] * 3
        kw = {}
        if any(t):
            kw['translation'] = [float(x) for x in t]
        e = [F(0), F(1), F(0)]
        try:
            if form == 'default':
                g = o.tomo.ParallelHoleCollimatorGeometry(apart, dpart, float(r), **kw)
            elif form == 'default-kw':
                g = o.tomo.ParallelHoleCollimatorGeometry(apart, dpart, det_radius=np.float64(float(r)), axis=(0, 0, 1), **kw)
            elif form == 'explicit':
                c, s = rand_cs(rng, 13, half=False)
                e = [c, s, F(0)]
                sc = rng.choice([1, 3, F(1, 2)])
                g = o.tomo.ParallelHoleCollimatorGeometry(apart, dpart, float(r), orig_to_det_init=[float(x * sc) for x in e],
                                                          det_axes_init=[[float(-s), float(c), 0], [0, 0, 1]], **kw)
            else:
                c, s = rand_cs(rng, 13, half=False)
                M = [[c, -s, F(0)], [s, c, F(0)], [F(0), F(0), F(1)]]
                e = [M[i][1] for i in range(3)]
                mat = [[float(x) for x in row] for row in M]
                kw = {}
                if any(t):
                    mat = [row + [float(t[i])] for i, row in enumerate(mat)]
                g = o.tomo.ParallelHoleCollimatorGeometry.frommatrix(apart, dpart, float(r), np.array(mat))
            D = r.denominator * 2 * 65 * 25
            ref0 = np.asarray(g.det_refpoint(0.0), dtype=float)
            n2 = []
            for a in angles:
                w = np.asarray(g.det_refpoint(a), dtype=float) - np.array([float(x) for x in t])
                sn = snap(float(np.dot(w, w)), r.denominator ** 2)
                n2.append([0, 0] if sn == OFF else qj(sn))
            rr = snap(float(g.det_radius), r.denominator)
            ob = {'k': 'ok', 'radius': [0, 0] if rr == OFF else qj(rr),
                  'ref0': [[0, 0] if snap(x, D) == OFF else qj(snap(x, D)) for x in ref0], 'n2': n2}
        except Exception as ex:
            ob = {'k': 'err', 'exc': type(ex).__name__}
        evs.append({'fn': 'spect', 'a': {'r': qj(r), 't': [qj(x) for x in t], 'e': [qj(x) for x in e], 'form': form}, 'o': ob})
    return evs


def near_q(x, maxden=5000):
    """the rational with a denominator <= maxden next to the float x (or OFFQ)"""
    fr = F(float(x)).limit_denominator(maxden)
    return qj(fr) if abs(float(fr) - float(x)) <= 1e-9 * max(1.0, abs(float(x))) else [0, 0]


def elekta_events(rng, n):
    """factories of odl/contrib/tomo/elekta.py: only what the docstrings state"""
    from odl.contrib.tomo import elekta
    evs = []
    conf = {'icon': (elekta.elekta_icon_geometry, F(6, 5), F(5), 332, (780, 720), (390, 0)),
            'xvi': (elekta.elekta_xvi_geometry, F(0), None, 650, (1024, 1024), (512, 512))}
    for i in range(n):
        sysname = rng.choice(['icon', 'xvi'])
        fun, lo, hi, ndef, shape_def, pp_def = conf[sysname]
        mode = ['default', 'num', 'given', 'both'][i % 4] if i < 8 else rng.choice(['default', 'num', 'given', 'given', 'both'])
        kw = {}
        sad, sdd = rng.choice([(None, None), (F(500), F(800)), (F(1561, 2), F(2001, 2))])
        if sad is not None:
            kw['sad'], kw['sdd'] = float(sad), float(sdd)
        else:
            sad, sdd = (F(780), F(1000)) if sysname == 'icon' else (F(1000), F(1500))
        shape = list(shape_def)
        if rng.random() < 0.5:
            shape = [rng.choice([1, 2, 10, 100]), rng.choice([1, 3, 50])]
            kw['detector_shape'] = rng.choice([list, tuple, np.array])(shape)
        pp = list(pp_def)
        if rng.random() < 0.5 and shape == list(shape_def):
            pp = [F(rng.randrange(0, 2000), 4), F(rng.randrange(0, 2000), 4)]
            kw['piercing_point'] = [float(x) for x in pp]
        nexp = ndef
        given = []
        if mode in ('num', 'both'):
            nexp = rng.choice([1, 2, 7, 90])
            kw['num_angles'] = nexp
        if mode in ('given', 'both'):
            m = rng.choice([2, 3, 5])
            given = sorted(F(rng.randrange(0, 48), 8) for _ in range(m))
            given = [g + F(j, 16) for j, g in enumerate(given)]          # strictly increasing
            kw['angles'] = rng.choice([list, np.array])([float(x) for x in given])
            nexp = len(given)
        try:
            g = fun(**kw)
            ang_obs = np.asarray(g.angles, dtype=float)
            dp = g.det_partition
            cell = dp.cell_sides * np.array(shape) / np.array(shape_def)         # full-resolution pixel size
            o = {'k': 'ok', 'src': near_q(g.src_radius), 'det': near_q(g.det_radius), 'shape': [int(x) for x in dp.shape],
                 'nang': int(ang_obs.size), 'pp': [near_q(-dp.min_pt[j] / cell[j]) for j in range(2)],
                 'given': [near_q(x, 64) for x in ang_obs] if mode == 'given' else []}
            if mode == 'default':
                # documented defaults: np.linspace(1.2, 5.0, 332) / np.linspace(0, 2 pi, 650, endpoint=False)
                first_doc = float(lo)
                last_doc = float(hi) if hi is not None else 2 * np.pi * (ndef - 1) / ndef
                span = last_doc - first_doc
                o['first'] = near_q((ang_obs[0] - first_doc) / span)
                o['last'] = near_q((ang_obs[-1] - first_doc) / span)
        except Exception as ex:
            o = {'k': 'err', 'exc': type(ex).__name__}
        evs.append({'fn': 'elekta', 'a': {'sys': sysname, 'mode': mode, 'sad': qj(sad), 'sdd': qj(sdd), 'shape': shape,
                                           'pp': [qj(x) for x in pp], 'nang': nexp, 'given': [qj(x) for x in given]},
                    'o': o, 'src': 'elekta'})
    return evs


def rand_hist(rng, length):
    d = rand_det(rng)
    hist = [{'a': 'ctor', 'd': d}]
    qs = [rand_query(rng, d) for _ in range(3)]
    qs = [q for q in qs if lattice(d, q) is not None]
    if not qs:
        return None
    for _ in range(length):
        k = rng.random()
        if k < 0.6 or hist[-1]['a'] != 'query':
            hist.append({'a': 'query', 'q': rng.choice(qs)})
        elif k < 0.8:
            hist.append({'a': 'mutaxis'})
        else:
            hist.append({'a': 'mutret'})
    if hist[-1]['a'] != 'query':
        hist.append({'a': 'query', 'q': rng.choice(qs)})
    return hist


def driver_events(seed, nrand, nhist, ndq, nffs, nspect, nelekta=16):
    rng = random.Random('detector-driver/%s' % seed)
    evs = []
    # docstring examples (axis [1, 0] / axes [(1,0,0),(0,0,1)], radius 2, partition +- pi/2 x +- 4)
    for cls in ('flat1', 'circ', 'flat2', 'cyl', 'sph'):
        n = ndim_of(cls)
        d = {'cls': cls, 'ax': [[qj(1), qj(0)]] if n == 1 else [[qj(1), qj(0), qj(0)], [qj(0), qj(0), qj(1)]],
             'r': qj(2 if cls in ('circ', 'cyl', 'sph') else 1), 'cb': True,
             'lo': [PA(0, -1) if angular(cls, j) else PL(-4) for j in range(n)],
             'hi': [PA(0, 1) if angular(cls, j) else PL(4) for j in range(n)]}
        if cls == 'sph':
            d['lo'][1], d['hi'][1] = PA(F(3, 5), F(-4, 5)), PA(F(3, 5), F(4, 5))
        for m in METH:
            for shs in ([[]], [[2]], [[4, 5]]) if n == 1 else ([[], []], [[3], [3]], [[4, 5], [4, 5]], [[4, 1], [1, 5]]):
                q = {'m': m, 'sh': shs, 'v': [[P()] * int(np.prod(s, dtype=int)) for s in shs]}
                if shs in ([[2]], [[3], [3]]):
                    q['v'][0] = ([PA(0, -1), PA(1, 0), PA(0, 1)] if angular(cls, 0) else [PL(0), PL(1), PL(-1)])[:len(q['v'][0])]
                ev = query_event(d, q, rng)
                ev['src'] = 'doc'
                evs.append(ev)
    for desc, det, label in derived_detectors(rng):
        for _ in range(3):
            q = rand_query(rng, desc)
            if lattice(desc, q) is None:
                continue
            ev = query_event(desc, q, rng, det=det)
            ev['src'] = 'derived:' + label
            evs.append(ev)
    for i in range(nrand):
        d = rand_det(rng)
        q = rand_query(rng, d)
        ev = query_event(d, q, rng)
        if ev is None:
            continue
        ev['src'] = 'random'
        evs.append(ev)
    for i in range(nhist):
        hist = rand_hist(rng, rng.choice([2, 3, 4, 6]))
        if hist is None:
            continue
        res = run_hist(hist, rng)
        evs.append({'fn': 'hist', 'a': {'hist': hist}, 'o': {'res': res}, 'src': 'history'})
    for i in range(ndq):
        ev = dq_event(rng) if i % 3 else flatlimit_event(rng)
        ev['src'] = ev['a']['m']
        evs.append(ev)
    for ev in ffs_events(rng, nffs) + spect_events(rng, nspect):
        ev['src'] = ev['fn']
        evs.append(ev)
    evs.extend(repr_events(rng))
    evs.extend(props_events(rng, 12 if nrand < 2000 else 80))
    evs.extend(elekta_events(rng, nelekta))
    return evs


# ------------------------------------------------------------------ TLC
def tlc_retry(module, cfg, work, env, workers=1):
    res = run_tlc(module, cfg, work, env=env, workers=workers, timeout=1500, heap='2g')
    if res.status == 'machinery':
        if env.get('OUT_FILE') and os.path.exists(env['OUT_FILE']):
            os.remove(env['OUT_FILE'])
        res = run_tlc(module, cfg, work, env=env, workers=workers, timeout=1500, heap='2g')
    return res


def validate(ctx, events, label, nchunk):
    for i, ev in enumerate(events):
        if ev.get('id') != CORRUPT_ID:
            ev['id'] = i + 1
    nch = max(1, (len(events) + nchunk - 1) // nchunk)
    chunks = [events[k::nch] for k in range(nch)]
    paths = []
    for k, ch in enumerate(chunks):
        p = os.path.join(ctx.work, 'det_%s_%d.ndjson' % (label, k))
        with open(p, 'w') as f:
            for ev in ch:
                f.write(json.dumps({'id': ev['id'], 'fn': ev['fn'], 'a': ev['a'], 'o': ev['o']}) + '\n')
        paths.append(p)

    def go(p):
        return tlc_retry('Trace_Detector.tla', 'Trace_Detector.cfg', ctx.work, {'TRACE_FILE': p, 'ROT_FIXED': '-'})
    with ThreadPoolExecutor(max_workers=8) as ex:
        results = list(ex.map(go, paths))
    rejected = {}
    for k, res in enumerate(results):
        for _line, ev_id, clauses in parse_fails(res.output):
            rejected[ev_id] = clauses
    return rejected, results


def clauses_of(text):
    return re.findall(r'<<\s*"([\w-]+)"\s*,\s*"([\w-]+)"\s*,\s*"([\w-]+)"\s*,\s*"([\w-]+)"\s*,\s*"([\w-]+)"\s*>>', text)


def event_form(ev):
    if ev['fn'] == 'query':
        return form_of(ev['a']['q'])
    return ev['fn']


# ------------------------------------------------------------------ the stage
def _replay_worker(args):
    g, path, seed, variants = args
    if g == 'hist':
        bad, n = replay_hist(path, seed)
        return g, bad, n, n, {('hist', 'state'): n}
    bad, nexec, ncases, leaves = replay_cases(path, seed, variants)
    return g, bad, nexec, ncases, leaves


def _driver_worker(args):
    return driver_events(*args)


def run_stage(ctx):
    import multiprocessing as mp
    import time
    thorough = ctx.tier != 'quick'
    t0 = time.time()
    laps = ctx.extra.setdefault('detector_laps_s', {})
    env = {'DET_TIER': 'thorough' if thorough else 'quick', 'ROT_FIXED': '-', 'DET_SUB': '0', 'DET_LEN': '5' if thorough else '4'}
    groups = GROUPS if not thorough else ('small', 'circ', 'flat2', 'cyl/1', 'cyl/2', 'sph/1', 'sph/2')
    outs = {g: os.path.join(ctx.work, 'det_%s.ndjson' % g.replace('/', '_')) for g in groups + ('hist',)}
    variants = 2 if thorough else 1
    pool = mp.get_context('fork').Pool(6)
    nr = (12000, 2500, 600, 600, 300, 120) if thorough else (900, 200, 80, 120, 60, 16)
    fdrv = pool.apply_async(_driver_worker, ((ctx.seed,) + nr,))

    def group_job(g):
        e = dict(env, OUT_FILE=outs.get(g, ''))
        if g == 'hist':
            return g, tlc_retry('MC_DetectorHist.tla', 'MC_DetectorHist.cfg', ctx.work, e)
        if g == 'bogus':
            return g, tlc_retry('MC_Detector.tla', 'MC_Detector_bogus.cfg', ctx.work, dict(env, DET_GROUP='cyl', DET_TIER='quick', DET_SUB='0'))
        return g, tlc_retry('MC_Detector.tla', 'MC_Detector_export.cfg', ctx.work,
                            dict(e, DET_GROUP=g.split('/')[0], DET_SUB=(g.split('/') + ['0'])[1]))

    def trace_job():
        events = fdrv.get()
        laps['drivers'] = round(time.time() - t0, 1)
        # a deliberately corrupted copy of a recorded event: the trace specification has to reject it
        victim = next(ev for ev in events if ev['fn'] == 'query' and ev['o']['k'] == 'ok' and len(ev['o']['v']) >= 2
                      and ev.get('src') == 'random')
        corrupt = json.loads(json.dumps(victim))
        corrupt['id'] = CORRUPT_ID
        n0, d0 = corrupt['o']['v'][1]
        corrupt['o']['v'][1] = [n0 + d0, d0]
        events.append(corrupt)
        rejected, results = validate(ctx, events, 'drv', 1500 if thorough else 500)
        laps['trace'] = round(time.time() - t0, 1)
        return events, rejected, results

    jobs = list(groups) + ['hist', 'bogus']
    nreplayed = 0
    with ThreadPoolExecutor(max_workers=len(jobs) + 1) as ex:
        ftrace = ex.submit(trace_job)
        futs = []
        for g, res in ex.map(group_job, jobs):
            if g == 'bogus':
                ctx.add_tlc('detector-bogus', res, expect='any')
                if res.status != 'counterexample':
                    raise MachineryError('the bogus law NeverFlip was not refuted (%s)' % res.status)
                continue
            ctx.add_tlc('detector-' + g.replace('/', '-'), res)
            futs.append(pool.apply_async(_replay_worker, ((g, outs[g], ctx.seed, variants),)))
        laps['tlc'] = round(time.time() - t0, 1)
        leaves_all = {}
        for fu in futs:
            g, bad, nexec, ncases, leaves = fu.get()
            nreplayed += ncases
            ctx.traces += ncases
            for k, v in leaves.items():
                leaves_all[k] = leaves_all.get(k, 0) + v
                ctx.count(['replay', list(k)], True, n=v)
            for sig, detail in bad:
                detail['stage_module'] = STAGE
                detail['source'] = 'tlc-export:' + g
                ctx.violation(sig, detail)
            if ncases < MINCASES.get(g, 300):
                raise MachineryError('detector export %s too small: %d' % (g, ncases))
        laps['replay'] = round(time.time() - t0, 1)
        events, rejected, results = ftrace.result()
    pool.close()
    pool.join()
    for k, res in enumerate(results):
        ctx.add_tlc('trace-drv-%d' % k, res)
    if CORRUPT_ID not in rejected:
        raise MachineryError('Trace_Detector accepted a corrupted event')
    nval = 0
    for ev in events:
        if ev['id'] == CORRUPT_ID:
            continue
        nval += 1
        ctx.count(['event', ev['fn'], ev.get('src'), event_form(ev)], True)
        if ev['id'] in rejected:
            for cl, cls, m, cell, prev in clauses_of(rejected[ev['id']]):
                sig = make_sig(cls, m, event_form(ev), cell, prev, cl)
                if str(ev.get('src', '')).endswith('-sliced') and not ev['a']['d']['cb'] and cl == 'raised':
                    # geom[indices].detector: "all other parameters are the same" - check_bounds=False is not kept
                    sig = {'stage': STAGE, 'cell': 'sliced-geometry-check-bounds', 'clause': cl}
                ctx.violation(sig, {'stage_module': STAGE, 'source': ev.get('src'), 'event': ev, 'clauses': rejected[ev['id']]})
    ctx.traces += nval
    ctx.extra['detector_replayed_cases'] = nreplayed
    ctx.extra['detector_validated_events'] = nval
    ctx.extra['detector_leaves'] = {'/'.join(map(str, k)): v for k, v in sorted(leaves_all.items())}
    ctx.extra['detector_assumptions'] = ASSUMPTIONS
    ctx.assumptions = list(getattr(ctx, 'assumptions', [])) + ASSUMPTIONS


ASSUMPTIONS = [
    'detector: "aligned with the given axis / axes" of the curved classes is read as: the tangent at parameter 0 along the '
    'first parameter is radius * axis (docstring examples), along the second parameter it points along axes[1]; '
    '"shifted to cross the origin" as surface(0) = 0',
    'detector: the docstrings of Cylindrical/SphericalDetector.surface_deriv state the shapes "(2,)" / "param.shape + (2,)" '
    '(copied from the 1-d classes); the examples of the same docstrings and Flat2dDetector give '
    'broadcast(*param).shape + (2, 3), which is what the model demands',
    'detector: Detector.surface_normal documents "param.shape[:-1] + (space_ndim,)" for ndim 2; the model demands '
    'broadcast(*param).shape + (space_ndim,) like every other method',
    'detector: with check_bounds a parameter outside `params` has to raise (any exception class); degenerate axes '
    '(zero, linearly dependent, not perpendicular for the curved classes) and non-positive radii have to raise',
    'detector: poles of the sphere (cos(theta) = 0) and shapes that do not broadcast decide nothing',
    'detector: a caller overwriting the array passed as axis / the array returned by a query must not change later '
    'answers ("Fixed axis ...", "constant function evaluating to axis everywhere")',
    'flying_focal_spot: only the values per angle are demanded (the docstring has no Returns section)',
]


def replay(body):
    det = body['detail']
    if 'event' in det:
        ev = det['event']
        print('recorded   :', dumps({'fn': ev['fn'], 'a': ev['a'], 'o': ev['o']})[:1500])
        print('rejected by Trace_Detector with', det.get('clauses'))
        if ev['fn'] != 'query':
            print('re-run ./vcheck EXT with VERIF_EXT=detector')
            return 1
        same = 0
        for var in range(4):
            ev2 = query_event(ev['a']['d'], ev['a']['q'], random.Random('replay-%d' % var))
            same += ev2['o'] == ev['o']
        print('VIOLATION reproduced (%d of 4 re-executions give the recorded outcome)' % same if same else
              'the recorded outcome is not reproduced on this tree')
        return 1 if same else 0
    print('case       :', dumps(det.get('case', det.get('hist')))[:1500])
    print('expected   :', dumps(det.get('expected'))[:600])
    print('observed   :', dumps(det.get('observed'))[:600])
    return 1

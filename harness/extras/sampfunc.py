"""EXT stage `sampfunc`: how ODL turns user callables into discretised elements, and the uniform_discr* factories.

Specification: spec/sem/SampFuncSem.tla (layer A, from the docstrings of sampling_function / its wrapper / point_collocation /
DiscretizedSpace.element / uniform_discr* and the vectorization guide), spec/mach/SampFuncMachine.tla (case table + call
histories on one wrapper), spec/impl/SampFuncImpl.tla (the dispatch of discr_utils.py and the parameter resolution of
uniform_discr_fromdiscr as written, over a small NumPy array algebra), spec/cfg/MC_SampFunc*.{tla,cfg},
spec/trace/Trace_SampFunc.tla.

Pipeline
  1. TLC (one process per part n1 | n2a | n2b | fac | hist): layer C yields the layer-A table on every cell outside the
     KNOWN cells, the known cells are tight, laws of the reference, histories; every state is exported with the documented
     outcome (and the outcome of layer C).
  2. spec -> code: every exported cell is executed on real ODL with GENERATED Python callables of the exported spelling
     under several concretisations (wrapper / point_collocation / space.element; mesh built by sparse_meshgrid / by hand /
     space.meshgrid; point arrays C / F / list; out arrays C / F / non-contiguous view; constants int / float / NumPy
     scalar; function / callable object / keyword-only out; dtype spellings); histories are executed on ONE wrapper with
     caller-owned, re-used inputs and out arrays.  An observation that is literally the exported expectation is accepted;
     anything else becomes a suspect EVENT that Trace_SampFunc decides.
  3. code -> spec: Python drivers widen beyond the TLC constants (3-d domains, axes of length 1, 40 points, value shapes
     (3,), (2,2), int64, odl.vectorize, keyword-only required out, bound methods, element from array-likes / tensors / elements
     of other spaces with order, sampling_function constructor, documented preconditions of the factories) and record one event
     per call; TLC validates all of them with the total trace specification.
Violations carry family-level signatures {stage, api, clause, spell, vclass, form, out, dtype, fclass}.
"""
import itertools
import json
import multiprocessing as mp
import os
import random
import re
import time
from concurrent.futures import ThreadPoolExecutor
from fractions import Fraction
from math import gcd

import numpy as np
import odl
from odl.discr.discr_utils import sampling_function, point_collocation
from odl.discr.grid import sparse_meshgrid
from odl.util.vectorization import vectorize as odl_vectorize

from ..common import MachineryError, dumps
from ..exact import snap, to_q, OFF
from ..tlc import run_tlc, parse_fails

STANDALONE = True
STAGE = 'sampfunc'
DEN = 16                      # lattice of the sampled values (integer polynomials on coordinates with denominators <= 4)
NONEQ = [0, -1]
NONE = 99
CORRUPT_ID = 999999999
PARTS = ('n1', 'n2a', 'n2b', 'fac', 'hist')
DTYPES = {'f64': 'float64', 'f32': 'float32', 'c128': 'complex128', 'i64': 'int64', 'none': None}
DTNAME = {'float64': 'f64', 'float32': 'f32', 'complex128': 'c128', 'int64': 'i64', 'complex64': 'c64'}


def fq(q):
    return Fraction(q[0], q[1])


def flt(q):
    return float(fq(q))


# ------------------------------------------------------------------ generated callables
def _const(c, kind):
    return {'int': int, 'float': float, 'np': np.float64}[kind](c)


def expr_fn(P, nd, usex=False, full=False, constkind='int'):
    """lambda x: c + a1*x[0] + ... with the zero terms omitted (natural broadcast shape)"""
    c0 = _const(P['c'], constkind)
    a = list(P['a'])
    m = P['m']

    single = [i for i, ai in enumerate(a) if ai]
    is_coord = (not P['c'] and not m and not full and len(single) == 1 and a[single[0]] == 1)

    def f(x, c=0):
        X = (lambda i: x) if usex else (lambda i: x[i])
        if is_coord and not c:
            return X(single[0])                  # lambda x: x[0] - returns (a view of) its input
        r = c0
        for i, ai in enumerate(a):
            if ai:
                r = r + ai * X(i)
        if m:
            r = r + m * X(0) * X(nd - 1)
        if full:
            z = X(0)
            for i in range(1, nd):
                z = z + X(i)
            r = r + 0 * z
        if c:
            r = r + c
        return r
    return f


def nest(flat, vs, seqtype=list):
    if len(vs) <= 1:
        return seqtype(flat)
    m = len(flat) // vs[0]
    return seqtype(nest(flat[i * m:(i + 1) * m], vs[1:], seqtype) for i in range(vs[0]))


class CallableObject(object):
    """a callable that is not a function (inspected through __call__)"""

    def __init__(self, f):
        self.f = f

    def __call__(self, x, c=0):
        return self.f(x, c)


class DualObject(object):
    def __init__(self, f):
        self.f = f

    def __call__(self, x, out=None, c=0):
        return self.f(x, out=out, c=c)


def make_callable(F, spell, var):
    """-> the object handed to sampling_function for the abstract function F under the given spelling"""
    nd, vs, comps = F['nd'], tuple(F['vs']), F['comps']
    ck = ('int', 'float', 'np')[var % 3]
    if not vs:
        P = comps[0]
        nat = expr_fn(P, nd, usex=(spell == 'exprx'), constkind=ck)
        ful = expr_fn(P, nd, full=True, constkind=ck)
        if spell in ('expr', 'exprx'):
            return CallableObject(nat) if var % 4 == 3 else nat
        if spell == 'full':
            return ful
        if spell == 'out':
            def g_out(x, out, c=0):
                out[...] = nat(x, c)
            return g_out
        if spell == 'dual':
            if var % 2:
                def g_kw(x, *, out=None, c=0):
                    if out is None:
                        return ful(x, c)
                    out[...] = nat(x, c)
                    return out
                return g_kw

            def g_dual(x, out=None, c=0):
                if out is None:
                    return ful(x, c)
                out[...] = nat(x, c)
                return out
            return DualObject(g_dual) if var % 4 == 2 else g_dual
        if spell == 'kwreq':
            def g_kwreq(x, *, out, c=0):                      # in-place only, `out` keyword-only and required
                out[...] = nat(x, c)
            return g_kwreq
        if spell == 'method':
            class Model(object):
                def evaluate(self, x, out=None, c=0):
                    if out is None:
                        return ful(x, c)
                    out[...] = nat(x, c)
                    return out

                def plain(self, x, c=0):
                    return nat(x, c)
            return Model().evaluate if var % 2 else Model().plain     # a bound method is a callable
        if spell == 'vect':
            def scalar_f(x, c=0):
                xs = [float(x)] if nd == 1 else [float(t) for t in x]
                r = float(P['c'])
                for i, ai in enumerate(P['a']):
                    r += ai * xs[i]
                r += P['m'] * xs[0] * xs[nd - 1]
                return r + c
            return odl_vectorize(otypes=['float64'])(scalar_f)
        raise ValueError(spell)
    # tensor-valued
    nats = [expr_fn(P, nd, constkind='float') for P in comps]
    fuls = [expr_fn(P, nd, full=True, constkind='float') for P in comps]
    idxs = list(np.ndindex(*vs))

    def write(x, out, c):
        for k, ix in enumerate(idxs):
            out[ix + (Ellipsis,)] = nats[k](x, c)
    if spell == 'tuple':
        st = tuple if var % 2 else list
        return lambda x, c=0: nest([f(x, c) for f in nats], vs, st)
    if spell == 'ndarray':
        return lambda x, c=0: np.array(nest([f(x, c) for f in fuls], vs))
    if spell == 'out':
        def t_out(x, out, c=0):
            write(x, out, c)
        return t_out
    if spell == 'dual':
        def t_dual(x, out=None, c=0):
            if out is None:
                return np.array(nest([f(x, c) for f in fuls], vs))
            write(x, out, c)
            return out
        return t_dual
    if spell in ('seq', 'seqout'):
        members = []
        for P in comps:
            if not any(P['a']) and not P['m']:
                members.append(_const(P['c'], ck))            # "constants are allowed"
            elif spell == 'seq':
                members.append(expr_fn(P, nd, constkind=ck))
            else:
                def mk(f):
                    def h(x, out):
                        out[...] = f(x)
                    return h
                members.append(mk(expr_fn(P, nd, constkind=ck)))
        st = tuple if var % 4 == 1 else list
        return nest(members, vs, st)
    raise ValueError(spell)


def spell_dtype(dt, vs, var):
    """the out_dtype argument for scalar type dt ('none' | f64 ...) and value shape vs"""
    base = DTYPES[dt]
    if base is None:
        return None
    if not vs:
        return (base, np.dtype(base), getattr(np, base))[var % 3]
    return ((base, tuple(vs)), np.dtype((base, tuple(vs))), (getattr(np, base), list(vs)))[var % 3]


# ------------------------------------------------------------------ inputs
def cvs_of(inp):
    return [[flt(q) for q in cv] for cv in inp['cv']]


def pts_of(inp):
    return [[flt(q) for q in p] for p in inp['pts']]


def make_input(inp, nd, var, xbad=''):
    if xbad == 'meshlen':
        return sparse_meshgrid(*[[1.0, 2.0, 3.0]] * (nd + 1))
    if xbad == 'arrdim':
        return np.ones((nd + 1, 3))
    if xbad == 'str':
        return 'abc'
    if inp['form'] == 'mesh':
        cvs = cvs_of(inp)
        if var % 2 == 0:
            return sparse_meshgrid(*cvs)
        return tuple(np.array(cv, dtype=float).reshape([-1 if j == i else 1 for j in range(nd)]) for i, cv in enumerate(cvs))
    if inp['form'] == 'arr':
        a = np.array(pts_of(inp), dtype=float).T.reshape(nd, -1)
        k = var % 3
        if k == 0:
            return np.ascontiguousarray(a)
        if k == 1:
            return np.asfortranarray(a)
        return a.tolist()
    p = pts_of(inp)[0]
    if nd == 1:
        return (float(p[0]), np.float64(p[0]))[var % 2]
    return (list(p), tuple(p), np.array(p))[var % 3]


def sshape(inp):
    if inp['form'] == 'mesh':
        return tuple(len(cv) for cv in inp['cv'])
    if inp['form'] == 'arr':
        return (len(inp['pts']),)
    return ()


def make_out(shape, dt, mode, layout):
    base = DTYPES[dt] or 'float64'
    if mode == 'notarray':
        return np.zeros(shape).tolist()
    if mode == 'badshape':
        shape = tuple(shape[:-1]) + (shape[-1] + 1,)
    if mode == 'baddtype':
        base = 'float32' if base != 'float32' else 'float64'
    if layout == 'F':
        return np.full(shape, -77, dtype=base, order='F')
    if layout == 'view':
        big = np.full(tuple(2 * s for s in shape), -77, dtype=base)
        return big[tuple(slice(None, None, 2) for _ in shape)]
    return np.full(shape, -77, dtype=base)


def space_from_cvs(cvs, dtype):
    mins = [None if len(c) > 1 else c[0] - 0.5 for c in cvs]
    maxs = [None if len(c) > 1 else c[0] + 0.5 for c in cvs]
    part = odl.nonuniform_partition(*cvs, min_pt=mins, max_pt=maxs)
    if part.is_uniform:
        return odl.uniform_discr_frompartition(part, dtype=dtype)
    return odl.DiscretizedSpace(part, odl.tensor_space(part.shape, dtype=dtype))


# ------------------------------------------------------------------ projection
def proj_values(arr, den=DEN):
    a = np.asarray(arr)
    out = []
    for z in a.ravel(order='C'):
        if np.iscomplexobj(z):
            z = complex(z)
            re_, im_ = snap(z.real, den, a.dtype), snap(z.imag, den, a.dtype)
            v = re_ if (im_ != OFF and im_ == 0) else OFF
        elif a.dtype.kind in 'iub':
            v = Fraction(int(z))
        else:
            v = snap(float(z), den, a.dtype)
        if v == OFF or isinstance(v, float) or abs(v.numerator) > 10 ** 8:
            out.append([0, 0])
        else:
            out.append(to_q(v))
    return out


def okrec(arr, den=DEN):
    a = np.asarray(arr)
    return {'k': 'ok', 'err': '', 'sh': [int(s) for s in a.shape], 'v': proj_values(a, den)}


def errrec(ex):
    name = type(ex).__name__
    for cls in type(ex).__mro__:
        if cls.__name__ in ('TypeError', 'ValueError'):
            name = cls.__name__
            break
    return {'k': 'err', 'err': name, 'sh': [], 'v': []}


def result_dtype(res, expected):
    if isinstance(res, np.ndarray):
        return DTNAME.get(str(res.dtype), str(res.dtype))
    if hasattr(res, 'dtype') and hasattr(res, 'space'):
        return DTNAME.get(str(res.dtype), str(res.dtype))
    # a single point of a scalar-valued function gives a Python float / complex
    if isinstance(res, complex):
        return 'c128' if expected == 'c128' else 'pycomplex'
    if isinstance(res, float):
        return expected if expected in ('f64', 'f32') else 'pyfloat'
    return type(res).__name__


def want_dtype(dt):
    return 'f64' if dt == 'none' else dt


# ------------------------------------------------------------------ one call on real ODL
def domain_of(c):
    lo = [flt(q) for q in c['dom']['lo']]
    hi = [flt(q) for q in c['dom']['hi']]
    return odl.IntervalProd(lo[0], hi[0]) if len(lo) == 1 else odl.IntervalProd(lo, hi)


def exec_call(c, spell, api, var, layout='C', order='none'):
    """execute the abstract call c under one concretisation -> event (without id)"""
    F = c['F']
    nd, vs = F['nd'], tuple(F['vs'])
    ev = {'id': 0, 'kind': 'call', 'api': api, 'c': c, 'spell': spell, 'rdt': want_dtype(c['dt']), 'retisout': True,
          'order': order, 'contig': [True, True], 'var': var, 'layout': layout}
    kw = {}
    if c['kw']:
        kw['c'] = c['kw']
    try:
        fobj = make_callable(F, spell, var)
        if api == 'element':
            space = space_from_cvs(cvs_of(c['inp']), DTYPES[c['dt']])
            el = space.element(fobj, **kw) if order == 'none' else space.element(fobj, order=order, **kw)
            if el not in space:
                raise AssertionError('element not in its space')
            ev['o'] = okrec(el.asarray())
            ev['rdt'] = result_dtype(el, want_dtype(c['dt']))
            ev['contig'] = [bool(el.data.flags['C_CONTIGUOUS']), bool(el.data.flags['F_CONTIGUOUS'])]
            return ev
        w = sampling_function(fobj, domain_of(c), out_dtype=spell_dtype(c['dt'], vs, var))
        x = make_input(c['inp'], nd, var, c['xbad'])
        if c['bc'] == 'on':
            kw['bounds_check'] = True
        elif c['bc'] == 'off':
            kw['bounds_check'] = False
        if c['out'] == 'none':
            res = point_collocation(w, x, **kw) if api == 'collocation' else w(x, **kw)
        else:
            o = make_out(vs + sshape(c['inp']), c['dt'], 'ok' if c['out'] == 'nc' else c['out'], layout)
            res = point_collocation(w, x, out=o, **kw) if api == 'collocation' else w(x, out=o, **kw)
            ev['retisout'] = res is o
            res = o
        ev['o'] = okrec(res)
        ev['rdt'] = result_dtype(res, want_dtype(c['dt']))
    except Exception as ex:                                   # the outcome is data, decided by the specification
        ev['o'] = errrec(ex)
        ev['msg'] = '%s: %s' % (type(ex).__name__, str(ex)[:160])
    return ev


def literally_ok(want, ev):
    o = ev['o']
    if want['k'] == 'err':
        if o['k'] != 'err':
            return False
        return o['err'] in ('TypeError', 'ValueError') if want['err'] == 'reject' else o['err'] == want['err']
    if o['k'] != 'ok' or o['sh'] != want['sh'] or o['v'] != want['v']:
        return False
    if ev['rdt'] != want_dtype(ev['c']['dt']):
        return False
    if ev['c']['out'] in ('ok', 'nc') and not ev['retisout']:
        return False
    if (ev['order'] == 'C' and not ev['contig'][0]) or (ev['order'] == 'F' and not ev['contig'][1]):
        return False
    return True


def same_outcome(a, b):
    return a['k'] == b['k'] and (a['err'] == b['err'] or (a['k'] == 'err' and 'reject' in (a['err'], b['err']))) \
        and a['sh'] == b['sh'] and a['v'] == b['v']


def fclass(F):
    nd = F['nd']
    used = []
    for P in F['comps']:
        u = set(i for i, a in enumerate(P['a']) if a)
        if P['m']:
            u |= {0, nd - 1}
        used.append(frozenset(u))
    if all(not u for u in used):
        return 'all-const'
    if all(len(u) == nd for u in used):
        return 'full'
    if len(set(used)) == 1:
        return 'uniform-partial'
    return 'mixed'


def call_sig(ev, clause):
    c = ev['c']
    vs = c['F']['vs']
    api = ev['api'] if ev['api'] == 'element' else ('history' if ev['api'].startswith('history') else 'call')
    sig = {'stage': STAGE, 'api': api, 'clause': clause, 'spell': ev['spell'],
           'vclass': 'scalar' if not vs else ('vector' if len(vs) == 1 else 'tensor'),
           'out': c['out'], 'dtype': c['dt'], 'fclass': fclass(c['F']) if ev['spell'] == 'tuple' else '-',
           'layout': 'noncontig' if c['out'] == 'nc' else '-'}
    if clause in ('no-error', 'error-class'):
        sig['input'] = c['xbad'] or ('outside-' + c['inp']['form'] + '-bc-' + c['bc'])
    return sig


def in_bounds(c):
    lo = [fq(q) for q in c['dom']['lo']]
    hi = [fq(q) for q in c['dom']['hi']]
    if c['inp']['form'] == 'mesh':
        return all(lo[i] <= fq(t) <= hi[i] for i, cv in enumerate(c['inp']['cv']) for t in cv)
    return all(lo[i] <= fq(t) <= hi[i] for p in c['inp']['pts'] for i, t in enumerate(p))


# ------------------------------------------------------------------ replay of the exported call table
def applicable_apis(c, spell):
    apis = ['wrapper', 'collocation']
    if (c['inp']['form'] == 'mesh' and c['out'] == 'none' and not c['xbad'] and not c['F']['vs'] and c['dt'] != 'none'
            and c['bc'] == 'dflt' and in_bounds(c)):
        apis.append('element')
    return apis


def replay_calls(path, seed, nvar, stats):
    rnd = random.Random(seed * 7919 + 17)
    suspects = []
    with open(path) as f:
        for line in f:
            case = json.loads(line)
            c, spell, want = case['c'], case['spell'], case['want']
            apis = applicable_apis(c, spell)
            for k in range(nvar):
                var = rnd.randrange(12)
                api = apis[(k + rnd.randrange(len(apis))) % len(apis)] if k else apis[stats['n'] % len(apis)]
                layout = ('F', 'view')[rnd.randrange(2)] if c['out'] == 'nc' else 'C'
                order = ('none', 'C', 'F')[rnd.randrange(3)] if api == 'element' else 'none'
                ev = exec_call(c, spell, api, var, layout, order)
                stats['n'] += 1
                key = (spell, 'scalar' if not c['F']['vs'] else len(c['F']['vs']), c['inp']['form'], c['out'], c['dt'], api,
                       c['xbad'], c['bc'], want['k'])
                stats['cells'][key] = stats['cells'].get(key, 0) + 1
                if case['known']:
                    stats['known_total'] += 1
                if literally_ok(want, ev):
                    if case['known']:
                        stats['known_ok'] += 1
                    elif not same_outcome(ev['o'], case['impl']):
                        stats['drift'] += 1
                    continue
                if same_outcome(ev['o'], case['impl']):
                    stats['as_layerC'] += 1
                elif len(stats['drift_ex']) < 5:
                    stats['drift_ex'].append('real outcome differs from layer A and layer C: %s %s %s' % (
                        spell, c['inp']['form'], ev.get('msg', ev['o']['k'])))
                suspects.append(ev)
    return suspects


# ------------------------------------------------------------------ histories on one wrapper
def replay_hist(path, seed, stats, hinputs):
    rnd = random.Random(seed * 104729 + 5)
    suspects = []
    with open(path) as f:
        for line in f:
            st = json.loads(line)
            o, hist = st['o'], st['hist']
            F = o['F']
            nd, vs = F['nd'], tuple(F['vs'])
            var = rnd.randrange(12)
            try:
                fobj = make_callable(F, o['spell'], var)
                cdom = {'dom': o['dom']}
                w = sampling_function(fobj, domain_of(cdom), out_dtype=spell_dtype(o['dt'], vs, var))
            except Exception as ex:
                raise MachineryError('sampfunc: cannot build the history object: %r' % ex)
            inputs = hinputs[nd]
            xs, outs, kept = {}, {}, []
            last = None
            for h in hist:
                if h['a'] == 'mut':
                    if isinstance(last, np.ndarray):
                        last[...] = -99
                    continue
                i = h['i']
                inp = inputs[i - 1]
                c = {'F': F, 'dom': o['dom'], 'inp': inp, 'bc': 'dflt', 'out': {'none': 'none', 'C': 'ok'}.get(h['om'], 'nc'),
                     'xbad': '', 'dt': o['dt'], 'kw': 0}
                ev = {'id': 0, 'kind': 'call', 'api': 'history', 'c': c, 'spell': o['spell'], 'rdt': want_dtype(o['dt']),
                      'retisout': True, 'order': 'none', 'contig': [True, True], 'hist': [[x['a'], x['i'], x['om']] for x in hist],
                      'layout': h['om'] if h['om'] != 'none' else 'C'}
                if i not in xs:
                    xs[i] = make_input(inp, nd, var)                 # caller-owned, re-used
                try:
                    if h['om'] == 'none':
                        res = w(xs[i])
                    else:
                        if (i, h['om']) not in outs:
                            outs[(i, h['om'])] = make_out(vs + sshape(inp), o['dt'], 'ok', h['om'])
                        ob = outs[(i, h['om'])]
                        r = w(xs[i], out=ob)
                        ev['retisout'] = r is ob
                        res = ob
                    ev['o'] = okrec(res)
                    ev['rdt'] = result_dtype(res, want_dtype(o['dt']))
                    last = res
                except Exception as ex:
                    ev['o'] = errrec(ex)
                    ev['msg'] = '%s: %s' % (type(ex).__name__, str(ex)[:160])
                    last = None
                kept.append((h, ev, last if h['om'] == 'none' else None))
            stats['hist_calls'] += len(kept)
            if not kept:
                continue
            h, ev, _ = kept[-1]
            if hist[-1]['a'] == 'call' and not literally_ok(h['exp'], ev):
                suspects.append(ev)
            # frame: results returned earlier (not overwritten by the caller) are not changed by later calls
            mutated_next = set(j for j in range(len(hist) - 1) if hist[j + 1]['a'] == 'mut')
            pos = -1
            for h2, ev2, obj in kept[:-1]:
                pos = hist.index(h2, pos + 1)
                if obj is None or pos in mutated_next or not isinstance(obj, np.ndarray):
                    continue
                ev3 = dict(ev2, o=okrec(obj), api='history-frame')
                if ev2['o']['k'] == 'ok' and ev3['o'] != ev2['o']:
                    suspects.append(ev3)
    return suspects


# ------------------------------------------------------------------ factories
def lcm(a, b):
    return a * b // gcd(a, b)


def den_of(objs, cap=10 ** 6):
    d = 16

    def walk(o):
        nonlocal d
        if isinstance(o, list) and len(o) == 2 and all(isinstance(t, int) and not isinstance(t, bool) for t in o):
            if o[1] > 0:
                d = lcm(d, o[1])
        elif isinstance(o, list):
            for t in o:
                walk(t)
        elif isinstance(o, dict):
            for t in o.values():
                walk(t)
    walk(objs)
    return min(d, cap)


def qproj(x, den):
    v = snap(float(x), den)
    if v == OFF or isinstance(v, float) or abs(v.numerator) >= 2 ** 31 or v.denominator >= 2 ** 31:
        return [0, 0]
    return to_q(v)


def axes_of_space(sp, den):
    out = []
    for i in range(sp.ndim):
        out.append({'min': qproj(sp.min_pt[i], den), 'max': qproj(sp.max_pt[i], den),
                    'nodes': [qproj(t, den) for t in sp.grid.coord_vectors[i]]})
    return out


def nob_arg(nob, var):
    flat = [bool(b) for pair in nob for b in pair]
    if all(flat) or not any(flat):
        if var % 2 == 0:
            return flat[0]
    if all(p[0] == p[1] for p in nob) and var % 3 == 1:
        return [bool(p[0]) for p in nob]
    return [(bool(p[0]), bool(p[1])) for p in nob]


def template_of(old, tdt):
    mins = [flt(o['min']) for o in old]
    maxs = [flt(o['max']) for o in old]
    return odl.uniform_discr(mins, maxs, [o['n'] for o in old], dtype=DTYPES[tdt],
                             nodes_on_bdry=[(bool(o['L']), bool(o['R'])) for o in old])


def spell_param(vals, var, conv):
    """per-axis values (None = not given) -> the argument: omitted / scalar / list / tuple / array"""
    if all(v is None for v in vals):
        return ('omit', None) if var % 2 == 0 else ('pass', None)
    if len(vals) == 1 and var % 3 == 0:
        return ('pass', conv(vals[0]))
    if all(v is not None for v in vals) and var % 3 == 1:
        return ('pass', np.array([conv(v) for v in vals]))
    seq = [None if v is None else conv(v) for v in vals]
    return ('pass', tuple(seq) if var % 2 else seq)


def exec_fd(case, var):
    old, args, nob = case['old'], case['args'], case['nob']
    den = den_of([case.get('allowed', []), args, old])
    ev = {'id': 0, 'kind': 'fd', 'old': old, 'args': args, 'nob': nob, 'tdt': case['tdt'], 'gdt': case['gdt'], 'var': var}
    try:
        tmpl = template_of(old, case['tdt'])
    except Exception as ex:
        raise MachineryError('sampfunc: template space could not be built: %r' % ex)
    kw = {}
    for name, key, conv in (('min_pt', 'min', float), ('max_pt', 'max', float), ('cell_sides', 'h', float)):
        how, val = spell_param([None if a[key] == NONEQ else flt(a[key]) for a in args], var, conv)
        if how == 'pass':
            kw[name] = val
    how, val = spell_param([None if a['n'] == NONE else a['n'] for a in args], var, (int, np.int64)[var % 2])
    if how == 'pass':
        kw['shape'] = val
    flat = [b for p in nob for b in p]
    if any(flat) or var % 2:
        kw['nodes_on_bdry'] = nob_arg(nob, var)
    if case['gdt']:
        kw['dtype'] = DTYPES[case['gdt']]
    try:
        sp = odl.uniform_discr_fromdiscr(tmpl, **kw)
        ev['o'] = {'k': 'ok', 'axes': axes_of_space(sp, den), 'dt': DTNAME.get(str(sp.dtype), str(sp.dtype))}
    except Exception as ex:
        ev['o'] = {'k': 'err', 'axes': [], 'dt': ''}
        ev['msg'] = '%s: %s' % (type(ex).__name__, str(ex)[:160])
    ev['call'] = 'uniform_discr_fromdiscr(%r, %s)' % (tmpl, ', '.join('%s=%r' % kv for kv in sorted(kw.items())))
    return ev


def fd_literally_ok(case, ev):
    o = ev['o']
    if o['k'] == 'err':
        return bool(case['may'])
    if case['must']:
        return False
    if len(o['axes']) != len(case['allowed']):
        return False
    for ax, allowed in zip(o['axes'], case['allowed']):
        if ax not in allowed:
            return False
    return o['dt'] == case['dt']


def exec_ud(case, route, var, gdt='', wg=None):
    axes = case['axes']
    den = den_of([case.get('want', []), case.get('vol', []), axes])
    ev = {'id': 0, 'kind': 'ud', 'route': route, 'axes': axes, 'gdt': gdt, 'var': var, 'wg': NONEQ if wg is None else to_q(wg)}
    mins = [flt(a['min']) for a in axes]
    maxs = [flt(a['max']) for a in axes]
    ns = [a['n'] for a in axes]
    nob = [[a['L'], a['R']] for a in axes]
    if len(axes) == 1 and var % 2 == 0:
        mn, mx, shp = mins[0], maxs[0], (ns[0], np.int64(ns[0]))[var % 4 == 2]
    else:
        mn = (mins, tuple(mins), np.array(mins))[var % 3]
        mx = (maxs, np.array(maxs), tuple(maxs))[var % 3]
        shp = (ns, tuple(ns), np.array(ns))[var % 3]
    kw = {}
    flat = [b for p in nob for b in p]
    if any(flat) or var % 2:
        kw['nodes_on_bdry'] = nob_arg(nob, var)
    if gdt:
        kw['dtype'] = (DTYPES[gdt], np.dtype(DTYPES[gdt]))[var % 2]
    if wg is not None:
        kw['weighting'] = (float(wg), np.float64(float(wg)))[var % 2]
    elif var % 5 == 0:
        kw['weighting'] = None
    try:
        if route == 'uniform_discr':
            sp = odl.uniform_discr(mn, mx, shp, **kw)
        elif route == 'fromintv':
            sp = odl.uniform_discr_fromintv(odl.IntervalProd(mn, mx), shp, **kw)
        else:
            part = odl.uniform_partition(mn, mx, shp, nodes_on_bdry=kw.pop('nodes_on_bdry', False))
            sp = odl.uniform_discr_frompartition(part, **kw)
        w = sp.weighting.const if hasattr(sp.weighting, 'const') else float('nan')
        ev['o'] = {'k': 'ok', 'axes': axes_of_space(sp, den), 'dt': DTNAME.get(str(sp.dtype), str(sp.dtype)),
                   'w': qproj(w, den_of([case.get('vol', [])]) * 4)}
    except Exception as ex:
        ev['o'] = {'k': 'err', 'axes': [], 'dt': '', 'w': [0, 0]}
        ev['msg'] = '%s: %s' % (type(ex).__name__, str(ex)[:160])
    return ev


def ud_literally_ok(case, ev):
    o = ev['o']
    if case['raises']:
        return o['k'] == 'err'
    if o['k'] != 'ok' or o['axes'] != case['want']:
        return False
    if o['dt'] != (ev['gdt'] or 'f64'):
        return False
    if ev['wg'] != NONEQ:
        return o['w'] == ev['wg']
    return case['vol'] == NONEQ or o['w'] == case['vol']


def replay_factories(path, seed, nvar, stats):
    rnd = random.Random(seed * 31 + 3)
    suspects, events = [], []
    with open(path) as f:
        for line in f:
            case = json.loads(line)
            if case['t'] != 'fd':
                continue
            for k in range(nvar):
                ev = exec_fd(case, rnd.randrange(12))
                stats['fd'] += 1
                real_raises = ev['o']['k'] == 'err'
                if real_raises != case['implraises']:
                    stats['fd_drift'] += 1
                if not fd_literally_ok(case, ev):
                    suspects.append(ev)
                elif rnd.random() < 0.15:
                    events.append(ev)
    with open(path) as f:
        for line in f:
            case = json.loads(line)
            if case['t'] != 'ud':
                continue
            outs = {}
            for route in ('uniform_discr', 'fromintv', 'frompartition'):
                for k in range(nvar):
                    gdt = ('', '', 'f32', 'c128')[rnd.randrange(4)]
                    wg = (None, None, Fraction(5, 2))[rnd.randrange(3)]
                    ev = exec_ud(case, route, rnd.randrange(12), gdt, wg)
                    stats['ud'] += 1
                    outs[route] = ev['o']['k'], ev['o']['axes']
                    if not ud_literally_ok(case, ev):
                        suspects.append(ev)
                    elif rnd.random() < 0.2:
                        events.append(ev)
            # the three routes are spellings of one construction
            if len(set(json.dumps(v) for v in outs.values())) != 1:
                stats['ud_routes_differ'] += 1
    return suspects, events


# ------------------------------------------------------------------ drivers beyond the TLC constants
def Q(n, d=1):
    return to_q(Fraction(n, d))


def mk_inp(form, cv=None, pts=None):
    return {'form': form, 'cv': [[Q(*t) if isinstance(t, tuple) else Q(t) for t in c] for c in (cv or [])],
            'pts': [[Q(*t) if isinstance(t, tuple) else Q(t) for t in p] for p in (pts or [])]}


def mk_call(F, inp, dt='f64', out='none', bc='dflt', kw=0, hi=8):
    nd = F['nd']
    return {'F': F, 'dom': {'lo': [Q(0)] * nd, 'hi': [Q(hi)] * nd}, 'inp': inp, 'bc': bc, 'out': out, 'xbad': '', 'dt': dt,
            'kw': kw}


def Pm(c, a, m=0):
    return {'c': c, 'a': list(a), 'm': m}


def driver_events(seed, thorough):
    """deterministic widening (sizes, dimensions, value shapes, dtypes, callable kinds) with a seeded choice of the
    concretisation; every event is decided by Trace_SampFunc"""
    rnd = random.Random(seed * 977 + 11)
    evs = []

    def run(F, spell, inp, **kw):
        c = mk_call(F, inp, **kw)
        for api in (('wrapper', 'collocation') if not thorough else ('wrapper', 'collocation', 'wrapper')):
            lay = 'C'
            if c['out'] == 'ok' and rnd.randrange(3):
                c = dict(c, out='nc')
                lay = ('F', 'view')[rnd.randrange(2)]
            evs.append(exec_call(c, spell, api, rnd.randrange(12), lay))
        if 'element' in applicable_apis(c, spell):
            evs.append(exec_call(c, spell, 'element', rnd.randrange(12), 'C', ('none', 'C', 'F')[rnd.randrange(3)]))

    # ---- 3-d domains
    F3s = [{'nd': 3, 'vs': [], 'comps': [p]} for p in (Pm(1, [2, 0, 1]), Pm(0, [0, 3, 0]), Pm(2, [0, 0, 0], 1), Pm(5, [0, 0, 0]))]
    F3v = [{'nd': 3, 'vs': [2], 'comps': cc} for cc in ([Pm(1, [2, 0, 1]), Pm(0, [0, 3, 0])], [Pm(0, [1, 0, 0]), Pm(4, [0, 0, 0])],
                                                        [Pm(0, [1, 1, 1], 1), Pm(1, [1, 1, -1])])]
    in3 = [mk_inp('mesh', cv=[[1, 2], [(1, 2), 1, 3], [2, (5, 2)]]), mk_inp('arr', pts=[[1, 2, 3], [0, (1, 2), 8], [4, 4, (1, 4)], [2, 0, 1], [1, 1, 1]]),
           mk_inp('pt', pts=[[1, (3, 2), 2]])]
    for inp in in3:
        outs = ('none',) if inp['form'] == 'pt' else ('none', 'ok')
        for om in outs:
            for F in F3s:
                for sp in ('expr', 'full', 'out', 'dual'):
                    run(F, sp, inp, out=om, dt=('f64', 'f32', 'c128')[rnd.randrange(3)])
            for F in F3v:
                for sp in ('tuple', 'ndarray', 'out', 'dual', 'seq', 'seqout'):
                    run(F, sp, inp, out=om)
    # ---- axes of length one, one point, many points (beyond every internal threshold)
    F2s = [{'nd': 2, 'vs': [], 'comps': [p]} for p in (Pm(1, [2, 1]), Pm(0, [3, 0]), Pm(2, [0, 5]), Pm(-1, [1, -1], 2))]
    F2v = [{'nd': 2, 'vs': [2], 'comps': cc} for cc in ([Pm(1, [2, 1]), Pm(0, [3, 0])], [Pm(0, [3, 0]), Pm(2, [0, 5])],
                                                        [Pm(-1, [1, -1], 2), Pm(7, [0, 0])])]
    big = [[(k % 17) * Fraction(1, 2), ((3 * k) % 16) * Fraction(1, 4)] for k in range(40)]
    in2 = [mk_inp('mesh', cv=[[2], [3, 4, 5]]), mk_inp('mesh', cv=[[1, 2, 3], [(5, 2)]]), mk_inp('mesh', cv=[[3], [(1, 2)]]),
           mk_inp('arr', pts=[[2, (7, 2)]]), {'form': 'arr', 'cv': [], 'pts': [[to_q(a), to_q(b)] for a, b in big]},
           mk_inp('mesh', cv=[[0, 1, 2, 3, 4, 5, 6, 7], [(1, 2), 1, (3, 2), 2, (5, 2), 3, (7, 2)]])]
    for inp in in2:
        for om in ('none', 'ok'):
            for F in F2s:
                for sp in ('expr', 'full', 'out', 'dual'):
                    run(F, sp, inp, out=om, dt=('f64', 'f32', 'c128', 'none')[rnd.randrange(4)] if sp != 'out' else 'f64')
            for F in F2v:
                for sp in ('tuple', 'ndarray', 'out', 'dual', 'seq', 'seqout'):
                    run(F, sp, inp, out=om)
    in1 = [mk_inp('mesh', cv=[[3]]), mk_inp('arr', pts=[[(5, 2)]]), mk_inp('mesh', cv=[[k * Fraction(1, 4) for k in range(33)]]),
           mk_inp('arr', pts=[[((7 * k) % 32) * Fraction(1, 4)] for k in range(40)])]
    for inp in in1:
        inp['cv'] = [[to_q(t) if isinstance(t, Fraction) else t for t in cv] for cv in inp['cv']]
        inp['pts'] = [[to_q(t) if isinstance(t, Fraction) else t for t in p] for p in inp['pts']]
    F1s = [{'nd': 1, 'vs': [], 'comps': [p]} for p in (Pm(1, [2]), Pm(0, [0], 1), Pm(7, [0]))]
    F1v = [{'nd': 1, 'vs': [2], 'comps': cc} for cc in ([Pm(1, [2]), Pm(0, [0], 1)], [Pm(0, [3]), Pm(7, [0])])]
    for inp in in1:
        for om in ('none', 'ok'):
            for F in F1s:
                for sp in ('expr', 'exprx', 'full', 'out', 'dual'):
                    run(F, sp, inp, out=om)
            for F in F1v:
                for sp in ('tuple', 'ndarray', 'out', 'dual', 'seq', 'seqout'):
                    run(F, sp, inp, out=om)
    # ---- other value shapes
    base2 = mk_inp('mesh', cv=[[1, 2], [3, 4, 5]])
    arr2 = mk_inp('arr', pts=[[1, 3], [2, 3], [1, (9, 2)], [(5, 2), 5]])
    pt2 = mk_inp('pt', pts=[[1, (7, 2)]])
    comps6 = [Pm(1, [2, 1]), Pm(0, [3, 0]), Pm(2, [0, 5]), Pm(7, [0, 0]), Pm(0, [0, 0], 1), Pm(1, [2, 0])]
    for vs in ([3], [2, 2], [3, 2], [4]):
        n = int(np.prod(vs))
        F = {'nd': 2, 'vs': vs, 'comps': (comps6 + comps6)[:n]}
        for inp in (base2, arr2, pt2):
            for om in (('none',) if inp['form'] == 'pt' else ('none', 'ok')):
                for sp in ('tuple', 'ndarray', 'out', 'dual', 'seq', 'seqout'):
                    run(F, sp, inp, out=om, dt=('f64', 'none')[sp in ('seq', 'seqout') and rnd.randrange(2)])
    # ---- integer value type on integer grids, odl.vectorize
    igrid = mk_inp('mesh', cv=[[1, 2], [3, 4, 5]])
    for F in F2s:
        for sp in ('expr', 'full', 'out', 'dual'):
            for om in ('none', 'ok'):
                run(F, sp, igrid, out=om, dt='i64')
    for F in F2s + F1s:
        for inp in ((base2, arr2, pt2) if F['nd'] == 2 else (mk_inp('mesh', cv=[[1, 2, 3]]), mk_inp('arr', pts=[[3], [(3, 2)]]), mk_inp('pt', pts=[[(5, 2)]]))):
            for om in (('none',) if inp['form'] == 'pt' else ('none', 'ok')):
                run(F, 'vect', inp, out=om, dt=('f64', 'c128')[rnd.randrange(2)])
    # ---- other kinds of callables: keyword-only required out, bound methods
    for F in F2s + F1s:
        for inp in ((base2, arr2, pt2) if F['nd'] == 2 else (mk_inp('mesh', cv=[[1, 2, 3]]), mk_inp('arr', pts=[[3], [(3, 2)]]), mk_inp('pt', pts=[[(5, 2)]]))):
            for om in (('none',) if inp['form'] == 'pt' else ('none', 'ok')):
                for sp in ('kwreq', 'method'):
                    run(F, sp, inp, out=om)
    # ---- extra keyword arguments through every api
    for F in F2s[:2]:
        for sp in ('expr', 'full', 'out', 'dual'):
            for om in ('none', 'ok'):
                run(F, sp, base2, out=om, kw=3)
    return evs


def ctor_events():
    dom = odl.IntervalProd([0, 0], [8, 8])
    evs = []
    f = lambda x: x[0]
    seqs = {(2,): [f, 1], (3,): [f, 1, f], (2, 3): [[f, 1, f], [0, f, f]], (1,): [f]}
    for ss, seq in seqs.items():
        for ds in ((2,), (3,), (2, 3), (3, 2), None):
            if ds is None:
                odt, dshape = None, list(ss)
            else:
                odt, dshape = (float, ds), list(ds)
            try:
                sampling_function(seq, dom, out_dtype=odt)
                o = 'ok'
            except Exception as ex:
                o = type(ex).__name__
            evs.append({'id': 0, 'kind': 'ctor', 'seqshape': list(ss), 'dtshape': dshape, 'o': o})
    return evs


def guard_events():
    """breaches of the documented preconditions of the factories (and a valid control call for each)"""
    nonuni = odl.nonuniform_partition([0.0, 1.0, 3.0])
    nonuni_discr = odl.DiscretizedSpace(nonuni, odl.rn(3))
    uni = odl.uniform_discr(0, 1, 3)
    calls = [('fromdiscr', 'none', lambda: odl.uniform_discr_fromdiscr(uni, shape=6)),
             ('fromdiscr', 'not-a-discr', lambda: odl.uniform_discr_fromdiscr(odl.rn(3))),
             ('fromdiscr', 'nonuniform-discr', lambda: odl.uniform_discr_fromdiscr(nonuni_discr)),
             ('fromdiscr', 'nodes-on-bdry-length', lambda: odl.uniform_discr_fromdiscr(uni, nodes_on_bdry=[True, False, True])),
             ('frompartition', 'none', lambda: odl.uniform_discr_frompartition(odl.uniform_partition(0, 1, 3))),
             ('frompartition', 'not-a-partition', lambda: odl.uniform_discr_frompartition(odl.IntervalProd(0, 1))),
             ('frompartition', 'nonuniform-partition', lambda: odl.uniform_discr_frompartition(nonuni)),
             ('uniform_discr', 'none', lambda: odl.uniform_discr([0, 0], [1, 1], (2, 3), nodes_on_bdry=[True, (False, True)])),
             ('uniform_discr', 'nodes-on-bdry-length', lambda: odl.uniform_discr([0, 0], [1, 1], (2, 3), nodes_on_bdry=[True, False, True])),
             ('fromintv', 'nodes-on-bdry-length', lambda: odl.uniform_discr_fromintv(odl.IntervalProd([0, 0], [1, 1]), (2, 3), nodes_on_bdry=[True]))]
    evs = []
    for fn, breach, call in calls:
        try:
            call()
            o = 'ok'
        except Exception as ex:
            o = type(ex).__name__
        evs.append({'id': 0, 'kind': 'guard', 'fn': fn, 'breach': breach, 'o': o})
    return evs


def array_events(seed):
    """space.element(array-like | tensor | element of another space | None) on small spaces"""
    rnd = random.Random(seed + 99)
    evs = []
    for shape in ((4,), (2, 3)):
        for dt in ('float64', 'float32', 'complex128'):
            nd = len(shape)
            space = odl.uniform_discr([0] * nd, [1] * nd, shape, dtype=dt)
            other = odl.uniform_discr([-3] * nd, [5] * nd, shape, dtype=dt)
            data = np.arange(1, int(np.prod(shape)) + 1, dtype=float).reshape(shape) * 0.5
            kinds = {'list': data.tolist(), 'ndarray-C': np.ascontiguousarray(data.astype(dt)), 'ndarray-F': np.asfortranarray(data.astype(dt)),
                     'ndarray-int': (data * 2).astype(int), 'tensor': odl.tensor_space(shape, dtype=dt).element(data),
                     'other-discr': other.element(data), 'same-space': space.element(data), 'float64-array': data.copy(),
                     'own-tspace-C': space.tspace.element(np.ascontiguousarray(data.astype(dt))),
                     'own-tspace-F': space.tspace.element(np.asfortranarray(data.astype(dt))),
                     'same-space-F': space.element(np.asfortranarray(data.astype(dt)))}
            for kind, inp in kinds.items():
                for order in ('none', 'C', 'F'):
                    want = (data * 2) if kind == 'ndarray-int' else data
                    ev = {'id': 0, 'kind': 'arr', 'sh': list(shape), 'v': proj_values(want), 'inpkind': kind, 'order': order,
                          'dtype': dt, 'contig': [True, True]}
                    try:
                        el = space.element(inp) if order == 'none' else space.element(inp, order=order)
                        if el not in space:
                            raise AssertionError('not in space')
                        ev['o'] = okrec(el.asarray())
                        ev['contig'] = [bool(el.data.flags['C_CONTIGUOUS']), bool(el.data.flags['F_CONTIGUOUS'])]
                    except Exception as ex:
                        ev['o'] = errrec(ex)
                        ev['msg'] = '%s: %s' % (type(ex).__name__, str(ex)[:160])
                    evs.append(ev)
            # None: memory only - shape, membership and the requested order
            for order in ('none', 'C', 'F'):
                el = space.element() if order == 'none' else space.element(order=order)
                el[:] = data
                evs.append({'id': 0, 'kind': 'arr', 'sh': list(shape), 'v': proj_values(data), 'inpkind': 'None', 'order': order, 'dtype': dt,
                            'o': okrec(el.asarray()), 'contig': [bool(el.data.flags['C_CONTIGUOUS']), bool(el.data.flags['F_CONTIGUOUS'])]})
    return evs


# ------------------------------------------------------------------ TLC
def tlc_retry(module, cfg, work, env, workers, timeout=1500):
    res = run_tlc(module, cfg, work, env=env, workers=workers, timeout=timeout, heap='2g')
    if res.status == 'machinery':
        if env.get('OUT_FILE') and os.path.exists(env['OUT_FILE']):
            os.remove(env['OUT_FILE'])
        res = run_tlc(module, cfg, work, env=env, workers=workers, timeout=timeout, heap='2g')
    return res


TRACE_FIELDS = {'call': ('id', 'kind', 'api', 'c', 'spell', 'o', 'rdt', 'retisout', 'order', 'contig'),
                'ctor': ('id', 'kind', 'seqshape', 'dtshape', 'o'),
                'fd': ('id', 'kind', 'old', 'args', 'nob', 'tdt', 'gdt', 'o'),
                'ud': ('id', 'kind', 'route', 'axes', 'gdt', 'wg', 'o'),
                'arr': ('id', 'kind', 'sh', 'v', 'inpkind', 'order', 'o', 'contig'),
                'guard': ('id', 'kind', 'fn', 'breach', 'o')}


def validate(ctx, events, label, nchunk=2500):
    for i, ev in enumerate(events):
        if ev['id'] != CORRUPT_ID:
            ev['id'] = i + 1
    chunks = [events[i:i + nchunk] for i in range(0, len(events), nchunk)]
    paths = []
    for k, ch in enumerate(chunks):
        p = os.path.join(ctx.work, 'sampfunc_%s_%d.ndjson' % (label, k))
        with open(p, 'w') as f:
            for ev in ch:
                f.write(json.dumps({key: ev[key] for key in TRACE_FIELDS[ev['kind']]}) + '\n')
        paths.append(p)

    def go(p):
        return tlc_retry('Trace_SampFunc.tla', 'Trace_SampFunc.cfg', ctx.work, {'TRACE_FILE': p}, 1)
    with ThreadPoolExecutor(max_workers=6) as ex:
        results = list(ex.map(go, paths))
    rejected = {}
    for k, res in enumerate(results):
        ctx.add_tlc('sampfunc-trace-%s-%d' % (label, k), res)
        for line_no, ev_id, clauses in parse_fails(res.output):
            rejected[ev_id] = clauses
    return rejected


def clauses_of(text):
    return re.findall(r'<<\s*"([\w-]+)"\s*,\s*"([\w-]*)"\s*>>', text)


def sig_of(ev, clause, api):
    if ev['kind'] == 'call':
        return call_sig(ev, clause)
    if ev['kind'] == 'fd':
        given = ''.join(ch for ch, key in (('m', 'min'), ('M', 'max'), ('n', 'n'), ('h', 'h'))
                        if any((a[key] != NONEQ and a[key] != NONE) for a in ev['args']))
        return {'stage': STAGE, 'api': 'fromdiscr', 'clause': clause, 'given': given or 'none',
                'ndim': str(len(ev['old'])), 'tdtype': ev['tdt'], 'dtype_passed': ev['gdt'] or 'no'}
    if ev['kind'] == 'ud':
        return {'stage': STAGE, 'api': ev['route'], 'clause': clause, 'ndim': str(len(ev['axes'])), 'dtype_passed': ev['gdt'] or 'no',
                'weighting_passed': 'no' if ev['wg'] == NONEQ else 'const'}
    if ev['kind'] == 'guard':
        return {'stage': STAGE, 'api': ev['fn'], 'clause': clause, 'breach': ev['breach']}
    if ev['kind'] == 'arr':
        return {'stage': STAGE, 'api': 'element-array', 'clause': clause, 'input': ev['inpkind'], 'order': ev['order'], 'dtype': ev['dtype']}
    rel = 'equal' if ev['seqshape'] == ev['dtshape'] else (
        'same-size' if int(np.prod(ev['seqshape'])) == int(np.prod(ev['dtshape'])) else 'different-size')
    return {'stage': STAGE, 'api': 'sampling_function', 'clause': clause, 'shapes': rel}


def report(ctx, events, rejected, seen, source):
    n = 0
    for ev in events:
        if ev['id'] not in rejected or ev['id'] == CORRUPT_ID:
            continue
        for clause, api in clauses_of(rejected[ev['id']]) or [('rejected', '')]:
            sig = sig_of(ev, clause, api)
            key = dumps(sig, sort_keys=True)
            seen[key] = seen.get(key, 0) + 1
            n += 1
            if seen[key] <= 3:
                ctx.violation(sig, {'stage_module': STAGE, 'source': source, 'event': ev, 'clauses': rejected[ev['id']]})
    return n


def new_stats():
    return {'n': 0, 'cells': {}, 'drift': 0, 'as_layerC': 0, 'drift_ex': [], 'hist_calls': 0, 'fd': 0, 'ud': 0, 'fd_drift': 0,
            'ud_routes_differ': 0, 'known_total': 0, 'known_ok': 0}


def merge_stats(stats, st):
    for k, v in st.items():
        if k == 'cells':
            for kk, vv in v.items():
                stats['cells'][kk] = stats['cells'].get(kk, 0) + vv
        elif k == 'drift_ex':
            stats['drift_ex'] = (stats['drift_ex'] + v)[:5]
        else:
            stats[k] += v


def _replay_worker(args):
    """forked worker: replay of one exported part on the real code -> (suspects, accepted events to validate, stats)"""
    kind, paths, seed, nvar, hin = args
    stats = new_stats()
    if kind == 'calls':
        return replay_calls(paths[0], seed, nvar, stats), [], stats
    if kind == 'fact':
        sus, evs = replay_factories(paths[0], seed, nvar, stats)
        return sus, evs, stats
    return replay_hist(paths[0], seed, stats, hin), [], stats


# ------------------------------------------------------------------ the stage
def run_stage(ctx):
    thorough = ctx.tier != 'quick'
    t0 = time.time()
    laps = ctx.extra.setdefault('sampfunc_laps_s', {})

    def lap(name):
        laps[name] = round(time.time() - t0, 1)
    env = {'SMP_SIZE': 't' if thorough else 'q'}
    outs = {p: os.path.join(ctx.work, 'sampfunc_%s.ndjson' % p) for p in PARTS}
    ex = ThreadPoolExecutor(max_workers=len(PARTS) + 1)
    futs = {p: ex.submit(tlc_retry, 'MC_SampFunc.tla', 'MC_SampFunc_export.cfg', ctx.work,
                         dict(env, SMP_PART=p, OUT_FILE=outs[p]), 1) for p in PARTS}
    fbogus = ex.submit(tlc_retry, 'MC_SampFunc.tla', 'MC_SampFunc_bogus.cfg', ctx.work, dict(env, SMP_PART='hist'), 2)

    # ---- code -> spec events are produced while TLC runs
    events = driver_events(ctx.seed, thorough)
    ndrv = len(events)
    events += ctor_events()
    events += array_events(ctx.seed)
    events += guard_events()
    lap('drivers')

    # ---- spec -> code: one forked replay process per exported part, started as soon as its TLC run is done
    nvar = 4 if thorough else 2
    stats = new_stats()
    suspects = []
    nlines = {}
    hin = history_inputs(thorough)

    def job(kind, parts):
        results = [futs[q].result() for q in parts]
        if any(r.status != 'ok' for r in results):
            return results, None
        args = (kind, [outs[q] for q in parts], ctx.seed, nvar, hin)
        with mp.get_context('fork').Pool(1) as pool:
            r = pool.apply(_replay_worker, (args,))
        lap('replay-' + '+'.join(parts))
        return results, r
    jobs = {('calls', ('n1',)): None, ('calls', ('n2a',)): None, ('calls', ('n2b',)): None, ('fact', ('fac',)): None,
            ('hist', ('hist',)): None}
    jex = ThreadPoolExecutor(max_workers=len(jobs))
    for key in jobs:
        jobs[key] = jex.submit(job, *key)
    for (kind, parts), fut in jobs.items():
        results, r = fut.result()
        for q, res in zip(parts, results):
            ctx.add_tlc('sampfunc-hist' if q == 'hist' else 'sampfunc-cases-' + q, res)
            with open(outs[q]) as f:
                nlines[q] = sum(1 for _ in f)
        sus, evs, st = r
        suspects += sus
        events += evs
        merge_stats(stats, st)
    jex.shutdown()
    check_history_inputs(hin, outs, thorough)
    lap('replay')
    if nlines['n1'] < 2000 or nlines['n2a'] + nlines['n2b'] < 4000 or nlines['fac'] < 1500 or nlines['hist'] < 5000:
        raise MachineryError('sampfunc export too small: %r' % nlines)

    # ---- TLC decides: suspects + recorded events + one corrupted copy of an accepted event
    all_events = suspects + events
    corrupt = None
    for ev in events:
        if ev['kind'] == 'call' and ev['o']['k'] == 'ok' and len(ev['o']['v']) > 3 and ev['o']['v'][2] != [0, 0]:
            corrupt = json.loads(json.dumps(ev))
            corrupt['o']['v'][2] = [corrupt['o']['v'][2][0] + corrupt['o']['v'][2][1], corrupt['o']['v'][2][1]]     # one entry + 1
            corrupt['id'] = CORRUPT_ID
            break
    if corrupt is None:
        raise MachineryError('sampfunc: no event to corrupt')
    all_events.append(corrupt)
    rejected = validate(ctx, all_events, 'ev')
    lap('trace')
    if CORRUPT_ID not in rejected or ('value', corrupt['api']) not in clauses_of(rejected[CORRUPT_ID]):
        raise MachineryError('the corrupted copy of a recorded event was not rejected by Trace_SampFunc')
    seen = {}
    nrep = report(ctx, suspects, rejected, seen, 'replay')
    ntr = report(ctx, events, rejected, seen, 'trace')
    if os.environ.get('SAMPFUNC_DEBUG'):
        ex_of = {}
        for ev in all_events:
            if ev['id'] in rejected and ev['id'] != CORRUPT_ID:
                for clause, api in clauses_of(rejected[ev['id']]) or [('rejected', '')]:
                    key = dumps(sig_of(ev, clause, api), sort_keys=True)
                    ex_of.setdefault(key, {'n': 0, 'msg': ev.get('msg', ''), 'call': ev.get('call', '')})['n'] += 1
        with open(os.environ['SAMPFUNC_DEBUG'], 'w') as f:
            json.dump({'families': ex_of, 'laps': laps, 'stats': {k: v for k, v in stats.items() if k != 'cells'},
                       'tlc_runs': ctx.tlc_runs, 'nlines': nlines, 'events': len(all_events), 'suspects': len(suspects),
                       'driver_events': ndrv, 'cells': len(stats['cells'])}, f, indent=1)
    bog = fbogus.result()
    ctx.add_tlc('sampfunc-bogus', bog, expect='any')
    ex.shutdown()
    if bog.status != 'counterexample':
        raise MachineryError('the bogus law was not refuted: the history run is vacuous')

    # ---- evidence
    for key, cnt in stats['cells'].items():
        ctx.count([STAGE] + [str(k) for k in key], True, n=0)
    ctx.count(None, False, n=stats['n'] + stats['hist_calls'] + stats['fd'] + stats['ud'] + len(events))
    if stats['drift'] or stats['drift_ex']:
        ctx.drift_note('sampfunc: %d accepted executions differ from layer C; %s' % (stats['drift'], '; '.join(stats['drift_ex'])))
    ctx.extra['sampfunc_known_cell_executions'] = {'total': stats['known_total'], 'documented_outcome': stats['known_ok']}
    if stats['known_ok']:
        ctx.drift_note('sampfunc: %d of %d executions on the KnownCell cells of SampFuncImpl gave the DOCUMENTED outcome: layer C '
                       'describes the code before a repair (update KnownCell / ImplCall)' % (stats['known_ok'], stats['known_total']))
    if stats['fd_drift']:
        ctx.drift_note('sampfunc: uniform_discr_fromdiscr raised / returned differently from layer C in %d executions' % stats['fd_drift'])
    if stats['ud_routes_differ']:
        ctx.drift_note('sampfunc: uniform_discr / _fromintv / _frompartition gave different outcomes in %d cases' % stats['ud_routes_differ'])
    ctx.traces += sum(nlines.values()) + len(events)
    ctx.extra['sampfunc_cases_exported'] = nlines
    ctx.extra['sampfunc_case_executions'] = stats['n']
    ctx.extra['sampfunc_history_calls'] = stats['hist_calls']
    ctx.extra['sampfunc_factory_executions'] = {'fromdiscr': stats['fd'], 'uniform_discr_routes': stats['ud']}
    ctx.extra['sampfunc_driver_events'] = ndrv
    ctx.extra['sampfunc_events_validated'] = len(all_events)
    ctx.extra['sampfunc_suspects_decided_by_tlc'] = len(suspects)
    ctx.extra['sampfunc_suspects_equal_to_layerC'] = stats['as_layerC']
    ctx.extra['sampfunc_rejected'] = {'replay': nrep, 'trace': ntr}
    ctx.extra['sampfunc_violation_cases_per_family'] = seen
    ctx.extra['sampfunc_cells_covered'] = len(stats['cells'])
    ctx.extra['sampfunc_rule'] = (
        'abstract case = (spelling, value-shape class, input form, out mode, dtype, api, invalid-x kind, bounds_check, kind of '
        'documented outcome) resp. (factory, given/missing parameter set) resp. (history object, history); one evaluation = one '
        'real call compared with the exported expectation or one recorded event decided by Trace_SampFunc')
    ctx.assumptions += [
        'sampfunc: an `out` array of inadequate shape or dtype must be rejected; the docstring names TypeError, the code raises '
        'ValueError - both are accepted ("reject")',
        'sampfunc: flat (n,) point arrays for 1-d domains are not a documented input form (docstring: shape (ndim, N)) - not exercised',
        'sampfunc: user functions that modify their input, value shapes containing 1, and a single callable with out_dtype=None '
        'returning several components are outside the documentation - not exercised',
        'sampfunc: uniform_discr_fromdiscr "keep sampling but translate": either the extent or the cell side is kept when the '
        'nodes_on_bdry of the new space differs from the template (the two readings coincide otherwise); the weighting of the '
        'template is not demanded to be copied; "the missing information is taken from the template space" is read to include the dtype',
        'sampfunc: tensor-valued DiscretizedSpaces (dtype with shape) cannot be built with the factories of this ODL version '
        '(partition.shape != tspace.shape) and discr_sequence_space / element(vectorized=False) do not exist in it - not modelled',
        'sampfunc: the result for a single point of a scalar-valued function is compared by value (Python float / complex)',
        'sampfunc: NumPy ufuncs as functions belong to C15 (observed, not reported here: a ufunc sampled IN PLACE over a 1-d '
        'domain raises ValueError "non-broadcastable output operand", only TypeError is retried); points outside the domain given '
        'as single points are rejected with TypeError ("must be castable to an element of the domain") whatever bounds_check says '
        '- no demand',
    ]
    return sum(nlines.values())


def history_inputs(thorough):
    """HInputs(nd) of MC_SampFunc (quick: inputs 1, 4, 5 of InputsIn; thorough: all).  Only indices are exported with the
    histories, so the catalogue is mirrored here and CHECKED against the exported call table (check_history_inputs)"""
    def q(n, d=1):
        return [n, d]
    ins = {2: [{'form': 'mesh', 'cv': [[q(1), q(2)], [q(3), q(4), q(5)]], 'pts': []},
               {'form': 'mesh', 'cv': [[q(1, 2), q(3)], [q(2), q(5, 2)]], 'pts': []},
               {'form': 'arr', 'cv': [], 'pts': [[q(1), q(3)], [q(2), q(3)], [q(1), q(9, 2)], [q(5, 2), q(5)]]},
               {'form': 'arr', 'cv': [], 'pts': [[q(4), q(1, 2)], [q(0), q(8)]]},
               {'form': 'pt', 'cv': [], 'pts': [[q(1), q(7, 2)]]}],
           1: [{'form': 'mesh', 'cv': [[q(1), q(2), q(3)]], 'pts': []},
               {'form': 'mesh', 'cv': [[q(1, 2), q(4)]], 'pts': []},
               {'form': 'arr', 'cv': [], 'pts': [[q(3)], [q(3, 2)], [q(0)]]},
               {'form': 'arr', 'cv': [], 'pts': [[q(8)], [q(1, 4)]]},
               {'form': 'pt', 'cv': [], 'pts': [[q(5, 2)]]}]}
    if thorough:
        return ins
    return {nd: [ins[nd][0], ins[nd][3], ins[nd][4]] for nd in (1, 2)}


def check_history_inputs(hin, outs, thorough):
    """the mirrored inputs are inputs of the exported call table, and an exported history expectation is reproduced by the
    exported expectation of the same call in the table (so a divergence of the two catalogues cannot go unnoticed)"""
    table = {}
    for p in ('n1', 'n2a', 'n2b'):
        with open(outs[p]) as f:
            for line in f:
                case = json.loads(line)
                c = case['c']
                if c['xbad'] or c['bc'] != 'dflt' or c['kw'] or c['out'] != 'none':
                    continue
                table[(json.dumps(c['F'], sort_keys=True), json.dumps(c['inp'], sort_keys=True))] = case['want']
    inputs_seen = set(k[1] for k in table)
    for nd in (1, 2):
        for inp in hin[nd]:
            if json.dumps(inp, sort_keys=True) not in inputs_seen:
                raise MachineryError('sampfunc: the mirrored history inputs are not those of MC_SampFunc!InputsIn')
    checked = 0
    with open(outs['hist']) as f:
        for line in f:
            st = json.loads(line)
            h = st['hist'][-1]
            if h['a'] != 'call' or len(st['hist']) != 1:
                continue
            key = (json.dumps(st['o']['F'], sort_keys=True), json.dumps(hin[st['o']['F']['nd']][h['i'] - 1], sort_keys=True))
            if key in table:
                checked += 1
                if table[key]['v'] != h['exp']['v']:
                    raise MachineryError('sampfunc: history input %d of the harness is not HInputs[%d] of the machine' % (h['i'], h['i']))
    if checked < 10:
        raise MachineryError('sampfunc: the history inputs could not be cross-checked (%d)' % checked)


def replay(body):
    det = body['detail']
    ev = det.get('event', {})
    print('event      :', dumps({k: v for k, v in ev.items() if k not in ('id',)})[:3000])
    print('rejected by Trace_SampFunc with', det.get('clauses'))
    if ev.get('kind') == 'call' and ev.get('api') in ('wrapper', 'collocation', 'element'):
        ev2 = exec_call(ev['c'], ev['spell'], ev['api'], ev.get('var', 0), ev.get('layout', 'C'), ev.get('order', 'none'))
        print('re-executed:', dumps(ev2['o']), ev2.get('msg', ''))
        return 1 if ev2['o'] == ev['o'] else 0
    if ev.get('kind') == 'fd':
        ev2 = exec_fd(ev, ev.get('var', 0))
        print('re-executed:', ev2.get('call'), '->', dumps(ev2['o']), ev2.get('msg', ''))
        return 1 if ev2['o'] == ev['o'] else 0
    return 1

"""C14 helpers: abstract partitions (JSON axes over Q) <-> real RectPartition / RectGrid / IntervalProd.

Everything here only *performs* calls on real ODL objects and *projects* what comes back onto exact
rationals; expected values always come from the TLA+ specification (exported cases) or are decided by
TLC when it validates the recorded events (Trace_Part).
"""
from fractions import Fraction
import numpy as np
import odl
from odl.discr.grid import RectGrid, uniform_grid_fromintv
from odl.discr.partition import (RectPartition, uniform_partition, uniform_partition_fromintv,
                                 uniform_partition_fromgrid, nonuniform_partition)
from odl.set.domain import IntervalProd

NONE = 99
NONEQ = [0, -1]
NANQ = [0, 0]            # stands for an off-lattice / non-finite observation (never equals a finite Q)
MAXDEN = 4096


# ------------------------------------------------------------------ exact projection
def snap_rat(v, maxden=MAXDEN):
    """Nearest rational with denominator <= maxden if within 2^-34 (relative), else None.
    Distinct such rationals differ by >= 2^-24, rounding errors here are <= ~1e-14: the projection
    is unambiguous and independent of how the implementation orders its arithmetic."""
    v = float(v)
    if v != v or v in (float('inf'), float('-inf')):
        return None
    q = Fraction(v).limit_denominator(maxden)
    if abs(v - float(q)) <= 2.0 ** -34 * max(1.0, abs(v)):
        return q
    return None


def qj(v):
    q = snap_rat(v)
    return NANQ if q is None else [q.numerator, q.denominator]


def fq(q):
    return Fraction(q[0], q[1])


def flt(q):
    return float(Fraction(q[0], q[1]))


def is_none_q(q):
    return q[1] == -1


def proj_part(p):
    return [{'min': qj(p.min_pt[k]), 'max': qj(p.max_pt[k]), 'nodes': [qj(v) for v in p.grid.coord_vectors[k]]}
            for k in range(p.ndim)]


def proj_derived(p):
    out = []
    sides = None
    try:
        sides = p.cell_sides
    except Exception:
        sides = None
    uni = p.is_uniform_byaxis
    for k in range(p.ndim):
        d = {'bdry': [qj(v) for v in p.cell_boundary_vecs[k]],
             'sizes': [qj(v) for v in p.cell_sizes_vecs[k]],
             'frac': [qj(v) for v in p.boundary_cell_fractions[k]],
             'nob': [bool(b) for b in p.nodes_on_bdry_byaxis[k]],
             'uniform': bool(uni[k]),
             'side': qj(sides[k]) if (sides is not None and uni[k]) else NONEQ,
             'extent': qj(p.extent[k])}
        out.append(d)
    return out


# ------------------------------------------------------------------ construction of real objects
def mk_part(part, how='rect'):
    mins = [flt(ax['min']) for ax in part]
    maxs = [flt(ax['max']) for ax in part]
    nodes = [np.array([flt(g) for g in ax['nodes']], dtype=float) for ax in part]
    if how == 'rect':
        return RectPartition(IntervalProd(mins, maxs), RectGrid(*nodes))
    if how == 'nonuniform':
        return nonuniform_partition(*nodes, min_pt=mins, max_pt=maxs)
    if how == 'fromgrid':
        return uniform_partition_fromgrid(RectGrid(*nodes), min_pt=mins, max_pt=maxs)
    if how == 'uniform':
        nob = [(ax['nodes'][0] == ax['min'], ax['nodes'][-1] == ax['max']) for ax in part]
        return uniform_partition(mins, maxs, [len(n) for n in nodes], nodes_on_bdry=nob)
    raise ValueError(how)


def py_item(it):
    if it['k'] == 'int':
        return it['i']
    if it['k'] == 'ell':
        return Ellipsis
    g = lambda v: None if v == NONE else v
    return slice(g(it['a']), g(it['b']), g(it['s']))


def py_index(idx, bare=False):
    if idx['k'] == 'list':
        return list(idx['l'])
    items = [py_item(it) for it in idx['items']]
    if bare and len(items) == 1:
        return items[0]
    return tuple(items)


def nob_arg(flags, form):
    """flags: list of (L, R) per axis."""
    if form == 'nested':
        return [(bool(l), bool(r)) for l, r in flags]
    if form == 'flat':          # 1-d shorthand
        (l, r), = flags
        return (bool(l), bool(r))
    if form == 'bool':
        return bool(flags[0][0])
    if form == 'mixed':         # per axis: bool where possible, else pair
        return [bool(l) if l == r else (bool(l), bool(r)) for l, r in flags]
    raise ValueError(form)


def opt(q):
    return None if is_none_q(q) else flt(q)


# ------------------------------------------------------------------ performing one query
def perform(part, q, conc):
    """Run query q (abstract, JSON) on a real partition built from `part`. Returns the observation
    (JSON, same shape as the specification's answer).  Exceptions propagate to the caller."""
    kind = q['kind']
    if kind == 'uniform':
        cases = q['cases']
        form = conc.get('form', 'nested')
        api = conc.get('api', 'uniform_partition')
        flags = [(c['L'], c['R']) for c in cases]
        nob = nob_arg(flags, form)
        if api == 'uniform_partition':
            kw = {}
            names = {'min': 'min_pt', 'max': 'max_pt', 'h': 'cell_sides'}
            for key, name in names.items():
                vals = [opt(c['args'][key]) for c in cases]
                if any(v is not None for v in vals):
                    kw[name] = vals if len(vals) > 1 else vals[0]
            ns = [None if c['args']['n'] == NONE else c['args']['n'] for c in cases]
            if any(n is not None for n in ns):
                kw['shape'] = ns if len(ns) > 1 else ns[0]
            return proj_part(uniform_partition(nodes_on_bdry=nob, **kw))
        mins = [flt(c['args']['min']) for c in cases]
        maxs = [flt(c['args']['max']) for c in cases]
        ns = [c['args']['n'] for c in cases]
        intv = IntervalProd(mins, maxs)
        if api == 'uniform_partition_fromintv':
            return proj_part(uniform_partition_fromintv(intv, ns if len(ns) > 1 else ns[0], nodes_on_bdry=nob))
        if api == 'uniform_grid_fromintv':
            g = uniform_grid_fromintv(intv, ns if len(ns) > 1 else ns[0], nodes_on_bdry=nob)
            return proj_part(RectPartition(intv, g))
        raise ValueError(api)
    if kind == 'fromgrid':
        grid = RectGrid(np.array([flt(g) for g in q['nodes']]))
        style = conc.get('style', 'plain')
        def arg(v):
            if is_none_q(v):
                return {} if style == 'dict' else None
            return {0: flt(v)} if style == 'dict' else (flt(v) if style == 'plain' else [flt(v)])
        return proj_part(uniform_partition_fromgrid(grid, min_pt=arg(q['min']), max_pt=arg(q['max'])))
    if kind == 'nonuniform':
        kw = {}
        if not is_none_q(q['min']):
            kw['min_pt'] = flt(q['min'])
        if not is_none_q(q['max']):
            kw['max_pt'] = flt(q['max'])
        form = conc.get('form', 'nested')
        if not (form == 'omit'):
            kw['nodes_on_bdry'] = nob_arg([(q['L'], q['R'])], form)
        return proj_part(nonuniform_partition([flt(g) for g in q['nodes']], **kw))

    p = mk_part(part, conc.get('how', 'rect'))
    if kind == 'derived':
        return proj_derived(p)
    if kind == 'index':
        x = [flt(v) for v in q['x']]
        if p.ndim == 1:        # an element of a 1-d interval is a scalar: Python float or NumPy scalar
            x = x[0] if conc.get('scalar', True) else np.float64(x[0])
        r = p.index(x, floating=bool(q['floating']))
        r = [r] if p.ndim == 1 else list(r)
        if not q['floating']:
            if not all(isinstance(v, (int, np.integer)) for v in r):
                return [NANQ for _ in r]
            return [[int(v), 1] for v in r]
        return [qj(v) for v in r]
    if kind == 'getitem':
        ix = py_index(q['idx'], bare=conc.get('bare', False))
        sub = p[ix]
        obs = proj_part(sub)
        # RectGrid.__getitem__ on its own must select the same nodes
        g = p.grid[ix]
        gn = ([[qj(v)] for v in g] if isinstance(g, np.ndarray) else [[qj(v) for v in cv] for cv in g.coord_vectors])
        if gn != [ax['nodes'] for ax in obs]:
            obs = [dict(ax, nodes=[NANQ]) for ax in obs]
        return obs
    others = [mk_part(o) for o in q.get('others', [])]
    if kind == 'insert':
        r = p.insert(q['index'], *others)
        gi = p.grid.insert(q['index'], *[o.grid for o in others])
        si = p.set.insert(q['index'], *[o.set for o in others])
        obs = proj_part(r)
        if RectPartition(si, gi) != r:
            obs = [dict(ax, nodes=[NANQ]) for ax in obs]
        return obs
    if kind == 'append':
        return proj_part(p.append(*others))
    if kind == 'squeeze':
        if q['all']:
            return proj_part(p.squeeze())
        axes = list(q['axes'])
        if len(axes) == 1 and conc.get('bare', False):
            axes = axes[0]
        return proj_part(p.squeeze(axis=axes))
    if kind == 'byaxis_item':
        return proj_part(p.byaxis[py_item(q['item'])])
    if kind == 'byaxis_seq':
        axs = list(q['axes'])
        return proj_part(p.byaxis[tuple(axs) if conc.get('astuple', False) else axs])
    raise ValueError(kind)


def observe(part, q, conc):
    """-> (obs or None, err string)"""
    try:
        return perform(part, q, conc), ''
    except Exception as e:          # the specification says the query is admissible: an exception is an observation
        return None, type(e).__name__ + ': ' + str(e)[:100]


# ------------------------------------------------------------------ comparison (python side of the replay)
def axis_class(ax):
    n = len(ax['nodes'])
    if n == 1:
        return 'one-node-degenerate' if ax['min'] == ax['max'] else 'one-node'
    return 'multi-node'


def part_clauses(exp, obs):
    """Compare two projected partitions; returns clause names."""
    if len(exp) != len(obs):
        return {'ndim'}
    bad = set()
    for e, o in zip(exp, obs):
        for f in ('min', 'max', 'nodes'):
            if e[f] != o[f]:
                bad.add(f)
    return bad


def derived_clauses(part, exp, obs):
    bad = set()
    for ax, e, o in zip(part, exp, obs):
        for f in ('bdry', 'sizes', 'frac', 'nob', 'uniform', 'extent'):
            if e[f] != o[f]:
                bad.add((f, axis_class(ax)))
        if e['uniform'] and o['uniform'] and e['side'] != o['side']:
            bad.add(('side', axis_class(ax)))
    return bad


API_OF = {'bdry': 'cell_boundary_vecs', 'sizes': 'cell_sizes_vecs', 'frac': 'boundary_cell_fractions',
          'nob': 'nodes_on_bdry', 'uniform': 'is_uniform', 'extent': 'extent', 'side': 'cell_sides'}


def idx_form(idx):
    if idx['k'] == 'list':
        return 'list'
    ks = [it['k'] for it in idx['items']]
    step = any(it['k'] == 'slice' and it['s'] not in (NONE, 1) for it in idx['items'])
    s = 'ellipsis-' if 'ell' in ks else ''
    if step:
        return s + 'slice-step'
    if 'slice' in ks and 'int' in ks:
        return s + 'int+slice'
    if 'slice' in ks:
        return s + 'slice'
    if 'int' in ks:
        return s + 'int'
    return 'ellipsis'


def route_name(args):
    return ','.join(k for k in ('min', 'max', 'n', 'h')
                    if not (args[k] == NONE if k == 'n' else is_none_q(args[k])))


# ------------------------------------------------------------------ histories: shared grid object, caller-owned arrays
QUERIES = ['lite', 'sides', 'index', 'sub']


def lite_of(p):
    der = proj_derived(p)
    axes = proj_part(p)
    return [{'axis': a, 'd': d} for a, d in zip(axes, der)]


def hist_query(p, q, sc_nodes):
    if q == 'lite':
        return lite_of(p)
    if q == 'sides':
        uni = p.is_uniform_byaxis
        sides = p.cell_sides
        return [qj(sides[k]) if uni[k] else NONEQ for k in range(p.ndim)]
    if q == 'index':
        out = []
        for k in range(p.ndim):
            row = []
            for j in range(len(sc_nodes[k])):
                pt = [flt(sc_nodes[a][0]) for a in range(p.ndim)]
                pt[k] = flt(sc_nodes[k][j])
                r = p.index(pt[0] if p.ndim == 1 else pt)
                r = r if p.ndim == 1 else r[k]
                row.append(int(r) if isinstance(r, (int, np.integer)) else -99)
            out.append(row)
        return out
    if q == 'sub':
        return lite_of(p[1:] if p.shape[0] > 1 else p)
    raise ValueError(q)


def returned_arrays(p, attr):
    """the arrays a caller gets from attribute `attr` (list of ndarrays)"""
    if attr == 'cell_sides':
        return [p.cell_sides]
    if attr == 'coord_vectors':
        return list(p.coord_vectors)
    if attr == 'min_pt':
        return [p.min_pt]
    if attr == 'max_pt':
        return [p.max_pt]
    if attr == 'cell_boundary_vecs':
        return list(p.cell_boundary_vecs)
    if attr == 'meshgrid':
        return list(p.meshgrid)
    if attr == 'grid_stride':
        return [p.grid.stride]
    if attr == 'cell_sizes_vecs':
        return list(p.cell_sizes_vecs)
    if attr == 'extent':
        return [p.extent]
    if attr == 'grid_min_pt':
        return [p.grid.min_pt]
    raise ValueError(attr)


def _arrays(r):
    """all ndarrays a call result hands out (directly or inside tuples / lists)"""
    if isinstance(r, np.ndarray):
        return [r]
    if isinstance(r, (tuple, list)):
        return [a for x in r for a in _arrays(x)]
    return []


def call_shared(p, m):
    """PartHist action CM: calls the non-mutating public method family `m` of the IntervalProd (`set.*`), the RectGrid
    (`grid.*`) or the partition itself (`part.*`) that partition `p` holds, in every index / keyword spelling, and returns
    what the calls handed out (the caller overwrites the arrays among it)."""
    tgt, name = m.split('.', 1)
    n = p.ndim
    S, G = p.set, p.grid
    mid = [(float(a) + float(b)) / 2 for a, b in zip(S.min_pt, S.max_pt)]
    node0 = [float(cv[0]) for cv in G.coord_vectors]
    one = IntervalProd([0.0], [1.0])
    g1 = RectGrid([0.0, 1.0])
    sl = lambda *a: tuple(slice(*a) for _ in range(n))
    if tgt == 'set':
        if name == 'collapse':
            return [S.collapse(n - 1, mid[n - 1]), S.collapse(0, float(S.min_pt[0]))]
        if name == 'collapse_seq':
            return [S.collapse(list(range(n)), mid), S.collapse([0], [mid[0]]), S.collapse((n - 1,), np.array([mid[n - 1]]))]
        if name == 'squeeze':
            return [S.squeeze()]
        if name == 'insert':
            return [S.insert(0, one), S.insert(n, one, one), S.insert(-1, S)]
        if name == 'append':
            return [S.append(one), S.append(S, one)]
        if name == 'min':
            return [S.min()]
        if name == 'max':
            return [S.max()]
        if name == 'corners':
            return [S.corners(), S.corners(order='F')]
        if name == 'extent':
            return [S.extent]
        if name == 'mid_pt':
            return [S.mid_pt]
        if name == 'element':
            return [S.element(), S.element(mid[0] if n == 1 else mid)]
        if name == 'getitem':
            return [S[0], S[-1], S[:], S[::-1], S[[0]], S[list(range(n))]]
        if name == 'arith':
            return [S + 1.0, S - 1.0, S * 2.0, S / 2.0, -S, +S, S + S, S - S, S * S]
        if name == 'scalars':
            return [S.volume, S.measure(), S.measure(ndim=S.true_ndim), S.dist(mid), S.dist(mid, exponent=1.0), mid in S,
                    S.contains_set(S), S.contains_all(np.array(mid)[:, None]), S.approx_contains(mid, 0.25),
                    S.approx_equals(S, 0.25), S == S, S != S, hash(S), repr(S), str(S), len(S), S.ndim, S.true_ndim]
    elif tgt == 'grid':
        if name == 'min':
            return [G.min(), G.min(axis=0), G.min(keepdims=True)]
        if name == 'max':
            return [G.max(), G.max(axis=0), G.max(keepdims=True)]
        if name == 'max_pt':
            return [G.max_pt]
        if name == 'mid_pt':
            return [G.mid_pt]
        if name == 'extent':
            return [G.extent]
        if name == 'squeeze':
            return [G.squeeze(), G.squeeze(axis=0) if G.shape[0] == 1 else None]
        if name == 'insert':
            return [G.insert(0, g1), G.insert(n, g1, g1), G.insert(-1, G)]
        if name == 'append':
            return [G.append(g1), G.append(G, g1)]
        if name == 'getitem':
            return [G[sl(None)], G[sl(None, None, 2)], G[sl(0, 1)], G[(0,) * n], G[(-1,) * n],
                    G[..., 0] if n > 1 else G[...], G[[0]] if n == 1 else G[[0], ...]]
        if name == 'points':
            return [G.points(), G.points(order='F')]
        if name == 'corners':
            return [G.corners(), G.corners(order='F')]
        if name == 'corner_grid':
            return [G.corner_grid()]
        if name == 'convex_hull':
            h = G.convex_hull()
            return [h, h.min(), h.max()]
        if name == 'scalars':
            return [G == G, G != G, hash(G), G.is_subgrid(G), G.is_subgrid(G, atol=0.25), G.approx_equals(G, 0.25),
                    G.approx_contains(node0, 0.25), node0 in G, repr(G), str(G), G.size, G.shape, len(G), G.ndim,
                    G.is_uniform, G.is_uniform_byaxis, np.asarray(G), G.element()]
    elif tgt == 'part':
        p1 = uniform_partition(0, 1, 2)
        if name == 'squeeze':
            return [p.squeeze(), p.squeeze(axis=0) if p.shape[0] == 1 else None]
        if name == 'insert':
            return [p.insert(0, p1), p.insert(n, p1, p1), p.insert(-1, p)]
        if name == 'append':
            return [p.append(p1), p.append(p, p1)]
        if name == 'getitem':
            return [p[sl(None)], p[sl(None, None, 2)], p[sl(0, 1)], p[0:1], p[...], p[-1:]]
        if name == 'byaxis':
            return [p.byaxis[0], p.byaxis[-1], p.byaxis[::-1], p.byaxis[list(range(n))]]
        if name == 'points':
            return [p.points(), p.points(order='F'), p.corner_grid() if hasattr(p, 'corner_grid') else None]
        if name == 'index':
            x = mid[0] if n == 1 else mid
            return [p.index(x), p.index(x, floating=True)]
        if name == 'scalars':
            return [p == p, p != p, hash(p), p.approx_equals(p, 0.25), repr(p), str(p), p.size, p.shape, len(p), p.ndim,
                    p.cell_volume, p.boundary_cell_fractions, p.has_isotropic_cells, p.nodes_on_bdry, p.nodes_on_bdry_byaxis,
                    p.is_uniform, p.is_uniform_byaxis, p.has_isotropic_cells, p.mid_pt]
    raise ValueError(m)


def run_part_history(sc, objs, hist):
    """Replays one behaviour of PartHist on real objects. The coordinate / limit arrays are owned by the caller
    (float64, 1-d, contiguous: exactly the internal representation), ONE RectGrid object is shared."""
    nodes_arr = [np.array([flt(v) for v in cv], dtype=np.float64) for cv in sc['nodes']]
    lim_arr = [(np.array([flt(v) for v in l['min']], dtype=np.float64), np.array([flt(v) for v in l['max']], dtype=np.float64))
               for l in sc['lims']]
    G = RectGrid(*nodes_arr)
    parts = []
    steps = []
    for st in hist:
        rec = {'a': st['a'], 'i': st['i'], 'q': st['q'], 'attr': st['attr'], 'route': st['route'], 'lim': st['lim'],
               'obs': [], 'obs_first': [], 'err': ''}
        steps.append(rec)
        try:
            if st['a'] == 'C':
                mn, mx = lim_arr[st['lim'] - 1]
                r = st['route']
                if r == 'rect_shared':
                    parts.append(RectPartition(IntervalProd(mn, mx), G))
                elif r == 'fromgrid_shared':
                    parts.append(uniform_partition_fromgrid(G, min_pt=mn, max_pt=mx))
                elif r == 'rect_fresh':
                    parts.append(RectPartition(IntervalProd(mn, mx), RectGrid(*nodes_arr)))
                elif r == 'nonuniform':
                    parts.append(nonuniform_partition(*nodes_arr, min_pt=mn, max_pt=mx))
                else:
                    raise ValueError(r)
            elif st['a'] == 'Q':
                rec['obs'] = hist_query(parts[st['i'] - 1], st['q'], sc['nodes'])
            elif st['a'] == 'MC':
                if st['attr'] == 'nodes':
                    for a in nodes_arr:
                        a += 1.0
                elif st['attr'] == 'min':
                    for mn, mx in lim_arr:
                        mn -= 1.0
                else:
                    for mn, mx in lim_arr:
                        mx += 1.0
            elif st['a'] == 'MR':
                for a in returned_arrays(parts[st['i'] - 1], st['attr']):
                    if isinstance(a, np.ndarray) and a.flags.writeable:
                        a[...] = a + 1.0
            elif st['a'] == 'CM':
                for a in _arrays(call_shared(parts[st['i'] - 1], st['attr'])):
                    if a.flags.writeable:
                        a[...] = (a + 1.0) if a.dtype.kind == 'f' else ~a if a.dtype.kind == 'b' else a + 1
            elif st['a'] == 'SWEEP':
                first = [{q: hist_query(p, q, sc['nodes']) for q in QUERIES} for p in parts]
                second = [None] * len(parts)
                for i in reversed(range(len(parts))):
                    second[i] = {q: hist_query(parts[i], q, sc['nodes']) for q in reversed(QUERIES)}
                rec['obs_first'] = first if first != second else []     # logged only if the two passes differ
                rec['obs'] = second
        except Exception as e:
            rec['err'] = type(e).__name__
            rec['errmsg'] = '%s: %s' % (type(e).__name__, str(e)[:140])
            break
    return steps


def lite_same(ref, obs):
    if len(ref) != len(obs):
        return False
    for r, o in zip(ref, obs):
        if r['axis'] != o['axis']:
            return False
        one = len(r['axis']['nodes']) == 1 and r['axis']['min'] != r['axis']['max']
        for f in ('bdry', 'sizes', 'frac', 'nob', 'uniform', 'side', 'extent'):
            if f == 'sizes' and one:
                continue
            if r['d'][f] != o['d'][f]:
                return False
    return True


def ans_same(q, ref, obs):
    return lite_same(ref, obs) if q in ('lite', 'sub') else ref == obs

"""Run TLC on a module of /verif/spec and parse what it reports.

Every run gets its own metadir under the caller's work directory; nothing is
shared between runs.  The result classifies the outcome as

  ok              TLC finished, no invariant / property / postcondition violated
  counterexample  an invariant, property, assumption or postcondition failed
  machinery       anything else (parse error, overflow, timeout, JVM failure)

Only the first two are verdicts; `machinery` must be turned into exit code 2.
"""
import os
import re
import shutil
import subprocess
import time

VERIF = os.path.dirname(os.path.dirname(os.path.abspath(__file__)))
SPEC = os.path.join(VERIF, 'spec')
SPEC_DIRS = [os.path.join(SPEC, d) for d in
             ('num', 'sem', 'mach', 'impl', 'trace', 'cfg')]
JAR = '/opt/veriftools/tla/tla2tools.jar'
DEPS = '/opt/veriftools/tla/CommunityModules-deps.jar'


class TLCResult(object):
    def __init__(self):
        self.status = 'machinery'
        self.generated = 0
        self.distinct = 0
        self.diameter = 0
        self.violated = None
        self.output = ''
        self.wall_s = 0.0
        self.cmd = ''
        self.coverage = {}
        self.printed = []          # PrintT lines (raw)

    def __repr__(self):
        return ('TLCResult(%s gen=%d distinct=%d diam=%d violated=%r %.1fs)'
                % (self.status, self.generated, self.distinct, self.diameter,
                   self.violated, self.wall_s))


def find_module(name):
    for d in SPEC_DIRS:
        p = os.path.join(d, name)
        if os.path.exists(p):
            return p
    raise IOError('spec file not found: ' + name)


def run_tlc(module, cfg, workdir, env=None, workers=16, timeout=900,
            simulate=None, depth=None, seed=None, deadlock=False,
            coverage=False, extra=None, heap='8g', dfs=False):
    """module: 'X.tla' (looked up in spec dirs) ; cfg: 'X.cfg' likewise or an
    absolute path (generated configs live in the work directory)."""
    res = TLCResult()
    mod_path = module if os.path.isabs(module) else find_module(module)
    cfg_path = cfg if os.path.isabs(cfg) else find_module(cfg)
    meta = os.path.join(workdir, 'meta-%s-%d' % (
        os.path.basename(cfg_path).replace('.cfg', ''), int(time.time() * 1e6) % 10 ** 9))
    os.makedirs(meta, exist_ok=True)
    libs = os.pathsep.join(SPEC_DIRS + [workdir])
    cmd = ['java', '-XX:+UseParallelGC', '-Xmx' + heap, '-Xss16m',
           '-DTLA-Library=' + libs]
    if dfs:
        cmd.append('-Dtlc2.tool.queue.IStateQueue=StateDeque')
    cmd += ['-cp', JAR + os.pathsep + DEPS, 'tlc2.TLC',
            '-workers', str(workers), '-metadir', meta, '-noGenerateSpecTE',
            '-config', cfg_path]
    if not deadlock:
        cmd.append('-deadlock')       # -deadlock DISABLES deadlock checking
    if coverage:
        cmd += ['-coverage', '1']
    if simulate:
        cmd += ['-simulate', simulate]
    if depth is not None:
        cmd += ['-depth', str(depth)]
    if seed is not None:
        cmd += ['-seed', str(seed)]
    if extra:
        cmd += list(extra)
    cmd.append(mod_path)
    e = dict(os.environ)
    if env:
        e.update({k: str(v) for k, v in env.items()})
    res.cmd = ' '.join(cmd)
    t0 = time.time()
    try:
        p = subprocess.run(cmd, stdout=subprocess.PIPE, stderr=subprocess.STDOUT,
                           env=e, timeout=timeout, cwd=os.path.dirname(mod_path))
        out = p.stdout.decode('utf-8', 'replace')
        rc = p.returncode
    except subprocess.TimeoutExpired as ex:
        out = (ex.stdout or b'').decode('utf-8', 'replace') + '\nTIMEOUT'
        rc = -9
    res.wall_s = time.time() - t0
    res.output = out
    shutil.rmtree(meta, ignore_errors=True)
    for m in re.finditer(r'(\d+) states generated, (\d+) distinct states found', out):
        res.generated, res.distinct = int(m.group(1)), int(m.group(2))
    m = re.search(r'depth of the complete state graph search is (\d+)', out)
    if m:
        res.diameter = int(m.group(1))
    res.printed = [l for l in out.splitlines() if l.startswith('"') or l.startswith('<<') or l.startswith('[')]
    viol = None
    m = re.search(r'Invariant (\S+) is violated', out)
    if m:
        viol = 'invariant:' + m.group(1)
    m2 = re.search(r'Action property (\S+) is violated', out) or \
        re.search(r'Temporal properties were violated', out)
    if m2 and not viol:
        viol = 'property:' + (m2.group(1) if m2.lastindex else 'temporal')
    m3 = re.search(r'Assumption .* is false', out)
    if m3 and not viol:
        viol = 'assumption'
    if re.search(r'[Pp]ostcondition .*(violated|false)', out) and not viol:
        viol = 'postcondition'
    if 'Deadlock reached' in out and not viol:
        viol = 'deadlock'
    res.violated = viol
    finished = ('Model checking completed' in out) or ('Finished in' in out)
    if viol:
        res.status = 'counterexample'
    elif rc == 0 and finished and 'Error:' not in out:
        res.status = 'ok'
    elif simulate and rc in (0, -9) and 'Error:' not in out:
        res.status = 'ok'
    else:
        res.status = 'machinery'
    if coverage:
        for m in re.finditer(r'<(\w+) line \d+, col \d+ to line \d+, col \d+ of module (\w+)>: (\d+):(\d+)', out):
            res.coverage[m.group(2) + '!' + m.group(1)] = (int(m.group(3)), int(m.group(4)))
    return res


def sany(path):
    p = subprocess.run(['java', '-DTLA-Library=' + os.pathsep.join(SPEC_DIRS),
                        '-cp', JAR + os.pathsep + DEPS, 'tla2sany.SANY', path],
                       stdout=subprocess.PIPE, stderr=subprocess.STDOUT,
                       cwd=os.path.dirname(path))
    out = p.stdout.decode('utf-8', 'replace')
    ok = p.returncode == 0 and 'error' not in out.lower().replace('errors: 0', '')
    return ok, out


def parse_fails(output):
    """All <<"FAIL", line, id, clauses>> tuples printed by a total trace spec.  TLC wraps long values over several
    lines, so tuples are recovered by bracket matching. Returns [(line, id, clauses_text)]."""
    import re as _re
    out = []
    text = output
    for m in _re.finditer(r'<<\s*"FAIL"\s*,', text):
        i, depth, j = m.start(), 0, m.start()
        while j < len(text):
            if text.startswith('<<', j):
                depth += 1
                j += 2
                continue
            if text.startswith('>>', j):
                depth -= 1
                j += 2
                if depth == 0:
                    break
                continue
            j += 1
        body = ' '.join(text[i:j].split())
        mm = _re.match(r'<<\s*"FAIL"\s*,\s*(\d+)\s*,\s*(\d+)\s*,\s*(.*)>>$', body)
        if mm:
            out.append((int(mm.group(1)), int(mm.group(2)), mm.group(3).strip()))
    return out

"""Run context shared by all checks: work directory, evidence counters,
violation triage against known_findings.json, replay files, exit code.

Exit codes: 0 held (possibly KNOWN-FINDING lines), 1 VIOLATION, 2 machinery.
"""
import hashlib
import json
import os
import shutil
import sys
import time
import traceback

VERIF = os.path.dirname(os.path.dirname(os.path.abspath(__file__)))
KNOWN = os.path.join(VERIF, 'known_findings.json')


class MachineryError(Exception):
    pass


def _jsonable(o):
    from fractions import Fraction
    import numpy as np
    if isinstance(o, Fraction):
        return '%d/%d' % (o.numerator, o.denominator) if o.denominator != 1 else int(o.numerator)
    if isinstance(o, (np.integer,)):
        return int(o)
    if isinstance(o, (np.floating,)):
        return float(o)
    if isinstance(o, (np.bool_,)):
        return bool(o)
    if isinstance(o, complex):
        return [o.real, o.imag]
    if isinstance(o, np.ndarray):
        return o.tolist()
    if isinstance(o, (set, frozenset)):
        return sorted(map(str, o))
    if isinstance(o, tuple):
        return list(o)
    return repr(o)


def dumps(o, **kw):
    return json.dumps(o, default=_jsonable, **kw)



def _sweep_stale_work():
    """remove work directories left behind by runs that were killed (their process is gone) - bounds disk usage"""
    import re
    root = os.path.join(VERIF, '.work')
    try:
        names = os.listdir(root)
    except OSError:
        return
    for n in names:
        m = re.match(r'^[A-Z0-9]+-(\d+)$', n)
        if not m:
            continue
        pid = int(m.group(1))
        if pid == os.getpid():
            continue
        try:
            os.kill(pid, 0)
            continue                      # still running
        except ProcessLookupError:
            pass
        except OSError:
            continue
        shutil.rmtree(os.path.join(root, n), ignore_errors=True)


class Ctx(object):
    def __init__(self, prop, tier, seed):
        self.prop = prop
        self.tier = tier
        self.seed = int(seed)
        self.t0 = time.time()
        self.work = os.path.join(VERIF, '.work', '%s-%d' % (prop, os.getpid()))
        _sweep_stale_work()
        os.makedirs(self.work, exist_ok=True)
        self.replay_dir = os.path.join(VERIF, 'replays', prop)
        if os.path.abspath(os.environ.get('VERIF_REPO', '/repo')) != '/repo':
            # runs against scratch worktrees (mutation testing) keep their replay files apart
            self.replay_dir = os.path.join(VERIF, '.work', 'replays-scratch', '%s-%d' % (prop, os.getpid()))
        shutil.rmtree(self.replay_dir, ignore_errors=True)     # replay files always belong to the latest run
        self.states = 0
        self.transitions = 0
        self.tlc_runs = []
        self.evaluations = 0
        self.traces = 0
        self.nontrivial = set()
        self.samples = []
        self.assumptions = []
        self.extra = {}
        self.rule = ''
        self.exhaustive = False
        self.violations = []       # unlisted
        self.known_hits = {}       # finding id -> count
        self.drift = []
        self.skipped = []
        self.machinery = []
        with open(KNOWN) as f:
            self.known = [k for k in json.load(f)['findings']
                          if k.get('property') == prop and k.get('status') == 'open']

    # ---- TLC bookkeeping -------------------------------------------------
    def add_tlc(self, name, res, expect='ok'):
        self.states += res.distinct
        self.transitions += res.generated
        self.tlc_runs.append({'name': name, 'status': res.status, 'generated': res.generated,
                              'distinct': res.distinct, 'diameter': res.diameter,
                              'violated': res.violated, 'wall_s': round(res.wall_s, 2)})
        if res.status == 'machinery' or (expect == 'ok' and res.status != 'ok'):
            tail = '\n'.join(res.output.splitlines()[-40:])
            self.machinery.append('TLC run %s: status=%s violated=%s\n%s' % (
                name, res.status, res.violated, tail))
            raise MachineryError('TLC run %s failed (%s, %s)' % (name, res.status, res.violated))
        return res

    # ---- evidence counters ----------------------------------------------
    def count(self, abstract_case=None, nontrivial=False, n=1):
        self.evaluations += n
        if nontrivial and abstract_case is not None:
            h = hashlib.sha1(dumps(abstract_case, sort_keys=True).encode()).hexdigest()[:16]
            self.nontrivial.add(h)

    def sample(self, s, cap=6):
        if len(self.samples) < cap:
            self.samples.append(json.loads(dumps(s)))

    # ---- verdicts --------------------------------------------------------
    def _match_known(self, sig):
        for k in self.known:
            ksig = k.get('signature', {})
            ok = True
            for key, val in ksig.items():
                have = sig.get(key)
                if isinstance(val, list):
                    if have not in val:
                        ok = False
                        break
                elif have != val:
                    ok = False
                    break
            if ok:
                return k
        return None

    def violation(self, sig, detail):
        """sig: family-level signature (dict of small strings) ; detail: replayable case."""
        k = self._match_known(sig)
        if k is not None:
            self.known_hits[k['id']] = self.known_hits.get(k['id'], 0) + 1
            return False
        os.makedirs(self.replay_dir, exist_ok=True)
        body = {'property': self.prop, 'signature': sig, 'detail': detail,
                'tier': self.tier, 'seed': self.seed}
        h = hashlib.sha1(dumps(body, sort_keys=True).encode()).hexdigest()[:12]
        path = os.path.join(self.replay_dir, h + '.json')
        with open(path, 'w') as f:
            f.write(dumps(body, indent=1))
        self.violations.append((sig, path))
        return True

    def drift_note(self, msg):
        if len(self.drift) < 50:
            self.drift.append(msg)

    def skip(self, msg):
        if msg not in self.skipped:
            self.skipped.append(msg)

    # ---- finish ----------------------------------------------------------
    def finish(self, level='model_checking'):
        printed = set()
        for sig, path in self.violations:
            key = dumps(sig, sort_keys=True)
            if key in printed:
                continue            # one line per violation family; every case has its own replay file
            printed.add(key)
            if len(printed) > 25:
                continue
            print('VIOLATION property=%s replay=%s sig=%s' % (self.prop, path, dumps(sig, sort_keys=True)))
        if len(printed) > 25:
            print('... and %d more violation families (see replays/%s/)' % (len(printed) - 25, self.prop))
        for k in self.known:
            if k['id'] in self.known_hits:
                print('KNOWN-FINDING: property=%s %s %s (%d cases)' % (
                    self.prop, k['id'], k['what'], self.known_hits[k['id']]))
        stale = [k['id'] for k in self.known if k['id'] not in self.known_hits]
        cov = {
            'states': self.states, 'transitions': self.transitions,
            'traces_validated_against_impl': self.traces,
            'evaluations': self.evaluations,
            'distinct_nontrivial': len(self.nontrivial),
            'rule': self.rule, 'samples': self.samples or [{'note': 'no sample recorded'}],
            'exhaustive': bool(self.exhaustive),
            'tlc_runs': self.tlc_runs, 'drift': self.drift,
            'skipped': self.skipped,
            'known_findings_reproduced': sorted(self.known_hits),
            'known_findings_not_reproduced_this_run': stale,
        }
        cov.update(self.extra)
        ev = {'property_id': self.prop, 'tier': self.tier, 'seed': self.seed,
              'level': level, 'coverage': cov, 'assumptions': self.assumptions,
              'wall_s': round(time.time() - self.t0, 2),
              'violations': len(self.violations)}
        if self.machinery:
            ev['coverage']['machinery_failures'] = self.machinery[:5]
        os.makedirs(os.path.join(VERIF, 'evidence'), exist_ok=True)
        dst = os.path.join(VERIF, 'evidence', self.prop + '.json')
        repo = os.path.abspath(os.environ.get('VERIF_REPO', '/repo'))
        if repo != '/repo':
            # a run against a scratch worktree (mutation testing) must not overwrite the evidence of /repo
            os.makedirs(os.path.join(VERIF, '.work', 'evidence-scratch'), exist_ok=True)
            dst = os.path.join(VERIF, '.work', 'evidence-scratch', '%s-%d.json' % (self.prop, os.getpid()))
            ev['repo'] = repo
        tmp = dst + '.tmp%d' % os.getpid()
        with open(tmp, 'w') as f:
            f.write(dumps(ev, indent=1))
        os.replace(tmp, dst)
        shutil.rmtree(self.work, ignore_errors=True)
        if self.machinery:
            print('MACHINERY-FAILURE property=%s: %s' % (self.prop, self.machinery[0].splitlines()[0]))
            return 2
        if self.violations:
            return 1
        print('OK property=%s tier=%s evaluations=%d distinct_nontrivial=%d states=%d traces=%d wall=%.1fs' % (
            self.prop, self.tier, self.evaluations, len(self.nontrivial), self.states, self.traces,
            time.time() - self.t0))
        return 0


def run_check(prop, fn, tier, seed):
    ctx = Ctx(prop, tier, seed)
    try:
        fn(ctx)
    except MachineryError as e:
        if not ctx.machinery:
            ctx.machinery.append(str(e))
    except Exception:
        ctx.machinery.append('harness exception: ' + traceback.format_exc())
        sys.stderr.write(traceback.format_exc())
    return ctx.finish()

"""Systematic catalogue of the proximal factories of odl.solvers.nonsmooth.proximal_operators (C10, C03).

Every factory x every keyword (lam, g, gamma, lower / upper, scaling, a / u, mu, the step sigma as scalar / element /
array / per-component list) with >= 2 materially different values, crossed all-pairs with the space axes (tensor /
discretised / product spaces, real / complex, double / single precision, weighting none / const / array, 1-d / 2-d / 3-d,
nodes on the boundary), plus the combinators applied to combinators (depth 2).  Option values are short labels.

Combinations that a factory does not accept (an element-valued step for factories that convert the step with float(),
Kullback-Leibler on complex spaces, ...) are filtered by CONSTRUCTING the operator once while the catalogue is built:
what the library rejects at construction time is not a recipe.
"""
from collections import OrderedDict as OD

import numpy as np
import odl

from . import catutil as U

LAM = OD([('default', None), ('int-1', 1), ('2.0', 2.0), ('0.5', 0.5)])
# factories with the (space, lam, g) signature
LG = ['proximal_l1', 'proximal_convex_conj_l1', 'proximal_l2', 'proximal_convex_conj_l2', 'proximal_l2_squared',
      'proximal_convex_conj_l2_squared', 'proximal_convex_conj_kl', 'proximal_convex_conj_kl_cross_entropy']
LG_VF = ['proximal_l1_l2', 'proximal_convex_conj_l1_l2', 'proximal_l1', 'proximal_convex_conj_l1', 'proximal_l2',
         'proximal_l2_squared', 'proximal_convex_conj_l2_squared']


def _sigma(kind, sp):
    if kind == 'scalar':
        return 0.5
    if kind == 'int':
        return 2
    if kind == 'large':
        return 8.0
    e = U.posvec(sp, (0.5, 0.75, 1.0, 0.25, 2.0))
    if kind == 'element':
        return e
    if kind == 'array':
        return e.asarray().copy() if not isinstance(sp, odl.ProductSpace) else [p.asarray().copy() for p in e]
    raise ValueError(kind)


def _g(kind, sp):
    if kind == 'none':
        return None
    if kind == 'zero':
        return sp.zero()
    return U.posvec(sp, (0.5, 1.5, 0.25, 1.0, 2.0))


def _space_combo(c):
    return U.mk_space(kind=c['kind'], field=c['field'], prec=c['prec'], weighting=c['weighting'], shape=c['shape'], bdry=c['bdry'])


def _sp_axes(**kw):
    from .linops import _space_axes
    return _space_axes(**kw)


def _valid_space(c):
    # explicitly array-weighted discretised spaces are left out: their repr() raises, see harness/opcatalog.py
    if c['kind'] == 'discr' and c['weighting'] == 'array':
        return False
    return c['kind'] == 'discr' or c['bdry'] == 'False'


_CACHE = {}


def recipes(tier='quick'):
    """-> [(family, options, builder)] ; quick: all-pairs ; thorough: all-pairs + sample of the full product."""
    if tier not in _CACHE:
        _CACHE[tier] = _recipes(tier)
    return list(_CACHE[tier])


def _recipes(tier):
    S = odl.solvers
    R, seen = [], set()

    def add(family, opts, fn, probe=True):
        key = (family, tuple(sorted((k, str(v)) for k, v in opts.items())))
        if key in seen:
            return
        if probe:
            try:
                fn()
            except Exception:
                return              # rejected at construction: not a recipe
        seen.add(key)
        R.append((family, dict(opts), fn))

    def o_(c, lab, *names, **extra):
        o = {n: c[n] for n in names}
        o.update(lab)
        o.update(extra)
        return o
    cap = 300
    # what the factories accept (read off their code): an element / array valued step only where the step is not
    # converted with float(); Kullback-Leibler, box constraints and Huber on real spaces only.  Whatever else the library
    # rejects is dropped by the construction probe in add().
    ELEM_SIGMA = ('proximal_l1', 'proximal_convex_conj_l1', 'proximal_l2_squared', 'proximal_convex_conj_l2_squared')
    ELEM_BASE = ('l1', 'l1-g', 'l2_squared', 'cc_l1', 'box')
    REAL_BASE = ('box', 'huber', 'cc_kl')

    def ok(kind):
        def pred(c):
            if 'kind' in c and not _valid_space(c):
                return False
            cplx = c.get('field') == 'complex'
            if kind == 'lg':
                if c['sigma'] in ('element', 'array') and c['fam'] not in ELEM_SIGMA:
                    return False
                if cplx and 'kl' in c['fam']:
                    return False
            elif kind == 'plain':
                if cplx and c['fam'] == 'proximal_nonnegativity':
                    return False
            elif kind in ('comb', 'd2'):
                if cplx and c['base'] in REAL_BASE:
                    return False
                elemish = c['sigma'] in ('element', 'array') or c.get('arg') in ('element', 'array', 'element-mixed-sign')
                if elemish and c['base'] not in ELEM_BASE:
                    return False
            elif kind == 'vf2':
                # array based projections / pointwise norms: power spaces only
                if c['fam'] in ('proximal_huber', 'proximal_linfty', 'proximal_convex_conj_linfty') and not c['form'].startswith('power'):
                    return False
            elif kind == 'vf':
                if c['fam'] in ('proximal_l1_l2', 'proximal_convex_conj_l1_l2') and not c['form'].startswith('power'):
                    return False
                if c['sigma'] == 'element' and c['fam'] not in ELEM_SIGMA:
                    return False
            return True
        return pred
    # ---------------------------------------------------------------- (space, lam, g) factories on tensor-like spaces
    def mk_lg(c):
        def build():
            lab, sp = _space_combo(c)
            kw = {} if LAM[c['lam']] is None else {'lam': LAM[c['lam']]}
            g = _g(c['g'], sp)
            if g is not None:
                kw['g'] = g
            return getattr(S, c['fam'])(sp, **kw)(_sigma(c['sigma'], sp))
        return build
    # crossed PER FACTORY, so that every (g, sigma), (lam, sigma), (g, space axis) ... pair is met by every factory
    for fam in LG:
        axes = OD([('fam', [fam]), ('lam', list(LAM)), ('g', ['none', 'elem', 'zero']), ('sigma', ['scalar', 'int', 'element', 'array', 'large'])])
        axes.update(_sp_axes())
        for c in U.cross(tier, axes, ok('lg'), cap // 4):
            add(c['fam'], o_(c, _space_combo(c)[0], 'lam', 'g', 'sigma'), mk_lg(c), probe=True)
    # the BLAS regime of lincomb (>= 100 entries) once per factory
    big = odl.rn(120)
    for fam in LG:
        for g in ('none', 'elem'):
            for sg in ('scalar', 'element'):
                add(fam, {'space': 'rn-120', 'g': g, 'sigma': sg, 'lam': '2.0'},
                    lambda fam=fam, g=g, sg=sg: getattr(S, fam)(big, lam=2.0, **({} if g == 'none' else {'g': _g('elem', big)}))(_sigma(sg, big)))
    # ---------------------------------------------------------------- factories without lam / g
    def mk_plain(c):
        def build():
            lab, sp = _space_combo(c)
            return getattr(S, c['fam'])(sp)(_sigma(c['sigma'], sp))
        return build
    axes = OD([('fam', ['proximal_linfty', 'proximal_convex_conj_linfty', 'proximal_const_func', 'proximal_nonnegativity']),
               ('sigma', ['scalar', 'int', 'large'])])
    axes.update(_sp_axes())
    for c in U.cross(tier, axes, ok('plain'), cap):
        add(c['fam'], o_(c, _space_combo(c)[0], 'sigma'), mk_plain(c), probe=True)

    def mk_huber(c):
        def build():
            lab, sp = _space_combo(c)
            return S.proximal_huber(sp, {'0.5': 0.5, '2.0': 2.0, 'zero': 0.0}[c['gamma']])(_sigma(c['sigma'], sp))
        return build
    axes = OD([('gamma', ['0.5', '2.0', 'zero']), ('sigma', ['scalar', 'int', 'large'])])
    axes.update(_sp_axes(fields=('real',)))
    for c in U.cross(tier, axes, ok('huber'), cap):
        add('proximal_huber', o_(c, _space_combo(c)[0], 'gamma', 'sigma'), mk_huber(c), probe=True)
    BND = ['none', 'scalar', 'element', 'array-like']

    def bound(kind, sp, v):
        return {'none': None, 'scalar': v, 'element': v * sp.one(), 'array-like': (v * sp.one()).asarray().tolist()}[kind]

    def mk_box(c):
        def build():
            lab, sp = _space_combo(c)
            return S.proximal_box_constraint(sp, bound(c['lower'], sp, 0.75), bound(c['upper'], sp, 1.25))(0.5)
        return build
    axes = OD([('lower', BND), ('upper', BND)])
    axes.update(_sp_axes(fields=('real',)))
    for c in U.cross(tier, axes, ok('box'), cap):
        add('proximal_box_constraint', o_(c, _space_combo(c)[0], 'lower', 'upper'), mk_box(c), probe=True)
    # keyword spellings of the bounds
    r3 = odl.rn(3)
    add('proximal_box_constraint', {'space': 'rn', 'lower': 'kw-scalar', 'upper': 'default'}, lambda: S.proximal_box_constraint(r3, lower=0.75)(0.5))
    add('proximal_box_constraint', {'space': 'rn', 'lower': 'default', 'upper': 'kw-scalar'}, lambda: S.proximal_box_constraint(r3, upper=1.25)(0.5))
    # ---------------------------------------------------------------- combinators around base factories
    BASE = OD([('l1', lambda sp: S.proximal_l1(sp)), ('l1-g', lambda sp: S.proximal_l1(sp, lam=2.0, g=_g('elem', sp))),
               ('l2', lambda sp: S.proximal_l2(sp)), ('l2_squared', lambda sp: S.proximal_l2_squared(sp)),
               ('cc_l1', lambda sp: S.proximal_convex_conj_l1(sp)), ('box', lambda sp: S.proximal_box_constraint(sp, 0.75, 1.25)),
               ('huber', lambda sp: S.proximal_huber(sp, 0.5)), ('cc_kl', lambda sp: S.proximal_convex_conj_kl(sp, g=_g('elem', sp))),
               ('linfty', lambda sp: S.proximal_linfty(sp))])
    SCAL = OD([('scalar', lambda sp: 2.0), ('neg', lambda sp: -0.5), ('zero', lambda sp: 0.0), ('int', lambda sp: 2),
               ('element', lambda sp: U.posvec(sp, (2.0, 0.5, 1.0, 4.0))), ('array', lambda sp: U.posvec(sp, (2.0, 0.5, 1.0, 4.0)).asarray().copy()),
               ('element-mixed-sign', lambda sp: U.vec(sp, [2.0, -0.5, 1.0, -4.0], [2.0, -0.5, 1.0, -4.0]))])
    COMB = OD([
        ('proximal_convex_conj', (['-'], lambda b, sp, a: S.proximal_convex_conj(b))),
        ('proximal_translation', (['element', 'zero'],
                                  lambda b, sp, a: S.proximal_translation(b, sp.zero() if a == 'zero' else U.posvec(sp, (1.0, 0.5, 2.0))))),
        ('proximal_arg_scaling', (list(SCAL), lambda b, sp, a: S.proximal_arg_scaling(b, SCAL[a](sp)))),
        ('proximal_quadratic_perturbation',
         (['a-only', 'a-zero', 'a-u', 'a-zero-u', 'a-int-u'],
          lambda b, sp, a: S.proximal_quadratic_perturbation(b, {'a-only': 0.5, 'a-zero': 0.0, 'a-u': 0.5, 'a-zero-u': 0, 'a-int-u': 2}[a],
                                                             **({'u': U.posvec(sp, (1.0, 0.5, 2.0))} if a.endswith('u') else {})))),
        ('proximal_composition',
         (['scaling', 'identity', 'neg-scaling', 'multiply-sign'],
          lambda b, sp, a: S.proximal_composition(b, *{'scaling': (odl.ScalingOperator(sp, 2.0), 4.0), 'identity': (odl.IdentityOperator(sp), 1),
                                                       'neg-scaling': (odl.ScalingOperator(sp, -0.5), 0.25),
                                                       'multiply-sign': (odl.MultiplyOperator(U.vec(sp, [1.0, -1.0, 1.0, -1.0], [1.0, -1.0, 1j, -1j])), 1.0)}[a]))),
    ])
    for comb, (args, build) in COMB.items():
        def mk_comb(c, build=build):
            def b_():
                lab, sp = _space_combo(c)
                return build(BASE[c['base']](sp), sp, c['arg'])(_sigma(c['sigma'], sp))
            return b_
        axes = OD([('base', list(BASE)), ('arg', args), ('sigma', ['scalar', 'int', 'element', 'array'])])
        axes.update(_sp_axes())
        for c in U.cross(tier, axes, ok('comb'), cap):
            add(comb, o_(c, _space_combo(c)[0], 'base', 'arg', 'sigma'), mk_comb(c), probe=True)
    # depth 2: a combinator applied to a combinator
    C2 = list(COMB)
    ARG2 = {'proximal_convex_conj': '-', 'proximal_translation': 'element', 'proximal_arg_scaling': 'scalar',
            'proximal_quadratic_perturbation': 'a-u', 'proximal_composition': 'scaling'}

    def mk_d2(c):
        def build():
            lab, sp = _space_combo(c)
            inner = COMB[c['inner']][1](BASE[c['base']](sp), sp, ARG2[c['inner']])
            return COMB[c['outer']][1](inner, sp, ARG2[c['outer']])(_sigma(c['sigma'], sp))
        return build
    axes = OD([('outer', C2), ('inner', C2), ('base', ['l1', 'l1-g', 'l2_squared', 'cc_l1', 'box', 'l2']), ('sigma', ['scalar', 'element'])])
    axes.update(_sp_axes(shapes=('1d', '2d'), bdrys=('False', 'asym')))
    for c in U.cross(tier, axes, ok('d2'), cap):
        o = o_(c, _space_combo(c)[0], 'base', 'sigma')
        o['chain'] = c['outer'].replace('proximal_', '') + '(' + c['inner'].replace('proximal_', '') + ')'
        add('depth2', o, mk_d2(c), probe=True)
    # ---------------------------------------------------------------- vector fields / product spaces
    VB = OD([('rn', lambda f, p: U.mk_space('rn', f, p)[1]), ('discr2d', lambda f, p: U.mk_space('discr', f, p, shape='2d')[1]),
             ('rn-array', lambda f, p: U.mk_space('rn', f, p, weighting='array')[1]),
             ('discr-bdry', lambda f, p: U.mk_space('discr', f, p, bdry='asym')[1])])

    def mk_vf(c):
        def build():
            sp = U.mk_pspace(VB[c['base']](c['field'], c['prec']), c['form'], c['pspace-weighting'])
            kw = {} if c['lam'] == 'default' else {'lam': 2.0}
            if c['g'] != 'none':
                kw['g'] = _g('elem', sp)
            return getattr(S, c['fam'])(sp, **kw)(_sigma(c['sigma'], sp))
        return build
    axes = OD([('fam', LG_VF), ('lam', ['default', '2.0']), ('g', ['none', 'elem']), ('sigma', ['scalar', 'int', 'element']),
               ('form', ['power1', 'power2', 'power3', 'general', 'nested']), ('base', list(VB)), ('pspace-weighting', ['none', 'const', 'array']),
               ('field', ['real', 'complex']), ('prec', ['double', 'single'])])
    combos = []
    for fam in LG_VF:
        combos += U.cross(tier, OD(axes, fam=[fam]), ok('vf'), cap // 4)
    for c in combos:
        o = {k: c[k] for k in ('lam', 'g', 'sigma', 'base', 'pspace-weighting')}
        o['space'] = 'pspace-' + c['form']
        if c['field'] == 'complex':
            o['dtype'] = 'complex'
        if c['prec'] == 'single':
            o['prec'] = 'single'
        add(c['fam'], o, mk_vf(c), probe=True)

    def mk_vf2(c):
        def build():
            sp = U.mk_pspace(VB[c['base']]('real', 'double'), c['form'], c['pspace-weighting'])
            f = c['fam']
            if f == 'proximal_huber':
                return S.proximal_huber(sp, 0.5)(0.5)
            if f == 'proximal_box_constraint':
                return S.proximal_box_constraint(sp, 0.75, 1.25)(0.5)
            return getattr(S, f)(sp)(0.5)
        return build
    axes = OD([('fam', ['proximal_huber', 'proximal_box_constraint', 'proximal_nonnegativity', 'proximal_const_func', 'proximal_linfty',
                        'proximal_convex_conj_linfty']),
               ('form', ['power1', 'power2', 'power3', 'general', 'nested']), ('base', list(VB)), ('pspace-weighting', ['none', 'const', 'array'])])
    for c in U.cross(tier, axes, ok('vf2'), cap):
        add(c['fam'], {'space': 'pspace-' + c['form'], 'base': c['base'], 'pspace-weighting': c['pspace-weighting']}, mk_vf2(c), probe=True)
    # combine_proximals: argument forms x step forms
    def comb_parts(which, w):
        X = odl.rn(3) if w == 'none' else odl.rn(3, weighting=[1.0, 4.0, 0.5])
        Y = odl.uniform_discr(0, 1, 2)
        a, b, c_ = S.proximal_l1(X), S.proximal_l2_squared(X, g=_g('elem', X)), S.proximal_convex_conj_l1(X, lam=2.0)
        return {'two': (a, b), 'one': (c_,), 'three': (a, b, c_), 'same-twice': (a, a), 'different-spaces': (a, S.proximal_l2(Y)),
                'nested': (S.combine_proximals(a, b), c_), 'with-combinator': (S.proximal_convex_conj(a), S.proximal_translation(b, X.one()))}[which]
    for which in ('two', 'one', 'three', 'same-twice', 'different-spaces', 'nested', 'with-combinator'):
        for w in ('none', 'array'):
            for sg in ('scalar', 'int', 'list', 'tuple-int'):
                def mk(which=which, w=w, sg=sg):
                    parts = comb_parts(which, w)
                    n = len(parts)
                    sig = {'scalar': 0.5, 'int': 2, 'list': [0.5, 2.0, 0.25][:n], 'tuple-int': (1, 2, 3)[:n]}[sg]
                    return S.combine_proximals(*parts)(sig)
                add('combine_proximals', {'parts': which, 'comp-weighting': w, 'sigma': sg}, mk)
    return R

"""Shared helpers of the C11 / C12 checks (SolverMachine): abstract problem instances
(JSON records exported by TLC or drawn by the drivers) -> real ODL operators / functionals,
real solver runs with a recording callback, projections, quantisation, KKT residuals.

An instance is the record of spec/cfg/MC_SolverMachine.tla:
    solver, tag, Ls (list of matrices of [n,d]), f, gs, h (functional records k,c,t,lo,hi),
    tau, sig, th, x0, y0, b, sol, lam, N
Concretisations:
    'rn'     MatrixOperator on rn spaces
    'block'  the same matrix as BroadcastOperator of two row blocks into a ProductSpace,
             functionals on the range as SeparableSum (single-operator solvers, >= 2 rows)
"""
from fractions import Fraction
import math

import numpy as np
import odl

from . import exact
from odl.space.pspace import ProductSpaceElement

S = odl.solvers
from odl.solvers.nonsmooth.admm import admm_linearized, admm_linearized_simple
from odl.solvers.nonsmooth.alternating_dual_updates import adupdates, adupdates_simple
from odl.solvers.nonsmooth.difference_convex import doubleprox_dc, doubleprox_dc_simple

REALNAME = {'admm': 'admm_linearized', 'adu': 'adupdates', 'dpdc': 'doubleprox_dc', 'pdhg': 'pdhg',
            'dr': 'douglas_rachford_pd', 'fb': 'forward_backward_pd', 'pg': 'proximal_gradient',
            'apg': 'accelerated_proximal_gradient', 'landweber': 'landweber', 'kaczmarz': 'kaczmarz',
            'cg': 'conjugate_gradient', 'cgn': 'conjugate_gradient_normal', 'mlem': 'mlem',
            'sd': 'steepest_descent', 'sdbt': 'steepest_descent+BacktrackingLineSearch',
            'power': 'power_method_opnorm'}
MAXDEN = 2 ** 16          # snapping with tol 2^-20/D is sound up to here (DESIGN 4/C11)


# ------------------------------------------------------------------ exact <-> float
def qf(q):
    return float(Fraction(q[0], q[1]))


def qfr(q):
    return Fraction(q[0], q[1])


def vec(v):
    return np.array([qf(q) for q in v], dtype=float)


def mat(M):
    return np.array([[qf(q) for q in row] for row in M], dtype=float)


def qvec(fr):
    return [exact.to_q(Fraction(v)) for v in fr]


def snapvec(arr, D):
    """Snap a float array onto the lattice (1/D)Z ; off-lattice entries become the NaN token [0,0]
    (same kind as a number, so TLC can compare it)."""
    out = []
    for v in np.asarray(arr, dtype=float).ravel():
        s = exact.snap(v, D)
        if s == exact.OFF or (isinstance(s, float)):
            out.append([0, 0])
        else:
            out.append(exact.to_q(s))
    return out


def flat(el):
    """Flat float array of a tensor / product-space element (copy)."""
    if isinstance(el, ProductSpaceElement):
        return np.concatenate([flat(p) for p in el])
    return np.array(el.asarray(), dtype=float).ravel().copy()


# ------------------------------------------------------------------ functionals
def fkind(fr):
    """Family-level name of a functional record."""
    if fr['k'] == 'L1':
        if fr['t']:
            return 'L1-translated'
        return 'L1'
    return fr['k']


def mk_func(fr, space, sl=None):
    """ODL functional of a record on an rn space (sl: slice of the translation for row blocks)."""
    k = fr['k']
    if k == 'Box':
        return S.IndicatorBox(space, qf(fr['lo']), qf(fr['hi']))
    if k == 'Zero':
        return S.ZeroFunctional(space)
    base = S.L1Norm(space) if k == 'L1' else S.L2NormSquared(space)
    if fr['t']:
        t = vec(fr['t'])
        if sl is not None:
            t = t[sl]
        base = base.translated(space.element(t.copy()))
    c = qf(fr['c'])
    if c != 1:
        base = c * base
    return base


class Problem(object):
    """Real ODL objects of an instance under a concretisation."""

    def __init__(self, inst, conc='rn'):
        self.inst = inst
        self.conc = conc
        Ms = [mat(M) for M in inst['Ls']]
        n = Ms[0].shape[1]
        self.dom = odl.rn(n)
        self.Ls, self.gs, self.slices = [], [], []
        for j, M in enumerate(Ms):
            m = M.shape[0]
            if conc == 'block' and m >= 2:
                parts = [slice(0, 1), slice(1, m)]
                ops = [odl.MatrixOperator(M[p].copy(), domain=self.dom) for p in parts]
                L = odl.BroadcastOperator(*ops)
                self.Ls.append(L)
                self.slices.append(parts)
                if j < len(inst['gs']):
                    self.gs.append(S.SeparableSum(*[mk_func(inst['gs'][j], op.range, p) for op, p in zip(ops, parts)]))
            else:
                L = odl.MatrixOperator(M.copy(), domain=self.dom)
                if inst.get('pw', 1) > 1:        # A(x) = M (x .^ pw): nonlinear, derivative depends on the point
                    L = L * odl.PowerOperator(self.dom, inst['pw'])
                self.Ls.append(L)
                self.slices.append(None)
                if j < len(inst['gs']):
                    self.gs.append(mk_func(inst['gs'][j], L.range))
        self.f = mk_func(inst['f'], self.dom)
        self.h = mk_func(inst['h'], self.dom)
        # infimal-convolution terms of forward_backward_pd (option l), one per operator
        self.ls = [mk_func(l, L.range) for l, L in zip(inst.get('ls') or [], self.Ls)]
        self.tau = qf(inst['tau'])
        self.sig = [qf(s) for s in inst['sig']]
        self.th = qf(inst['th'])

    def x(self, v):
        return self.dom.element(np.array(v, dtype=float).copy())

    def ran(self, j, v):
        v = np.array(v, dtype=float)
        sp = self.Ls[j].range
        if self.slices[j] is None:
            return sp.element(v.copy())
        return sp.element([v[p].copy() for p in self.slices[j]])

    def rhs(self, j):
        return self.ran(j, vec(self.inst['b'][j]))


class Rec(object):
    """Recording callback: one flat copy per call."""

    def __init__(self):
        self.its = []

    def __call__(self, x):
        self.its.append(flat(x))


def applicable_concs(inst):
    out = ['rn']
    if inst.get('pw', 1) > 1 or inst.get('ls'):
        return out
    if inst['solver'] in ('admm', 'dpdc', 'pdhg', 'pg', 'landweber', 'sd', 'cgn', 'dr', 'fb') \
            and len(inst['Ls']) == 1 and len(inst['Ls'][0]) >= 2:
        out.append('block')
    return out


# ------------------------------------------------------------------ options / scalings (concretisation axes)
SCALES = [2.0 ** -20, 2.0 ** -10, 2.0 ** 10]
NONSMOOTH = ('pdhg', 'admm', 'adu', 'dpdc', 'dr', 'fb', 'pg', 'apg')
ISTEP_FORMS = ['array', 'list', 'element']


def _fq(fr):
    fr = Fraction(fr)
    return [fr.numerator, fr.denominator]


def _sf(fr, s):
    """functional record of  x -> s^2 f(x/s)  (so that prox_{tau f_s}(s v) = s prox_{tau f}(v)):
    translations and box bounds scale by s, the weight of an L1 term by s, squared norms keep their weight."""
    out = dict(fr)
    if fr['t']:
        out['t'] = [_fq(qfr(q) * s) for q in fr['t']]
    if fr['k'] == 'L1':
        out['c'] = _fq(qfr(fr['c']) * s)
    if fr['k'] == 'Box':
        out['lo'], out['hi'] = _fq(qfr(fr['lo']) * s), _fq(qfr(fr['hi']) * s)
    return out


def scale_inst(inst, s):
    """The instance at scale s (a power of two, so every float involved stays exact) and the factor by which its
    iterates scale.  Non-smooth problems: the variables are scaled (x, y -> s x, s y; L and the step sizes stay);
    linear systems: operator AND data are scaled by s, step sizes by 1/s^2 (the iterates do not change);
    backtracking steepest descent / mlem: data and start are scaled (iterates scale by s).  All relations the
    properties state are invariant under these scalings; an absolute tolerance inside a solver is not."""
    s = Fraction(s)
    sol = inst['solver']
    out = dict(inst)
    vs = lambda v: [_fq(qfr(q) * s) for q in v]
    if sol in NONSMOOTH:
        out.update(f=_sf(inst['f'], s), gs=[_sf(g, s) for g in inst['gs']], h=_sf(inst['h'], s),
                   x0=vs(inst['x0']), y0=vs(inst['y0']), ls=[_sf(l, s) for l in inst.get('ls') or []])
        return out, float(s)
    if sol in ('sdbt', 'mlem'):
        out.update(b=[vs(b) for b in inst['b']], x0=vs(inst['x0']), sol=vs(inst['sol']))
        return out, float(s)
    out.update(Ls=[[vs(r) for r in M] for M in inst['Ls']], b=[vs(b) for b in inst['b']])
    if sol in ('landweber', 'sd'):
        out['tau'] = _fq(qfr(inst['tau']) / (s * s))
    if sol == 'kaczmarz':
        out['sig'] = [_fq(qfr(q) / (s * s)) for q in inst['sig']]
    return out, 1.0


def _istep(P, form):
    """inner_stepsizes of adupdates as scalars / constant arrays / lists / space elements (same abstract value)."""
    if not form or form == 'scalar':
        return P.sig
    out = []
    for j, v in enumerate(P.sig):
        m = len(P.inst['Ls'][j])
        if form == 'array':
            out.append(np.full(m, v))
        elif form == 'list':
            out.append([v] * m)
        else:
            out.append(P.Ls[j].range.element(np.full(m, v)))
    return out


# ------------------------------------------------------------------ real runs
def run_real(inst, conc, variant, segments, x_start=None, y_start=None, pass_state=True, default_steps=False,
             opts=None):
    """Run the real solver of `inst` for sum(segments) iterations, as len(segments) consecutive calls.

    variant: 'opt' (the solver) | 'simple' (the `_simple` sibling).
    Between two calls exactly the state the API hands back is kept: the element x (and y for
    doubleprox_dc); for pdhg additionally x_relax and y if pass_state.
    Returns dict(its=[iterate per callback], x=final x, y=final dual or None, xr=.., ncb=[callbacks per call],
                 err=str or None).  `_simple` siblings without a callback are re-run with niter = 1..N.
    opts (concretisation of options, same abstract instance): scale (power of two, see scale_inst; the results are
    scaled back), istep (form of adupdates' inner_stepsizes), lam_callable (relaxation passed as a function),
    ls_object (ConstantLineSearch instead of a float), gamma_primal / gamma_dual (accelerated pdhg).
    """
    opts = dict(opts or {})
    if opts.get('scale'):
        sc = opts.pop('scale')
        inst2, xs = scale_inst(inst, sc)
        r = run_real(inst2, conc, variant, segments,
                     x_start=None if x_start is None else np.asarray(x_start, dtype=float) * xs,
                     y_start=None if y_start is None else np.asarray(y_start, dtype=float) * xs,
                     pass_state=pass_state, default_steps=default_steps, opts=opts)
        r['its'] = [u / xs for u in r['its']]
        for fld in ('x', 'y', 'xr'):
            if r[fld] is not None:
                r[fld] = r[fld] / xs
        return r
    P = Problem(inst, conc)
    sol = inst['solver']
    relax = (lambda _k: P.th) if opts.get('lam_callable') else P.th
    x0 = vec(inst['x0']) if x_start is None else np.array(x_start, dtype=float)
    out = {'its': [], 'x': None, 'y': None, 'xr': None, 'ncb': [], 'err': None}
    try:
        if variant == 'simple' and sol in ('adu', 'dpdc'):
            # no callback: run niter = 1..N afresh
            N = sum(segments)
            for k in range(1, N + 1):
                x = P.x(x0)
                if sol == 'adu':
                    adupdates_simple(x, P.gs, P.Ls, P.tau, _istep(P, opts.get('istep')), k)
                else:
                    y = P.ran(0, vec(inst['y0']) if y_start is None else y_start)
                    doubleprox_dc_simple(x, y, P.f, P.h, P.gs[0], P.Ls[0], k, P.tau, P.sig[0])
                    out['y'] = flat(y)
                out['its'].append(flat(x))
            out['x'] = out['its'][-1] if out['its'] else x0.copy()
            out['ncb'] = [-1]
            return out
        x = P.x(x0)
        y = xr = None
        if sol == 'dpdc':
            y = P.ran(0, vec(inst['y0']) if y_start is None else y_start)
        if sol == 'pdhg' and (pass_state or y_start is not None):
            y = P.ran(0, np.zeros(len(inst['Ls'][0])) if y_start is None else y_start)
            xr = x.copy()
        bt = None
        for seg in segments:
            rec = Rec()
            if sol == 'admm':
                fn = admm_linearized if variant == 'opt' else admm_linearized_simple
                fn(x, P.f, P.gs[0], P.Ls[0], P.tau, P.sig[0], seg, callback=rec)
            elif sol == 'adu':
                adupdates(x, P.gs, P.Ls, P.tau, _istep(P, opts.get('istep')), seg, callback=rec)
            elif sol == 'dpdc':
                doubleprox_dc(x, y, P.f, P.h, P.gs[0], P.Ls[0], seg, P.tau, P.sig[0], callback=rec)
            elif sol == 'pdhg':
                kw = {}
                if y is not None:
                    kw = {'x_relax': xr, 'y': y}
                if default_steps:      # pdhg_stepsize: neither / only tau / only sigma given
                    np.random.seed(12345)
                    if default_steps == 'tau':
                        kw['tau'] = P.tau
                    elif default_steps == 'sigma':
                        kw['sigma'] = P.sig[0]
                    S.pdhg(x, P.f, P.gs[0], P.Ls[0], seg, theta=P.th, callback=rec, **kw)
                else:
                    for gk in ('gamma_primal', 'gamma_dual'):
                        if opts.get(gk):
                            kw[gk] = opts[gk]
                    S.pdhg(x, P.f, P.gs[0], P.Ls[0], seg, tau=P.tau, sigma=P.sig[0], theta=P.th, callback=rec, **kw)
            elif sol == 'dr':
                if default_steps:      # douglas_rachford_pd_stepsize
                    np.random.seed(12345)
                    S.douglas_rachford_pd(x, P.f, P.gs, P.Ls, seg, callback=rec, lam=P.th)
                else:
                    S.douglas_rachford_pd(x, P.f, P.gs, P.Ls, seg, tau=P.tau, sigma=P.sig, callback=rec, lam=relax)
            elif sol == 'fb':
                S.forward_backward_pd(x, P.f, P.gs, P.Ls, P.h, P.tau, P.sig, seg, callback=rec,
                                      **({'l': P.ls} if P.ls else {}))
            elif sol in ('pg', 'apg'):
                g = P.gs[0] * P.Ls[0]
                if sol == 'pg':
                    S.proximal_gradient(x, P.f, g, P.tau, seg, callback=rec, lam=relax)
                else:
                    S.accelerated_proximal_gradient(x, P.f, g, P.tau, seg, callback=rec)
            elif sol == 'landweber':
                S.landweber(P.Ls[0], x, P.rhs(0), seg, omega=P.tau, callback=rec)
            elif sol == 'kaczmarz':
                S.kaczmarz(P.Ls, x, [P.rhs(j) for j in range(len(P.Ls))], seg, omega=P.sig, callback=rec)
            elif sol == 'cg':
                S.conjugate_gradient(P.Ls[0], x, P.rhs(0), seg, callback=rec)
            elif sol == 'cgn':
                S.conjugate_gradient_normal(P.Ls[0], x, P.rhs(0), seg, callback=rec)
            elif sol == 'mlem':
                S.mlem(P.Ls[0], x, P.rhs(0), seg, callback=rec)
            elif sol in ('sd', 'sdbt'):
                obj = S.L2NormSquared(P.Ls[0].range).translated(P.rhs(0)) * P.Ls[0]
                if sol == 'sd':
                    ls = S.ConstantLineSearch(P.tau) if opts.get('ls_object') else P.tau
                else:
                    if bt is None:
                        bt = S.BacktrackingLineSearch(obj, tau=0.5, discount=P.th)
                    ls = bt
                S.steepest_descent(obj, x, line_search=ls, maxiter=seg, callback=rec,
                                   **({'tol': 0} if sol == 'sd' else {}))      # constant step: never return early
            else:
                raise ValueError(sol)
            out['its'] += rec.its
            out['ncb'].append(len(rec.its))
        out['x'] = flat(x)
        if y is not None:
            out['y'] = flat(y)
        if xr is not None:
            out['xr'] = flat(xr)
    except Exception as e:          # an exception is an observation, not a harness failure
        out['err'] = type(e).__name__ + ': ' + str(e)[:160]
    return out


# ------------------------------------------------------------------ quantisation (relational clauses)
def quant_pair_vecs(a, b, bits=20):
    """Two float vectors -> two integer vectors, quantised relative to the largest magnitude of the PAIR."""
    a = np.asarray(a, dtype=float)
    b = np.asarray(b, dtype=float)
    if a.shape != b.shape or not (np.all(np.isfinite(a)) and np.all(np.isfinite(b))):
        return None
    s = max(float(np.max(np.abs(a))) if a.size else 0.0, float(np.max(np.abs(b))) if b.size else 0.0, 1e-300)
    sc = (2 ** bits) / s
    return [int(round(v * sc)) for v in a], [int(round(v * sc)) for v in b]


def limbs(v, v0, frac_bits=44, limb=22):
    """v / v0 as a fixed-point number with 44 fractional bits, split into two 22-bit limbs [hi, lo]
    (TLC integers are 32-bit). Values >= 2^9 * v0 saturate."""
    if not (math.isfinite(v) and math.isfinite(v0)) or v0 <= 0 or v < 0:
        return [2 ** 31 - 1, 0]
    w = int(round(v / v0 * 2 ** frac_bits))
    w = min(w, (2 ** 31 - 1) * 2 ** limb)
    return [w >> limb, w & (2 ** limb - 1)]


# ------------------------------------------------------------------ KKT residual (harness side, numbers only)
def _subdiff_box(fr, z, delta):
    """Per-coordinate interval [lo, hi] of the sub-differential of the separable functional at z;
    coordinates within delta of a kink get the kink's whole interval (so that the residual is
    insensitive to rounding noise around kinks: it can only get smaller, never alarm falsely)."""
    k = fr['k']
    n = len(z)
    t = vec(fr['t']) if fr['t'] else np.zeros(n)
    c = qf(fr['c'])
    lo, hi = np.zeros(n), np.zeros(n)
    if k == 'L1':
        d = z - t
        for i in range(n):
            if d[i] > delta:
                lo[i] = hi[i] = c
            elif d[i] < -delta:
                lo[i] = hi[i] = -c
            else:
                lo[i], hi[i] = -c, c
    elif k == 'L2sq':
        lo = hi = 2 * c * (z - t)
    elif k == 'Box':
        a, b = qf(fr['lo']), qf(fr['hi'])
        for i in range(n):
            atlo, athi = z[i] <= a + delta, z[i] >= b - delta
            lo[i] = -np.inf if atlo else 0.0
            hi[i] = np.inf if athi else 0.0
    return lo, hi


def _np_prox(fr, s, z):
    """prox_{s f}(z) of a functional record in NumPy (harness-side numbers for the KKT residual only)."""
    k = fr['k']
    t = vec(fr['t']) if fr['t'] else np.zeros(len(z))
    c = qf(fr['c'])
    if k == 'L1':
        d = z - t
        return t + np.sign(d) * np.maximum(np.abs(d) - s * c, 0)
    if k == 'L2sq':
        return (z + 2 * s * c * t) / (1 + 2 * s * c)
    if k == 'Box':
        return np.clip(z, qf(fr['lo']), qf(fr['hi']))
    return z.copy()


def box_infeasibility(fr, z):
    if fr['k'] != 'Box':
        return 0.0
    a, b = qf(fr['lo']), qf(fr['hi'])
    return float(np.linalg.norm(np.maximum(a - z, 0) + np.maximum(z - b, 0)))


KKT_DELTA = 2.0 ** -5      # kink tolerance (relative to max(1, |z|_inf)) of the sub-differential distance


def kkt_residual(inst, x, ys=None, rel_delta=None):
    """Distance from the first-order optimality conditions of  min f(x) + h(x) + sum g_i(L_i x):
        min over y_i in dg_i(L_i x) of dist(-grad h(x) - sum L_i^T y_i, df(x))  + infeasibility,
    computed from L, L^T and the sub-differentials (a small bounded least-squares problem);
    if duals ys are given they are used instead of the minimisation, plus their distance to dg_i."""
    from scipy.optimize import lsq_linear
    x = np.asarray(x, dtype=float)
    Ms = [mat(M) for M in inst['Ls']]
    rel_delta = KKT_DELTA if rel_delta is None else rel_delta
    scale = max(1.0, float(np.max(np.abs(x))))
    delta = rel_delta * scale
    flo, fhi = _subdiff_box(inst['f'], x, delta)
    hg = np.zeros(len(x))
    if inst['h']['k'] == 'L2sq':
        t = vec(inst['h']['t']) if inst['h']['t'] else 0
        hg = 2 * qf(inst['h']['c']) * (x - t)
    infeas = box_infeasibility(inst['f'], x)
    glo, ghi = [], []
    for M, g in zip(Ms, inst['gs']):
        z = M.dot(x)
        lo, hi = _subdiff_box(g, z, rel_delta * max(1.0, float(np.max(np.abs(z)))))
        glo.append(lo)
        ghi.append(hi)
        infeas += box_infeasibility(g, z)
    if inst.get('ls'):
        # g_i infimally convolved with l_i = c |. - t|^2 is differentiable: its gradient at z = L_i x is the unique
        # v with v in dg_i(z - grad l_i*(v)), i.e. v = 2c (z - t - u), u = prox_{g_i/(2c)}(z - t)
        r = hg.copy()
        for M, g, l in zip(Ms, inst['gs'], inst['ls']):
            c = qf(l['c'])
            z = M.dot(x) - (vec(l['t']) if l['t'] else 0)
            r += M.T.dot(2 * c * (z - _np_prox(g, 1.0 / (2 * c), z)))
        s_ = -r
        return float(np.linalg.norm(s_ - np.clip(s_, flo, fhi))) + box_infeasibility(inst['f'], x)
    if ys is not None:
        r = hg.copy()
        dd = 0.0
        for M, y, lo, hi in zip(Ms, ys, glo, ghi):
            y = np.asarray(y, dtype=float)
            r += M.T.dot(y)
            dd += float(np.linalg.norm(y - np.clip(y, lo, hi)))
        s = -r
        return float(np.linalg.norm(s - np.clip(s, flo, fhi))) + dd + infeas
    # unknowns: all duals y (bounded by dg) and s in df(x) ;  minimise | sum L^T y + s + grad h |
    A = np.hstack([M.T for M in Ms] + [np.eye(len(x))])
    lo = np.concatenate(glo + [flo])
    hi = np.concatenate(ghi + [fhi])
    fixed = lo == hi
    # lsq_linear needs lo < hi: split off the fixed unknowns
    b = -hg - A[:, fixed].dot(lo[fixed])
    Af = A[:, ~fixed]
    if Af.shape[1] == 0:
        return float(np.linalg.norm(b)) + infeas
    res = lsq_linear(Af, b, bounds=(lo[~fixed], hi[~fixed]), method='bvls', tol=1e-14, max_iter=500)
    return float(np.linalg.norm(Af.dot(res.x) - b)) + infeas


# ====================================================================== relational driver
# Random instances beyond the TLC catalogue: the iterates are not on a lattice, so two REAL runs
# (optimised vs `_simple`, split vs unsplit) are compared as a relation (quantised, pair-relative,
# +-2 quanta) by Trace_SolverMachine.  A description `desc` is a plain JSON dict from which the
# instance is rebuilt (replay files are self-contained).
REL_F = ['L1', 'cL1', 'L1t', 'L2', 'L2sq', 'Box', 'KL', 'Zero']
REL_G = ['L1', 'cL1', 'L1t', 'L2', 'L2sq', 'Box', 'KL', 'GroupL1']
PYTH = [(3, 4), (5, 12), (-4, 3), (8, -6), (0, 5), (-12, -5)]


def _rint_matrix(rnd, m, n):
    while True:
        M = [[rnd.choice([-2, -1, 0, 1, 1, 2]) for _ in range(n)] for _ in range(m)]
        if all(any(r) for r in M):
            return M


def _fparams(rnd, kind, n):
    p = {'kind': kind}
    if kind == 'cL1':
        p['c'] = rnd.choice([0.5, 2.0, 3.0])
    if kind in ('L1t', 'L2sq'):
        p['t'] = [rnd.randint(-3, 3) for _ in range(n)]
        p['c'] = rnd.choice([0.5, 1.0, 2.0])
    if kind == 'Box':
        lo = rnd.randint(-3, 0)
        p['lo'], p['hi'] = lo, lo + rnd.randint(1, 4)
    if kind == 'KL':
        p['prior'] = [rnd.randint(1, 5) for _ in range(n)]
    if kind == 'GroupL1':
        p['data'] = [list(rnd.choice(PYTH)) for _ in range(n)]      # n groups of 2
    return p


def rel_option_name(d):
    o = d.get('opts', {})
    parts = []
    if o.get('istep', 'scalar') != 'scalar':
        parts.append('inner_stepsizes=nonscalar')
    parts += [k for k in ('random', 'lam_callable', 'projection', 'ls_object', 'omega_list', 'nonlinear') if o.get(k)]
    return '+'.join(parts) or 'default'


def rel_desc(rnd, solver, fk, gk, force=None):
    """A random instance description of a family (solver, f kind, g kind); force = 'istep=<form>' or the name of
    a boolean option that must be switched on."""
    n = rnd.randint(2, 4)
    m = rnd.randint(1, 4)
    d = {'solver': solver, 'n': n, 'niter': rnd.randint(2, 20),
         'x0': [rnd.randint(-4, 4) for _ in range(n)]}
    nblocks = 2 if solver == 'adu' else 1
    d['Ms'], d['g'] = [], []
    for j in range(nblocks):
        mj = m if j == 0 else rnd.randint(1, 4)
        gkj = gk if j == 0 else rnd.choice([k for k in REL_G if k != 'GroupL1'])
        if gkj == 'GroupL1':
            d['Ms'].append([_rint_matrix(rnd, mj, n), _rint_matrix(rnd, mj, n)])   # broadcast of two matrices
        else:
            d['Ms'].append([_rint_matrix(rnd, mj, n)])
        d['g'].append(_fparams(rnd, gkj, mj))
    d['f'] = _fparams(rnd, fk, n)
    fro2 = sum(v * v for Ms in d['Ms'] for M in Ms for r in M for v in r)
    # dyadic steps with tau * sigma * |L|_F^2 < 1
    e = 1
    while 4.0 ** (-e) * fro2 >= 1:
        e += 1
    d['tau'] = 2.0 ** -(e + rnd.randint(0, 1))
    d['sigma'] = 2.0 ** -(e + rnd.randint(0, 1))
    if solver == 'admm':
        d['sigma'] = 2.0 ** rnd.randint(0, 1)
        d['tau'] = d['sigma'] / (2 ** math.ceil(math.log2(fro2 + 1)))
    if solver == 'adu':
        d['tau'] = float(2 ** math.ceil(math.log2(fro2 + 1)))     # stepsize
        d['sigma'] = 2.0 ** -rnd.randint(1, 2)                      # inner stepsizes
    if solver == 'dpdc':
        d['y0'] = [rnd.randint(-2, 2) for _ in range(m * len(d['Ms'][0]))]
        d['phi_t'] = [rnd.randint(-2, 2) for _ in range(n)]
    if solver in ('landweber', 'kaczmarz', 'sd', 'pg'):
        d['b'] = [rnd.randint(-3, 3) for _ in range(m)]
        d['tau'] = 2.0 ** -(math.ceil(math.log2(fro2 + 1)) + rnd.randint(0, 1))
        if solver == 'sd':
            d['tau'] /= 2
        M0 = d['Ms'][0][0]
        if all(sum(a * v for a, v in zip(row, d['x0'])) == bi for row, bi in zip(M0, d['b'])):
            d['b'][0] += 1          # never start at an exact solution (steepest_descent would return at once)
    if solver == 'mlem':
        d['Ms'] = [[[[rnd.randint(0, 3) for _ in range(n)] for _ in range(m)]]]
        for r in d['Ms'][0][0]:
            r[rnd.randrange(n)] += 1
        for c in range(n):
            d['Ms'][0][0][rnd.randrange(m)][c] += 1
        d['b'] = [rnd.randint(1, 9) for _ in range(m)]
        d['x0'] = [rnd.randint(1, 4) for _ in range(n)]
    d['theta'] = rnd.choice([1.0, 1.0, 0.5, 0.0])
    d['lam'] = rnd.choice([1.0, 0.5])
    # option forms (every keyword option of the solvers in scope that does not change the claim)
    o = {}
    if solver == 'adu':
        if any(g['kind'] in ARRAY_STEP_OK for g in d['g']):
            o['istep'] = rnd.choice(['scalar', 'array', 'list', 'element', 'nonconst', 'nonconst'])
            if o['istep'] == 'nonconst':      # genuinely different step per component
                o['istep_vals'] = [[d['sigma'] * rnd.choice([1.0, 0.5, 0.25]) for _ in range(len(Ms[0]) * len(Ms))]
                                   for Ms in d['Ms']]
        o['random'] = rnd.random() < 0.25
        o['np_seed'] = rnd.randrange(2 ** 31)
    if solver == 'pg':
        o['lam_callable'] = rnd.random() < 0.5
    if solver in ('landweber', 'kaczmarz', 'sd'):
        o['projection'] = rnd.random() < 0.35
    if solver == 'sd':
        o['ls_object'] = rnd.random() < 0.5
    if solver == 'kaczmarz':
        o['omega_list'] = rnd.random() < 0.5
    if solver in ('landweber', 'kaczmarz', 'sd') and (force == 'nonlinear' or (not force and rnd.random() < 0.3)):
        # nonlinear forward map A(x) = M (x .^ pw): start near a solution, step small enough to contract
        o['nonlinear'] = True
        o.pop('projection', None)
        pw = rnd.choice([2, 2, 3])
        d['pw'] = pw
        sol = [rnd.choice([-2, -1, 1, 2]) for _ in range(n)]
        d['x0'] = [v + rnd.choice([-0.5, 0.25, 0.5]) for v in sol]
        M0 = d['Ms'][0][0]
        d['b'] = [float(sum(a * v ** pw for a, v in zip(row, sol))) for row in M0]
        jac2 = sum(a * a for row in M0 for a in row) * (pw * 2.5 ** (pw - 1)) ** 2
        d['tau'] = 2.0 ** -(math.ceil(math.log2(jac2 + 1)) + 1)
        d['niter'] = rnd.randint(3, 10)
    if force and force != 'nonlinear':
        if force.startswith('istep='):
            o['istep'] = force.split('=')[1]
            if o['istep'] == 'nonconst':
                o['istep_vals'] = [[d['sigma'] * rnd.choice([1.0, 0.5, 0.25]) for _ in range(len(Ms[0]) * len(Ms))]
                                   for Ms in d['Ms']]
        else:
            o[force] = True
    d['opts'] = o
    return d


ARRAY_STEP_OK = ('L1', 'cL1', 'L1t', 'L2sq', 'Box')      # conjugate proximals that accept a non-scalar step


def _rel_isteps(d, Ls):
    o = d.get('opts', {})
    form = o.get('istep', 'scalar')
    out = []
    for j, L in enumerate(Ls):
        sp = L.range
        if form == 'scalar' or d['g'][j]['kind'] not in ARRAY_STEP_OK:
            out.append(d['sigma'])       # (conjugate proximals of L2 / KL / group-L1 take scalar steps only)
            continue
        size = sum(len(M) for M in d['Ms'][j])
        vals = np.array(o['istep_vals'][j], dtype=float) if form == 'nonconst' else np.full(size, d['sigma'])
        if isinstance(sp, odl.ProductSpace):
            k = len(sp)
            el = sp.element([vals[i::k].copy() for i in range(k)])
            out.append(el)                   # product-space ranges: only the element form exists
        elif form == 'list':
            out.append([float(v) for v in vals])
        elif form == 'element':
            out.append(sp.element(vals.copy()))
        else:
            out.append(vals.copy())
    return out


def _nonneg(x):
    x.ufuncs.maximum(0, out=x)


def _rel_func(p, space):
    k = p['kind']
    if k == 'L1':
        return S.L1Norm(space)
    if k == 'cL1':
        return p['c'] * S.L1Norm(space)
    if k == 'L1t':
        return p['c'] * S.L1Norm(space).translated(space.element(np.array(p['t'], dtype=float)))
    if k == 'L2':
        return S.L2Norm(space)
    if k == 'L2sq':
        return p['c'] * S.L2NormSquared(space).translated(space.element(np.array(p['t'], dtype=float)))
    if k == 'Box':
        return S.IndicatorBox(space, p['lo'], p['hi'])
    if k == 'KL':
        return S.KullbackLeibler(space, prior=space.element(np.array(p['prior'], dtype=float)))
    if k == 'Zero':
        return S.ZeroFunctional(space)
    if k == 'GroupL1':
        data = np.array(p['data'], dtype=float)      # (groups, 2)
        return S.GroupL1Norm(space).translated(space.element([data[:, 0].copy(), data[:, 1].copy()]))
    raise ValueError(k)


def rel_run(d, variant, segments, pass_state=True):
    """Real run of a relational instance; same contract as run_real."""
    sol = d['solver']
    dom = odl.rn(d['n'])
    Ls, gs = [], []
    for Ms, gp in zip(d['Ms'], d['g']):
        ops = [odl.MatrixOperator(np.array(M, dtype=float), domain=dom) for M in Ms]
        L = ops[0] if len(ops) == 1 else odl.BroadcastOperator(*ops)
        if d.get('pw', 1) > 1:
            L = L * odl.PowerOperator(dom, d['pw'])
        Ls.append(L)
        gs.append(_rel_func(gp, L.range))
    f = _rel_func(d['f'], dom)
    out = {'its': [], 'x': None, 'y': None, 'xr': None, 'ncb': [], 'err': None}
    x0 = np.array(d['x0'], dtype=float)
    opts = d.get('opts', {})
    proj = _nonneg if opts.get('projection') else None

    def mk_y():
        v = np.array(d['y0'], dtype=float)
        sp = Ls[0].range
        if isinstance(sp, odl.ProductSpace):
            k = len(sp)
            return sp.element([v[i::k].copy() for i in range(k)])
        return sp.element(v.copy())
    try:
        if sol == 'dpdc':
            phi = S.L2NormSquared(dom).translated(dom.element(np.array(d['phi_t'], dtype=float)))
        if variant == 'simple' and sol in ('adu', 'dpdc'):
            N = sum(segments)
            for k in range(1, N + 1):
                x = dom.element(x0.copy())
                if sol == 'adu':
                    np.random.seed(opts.get('np_seed', 0))
                    adupdates_simple(x, gs, Ls, d['tau'], _rel_isteps(d, Ls), k, random=bool(opts.get('random')))
                else:
                    y = mk_y()
                    doubleprox_dc_simple(x, y, f, phi, gs[0], Ls[0], k, d['tau'], d['sigma'])
                out['its'].append(flat(x))
            out['x'] = out['its'][-1]
            out['ncb'] = [-1]
            return out
        x = dom.element(x0.copy())
        y = xr = None
        if sol == 'dpdc':
            y = mk_y()
        if sol == 'pdhg' and pass_state:
            y = Ls[0].range.zero()
            xr = x.copy()
        if sol in ('landweber', 'sd', 'pg'):
            rhs = Ls[0].range.element(np.array(d['b'], dtype=float))
        for seg in segments:
            rec = Rec()
            if sol == 'admm':
                fn = admm_linearized if variant == 'opt' else admm_linearized_simple
                fn(x, f, gs[0], Ls[0], d['tau'], d['sigma'], seg, callback=rec)
            elif sol == 'adu':
                np.random.seed(opts.get('np_seed', 0))
                adupdates(x, gs, Ls, d['tau'], _rel_isteps(d, Ls), seg, random=bool(opts.get('random')), callback=rec,
                          callback_loop=opts.get('callback_loop', 'outer'))
            elif sol == 'dpdc':
                doubleprox_dc(x, y, f, phi, gs[0], Ls[0], seg, d['tau'], d['sigma'], callback=rec)
            elif sol == 'pdhg':
                kw = {'x_relax': xr, 'y': y} if y is not None else {}
                S.pdhg(x, f, gs[0], Ls[0], seg, tau=d['tau'], sigma=d['sigma'], theta=d['theta'], callback=rec, **kw)
            elif sol == 'landweber':
                S.landweber(Ls[0], x, rhs, seg, omega=d['tau'], projection=proj, callback=rec)
            elif sol == 'kaczmarz':
                M = np.array(d['Ms'][0][0], dtype=float)
                rows = [odl.MatrixOperator(M[i:i + 1].copy(), domain=dom) for i in range(M.shape[0])]
                if d.get('pw', 1) > 1:
                    rows = [r * odl.PowerOperator(dom, d['pw']) for r in rows]
                S.kaczmarz(rows, x, [r.range.element([d['b'][i]]) for i, r in enumerate(rows)], seg,
                           omega=[d['tau']] * len(rows) if opts.get('omega_list') else d['tau'], projection=proj,
                           callback=rec, callback_loop=opts.get('callback_loop', 'outer'))
            elif sol == 'pg':
                g = S.L2NormSquared(Ls[0].range).translated(rhs) * Ls[0]
                S.proximal_gradient(x, f, g, d['tau'] / 2, seg, callback=rec,
                                    lam=(lambda _k: d['lam']) if opts.get('lam_callable') else d['lam'])
            elif sol == 'mlem':
                S.mlem(Ls[0], x, Ls[0].range.element(np.array(d['b'], dtype=float)), seg, callback=rec)
            elif sol == 'sd':
                obj = S.L2NormSquared(Ls[0].range).translated(rhs) * Ls[0]
                S.steepest_descent(obj, x, line_search=S.ConstantLineSearch(d['tau']) if opts.get('ls_object') else d['tau'],
                                   maxiter=seg, tol=0, projection=proj, callback=rec)   # tol=0: no early return
            else:
                raise ValueError(sol)
            out['its'] += rec.its
            out['ncb'].append(len(rec.its))
            out.setdefault('xret', []).append(flat(x))       # what the caller holds after this call
        out['x'] = flat(x)
        if y is not None:
            out['y'] = flat(y)
        if xr is not None:
            out['xr'] = flat(xr)
    except Exception as e:
        out['err'] = type(e).__name__ + ': ' + str(e)[:160]
    return out


def rel_kaczmarz_substeps(d):
    """kaczmarz one block at a time: N sweeps x m single-operator calls (niter=1) on the same x; returns the x the
    caller holds after every call - the sequence of ITERATES an inner callback must observe."""
    dom = odl.rn(d['n'])
    opts = d.get('opts', {})
    M = np.array(d['Ms'][0][0], dtype=float)
    rows = [odl.MatrixOperator(M[i:i + 1].copy(), domain=dom) for i in range(M.shape[0])]
    if d.get('pw', 1) > 1:
        rows = [r * odl.PowerOperator(dom, d['pw']) for r in rows]
    proj = _nonneg if opts.get('projection') else None
    x = dom.element(np.array(d['x0'], dtype=float))
    seq = []
    for _ in range(d['niter']):
        for i, r in enumerate(rows):
            S.kaczmarz([r], x, [r.range.element([d['b'][i]])], 1, omega=d['tau'], projection=proj)
            seq.append(flat(x))
    return seq


def pair_event(kind_clause, solver, niter, A, B, na, nb, bits=20, start=None):
    """Quantise two iterate sequences (lists of float arrays) relative to the largest magnitude of the PAIR OF
    RUNS including their common start point (an entry that is exactly 0 in one run and 1e-17 in the other is
    rounding, not a difference; a run whose true iterates are all 0 is rounding relative to its start);
    None if not comparable (non-finite values)."""
    s = 1e-300
    for u in list(A) + list(B) + ([] if start is None else [start]):     # (start: the runs' common start point)
        u = np.asarray(u, dtype=float)
        if not np.all(np.isfinite(u)):
            return None
        if u.size:
            s = max(s, float(np.max(np.abs(u))))
    sc = (2 ** bits) / s
    a = [[int(round(v * sc)) for v in np.asarray(u, dtype=float)] for u in A]
    b = [[int(round(v * sc)) for v in np.asarray(u, dtype=float)] for u in B]
    return {'kind': 'pair', 'clause': kind_clause, 'solver': solver, 'niter': niter,
            'a': a, 'b': b, 'na': na, 'nb': nb}

"""Helpers of the C16 check (resizing / padding): call descriptors, execution on REAL ODL code,
exact projection of the observation.  Nothing in this module knows what a result should be.

A *call descriptor* `cd` completely determines one public call:

    api       'resize_array' | 'operator'
    variant   'array' (resize_array) | 'call' | 'derivative' | 'adjoint' | 'inverse' (ResizingOperator)
    dom, ran  shapes: the array goes dom -> ran for 'array'; the OPERATOR is dom -> ran otherwise
    offs      per-axis offsets (None entries / construct 'default': no offset supplied)
    mode, dir ('forward' | 'adjoint', resize_array only), c (pad constant, C number)
    x         flat C-order list of C numbers (shape dom for array/call/derivative, ran for adjoint/inverse)
    dtype, out ('none' | 'given'), order ('C' | 'F'), D (lattice denominator of the true result)
    operator only:  lo, hs (per-axis lower limits / cell sides as Q), construct 'ran_shp' | 'default' | 'range'
"""
from fractions import Fraction
import math

import numpy as np
import odl
from odl.util.numerics import resize_array

from .fdutil import fq, qj, cj, c_to_py, snap_block, NANC, is_nan_c, c_mul_i, c_div_i   # noqa: F401
from .exact import snap


def to_array(x, shape, dtype, order='C'):
    dt = np.dtype(dtype)
    if dt.kind == 'c':
        a = np.array([c_to_py(z) for z in x], dtype=dt)
    elif dt.kind in 'iu':
        a = np.array([int(fq(z[0])) for z in x], dtype=dt)
    else:
        a = np.array([float(fq(z[0])) for z in x], dtype=dt)
    a = a.reshape(shape)
    return np.asfortranarray(a) if order == 'F' else np.ascontiguousarray(a)


def pad_const_py(c, dtype):
    dt = np.dtype(dtype)
    if dt.kind == 'c':
        return c_to_py(c)
    if dt.kind in 'iu':
        return int(fq(c[0]))
    return float(fq(c[0]))


def make_domain(cd):
    lo = [float(fq(q)) for q in cd['lo']]
    hi = [float(fq(q) + n * fq(h)) for q, n, h in zip(cd['lo'], cd['dom'], cd['hs'])]
    return odl.uniform_discr(lo, hi, list(cd['dom']), dtype=cd['dtype'])


_ops = {}


def make_operator(cd):
    key = dumps_key([cd['dom'], cd['ran'], cd['offs'], cd['mode'], cd['c'], cd['dtype'], cd['lo'], cd['hs'],
                     cd.get('construct', 'ran_shp')])
    op = _ops.get(key)
    if op is None:
        if len(_ops) > 64:
            _ops.clear()
        op = _ops[key] = _make_operator(cd)
    return op


def dumps_key(o):
    import json
    return json.dumps(o)


def _make_operator(cd):
    dom = make_domain(cd)
    c = pad_const_py(cd['c'], cd['dtype'])
    how = cd.get('construct', 'ran_shp')
    if how == 'default':
        return odl.ResizingOperator(dom, ran_shp=tuple(cd['ran']), pad_mode=cd['mode'], pad_const=c)
    if how == 'range':
        rlo, rhi = [], []
        for q, m, n, h, o in zip(cd['lo'], cd['dom'], cd['ran'], cd['hs'], cd['offs']):
            lo = fq(q) - o * fq(h) if n >= m else fq(q) + o * fq(h)
            rlo.append(float(lo))
            rhi.append(float(lo + n * fq(h)))
        ran = odl.uniform_discr(rlo, rhi, list(cd['ran']), dtype=cd['dtype'])
        return odl.ResizingOperator(dom, ran, pad_mode=cd['mode'], pad_const=c)
    return odl.ResizingOperator(dom, ran_shp=tuple(cd['ran']), offset=list(cd['offs']), pad_mode=cd['mode'], pad_const=c)


def geometry(op, Dg):
    """Observed geometry of a constructed operator, projected on the lattice 1/Dg."""
    def qs(v):
        out = []
        for t in np.atleast_1d(v):
            s = snap(float(t), Dg)
            out.append(qj(s) if isinstance(s, Fraction) else [0, 0])
        return out
    return {'ranlo': qs(op.range.min_pt), 'ranhi': qs(op.range.max_pt), 'ranshape': [int(s) for s in op.range.shape],
            'rancell': qs(op.range.cell_sides), 'domcell': qs(op.domain.cell_sides),
            'offs': [int(o) for o in op.offset], 'axes': [int(a) for a in op.axes]}


def execute(cd):
    """Perform the call on real ODL code.  Returns (y_flat, err, notes, info)."""
    notes, info = [], {}
    dtype = cd['dtype']
    D = cd['D']
    try:
        if cd['api'] == 'resize_array':
            arr = to_array(cd['x'], tuple(cd['dom']), dtype, cd.get('order', 'C'))
            before = arr.copy()
            c = pad_const_py(cd['c'], dtype)
            kw = {}
            if cd.get('out') == 'given':
                dt = np.dtype(dtype)
                fill = -7777 if dt.kind in 'iu' else np.nan
                out = np.full(tuple(cd['ran']), fill, dtype=dt, order=cd.get('order', 'C'))
                kw['out'] = out
            res = resize_array(arr, tuple(cd['ran']), offset=list(cd['offs']), pad_mode=cd['mode'], pad_const=c,
                               direction=cd['dir'], **kw)
            if 'out' in kw and res is not kw['out']:
                notes.append('out-not-returned')
            if not np.array_equal(arr, before):
                notes.append('input-modified')
            if res.dtype != np.dtype(dtype):
                notes.append('dtype-changed:%s' % res.dtype)
            if tuple(res.shape) != tuple(cd['ran']):
                notes.append('shape:%s' % (res.shape,))
            return snap_block(res, D, dtype), '', notes, info
        op = make_operator(cd)
        if 'Dg' in cd:
            info['geometry'] = geometry(op, cd['Dg'])
        info['offs'] = [int(o) for o in op.offset]
        v = cd['variant']
        if v == 'adjoint':
            T = op.adjoint
        elif v == 'inverse':
            T = op.inverse
        elif v == 'derivative':
            T = op.derivative(op.domain.one())
        else:
            T = op
        shape = tuple(cd['ran']) if v in ('adjoint', 'inverse') else tuple(cd['dom'])
        x = T.domain.element(to_array(cd['x'], shape, dtype))
        xb = x.asarray().copy()
        if cd.get('out') == 'given':
            out = T.range.element(np.full(T.range.shape, np.nan))
            res = T(x, out=out)
            if res is not out:
                notes.append('out-not-returned')
        else:
            res = T(x)
        if res not in T.range:
            notes.append('result-not-in-range')
        if not np.array_equal(xb, x.asarray()):
            notes.append('input-modified')
        return snap_block(res.asarray(), D, dtype), '', notes, info
    except Exception as e:
        return [], type(e).__name__, notes + [str(e)[:100]], info


def event_of(cd, y, err, eid, offs=None):
    return {'id': eid, 'kind': 'resize', 'variant': cd['variant'], 'dom': list(cd['dom']), 'ran': list(cd['ran']),
            'offs': list(offs if offs is not None else cd['offs']), 'mode': cd['mode'], 'dir': cd.get('dir', 'forward'),
            'c': cd['c'], 'x': cd['x'], 'y': y, 'err': err}


def adjoint_identity(cd, x, y, Dip):
    """<R x, y>_ran and <x, R* y>_dom on the real operator, in the spaces' own (weighted) inner products."""
    op = make_operator(cd)
    dtype = cd['dtype']
    xe = op.domain.element(to_array(x, tuple(cd['dom']), dtype))
    ye = op.range.element(to_array(y, tuple(cd['ran']), dtype))
    rx = op(xe)
    rty = op.adjoint(ye)
    ipran = rx.inner(ye)
    ipdom = xe.inner(rty)

    def sc(z):
        z = complex(z)
        a, b = snap(z.real, Dip), snap(z.imag, Dip)
        if not isinstance(a, Fraction) or not isinstance(b, Fraction):
            return NANC
        return [qj(a), qj(b)]

    def w(space):
        s = snap(float(space.weighting.const), Dip)
        return qj(s) if isinstance(s, Fraction) else [0, 0]
    return {'kind': 'adjid', 'wd': w(op.domain), 'wr': w(op.range), 'x': x, 'y': y,
            'rx': snap_block(rx.asarray(), cd['D'], dtype), 'rty': snap_block(rty.asarray(), cd['D'], dtype),
            'ipran': sc(ipran), 'ipdom': sc(ipdom)}

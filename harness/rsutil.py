"""Helpers of the C16 check (resizing / padding): call descriptors, execution on REAL ODL code,
exact projection of the observation.  Nothing in this module knows what a result should be.

A *call descriptor* `cd` completely determines one public call:

    api       'resize_array' | 'operator'
    variant   'array' (resize_array) | 'call' | 'derivative' | 'adjoint' | 'inverse' (ResizingOperator)
    dom, ran  shapes: the array goes dom -> ran for 'array'; the OPERATOR is dom -> ran otherwise
    offs      per-axis offsets (None entries / construct 'default': no offset supplied)
    mode, dir ('forward' | 'adjoint', resize_array only), c (pad constant, C number)
    x         flat C-order list of C numbers (shape dom for array/call/derivative, ran for adjoint/inverse)
    dtype, out ('none' | 'given'), order ('C' | 'F'), D (lattice denominator of the true result)
    operator only:  lo, hs (per-axis lower limits / cell sides as Q), construct 'ran_shp' | 'default' | 'range'
"""
from fractions import Fraction
import math

import numpy as np
import odl
from odl.util.numerics import resize_array

from .fdutil import fq, qj, cj, c_to_py, snap_block, NANC, is_nan_c, c_mul_i, c_div_i   # noqa: F401
from .exact import snap


def to_array(x, shape, dtype, order='C'):
    dt = np.dtype(dtype)
    if dt.kind == 'c':
        a = np.array([c_to_py(z) for z in x], dtype=dt)
    elif dt.kind in 'iu':
        a = np.array([int(fq(z[0])) for z in x], dtype=dt)
    else:
        a = np.array([float(fq(z[0])) for z in x], dtype=dt)
    a = a.reshape(shape)
    return np.asfortranarray(a) if order == 'F' else np.ascontiguousarray(a)


def pad_const_py(c, dtype):
    dt = np.dtype(dtype)
    if dt.kind == 'c':
        return c_to_py(c)
    if dt.kind in 'iu':
        return int(fq(c[0]))
    return float(fq(c[0]))


def flags_of(cd, key):
    """per-axis [L, R] nodes-on-boundary flags (0 | 1); key 'dbdry' (domain) or 'rbdry' (requested for the range)"""
    f = cd.get(key)
    return [list(p) for p in f] if f else [[0, 0] for _ in cd['dom']]


def bdry_arg(flags, style):
    """The nodes_on_bdry argument in one of the accepted spellings."""
    pairs = [(bool(p[0]), bool(p[1])) for p in flags]
    if style == 'alt':
        if all(p == pairs[0] and p[0] == p[1] for p in pairs):
            return pairs[0][0]                       # one bool for everything
        if len(pairs) == 1:
            return pairs[0]                          # 1-d: a bare (left, right) pair
    return pairs


def span(m, h, flags):
    """extent of a uniform partition with m nodes, cell side h and [L, R] flags"""
    return Fraction(2 * m - flags[0] - flags[1], 2) * h


def make_domain(cd):
    df = flags_of(cd, 'dbdry')
    lo = [float(fq(q)) for q in cd['lo']]
    hi = [float(fq(q) + span(n, fq(h), f)) for q, n, h, f in zip(cd['lo'], cd['dom'], cd['hs'], df)]
    kw = {}
    if any(f != [0, 0] for f in df):
        kw['nodes_on_bdry'] = bdry_arg(df, cd.get('style'))
    return odl.uniform_discr(lo, hi, list(cd['dom']), dtype=cd['dtype'], **kw)


_ops = {}


def make_operator(cd):
    key = dumps_key([cd['dom'], cd['ran'], cd['offs'], cd['mode'], cd['c'], cd['dtype'], cd['lo'], cd['hs'],
                     cd.get('construct', 'ran_shp'), cd.get('dbdry'), cd.get('rbdry'), cd.get('style'), cd.get('rdtype')])
    op = _ops.get(key)
    if op is None:
        if len(_ops) > 64:
            _ops.clear()
        op = _ops[key] = _make_operator(cd)
    return op


def dumps_key(o):
    import json
    return json.dumps(o)


def _make_operator(cd):
    dom = make_domain(cd)
    c = pad_const_py(cd['c'], cd.get('rdtype') or cd['dtype'])     # a value of the RANGE data type
    alt = cd.get('style') == 'alt'
    mode = cd['mode'].upper() if alt else cd['mode']
    if alt:
        c = np.array(c)                               # 0-d array instead of a Python scalar
    how = cd.get('construct', 'ran_shp')
    df, rf = flags_of(cd, 'dbdry'), flags_of(cd, 'rbdry')
    dk = {}
    if cd.get('rbdry') is not None:
        dk['nodes_on_bdry'] = bdry_arg(rf, cd.get('style'))
    if cd.get('rdtype'):
        dk['dtype'] = cd['rdtype']
    kw = {'discr_kwargs': dk} if dk else {}
    ran_shp = list(cd['ran']) if alt else tuple(cd['ran'])
    if how == 'default':
        return odl.ResizingOperator(dom, ran_shp=ran_shp, pad_mode=mode, pad_const=c, **kw)
    if how == 'range':
        # the range space is built explicitly (test input): nodes continue the domain grid, `offs` nodes to the left
        rlo, rhi = [], []
        for q, m, n, h, o, f, g in zip(cd['lo'], cd['dom'], cd['ran'], cd['hs'], cd['offs'], df, rf):
            h = fq(h)
            node0 = fq(q) + (0 if f[0] else h / 2)
            if n != m:
                node0 = node0 - o * h if n > m else node0 + o * h
            lo = node0 - (0 if g[0] else h / 2)
            rlo.append(float(lo))
            rhi.append(float(lo + span(n, h, g)))
        rkw = {'nodes_on_bdry': bdry_arg(rf, cd.get('style'))} if any(g != [0, 0] for g in rf) else {}
        ran = odl.uniform_discr(rlo, rhi, list(cd['ran']), dtype=cd.get('rdtype') or cd['dtype'], **rkw)
        return odl.ResizingOperator(dom, ran, pad_mode=mode, pad_const=c)
    offs = list(cd['offs'])
    if cd.get('style') == 'arrays' and all(o is not None for o in offs):
        # caller-owned ndarrays, overwritten after the construction: the operator must not change with them
        a_shp = np.array(cd['ran'], dtype=int)
        a_off = np.array(offs, dtype=int)
        a_c = np.array(c)
        op = odl.ResizingOperator(dom, ran_shp=a_shp, offset=a_off, pad_mode=mode, pad_const=a_c, **kw)
        a_shp[...] = 1
        a_off[...] = 97
        a_c[...] = 55
        return op
    if alt and all(o is not None and o == offs[0] for o in offs):
        offs = int(offs[0])                           # one int for all axes
    return odl.ResizingOperator(dom, ran_shp=ran_shp, offset=offs, pad_mode=mode, pad_const=c, **kw)


def geometry(op, Dg):
    """Observed geometry of a constructed operator, projected on the lattice 1/Dg."""
    def qs(v):
        out = []
        for t in np.atleast_1d(v):
            s = snap(float(t), Dg)
            out.append(qj(s) if isinstance(s, Fraction) else [0, 0])
        return out
    invok = 0
    try:
        inv = op.inverse
        if inv.domain == op.range and inv.range == op.domain and tuple(inv.offset) == tuple(op.offset):
            invok = 1
    except Exception:
        invok = 0
    return {'ranlo': qs(op.range.min_pt), 'ranhi': qs(op.range.max_pt), 'ranshape': [int(s) for s in op.range.shape],
            'rancell': qs(op.range.cell_sides), 'domcell': qs(op.domain.cell_sides),
            'rannode0': qs(op.range.grid.min_pt), 'domnode0': qs(op.domain.grid.min_pt), 'invok': invok,
            'offs': [int(o) for o in op.offset], 'axes': [int(a) for a in op.axes]}


class _ArrayIf(object):
    """An object that is not an array but exposes one through __array__ - the SHARED buffer, not a copy."""

    def __init__(self, a):
        self.a = a

    def __array__(self, dtype=None, copy=None):
        if dtype is None or np.dtype(dtype) == self.a.dtype:
            return self.a
        return self.a.astype(dtype)


class _SubArray(np.ndarray):
    pass


KINDS = ('ndarray', 'list', 'tensor', 'discr', 'subclass', 'matrix', 'memoryview', 'arrayif', 'strided')


def kind_ok(kind, shape, dtype):
    if kind == 'matrix':
        return len(shape) == 2
    return True


def wrap_input(arr, kind, dtype):
    """The array-like handed to resize_array and a function that reads back what the caller's object holds now."""
    if kind == 'list':
        lst = arr.tolist()
        return lst, lambda: np.array(lst, dtype=dtype).reshape(arr.shape)
    if kind == 'tensor':
        el = odl.tensor_space(arr.shape, dtype=dtype).element(arr)
        return el, lambda: np.array(el.asarray())
    if kind == 'discr':
        el = odl.uniform_discr([0.0] * arr.ndim, [float(n) for n in arr.shape], arr.shape, dtype=dtype).element(arr)
        return el, lambda: np.array(el.asarray())
    if kind == 'subclass':
        return arr.view(_SubArray), lambda: np.array(arr)
    if kind == 'matrix':
        return np.asmatrix(arr), lambda: np.array(arr)
    if kind == 'memoryview':
        arr = np.ascontiguousarray(arr)
        return memoryview(arr), lambda: np.array(arr)
    if kind == 'arrayif':
        return _ArrayIf(arr), lambda: np.array(arr)
    if kind == 'strided':
        big = np.zeros(arr.shape[:-1] + (2 * arr.shape[-1],), dtype=arr.dtype)
        v = big[..., ::2]
        v[...] = arr
        return v, lambda: np.array(v)
    return arr, lambda: np.array(arr)


def dtclass(dtype):
    dt = np.dtype(dtype)
    if dt.kind in 'iu':
        return 'int'
    return {'float32': 'f32', 'float64': 'f64', 'complex64': 'c64', 'complex128': 'c128'}[dt.name]


def garbage(shape, dtype, order='C'):
    dt = np.dtype(dtype)
    return np.full(tuple(shape), -7777 if dt.kind in 'iu' else np.nan, dtype=dt, order=order)


def execute(cd):
    """Perform the call on real ODL code.  Returns (y_flat, err, notes, info); what else was observed (contents of the
    caller's input afterwards, op.is_linear) is stored in cd['_obs'] for the event."""
    notes, info = [], {}
    dtype = cd['dtype']
    D = cd['D']
    obs = cd['_obs'] = {}
    try:
        if cd['api'] == 'resize_array':
            kind = cd.get('kind', 'ndarray')
            arr = to_array(cd['x'], tuple(cd['dom']), dtype, cd.get('order', 'C') if kind == 'ndarray' else 'C')
            inp, peek = wrap_input(arr, kind, dtype)
            c = pad_const_py(cd['c'], dtype)
            kw = {}
            odt = cd.get('odtype') or dtype          # `out` may be WIDER than the input ("able to hold the data type of the input")
            if cd.get('out') == 'given':
                kw['out'] = garbage(cd['ran'], odt, cd.get('order', 'C'))
            try:
                if cd.get('style') == 'arrays':
                    a_shp, a_off, a_c = np.array(cd['ran'], dtype=int), np.array(cd['offs'], dtype=int), np.array(c)
                    keep = (a_shp.copy(), a_off.copy(), a_c.copy())
                    res = resize_array(inp, a_shp, offset=a_off, pad_mode=cd['mode'], pad_const=a_c, direction=cd['dir'], **kw)
                    if not (np.array_equal(a_shp, keep[0]) and np.array_equal(a_off, keep[1]) and np.array_equal(a_c, keep[2])):
                        notes.append('argument-modified')
                elif cd.get('style') == 'alt':
                    # other accepted spellings of the same call: list shape, one int offset, upper-case option strings,
                    # 0-d array pad constant
                    offs = list(cd['offs'])
                    offs = int(offs[0]) if all(o == offs[0] for o in offs) else tuple(offs)
                    res = resize_array(inp, list(cd['ran']), offset=offs, pad_mode=cd['mode'].upper(), pad_const=np.array(c),
                                       direction=cd['dir'].upper(), **kw)
                else:
                    res = resize_array(inp, tuple(cd['ran']), offset=list(cd['offs']), pad_mode=cd['mode'], pad_const=c,
                                       direction=cd['dir'], **kw)
            finally:
                after = peek()
                obs['xafter'] = snap_block(after, D, dtype)
                if not np.array_equal(after, arr):
                    notes.append('input-modified')
            if 'out' in kw and res is not kw['out']:
                notes.append('out-not-returned')
            rdt = np.dtype(odt if 'out' in kw else dtype) if (kind != 'list' or 'out' in kw) else res.dtype
            if res.dtype != rdt:
                notes.append('dtype-changed:%s' % res.dtype)
            if tuple(res.shape) != tuple(cd['ran']):
                notes.append('shape:%s' % (res.shape,))
            return snap_block(np.asarray(res), D, odt if 'out' in kw else dtype), '', notes, info
        op = make_operator(cd)
        obs['linear'] = 1 if op.is_linear else 0
        if 'Dg' in cd:
            info['geometry'] = geometry(op, cd['Dg'])
        info['offs'] = [int(o) for o in op.offset]
        v = cd['variant']
        if v == 'adjoint':
            T = op.adjoint
        elif v == 'inverse':
            T = op.inverse
        elif v == 'derivative':
            T = op.derivative(op.domain.one())
        else:
            T = op
        shape = tuple(cd['ran']) if v in ('adjoint', 'inverse') else tuple(cd['dom'])
        x = T.domain.element(to_array(cd['x'], shape, T.domain.dtype))
        xb = x.asarray().copy()
        try:
            if cd.get('out') == 'given':
                out = T.range.element(garbage(T.range.shape, T.range.dtype))
                res = T(x, out=out)
                if res is not out:
                    notes.append('out-not-returned')
            else:
                res = T(x)
        finally:
            obs['xafter'] = snap_block(x.asarray(), D, T.domain.dtype)
            if not np.array_equal(xb, x.asarray()):
                notes.append('input-modified')
        if res not in T.range:
            notes.append('result-not-in-range')
        if cd.get('history'):
            # overwrite what the first call returned and evaluate again: the second result is the one observed
            res.asarray()[...] = 31
            res2 = T(x)
            if res2 is res:
                notes.append('result-object-reused')
            res = res2
        return snap_block(res.asarray(), D, T.range.dtype), '', notes, info
    except Exception as e:
        return [], type(e).__name__, notes + [str(e)[:100]], info


def result_dtype(cd):
    """data type of the result of the call (= of the fill): resize_array keeps the input's, the operator (and its
    derivative) produce the range's, adjoint / inverse the domain's"""
    if cd['api'] == 'resize_array' and cd.get('out') == 'given' and cd.get('odtype'):
        return cd['odtype']
    if cd['api'] == 'resize_array' or cd['variant'] in ('adjoint', 'inverse'):
        return cd['dtype']
    return cd.get('rdtype') or cd['dtype']


def event_of(cd, y, err, eid, offs=None):
    obs = cd.get('_obs') or {}
    return {'id': eid, 'kind': 'resize', 'variant': cd['variant'], 'dom': list(cd['dom']), 'ran': list(cd['ran']),
            'offs': list(offs if offs is not None else cd['offs']), 'mode': cd['mode'], 'dir': cd.get('dir', 'forward'),
            'c': cd['c'], 'x': cd['x'], 'y': y, 'err': err,
            'xafter': obs.get('xafter', cd['x']), 'linear': obs.get('linear', -1),
            'rdt': dtclass(result_dtype(cd)), 'odt': dtclass(cd.get('rdtype') or cd['dtype'])}


def adjoint_identity(cd, x, y, Dip):
    """<R x, y>_ran and <x, R* y>_dom on the real operator, in the spaces' own (weighted) inner products."""
    op = make_operator(cd)
    dtype = cd['dtype']
    xe = op.domain.element(to_array(x, tuple(cd['dom']), dtype))
    ye = op.range.element(to_array(y, tuple(cd['ran']), dtype))
    rx = op(xe)
    rty = op.adjoint(ye)
    ipran = rx.inner(ye)
    ipdom = xe.inner(rty)

    def sc(z):
        z = complex(z)
        a, b = snap(z.real, Dip), snap(z.imag, Dip)
        if not isinstance(a, Fraction) or not isinstance(b, Fraction):
            return NANC
        return [qj(a), qj(b)]

    def w(space):
        s = snap(float(space.weighting.const), Dip)
        return qj(s) if isinstance(s, Fraction) else [0, 0]
    return {'kind': 'adjid', 'wd': w(op.domain), 'wr': w(op.range), 'x': x, 'y': y,
            'rx': snap_block(rx.asarray(), cd['D'], dtype), 'rty': snap_block(rty.asarray(), cd['D'], dtype),
            'ipran': sc(ipran), 'ipdom': sc(ipdom)}

"""Helpers of the C19 check: descriptor -> real ODL geometry, evaluation forms, projection.

A geometry descriptor `g`, an angle `a` and detector parameters `u` have exactly the JSON shape
exported by spec/cfg/MC_Geom.tla (module GeomSem explains the fields).  Nothing in here decides
a value: observations are projected to exact rationals and judged by TLC / by comparison with the
TLC export.
"""
import math
from fractions import Fraction

import numpy as np
import odl

DMAX = 10 ** 5            # every true value of a scenario has a denominator <= DMAX (checked by TLC)
TOL = 2e-12               # rounding (~1e-14) << TOL << spacing of fractions with denominators <= DMAX (1e-10)
OFFQ = [0, 0]             # JSON token of an off-lattice observation (the NaN token of ExactNum)
LIM = 2 ** 31 - 1


def fq(q):
    return Fraction(q[0], q[1])


def fvec(v):
    return [float(fq(x)) for x in v]


def snap_ld(v):
    """Nearest fraction with denominator <= DMAX if it is within TOL (relative), else None."""
    v = float(v)
    if not math.isfinite(v):
        return None
    q = Fraction(v).limit_denominator(DMAX)
    if abs(v - float(q)) <= TOL * max(1.0, abs(v)):
        return q
    return None


def qjson(v):
    q = snap_ld(v)
    if q is None or abs(q.numerator) > LIM:
        return OFFQ
    return [int(q.numerator), int(q.denominator)]


def project(arr):
    """ndarray of ndim 1 or 2 -> list of rows of [n, d]."""
    arr = np.asarray(arr, dtype=float)
    if arr.ndim == 1:
        arr = arr[None, :]
    return [[qjson(x) for x in row] for row in arr]


def theta_of(a):
    return a['m'] * math.atan2(float(fq(a['bs'])), float(fq(a['bc'])))


def mparam_of(g, a):
    if g['cls'] == 'par3deu':
        return tuple(theta_of(x) for x in a)
    return theta_of(a)


def base_theta(g, a):
    if g['cls'] == 'par3deu':
        return 0.0
    return math.atan2(float(fq(a['bs'])), float(fq(a['bc'])))


def dparam_of(g, u):
    vals = []
    kind = g['det']['kind']
    for i, p in enumerate(u):
        arc = (kind in ('circ', 'sph')) or (kind == 'cyl' and i == 0)
        vals.append(math.atan2(float(fq(p['s'])), float(fq(p['c']))) if arc else float(fq(p['q'])))
    return vals[0] if len(vals) == 1 else tuple(vals)


def is_zero(v):
    return all(x[0] == 0 for x in v)


def scaled(v, scale):
    """Vector as floats; with `scale` the integer multiple (what a user would type: (3, 4) for (3/5, 4/5))."""
    fr = [fq(x) for x in v]
    if scale:
        L = 1
        for x in fr:
            L = L * x.denominator // math.gcd(L, x.denominator)
        return [float(x * L) for x in fr]
    return [float(x) for x in fr]


APART1 = (-7.0, 7.0, 7)       # uniform partition of the angle interval: 7 cells of width 2


def angle_partition(cls):
    if cls == 'par3deu':
        return odl.uniform_partition([-7.0] * 3, [7.0] * 3, (3, 3, 3))
    return odl.uniform_partition(*APART1)


def det_partition(g):
    kind = g['det']['kind']
    nd = 2 if g['cls'] in ('par2d', 'fan') else 3
    if kind == 'circ':
        return odl.uniform_partition(-1.0, 1.0, 8)
    if kind == 'cyl':
        return odl.uniform_partition([-1.0, -2.0], [1.0, 2.0], (8, 4))
    if kind == 'sph':
        return odl.uniform_partition([-1.0, -1.0], [1.0, 1.0], (8, 8))
    if nd == 2:
        return odl.uniform_partition(-3.0, 3.0, 6)
    return odl.uniform_partition([-3.0, -2.0], [3.0, 2.0], (6, 4))


def const_shift(vec):
    arr = np.array([vec], dtype=float)          # shape (1, ndim): broadcasts against any angle array
    return lambda angle: arr


def build(g, theta0, variant, apart=None, dpart=None):
    """Real ODL geometry for descriptor g.  theta0: base angle fixing the helical pitch.
    variant: dict(scale=bool, check_bounds=bool, always_translation=bool, as_array=bool: vectors are handed
    over as ndarrays instead of lists).  apart / dpart: other angle / detector partitions than the standard ones."""
    import odl.tomo as T
    if variant.get('as_array', False):
        wrap = lambda v: [wrap(x) for x in v] if (v and isinstance(v[0], list)) else np.array(v, dtype=float)
    else:
        wrap = lambda v: v
    cls = g['cls']
    sc = variant.get('scale', False)
    kw = {}
    if not variant.get('check_bounds', True):
        kw['check_bounds'] = False
    apart = angle_partition(cls) if apart is None else apart
    dpart = det_partition(g) if dpart is None else dpart
    det = g['det']['kind']
    r = float(fq(g['det']['r']))
    if g['mat']:
        M = np.array([[float(fq(x)) for x in row] for row in g['mat']])
        if cls == 'par2d':
            return T.Parallel2dGeometry.frommatrix(apart, dpart, M, **kw)
        if cls == 'par3dax':
            return T.Parallel3dAxisGeometry.frommatrix(apart, dpart, M, **kw)
        if cls == 'par3deu':
            return T.Parallel3dEulerGeometry.frommatrix(apart, dpart, M, **kw)
        rs, rd = float(fq(g['rs'])), float(fq(g['rd']))
        if not is_zero(g['ss']):
            kw['src_shift_func'] = const_shift(fvec(g['ss']))
        if not is_zero(g['ds']):
            kw['det_shift_func'] = const_shift(fvec(g['ds']))
        if cls == 'fan':
            return T.FanBeamGeometry.frommatrix(apart, dpart, rs, rd, M,
                                                det_curvature_radius=(r if det == 'circ' else None), **kw)
        curv = None if det == 'flat' else ((r, None) if det == 'cyl' else (r, r))
        pitch = float(fq(g['dz'])) * 2 * math.pi / theta0 if g['dz'][0] != 0 else 0.0
        return T.ConeBeamGeometry.frommatrix(apart, dpart, rs, rd, M, det_curvature_radius=curv, pitch=pitch,
                                             offset_along_axis=float(fq(g['z0'])), **kw)
    if not is_zero(g['t']) or variant.get('always_translation', False):
        kw['translation'] = wrap(fvec(g['t']))
    if cls == 'par2d':
        if g['ax']:
            kw['det_axis_init'] = wrap(scaled(g['ax'][0], sc))
        if g['p0']:
            return T.Parallel2dGeometry(apart, dpart, det_pos_init=wrap(fvec(g['p0'])), **kw)
        return T.Parallel2dGeometry(apart, dpart, **kw)
    if cls == 'par3deu':
        if g['ax']:
            kw['det_axes_init'] = wrap([scaled(x, sc) for x in g['ax']])
        if g['p0']:
            return T.Parallel3dEulerGeometry(apart, dpart, det_pos_init=wrap(fvec(g['p0'])), **kw)
        return T.Parallel3dEulerGeometry(apart, dpart, **kw)
    if cls == 'par3dax':
        if g['ax']:
            kw['det_axes_init'] = wrap([scaled(x, sc) for x in g['ax']])
        if g['p0']:
            kw['det_pos_init'] = wrap(fvec(g['p0']))
        return T.Parallel3dAxisGeometry(apart, dpart, axis=wrap(scaled(g['k'], sc)), **kw)
    rs, rd = float(fq(g['rs'])), float(fq(g['rd']))
    if not is_zero(g['ss']):
        kw['src_shift_func'] = const_shift(fvec(g['ss']))
    if not is_zero(g['ds']):
        kw['det_shift_func'] = const_shift(fvec(g['ds']))
    if cls == 'fan':
        if g['ax']:
            kw['det_axis_init'] = wrap(scaled(g['ax'][0], sc))
        if g['e']:
            kw['src_to_det_init'] = wrap(scaled(g['e'], sc))
        if det == 'circ':
            kw['det_curvature_radius'] = r
        return T.FanBeamGeometry(apart, dpart, rs, rd, **kw)
    if cls == 'cone':
        if g['ax']:
            kw['det_axes_init'] = wrap([scaled(x, sc) for x in g['ax']])
        if g['e']:
            kw['src_to_det_init'] = wrap(scaled(g['e'], sc))
        if det != 'flat':
            kw['det_curvature_radius'] = (r, None) if det == 'cyl' else (r, r)
        if g['dz'][0] != 0:
            kw['pitch'] = float(fq(g['dz'])) * 2 * math.pi / theta0
        if g['z0'][0] != 0:
            kw['offset_along_axis'] = float(fq(g['z0']))
        return T.ConeBeamGeometry(apart, dpart, rs, rd, axis=wrap(scaled(g['k'], sc)), **kw)
    raise ValueError(cls)


# ------------------------------------------------------------------ evaluation forms
QUERIES = ('rot', 'ref', 'axes', 'detpt', 'src', 'd2s', 'd2sn')


def _axes_fn(geom):
    return geom.det_axis if hasattr(geom, 'det_axis') else geom.det_axes


def raw_calls(geom, cls, mp, dp):
    """All public queries with the given (possibly array-valued) parameters -> dict of ndarrays."""
    out = {}
    out['rot'] = geom.rotation_matrix(mp)
    out['ref'] = geom.det_refpoint(mp)
    out['axes'] = _axes_fn(geom)(mp)
    out['detpt'] = geom.det_point_position(mp, dp)
    if cls in ('fan', 'cone'):
        out['src'] = geom.src_position(mp)
        out['d2s'] = geom.det_to_src(mp, dp, normalized=False)
        out['d2sn'] = geom.det_to_src(mp, dp, normalized=True)
    else:
        out['d2s'] = geom.det_to_src(mp, dp)
    return out


def filler_angles(n, theta, rnd):
    """Other valid angles to surround theta in a vectorised call (inside the partition [-7, 7])."""
    pool = [math.atan2(12, 5), math.atan2(15, -8), math.pi / 2, -math.atan2(3, 4), 0.25, -2.5, 3.0, 1.0]
    return [rnd.choice(pool) for _ in range(n)]


def filler_dparams(g, n, rnd):
    kind = g['det']['kind']
    nd = 2 if g['cls'] in ('par2d', 'fan') else 3
    def one(i):
        arc = (kind in ('circ', 'sph')) or (kind == 'cyl' and i == 0)
        return rnd.choice([-0.5, 0.125, 0.75, -0.25]) if arc else rnd.choice([-1.5, 0.5, 1.75, -0.75])
    if nd == 2:
        return [one(0) for _ in range(n)]
    return [(one(0), one(1)) for _ in range(n)]


def evaluate(geom, g, a, u, form, rnd):
    """Observe all queries at (a, u) in the given calling form; returns dict name -> ndarray of the single
    entry that belongs to (a, u) (already extracted from the vectorised result) and the raw shapes."""
    cls = g['cls']
    euler = cls == 'par3deu'
    mp = mparam_of(g, a)
    dp = dparam_of(g, u)
    two_d = isinstance(dp, tuple)
    if form in ('scalar', 'slice', 'orig-after-slice'):
        res = raw_calls(geom, cls, mp, list(dp) if two_d else dp)
        return {k: np.asarray(v) for k, v in res.items()}
    n = 3
    i = rnd.randrange(n)
    if euler:
        cols = [filler_angles(n, 0, rnd) for _ in range(3)]
        for c, th in zip(cols, mp):
            c[i] = th
        marr = [np.array(c) for c in cols]
    else:
        fa = filler_angles(n, mp, rnd)
        fa[i] = mp
        marr = np.array(fa)
    if form == 'vector':
        fd = filler_dparams(g, n, rnd)
        fd[i] = dp
        darr = tuple(np.array([x[j] for x in fd]) for j in range(2)) if two_d else np.array(fd)
        mpass = tuple(marr) if euler else marr
        res = raw_calls(geom, cls, mpass, darr)
        return {k: np.asarray(v)[i] for k, v in res.items()}
    if form == 'bcast':
        m = 2
        j = rnd.randrange(m)
        fd = filler_dparams(g, m, rnd)
        fd[j] = dp
        if two_d:
            darr = tuple(np.array([x[c] for x in fd]).reshape(1, m) for c in range(2))
        else:
            darr = np.array(fd).reshape(1, m)
        mpass = tuple(x.reshape(n, 1) for x in marr) if euler else marr.reshape(n, 1)
        res = raw_calls(geom, cls, mpass, darr)
        out = {}
        for k, v in res.items():
            v = np.asarray(v)
            out[k] = v[i, j] if k in ('detpt', 'd2s', 'd2sn') else v[i, 0]
        return out
    raise ValueError(form)


def expected_shapes(g):
    nd = 2 if g['cls'] in ('par2d', 'fan') else 3
    return {'rot': (nd, nd), 'ref': (nd,), 'axes': (nd,) if nd == 2 else (2, 3), 'detpt': (nd,), 'src': (nd,),
            'd2s': (nd,), 'd2sn': (nd,)}


def relational(d2sn, d2s):
    """Quantised relations of the normalised detector-to-source vector v against the un-normalised w:
    |v|^2 - 1, |v x w| / |w| (2d: |det|), v.w / |w| - 1, all in units of 2^-30."""
    v = np.asarray(d2sn, dtype=float)
    w = np.asarray(d2s, dtype=float)
    nw = float(np.linalg.norm(w))
    if not np.all(np.isfinite(v)) or not np.all(np.isfinite(w)) or nw == 0:
        return [LIM, LIM, -LIM]
    if v.size == 2:
        cr = abs(v[0] * w[1] - v[1] * w[0]) / nw
    else:
        cr = float(np.linalg.norm(np.cross(v, w))) / nw
    vals = [float(v @ v) - 1.0, cr, float(v @ w) / nw - 1.0]
    return [int(max(-LIM, min(LIM, round(x * 2 ** 30)))) for x in vals]


def slice_for(theta):
    """Index range [i, j) of the 7-cell angle partition [-7, 7] whose sub-partition contains theta."""
    k0 = int(math.floor((theta + 7.0) / 2.0))
    k0 = max(0, min(6, k0))
    return max(0, k0 - 1), min(7, k0 + 2)


# ------------------------------------------------------------------ histories (GeomHistory): caller-owned arrays
def _arr(v):
    return np.array([float(fq(x)) for x in v], dtype='float64')


def build_owned(g, theta0):
    """Geometry for descriptor g with EVERY array argument handed over as a caller-owned float64 ndarray (the
    internal dtype; unit vectors un-scaled).  Returns (geometry, owned) with owned: input name -> list of arrays."""
    import odl.tomo as T
    cls = g['cls']
    owned = {}
    ang = np.array([-6.0, -4.0, -2.0, 0.0, 2.0, 4.0, 6.0])
    if cls == 'par3deu':
        apart = angle_partition(cls)
    else:
        owned['angles'] = [ang]
        apart = odl.nonuniform_partition(ang, min_pt=-7.0, max_pt=7.0)
    dpart = det_partition(g)
    kw = {}
    if g['mat']:
        M = np.array([[float(fq(x)) for x in row] for row in g['mat']], dtype='float64')
        owned['init_matrix'] = [M]
        if cls == 'par2d':
            return T.Parallel2dGeometry.frommatrix(apart, dpart, M), owned
        if cls == 'par3dax':
            return T.Parallel3dAxisGeometry.frommatrix(apart, dpart, M), owned
        if cls == 'par3deu':
            return T.Parallel3dEulerGeometry.frommatrix(apart, dpart, M), owned
        rs, rd = float(fq(g['rs'])), float(fq(g['rd']))
        if cls == 'fan':
            return T.FanBeamGeometry.frommatrix(apart, dpart, rs, rd, M), owned
        pitch = float(fq(g['dz'])) * 2 * math.pi / theta0 if g['dz'][0] != 0 else 0.0
        return T.ConeBeamGeometry.frommatrix(apart, dpart, rs, rd, M, pitch=pitch,
                                             offset_along_axis=float(fq(g['z0']))), owned
    owned['translation'] = [_arr(g['t'])]
    kw['translation'] = owned['translation'][0]
    if g['ax']:
        owned['det_axes_init'] = [_arr(a) for a in g['ax']]
        if cls in ('par2d', 'fan'):
            kw['det_axis_init'] = owned['det_axes_init'][0]
        else:
            kw['det_axes_init'] = owned['det_axes_init']
    if cls in ('par2d', 'par3dax', 'par3deu') and g['p0']:
        owned['det_pos_init'] = [_arr(g['p0'])]
        kw['det_pos_init'] = owned['det_pos_init'][0]
    if cls in ('fan', 'cone') and g['e']:
        owned['src_to_det_init'] = [_arr(g['e'])]
        kw['src_to_det_init'] = owned['src_to_det_init'][0]
    if cls in ('par3dax', 'cone'):
        owned['axis'] = [_arr(g['k'])]
        kw['axis'] = owned['axis'][0]
    if cls == 'par2d':
        return T.Parallel2dGeometry(apart, dpart, **kw), owned
    if cls == 'par3deu':
        return T.Parallel3dEulerGeometry(apart, dpart, **kw), owned
    if cls == 'par3dax':
        return T.Parallel3dAxisGeometry(apart, dpart, **kw), owned
    rs, rd = float(fq(g['rs'])), float(fq(g['rd']))
    if cls == 'fan':
        return T.FanBeamGeometry(apart, dpart, rs, rd, **kw), owned
    if g['dz'][0] != 0:
        kw['pitch'] = float(fq(g['dz'])) * 2 * math.pi / theta0
    if g['z0'][0] != 0:
        kw['offset_along_axis'] = float(fq(g['z0']))
    return T.ConeBeamGeometry(apart, dpart, rs, rd, **kw), owned


GARBAGE = 7.5


def returned_arrays(geom, g, what, a, u):
    """The array(s) the geometry hands out for `what` ('attr:<name>' or 'result:<query>'); None if not applicable."""
    kind, name = what.split(':')
    two_d = g['cls'] in ('par2d', 'fan')
    if kind == 'attr':
        name = {'det_axes_init': 'det_axis_init' if two_d else 'det_axes_init'}.get(name, name)
        if not hasattr(geom, name):
            return None
        val = getattr(geom, name)
        return [val] if isinstance(val, np.ndarray) else [v for v in val if isinstance(v, np.ndarray)]
    mp, dp = mparam_of(g, a), dparam_of(g, u)
    dp = list(dp) if isinstance(dp, tuple) else dp
    if name == 'det_axes':
        return [_axes_fn(geom)(mp)]
    if name == 'det_point_position':
        return [geom.det_point_position(mp, dp)]
    if name == 'src_position' and not hasattr(geom, 'src_position'):
        return None
    return [getattr(geom, name)(mp)]


def apply_history(g, hist, a, u):
    """Replay a history of GeomHistory on a real geometry.  Returns (geometry, original angle grid) or None if a
    step does not apply to this class / construction route."""
    geom, owned = build_owned(g, base_theta(g, a))
    angles0 = np.array(geom.angles, copy=True) if hasattr(geom, 'angles') and 'angles' in owned else None
    for step in hist:
        if step['act'] == 'MutateCaller':
            if step['what'] not in owned:
                return None
            for arr in owned[step['what']]:
                arr[...] = GARBAGE
        elif step['act'] == 'MutateReturned':
            arrs = returned_arrays(geom, g, step['what'], a, u)
            if not arrs:
                return None
            for arr in arrs:
                try:
                    arr[...] = GARBAGE
                except ValueError:          # a read-only array refuses the write: nothing happened
                    pass
    return geom, angles0


# ------------------------------------------------------------------ back-end vectors (odl/tomo/backends/astra_setup.py)
def backend_vectors(g, a, variant):
    """The pure-NumPy conversions of a geometry into per-angle ASTRA vectors (src | ray, detector centre, pixel vectors)
    on a geometry whose angle partition has the exactly known angle of `a` as a grid point and whose detector partition is
    OFF-CENTRE with unequal cell sides.  Returns (fn name, row for that angle, mid parameter descriptor u, cell sides)."""
    from odl.tomo.backends import astra_setup as AS
    cls = g['cls']
    th = theta_of(a)
    nd = 2 if cls in ('par2d', 'fan') else 3
    apart = odl.nonuniform_partition([th - 0.75, th, th + 1.25], min_pt=th - 1.0, max_pt=th + 2.0)
    if nd == 2:
        dpart = odl.uniform_partition(-1.0, 5.0, 12)                     # mid 2, cell side 1/2
        mid, px = [2], [[1, 2]]
    else:
        dpart = odl.uniform_partition([-1.0, -2.0], [5.0, 1.0], (6, 12))     # mid (2, -1/2), cell sides (1, 1/4)
        mid, px = [2, [-1, 2]], [[1, 1], [1, 4]]
    u = [{'c': [1, 1], 'q': (m if isinstance(m, list) else [m, 1]), 's': [0, 1]} for m in mid]
    geom = build(g, base_theta(g, a), variant, apart=apart, dpart=dpart)
    fn = {'cone': 'astra_conebeam_3d_geom_to_vec', 'fan': 'astra_conebeam_2d_geom_to_vec',
          'par3dax': 'astra_parallel_3d_geom_to_vec'}[cls]
    vecs = np.asarray(getattr(AS, fn)(geom))
    want = (3, 12) if nd == 3 else (3, 6)
    if vecs.shape != want:
        raise ValueError('vector array of shape %r, documented %r' % (vecs.shape, want))
    return fn, project(vecs[1])[0], u, px

"""Harvest events from the repository's own tests (hooks guarded by ODL_VERIF_TRACE) and validate them with TLC
against Trace_Harvest (DESIGN 2.6 / Appendix H).  The harvest never decides a property on its own: it adds
per-call checks (value / frame / identity / range) to call sites the drivers do not reach."""
import glob
import json
import os
import re
import subprocess
import sys
from concurrent.futures import ThreadPoolExecutor

from .tlc import run_tlc, parse_fails

QUICK_MODULES = ['odl/test/space/tensors_test.py', 'odl/test/space/pspace_test.py', 'odl/test/operator/operator_test.py',
                 'odl/test/solvers/nonsmooth', 'odl/test/solvers/iterative']
THOROUGH_MODULES = ['odl/test']


def run_tests(ctx, modules):
    repo = os.environ.get('VERIF_REPO', '/repo')
    d = os.path.join(ctx.work, 'harvest')
    os.makedirs(d, exist_ok=True)
    env = dict(os.environ)
    env['ODL_VERIF_TRACE'] = d
    env['PYTHONPATH'] = repo + os.pathsep + env.get('PYTHONPATH', '')
    cmd = [sys.executable, '-m', 'pytest', '-q', '-p', 'no:cacheprovider', '--timeout=900', '-x', '--no-header',
           '-k', 'not largescale'] + modules
    p = subprocess.run(cmd, cwd=repo, env=env, stdout=subprocess.PIPE, stderr=subprocess.STDOUT, timeout=3000)
    tail = p.stdout.decode('utf-8', 'replace').strip().splitlines()[-1:] or ['']
    return d, p.returncode, tail[0]


def _q(v, s):
    return int(round(v / s * 1024))


def lincomb_event(r):
    pat_ids = (r['id_x1'], r['id_x2'] or r['id_x1'], r['id_out'])
    x1, x2, out = pat_ids
    if out == 0:
        pattern = 'out=None'
    elif out == x1 and out == x2:
        pattern = 'all'
    elif out == x1:
        pattern = 'out=x1'
    elif out == x2:
        pattern = 'out=x2'
    else:
        pattern = 'x1=x2' if x1 == x2 else 'none'
    e = {'ev': 'lincomb', 'pattern': pattern, 'hasval': False, 'A': 0, 'B': 0, 'X1': [], 'X2': [], 'O': [],
         'x1_kept': True, 'x2_kept': True, 'out_given': bool(r['id_out']), 'ret_is_out': r['id_res'] == r['id_out'],
         'cls': r.get('space', '')}
    pre, post = r['pre'], r['post']
    target = r['id_res']
    if pre['x1'] is not None and post['x1'] is not None and r['id_x1'] != target:
        e['x1_kept'] = pre['x1'] == post['x1']
    if r['id_x2'] and pre['x2'] is not None and post['x2'] is not None and r['id_x2'] != target:
        e['x2_kept'] = pre['x2'] == post['x2']
    a, b = r['a'], r['b']
    x1v, x2v, res = pre['x1'], (pre['x2'] if r['id_x2'] else pre['x1']), post['res']
    if a is None or x1v is None or x2v is None or res is None or len(a) != 1 or (b is not None and len(b) != 1):
        return e
    if len(res) != len(x1v) or len(x2v) != len(x1v):
        return e
    bb = b[0] if b is not None else [0.0, 0.0]
    if a[0][1] != 0 or bb[1] != 0 or any(z[1] != 0 for z in x1v + x2v + res):
        return e      # complex events: frame / identity clauses only
    av, bv = a[0][0], bb[0]
    sa = max(abs(av), abs(bv)) or 1.0
    sx = max([abs(z[0]) for z in x1v + x2v] + [0.0]) or 1.0
    if not (1e-100 < sa < 1e100 and 1e-100 < sx < 1e100):
        return e
    e.update(hasval=True, A=_q(av, sa), B=_q(bv, sa), X1=[_q(z[0], sx) for z in x1v], X2=[_q(z[0], sx) for z in x2v],
             O=[_q(z[0], sa * sx) for z in res])
    return e


def call_event(r):
    return {'ev': 'call', 'cls': r['cls'], 'out_given': bool(r['id_out']), 'ret_is_out': r['id_res'] == r['id_out'],
            'x_kept': (r['x_digest_pre'] == r['x_digest_post']) or r['id_x'] == r['id_out'] or r['x_digest_pre'] is None,
            'in_range': r['in_range'] is not False, 'pattern': ''}


def harvest(ctx, kinds, modules, prop_clauses):
    """kinds: subset of {'lincomb','call'}; prop_clauses: clause names that belong to the calling property.
    Returns list of (signature, detail) candidate violations; updates ctx counters."""
    d, rc, tail = run_tests(ctx, modules)
    ctx.extra['harvest_pytest'] = {'modules': modules, 'returncode': rc, 'summary': tail}
    events, raw = [], []
    for p in sorted(glob.glob(os.path.join(d, '*.ndjson'))):
        with open(p) as f:
            for line in f:
                try:
                    r = json.loads(line)
                except ValueError:
                    continue
                if r.get('err') or r['ev'] not in kinds:
                    continue
                ev = lincomb_event(r) if r['ev'] == 'lincomb' else call_event(r)
                ev['id'] = len(events)
                events.append(ev)
                raw.append({'test': r.get('test', ''), 'depth': r.get('depth'), 'seq': r.get('seq')})
    ctx.extra['harvested_events'] = len(events)
    if not events:
        return []
    chunk = 20000
    files = []
    for ci in range(0, len(events), chunk):
        p = os.path.join(ctx.work, 'harvest_%d.ndjson' % (ci // chunk))
        with open(p, 'w') as f:
            for ev in events[ci:ci + chunk]:
                f.write(json.dumps(ev) + '\n')
        files.append(p)

    def val(p):
        return p, run_tlc('Trace_Harvest.tla', 'Trace_Harvest.cfg', ctx.work, env={'TRACE_FILE': p}, workers=1, timeout=3000)
    with ThreadPoolExecutor(max_workers=8) as ex:
        vres = list(ex.map(val, files))
    out = []
    for p, res in vres:
        ctx.add_tlc('harvest-' + os.path.basename(p), res)
        for _ln, eid, cl in parse_fails(res.output):
            for clause, arg in re.findall(r'<<\s*"([\w-]+)",\s*"([^"]*)"\s*>>', cl):
                if clause not in prop_clauses:
                    continue
                out.append(({'part': 'harvest', 'clause': clause, 'arg': arg, 'cls': events[eid].get('cls', '')},
                            {'stage': 'harvest', 'event': events[eid], 'origin': raw[eid]}))
    tests = len(set(r['test'].split(' ')[0] for r in raw if r['test']))
    ctx.traces += tests
    ctx.evaluations += len(events)
    ctx.extra['harvest_tests_with_events'] = tests
    ctx.extra['harvest_lincomb_value_checked'] = sum(1 for e in events if e['ev'] == 'lincomb' and e['hasval'])
    return out

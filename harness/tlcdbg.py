import sys
sys.path.insert(0, '/verif')
from harness.tlc import run_tlc
def short(r, n=1500):
    return '\n'.join(l for l in r.output.splitlines() if not l.startswith(('Parsing', 'Semantic', 'Linting')))[-n:]

"""C02 helpers: SpaceDesc (spec/sem/SpaceSem.tla) -> real ODL spaces / elements, observation of
inner / norm / dist through the public API and projection onto the exact lattice.

Nothing here decides a value: expectations come from TLC (exported cases) or are recomputed by
TLC from the logged inputs (Trace_Space).  Exact Fractions are used only to choose the snapping
lattice (denominator, magnitude) of a case.
"""
from fractions import Fraction
from math import gcd

import numpy as np
import odl

from . import exact

PINF = 0
ZERO_C = [[0, 1], [0, 1]]
OBS = ['ixy', 'iyx', 'ixx', 'iyy', 'ixz', 'iyz', 'ilin', 'nx', 'ny', 'nax', 'nxpy', 'nxmy', 'dxy', 'dyx', 'none']
INNER_OBS = ('ixy', 'iyx', 'ixx', 'iyy', 'ixz', 'iyz', 'ilin')


def q(v):
    return Fraction(v[0], v[1])


def cpy(c, complex_ok=True):
    re, im = q(c[0]), q(c[1])
    if im == 0:
        return float(re)
    return complex(float(re), float(im))


def exponent(p):
    return float('inf') if p == PINF else float(p)


# ----------------------------------------------------------------------------- custom catalogue
# The callables behind the tags of SpaceSem ("inner:iw", "norm:l1x2", "dist:l1").
def _iw(x):
    return np.arange(1, x.size + 1, dtype=float).reshape(x.shape)


def custom_inner_iw(x, y):
    return np.vdot(np.asarray(y).ravel(), (np.asarray(x) * _iw(x)).ravel())


def custom_norm_l1x2(x):
    return 2.0 * float(np.sum(np.abs(np.asarray(x))))


def custom_dist_l1(x, y):
    return float(np.sum(np.abs(np.asarray(x) - np.asarray(y))))


CUSTOM = {'inner:iw': ('inner', custom_inner_iw), 'norm:l1x2': ('norm', custom_norm_l1x2),
          'dist:l1': ('dist', custom_dist_l1)}


# ----------------------------------------------------------------------------- spaces
class Variant(object):
    """Concretisation choices that the specification abstracts from.
      dtype, tile (k-fold periodic repetition of a tensor leaf), shape '1d' | '2d' ((k, n)),
      lay_x / lay_y / lay_w  memory layout of x, of y and z, of an array weighting: C | F | S (strided view),
      power   write a product space of identical parts as ProductSpace(part, n),
      wform   how a weighting is passed: 'value' (float / ndarray / callable keyword), 'instance' (Weighting
              object), 'list' (array weights as nested list),
      expform exponent passed as 'float' | 'int' (where it is an integer),
      route   'direct' | 'astype' (built in the other precision, then .astype) | 'field' (built over the other
              field, then .complex_space / .real_space)  -- unweighted / constant-weighted leaves only,
      spell   0: element-level calls x.inner(y), x.norm(), x.dist(y);  1: space-level calls and x.T(y)."""
    FIELDS = ('dtype', 'tile', 'shape', 'lay_x', 'lay_y', 'lay_w', 'power', 'wform', 'expform', 'route', 'spell')

    def __init__(self, dtype, tile=1, shape='1d', lay_x='C', lay_y='C', lay_w='C', power=True, wform='value',
                 expform='float', route='direct', spell=0):
        self.dtype = np.dtype(dtype)
        self.tile, self.shape, self.lay_x, self.lay_y, self.lay_w, self.power = tile, shape, lay_x, lay_y, lay_w, power
        self.wform, self.expform, self.route, self.spell = wform, expform, route, spell

    def key(self):
        d = {f: getattr(self, f) for f in self.FIELDS}
        d['dtype'] = self.dtype.name
        return d

    @staticmethod
    def from_key(k):
        return Variant(**{f: k[f] for f in Variant.FIELDS if f in k})

    def tup(self):
        k = self.key()
        return tuple(k[f] for f in self.FIELDS)

    def with_(self, **kw):
        k = self.key()
        k.update(kw)
        return Variant.from_key(k)

    def space_key(self):
        """The part of the variant a space depends on."""
        return (self.dtype.name, self.tile, self.shape, self.lay_w, self.power, self.wform, self.expform, self.route)


def real_dtype(dt):
    dt = np.dtype(dt)
    return np.dtype({'complex64': 'float32', 'complex128': 'float64'}.get(dt.name, dt.name))


def layout_array(arr, lay):
    if lay == 'C':
        return np.ascontiguousarray(arr)
    if lay == 'F':
        return np.asfortranarray(arr)
    if lay == 'S':                      # strided, non-contiguous view
        big = np.zeros(tuple(2 * s for s in arr.shape), dtype=arr.dtype)
        view = big[tuple(slice(None, None, 2) for _ in arr.shape)]
        view[...] = arr
        return view
    raise ValueError(lay)


def leaf_shape(desc, var):
    if desc['kind'] == 'discr':
        return tuple(ax['n'] for ax in desc['axes'])
    n, k = desc['n'], var.tile
    if var.shape == '1d':
        return (n * k,)
    return (k, n)                        # C-order flattening = k repetitions of the period


def tile_flat(vals, k):
    a = np.asarray(vals)
    return np.tile(a, k) if k > 1 else a


OTHER_PRECISION = {'float64': 'float32', 'float32': 'float64', 'complex128': 'complex64', 'complex64': 'complex128'}
OTHER_FIELD = {'float64': 'complex128', 'float32': 'complex64', 'complex128': 'float64', 'complex64': 'float32'}


def exp_arg(p, var):
    if p == PINF:
        return float('inf')
    return int(p) if var.expform == 'int' else float(p)


def _leaf(desc, var, dt):
    """A tensor / discretised leaf over dtype dt, the weighting passed in the requested form."""
    from odl.space.npy_tensors import (NumpyTensorSpaceConstWeighting, NumpyTensorSpaceArrayWeighting,
                                       NumpyTensorSpaceCustomInner, NumpyTensorSpaceCustomNorm,
                                       NumpyTensorSpaceCustomDist)
    p = exp_arg(desc['p'], var)
    if desc['kind'] == 'discr':
        axes = desc['axes']
        return odl.uniform_discr([float(q(a['min'])) for a in axes], [float(q(a['max'])) for a in axes],
                                 [a['n'] for a in axes], dtype=dt, exponent=p,
                                 nodes_on_bdry=[(bool(a['l']), bool(a['r'])) for a in axes])
    shape = leaf_shape(desc, var)
    w = desc['w']
    kw = {}
    if w['k'] == 'custom':
        what, fn = CUSTOM[w['tag']]
        if var.wform == 'instance':
            cls = {'inner': NumpyTensorSpaceCustomInner, 'norm': NumpyTensorSpaceCustomNorm,
                   'dist': NumpyTensorSpaceCustomDist}[what]
            return odl.tensor_space(shape, dtype=dt, weighting=cls(fn))
        return odl.tensor_space(shape, dtype=dt, **{what: fn})
    if w['k'] == 'const':
        c = float(q(w['c']))
        kw['weighting'] = NumpyTensorSpaceConstWeighting(c, exponent=p) if var.wform == 'instance' else c
    elif w['k'] == 'array':
        wdt = real_dtype(dt) if np.dtype(dt).kind in 'fc' else np.dtype(dt)
        arr = tile_flat([float(q(v)) for v in w['arr']], var.tile).astype(wdt).reshape(shape)
        arr = layout_array(arr, 'F' if var.lay_w == 'F' else 'C')
        if var.wform == 'instance':
            kw['weighting'] = NumpyTensorSpaceArrayWeighting(arr, exponent=p)
        elif var.wform == 'list' and np.dtype(dt).name in ('float64', 'complex128', 'int64') and arr.size:
            kw['weighting'] = arr.tolist()
        else:
            kw['weighting'] = arr
    ctor = odl.tensor_space
    if len(shape) == 1 and var.wform != 'instance':        # the rn / cn spellings
        if np.dtype(dt).kind == 'f':
            return odl.rn(shape[0], dtype=dt, exponent=p, **kw)
        if np.dtype(dt).kind == 'c':
            return odl.cn(shape[0], dtype=dt, exponent=p, **kw)
    return ctor(shape, dtype=dt, exponent=p, **kw)


def build_space(desc, var):
    dt = var.dtype
    kind = desc['kind']
    if kind in ('tensor', 'discr'):
        simple = desc['w']['k'] in ('none', 'const') and dt.name in OTHER_FIELD
        if var.route == 'astype' and simple:
            return _leaf(desc, var, OTHER_PRECISION[dt.name]).astype(dt)
        if var.route == 'field' and simple:
            base = _leaf(desc, var, OTHER_FIELD[dt.name])
            return base.complex_space if dt.kind == 'c' else base.real_space
        return _leaf(desc, var, dt)
    if kind == 'pspace':
        from odl.space.pspace import ProductSpaceConstWeighting, ProductSpaceArrayWeighting
        sub = var.with_(tile=1, shape='1d', lay_w='C')
        parts = [build_space(d, sub) for d in desc['parts']]
        w = desc['w']
        p = exp_arg(desc['p'], var)
        kw = {'exponent': p}
        if w['k'] == 'const':
            c = float(q(w['c']))
            kw = {'weighting': ProductSpaceConstWeighting(c, exponent=p)} if var.wform == 'instance' else \
                {'exponent': p, 'weighting': c}
        elif w['k'] == 'array':
            arr = np.array([float(q(v)) for v in w['arr']])
            if var.wform == 'instance':
                kw = {'weighting': ProductSpaceArrayWeighting(arr, exponent=p)}
            else:
                kw['weighting'] = arr.tolist() if var.wform == 'list' else arr
        if var.power and all(d == desc['parts'][0] for d in desc['parts']):
            return odl.ProductSpace(parts[0], len(parts), **kw)
        return odl.ProductSpace(*parts, **kw)
    raise ValueError(kind)


def build_element(space, desc, val, var, lay):
    if desc['kind'] == 'pspace':
        return space.element([build_element(sp, d, v, var, lay) for sp, d, v in zip(space.spaces, desc['parts'], val)])
    k = var.tile if desc['kind'] == 'tensor' else 1
    flat = tile_flat(np.array([cpy(c) for c in val]), k).astype(var.dtype)
    arr = layout_array(flat.reshape(space.shape), lay)
    return space.element(arr)


# ----------------------------------------------------------------------------- lattice of a case
def lcm(a, b):
    return a * b // gcd(a, b)


def _walk_q(o, fn):
    if isinstance(o, list):
        if len(o) == 2 and all(isinstance(t, int) and not isinstance(t, bool) for t in o):
            fn(o)
            return
        for t in o:
            _walk_q(t, fn)
    elif isinstance(o, dict):
        for t in o.values():
            _walk_q(t, fn)


def discr_weight_den(desc):
    """Denominator of the cell sizes of a uniform partition (exact mirror of E2, lattice choice only)."""
    D = 1
    for ax in desc['axes']:
        n, a, b = ax['n'], q(ax['min']), q(ax['max'])
        cells2 = 2 * n - ax['l'] - ax['r']
        side = (b - a) if n == 1 else 2 * (b - a) / cells2
        D *= (side / 2).denominator
    return D


def weight_den(desc):
    if desc['kind'] == 'pspace':
        D = 1
        for v in (desc['w']['arr'] if desc['w']['k'] == 'array' else [desc['w']['c']]):
            D = lcm(D, q(v).denominator)
        for d in desc['parts']:
            D *= weight_den(d)
        return D
    if desc['kind'] == 'discr':
        return discr_weight_den(desc)
    D = 1
    for v in (desc['w']['arr'] if desc['w']['k'] == 'array' else [desc['w']['c']]):
        D = lcm(D, q(v).denominator)
    return D


def case_lattice(case):
    """(D, magnitude bound) such that every TRUE observable of the case is a multiple of 1/D.
    Inputs have denominators dx (entries) and da (scalar); inner products / P-th powers of norms are
    polynomials of degree <= P + P in them times one weight per level."""
    dx = [1]
    mag = [Fraction(0)]

    def f(o):
        if o[1] > 0:
            dx[0] = lcm(dx[0], o[1])
            mag[0] = max(mag[0], abs(Fraction(o[0], o[1])))
    _walk_q([case['x'], case['y'], case['z']], f)
    da = [1]
    _walk_q(case['a'], lambda o: da.__setitem__(0, lcm(da[0], o[1])) if o[1] > 0 else None)
    P = max(2, int(case['pw']))
    wd = weight_den(case['spc'])
    if pclass(case['spc']) == 'mixed':
        wd = wd ** P            # component norms (not their powers) enter the next level
    D = wd * (dx[0] ** P) * (da[0] ** P)
    # the exported expectations (if any) are on the lattice by construction: make sure D resolves them
    _walk_q(case.get('e', {}), lambda o: dx.__setitem__(0, 1) if o[1] <= 0 else None)
    de = [1]
    _walk_q(case.get('e', {}), lambda o: de.__setitem__(0, lcm(de[0], o[1])) if o[1] > 0 else None)
    D = lcm(D, de[0])
    return D, mag[0]


def magnitude_bound(case):
    """Crude upper bound of every observable of the case (inner products, P-th powers of norms):
    (number of entries) x (largest weight per level, multiplied) x ((|a|+1) * max|entry|)^P."""
    from fractions import Fraction as F
    desc = case['spc']

    def wmax(d):
        if d['kind'] == 'discr':
            m = F(1)
            if d['p'] != PINF:
                for ax in d['axes']:
                    n, a, b = ax['n'], q(ax['min']), q(ax['max'])
                    m *= (b - a) if n == 1 else 2 * (b - a) / (2 * n - ax['l'] - ax['r'])
            return max(m, F(1))
        if d['w']['k'] == 'custom':
            top = F(max(d['n'], 2))
        else:
            top = max([q(v) for v in (d['w']['arr'] if d['w']['k'] == 'array' else [d['w']['c']])] + [F(1)])
        if d['kind'] == 'pspace':
            top *= max(wmax(s) for s in d['parts'])
        return top

    def size(d):
        return sum(size(s) for s in d['parts']) if d['kind'] == 'pspace' else d['n']
    mx = [F(0)]

    def f(o):
        if o[1] > 0:
            mx[0] = max(mx[0], abs(F(o[0], o[1])))
    _walk_q([case['x'], case['y'], case['z']], f)
    am = [F(0)]
    _walk_q(case['a'], lambda o: am.__setitem__(0, am[0] + abs(F(o[0], o[1]))))
    P = max(2, int(case['pw']))
    m = max(mx[0], 1)
    norms = (max(am[0], 2) * m) ** P              # a*x, x+y, x-y
    inners = (am[0] + 1) * m * m                  # <a*x + y, z>
    return float(size(desc) * wmax(desc) * max(norms, inners))


def f32_ok(case, D, nentries, bound=None):
    """float32 / complex64 concretisations only where ROUNDING cannot move an observation by a
    noticeable part of a lattice step:   |value| * relerr * 3 (cubing) * 4 (margin) < 1/(2D).
    relerr: accumulated relative error of a float32 reduction, taken as 1e-5 up to ~1000 entries and
    1e-3 beyond (observed 6e-5 for complex64 dot products of 50 000 entries)."""
    big = [0]

    def f(o):
        if o[1] > 0:
            big[0] = max(big[0], abs(o[0]) / o[1])
    if bound is None:
        _walk_q(case.get('e', {}), f)
        _walk_q([case['x'], case['y'], case['z'], case['a']], f)
        bound = big[0]
    relerr = 1e-5 if nentries <= 1000 else 1e-3
    return D <= 64 and bound * D * relerr * 24 < 1.0


# ----------------------------------------------------------------------------- observation
def _call(fn):
    try:
        return ('ok', fn())
    except Exception as e:          # an exception is an observation
        return ('raised', type(e).__name__ + ': ' + str(e)[:80])


def cscalar(c, dtype):
    v = cpy(c)
    if np.dtype(dtype).kind == 'i':
        return int(v)               # integer spaces get integer scalars (the case is offered only if a is one)
    if isinstance(v, float) and v == int(v) and int(v) % 2 == 0:
        return int(v)               # mix python ints and floats as a user would
    return v


def observe_raw(space, desc, case, var):
    """Perform every public call of the case on real elements; returns {name: ('ok', value)|('raised', msg)}."""
    x = build_element(space, desc, case['x'], var, var.lay_x)
    y = build_element(space, desc, case['y'], var, var.lay_y)
    z = build_element(space, desc, case['z'], var, var.lay_y)
    a = cscalar(case['a'], var.dtype)
    raw = {}
    if var.spell == 0:          # element-level spellings (two space-level ones mixed in)
        raw['ixy'] = _call(lambda: x.inner(y))
        raw['iyx'] = _call(lambda: y.inner(x))
        raw['ixx'] = _call(lambda: x.inner(x))
        raw['iyy'] = _call(lambda: space.inner(y, y))
        raw['ixz'] = _call(lambda: x.inner(z))
        raw['iyz'] = _call(lambda: y.inner(z))
        raw['ilin'] = _call(lambda: (a * x + y).inner(z))
        raw['nx'] = _call(lambda: x.norm())
        raw['ny'] = _call(lambda: space.norm(y))
        raw['nax'] = _call(lambda: (a * x).norm())
        raw['nxpy'] = _call(lambda: (x + y).norm())
        raw['nxmy'] = _call(lambda: (x - y).norm())
        raw['dxy'] = _call(lambda: x.dist(y))
        raw['dyx'] = _call(lambda: space.dist(y, x))
    else:                       # space-level spellings, the transpose functional x.T = <., x>, lincomb
        raw['ixy'] = _call(lambda: space.inner(x, y))
        raw['iyx'] = _call(lambda: x.T(y))
        raw['ixx'] = _call(lambda: space.inner(x, x))
        raw['iyy'] = _call(lambda: y.T(y))
        raw['ixz'] = _call(lambda: z.T(x))
        raw['iyz'] = _call(lambda: space.inner(y, z))
        raw['ilin'] = _call(lambda: space.inner(space.lincomb(a, x, 1, y), z))
        raw['nx'] = _call(lambda: space.norm(x))
        raw['ny'] = _call(lambda: y.norm())
        raw['nax'] = _call(lambda: space.norm(space.lincomb(a, x)))
        raw['nxpy'] = _call(lambda: space.norm(x + y))
        raw['nxmy'] = _call(lambda: space.norm(space.lincomb(1, x, -1, y)))
        raw['dxy'] = _call(lambda: space.dist(x, y))
        raw['dyx'] = _call(lambda: y.dist(x))
    raw['none'] = _call(lambda: space.one().norm())
    return raw


def project(raw, case, var, D):
    """Snap raw observations: inner -> Gaussian rational, norm/dist -> P-th power (max for inf) -> rational;
    sums over a k-fold tiling are divided by k first (SpaceSem!TilingLemma)."""
    P = int(case['pw'])
    pinf = case['spc']['p'] == PINF and case['spc']['w']['k'] != 'custom'
    k = var.tile if case['spc']['kind'] == 'tensor' else 1
    out = {}
    for name in OBS:
        st, v = raw[name]
        if st != 'ok':
            out[name] = {'s': 'raised', 'v': ZERO_C}
            continue
        try:
            if name in INNER_OBS:
                zc = complex(v) / k
                c = exact.snap_c(zc, D, var.dtype)
                out[name] = {'s': 'off', 'v': ZERO_C} if c == exact.OFF else {'s': 'ok', 'v': exact.to_c(c)}
            else:
                r = float(v)
                val = r ** P
                if not pinf:
                    val = val / k
                s = exact.snap(val, D, var.dtype)
                out[name] = {'s': 'off', 'v': ZERO_C} if s == exact.OFF else {'s': 'ok', 'v': [exact.to_q(s), [0, 1]]}
        except (OverflowError, TypeError, ValueError):
            out[name] = {'s': 'off', 'v': ZERO_C}
    return out


def quantised(raw, names=('nx', 'ny', 'nxpy')):
    """Integers |.| <= 2^20 on a common pair-relative scale (for the relational triangle clause)."""
    vals = []
    for n in names:
        st, v = raw[n]
        if st != 'ok' or not np.isfinite(float(v)):
            return [0, 0, 0, 0]
        vals.append(float(v))
    s = max(max(abs(v) for v in vals), 1e-300)
    sc = (2 ** 20) / s
    return [int(round(v * sc)) for v in vals] + [1]


# ----------------------------------------------------------------------------- signatures
def pclass(desc):
    ps = set()

    def walk(d):
        ps.add(d['p'])
        for s in d['parts']:
            walk(s)
    walk(desc)
    if len(ps) > 1:
        return 'mixed'
    p = ps.pop()
    return 'inf' if p == PINF else str(p)


def kinds(desc):
    if desc['kind'] != 'pspace':
        return desc['kind']
    leaf = set()

    def walk(d):
        if d['kind'] == 'pspace':
            for s in d['parts']:
                walk(s)
        else:
            leaf.add(d['kind'])
    walk(desc)
    return 'pspace(' + '+'.join(sorted(leaf)) + ')'


def obs_class(name):
    if name in INNER_OBS:
        return 'inner'
    if name in ('dxy', 'dyx'):
        return 'dist'
    return 'norm'

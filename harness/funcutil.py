"""Shared machinery of the FuncMachine checks C07 / C08 / C09.

  * TLC job runner for MC_FuncMachine / MC_FuncRulesImpl (one process per (space, leaf group)),
  * concretisation: SpaceDesc + functional expression (as exported by TLC) -> real ODL objects,
  * observation: real calls -> projected (snapped / fixed-point) events,
  * trace validation through spec/trace/Trace_FuncMachine.tla,
  * introspection audit of odl.solvers (uncovered classes).

Python never decides a value: expectations come from the TLC export, recorded events are judged by
TLC (Trace_FuncMachine).  The only arithmetic done here is (i) choosing the snapping lattice and
(ii) the literal comparison `F(z) < F(p) - slack` of two numbers produced by the implementation.
"""
import inspect
import json
import math
import os
import re
from concurrent.futures import ThreadPoolExecutor
from fractions import Fraction

import numpy as np
import odl

from . import exact
from .common import MachineryError
from .tlc import run_tlc, parse_fails

S = odl.solvers
QSCALE = 65536            # fixed-point scale of relational clauses (2^16)
QLIM = 8000.0             # |v| beyond this is not quantised (flag fin = 0); sums of three stay below 2^31
SNAP_TOL = 2.0 ** -36     # rounding (<= 1e-13 incl. ODL's (1 - 10 eps) fudge) << tol << 1/D
SNAP_D = 960              # lattice of observations: multiples of 1/960 (halves ... 64ths, thirds, fifths and products)
PROBE_SLACKQ = 16         # 2^-12: far below the cost 1/160 of a lattice-step error, far above rounding
REL_SLACKQ = 8

SPACES_2D = ['rn2', 'rnw2', 'discrH', 'discr2', 'power1', 'pspace1']
SPACES_BIG = ['rn3', 'discr3', 'power2', 'pspace2']
# WEIGHTED power spaces ProductSpace(X, m, weighting=...): array weighting [1, 4], constant weighting 4.0, weights < 1
# (abstract kind "wpower": the component weights enter the inner product AND the point-wise norms of the vector-field
# functionals, so the expectation changes - the axis lives in the specification, MC_FuncMachine!SpaceOf)
SPACES_W = ['wpowerA', 'wpowerC', 'wpowerQ']


# ----------------------------------------------------------------------------- numbers
def fr(q):
    """JSON [n, d] -> Fraction | inf | nan"""
    n, d = q
    if d == 0:
        return float('nan') if n == 0 else (float('inf') if n > 0 else float('-inf'))
    return Fraction(n, d)


def frv(v):
    return [fr(q) for q in v]


def known(q):
    return q[1] != 0


def qj(v):
    """Fraction / float token -> JSON [n, d]"""
    if isinstance(v, str):
        return [0, 0]
    if isinstance(v, float):
        if math.isnan(v):
            return [0, 0]
        if math.isinf(v):
            return [1, 0] if v > 0 else [-1, 0]
        raise TypeError('unsnapped float')
    try:
        return exact.to_q(v)
    except OverflowError:
        return [0, 0]


MAXDEN_SCALAR = 64        # exact clauses are evaluated by TLC in 32-bit rationals: wider denominators are
MAXDEN_VECTOR = 20        # logged as "not on the declared lattice" (relational clauses still apply)


def snapv(v, D=SNAP_D, maxden=MAXDEN_SCALAR):
    """float -> JSON Q ; [0,0] when off the lattice, [1,0] for +inf"""
    v = float(v)
    if math.isnan(v):
        return [0, 0]
    if math.isinf(v):
        return [1, 0] if v > 0 else [-1, 0]
    s = exact.snap(v, D, tol=SNAP_TOL)
    if s == exact.OFF or s.denominator > maxden or abs(s) > 4096:
        return [0, 0]
    return qj(s)


def snapvec(arr, D=SNAP_D):
    return [snapv(v, D, MAXDEN_VECTOR) for v in np.asarray(arr, dtype=float).ravel()]


def matches(v, q, rel=1e-9):
    """observed float against an expected exact value (JSON Q): equal up to rounding"""
    e = fr(q)
    if isinstance(e, float):
        return (math.isinf(e) and math.isinf(v) and (e > 0) == (v > 0)) or (math.isnan(e))
    return math.isfinite(v) and abs(v - float(e)) <= rel * max(1.0, abs(v))


def exactly_dyadic(vals, maxden=64):
    """All entries are dyadic rationals with small denominators: sums of products of such numbers are exact in
    double precision, so a value computed AT them owes nothing to rounding (no boundary tolerance applies)."""
    for v in vals:
        v = float(v)
        if not math.isfinite(v) or abs(v) > 64 or (v * maxden) != int(v * maxden):
            return False
    return True


def value_near(func, B, vals, anchors=(), k=32, hold_dyadic=False):
    """func at the point, or - when that is +inf - at a point within 1e-9 (relative) of it where func is finite.
    An indicator value that flips within rounding distance of the boundary of its set is not a verdict.
    Candidates: a 1e-9 step towards every anchor (points where func is known to be finite: by convexity of the
    domain such a step from a boundary point leads inside), towards 0, and a few random 1e-9 perturbations.
    hold_dyadic: coordinates that are exactly dyadic (e.g. y_i = 1.0) are NOT perturbed - they carry no rounding,
    a documented boundary convention (0 log 0 = 0) has to hold there as it stands."""
    v = float(func(B.el(vals)))
    if math.isfinite(v):
        return v, False
    arr = np.array([float(t) for t in vals])
    hold = np.array([exactly_dyadic([t]) for t in arr]) if hold_dyadic else np.zeros(arr.shape, dtype=bool)
    if hold.all():
        return v, False
    scale = 1e-9 * max(1.0, float(np.max(np.abs(arr))) if arr.size else 1.0)
    cands = []
    for a in list(anchors) + [np.zeros_like(arr)]:
        d = np.array([float(t) for t in a]) - arr
        nd = float(np.linalg.norm(d))
        if nd > 0:
            cands.append(arr + scale * d / nd)
    prn = np.random.RandomState(4321)
    for _ in range(k):
        cands.append(arr + scale * prn.uniform(-1, 1, size=arr.shape))
    for c in cands:
        c = np.where(hold, arr, c)
        try:
            w = float(func(B.el(c)))
        except Exception:
            continue
        if math.isfinite(w):
            return w, True
    return v, False


def fixq(v):
    """fixed-point integer of a float, or None when not finite / too large"""
    v = float(v)
    if not math.isfinite(v) or abs(v) > QLIM:
        return None
    return int(round(v * QSCALE))


# ----------------------------------------------------------------------------- spaces
def sp_desc(kind, m, n, W, cw=None):
    d = {'kind': kind, 'm': m, 'n': n, 'W': [qj(Fraction(w)) for w in W]}
    if kind == 'wpower':
        d['cw'] = [qj(Fraction(c)) for c in cw]
    return d


def is_vf(kind):
    return kind in ('power', 'wpower')


def axes_of(n, layout):
    """How the n points of one component are laid out on axes (the abstract space record stays [kind, m, n, W];
    flat index = C order).  0: one axis ; 1: (1, n) ; 2: most balanced 2-d factorisation (or (n, 1)) ; 3: 3 axes."""
    if layout == 0:
        return (n,)
    if layout == 1:
        return (1, n)
    a = max(d for d in range(1, int(n ** 0.5) + 1) if n % d == 0)
    if layout == 2:
        return (n // a, a) if a > 1 else (n, 1)
    return (1, n // a, a) if a > 1 else (1, n, 1)


def _tensor(shape, w):
    return odl.rn(shape if len(shape) > 1 else shape[0], weighting=float(w)) if w != 1 else \
        odl.rn(shape if len(shape) > 1 else shape[0])


def _discr(shape, vol):
    """uniform_discr with cell volume `vol` and UNEQUAL cell sides on several axes"""
    if len(shape) == 1:
        return odl.uniform_discr(0, float(shape[0] * vol), shape[0])
    sides = [2.0] * (len(shape) - 1)
    sides.append(float(vol) / (2.0 ** (len(shape) - 1)))
    return odl.uniform_discr([0] * len(shape), [s * k for s, k in zip(sides, shape)], shape)


def build_space(sp, layout=0):
    kind, m, n = sp['kind'], sp['m'], sp['n']
    W = frv(sp['W'])
    shape = axes_of(n, layout)
    if kind == 'rn':
        return _tensor(shape, 1)
    if kind == 'rnw':
        return _tensor(shape, W[0])
    if kind == 'discr':
        return _discr(shape, W[0])
    if kind == 'power':
        return _discr(shape, W[0]) ** m
    if kind == 'wpower':
        # W[(k-1)n+i] = cw[k] * cell volume ; equal component weights are spelled as a CONSTANT weighting on the
        # even layouts and as an array on the odd ones
        cw = frv(sp['cw'])
        base = _discr(shape, W[0] / cw[0])
        if all(c == cw[0] for c in cw) and layout % 2 == 0:
            return odl.ProductSpace(base, m, weighting=float(cw[0]))
        return odl.ProductSpace(base, m, weighting=[float(c) for c in cw] if layout != 3 else
                                np.array([float(c) for c in cw]))
    if kind == 'pspace':
        return odl.ProductSpace(_tensor(shape, W[0]), _discr(shape, W[n]))
    raise ValueError(kind)


def part_desc(sp, k):
    n = sp['n']
    return {'kind': 'part', 'm': 1, 'n': n, 'W': sp['W'][(k - 1) * n:k * n]}


def weights_ok(space, sp):
    """The real space has exactly the weights the SpaceDesc declares (checked through its own inner product)."""
    W = frv(sp['W'])
    N = sp['m'] * sp['n']
    for i in range(N):
        e = [0.0] * N
        e[i] = 1.0
        x = element(space, sp, e)
        if abs(x.inner(x) - float(W[i])) > 1e-12:
            return False
    return True


def _unflatten(space, vals, pos):
    if isinstance(space, odl.ProductSpace):
        parts = []
        for comp in space:
            e, pos = _unflatten(comp, vals, pos)
            parts.append(e)
        return space.element(parts), pos
    m = int(np.prod(space.shape))
    return space.element(np.asarray(vals[pos:pos + m], dtype=float).reshape(space.shape)), pos + m


def element(space, sp, vals):
    """flat list of numbers (component-major, C order inside a component) -> element"""
    vals = [float(v) for v in vals]
    e, pos = _unflatten(space, vals, 0)
    assert pos == len(vals)
    return e


def flat(x):
    if isinstance(x.space, odl.ProductSpace):
        return np.concatenate([flat(xi) for xi in x])
    return np.asarray(x.asarray(), dtype=float).ravel()


# ----------------------------------------------------------------------------- functionals
class Unbuildable(Exception):
    pass


def shape(f):
    if not f['args']:
        return f['op']
    return f['op'] + '(' + ','.join(shape(a) for a in f['args']) + ')'


def ops_of(f, acc=None):
    acc = [] if acc is None else acc
    acc.append(f['op'])
    for a in f['args']:
        ops_of(a, acc)
    return acc


def first_leaf(f):
    while f['args']:
        f = f['args'][0]
    return f['op']


def pexp(f):
    """point-wise exponent of the group functionals (field s of the expression: 1, default 2, inf)"""
    s = f['s']
    if s == [1, 1]:
        return 1
    if s == [1, 0]:
        return np.inf
    return 2


def rel_event(cl, mode, lhs, rhs, slackq=REL_SLACKQ):
    """A named relation between two observed numbers (event kind "rel"), or None when not quantisable."""
    a, b = fixq(lhs), fixq(rhs)
    if a is None or b is None:
        return None
    return {'k': 'rel', 'cl': cl, 'mode': mode, 'lhsq': a, 'rhsq': b, 'slackq': slackq}


def build(f, space, sp, variant=0):
    """Functional expression (JSON of the TLA+ record) -> ODL functional on `space`.
    variant 0: operator syntax of the public API ; variant 1: explicit class constructors."""
    op = f['op']
    s, c = fr(f['s']), fr(f['c'])
    vec = lambda v: element(space, sp, frv(v))
    if op == 'L1':
        return S.L1Norm(space) if variant == 0 else S.LpNorm(space, 1)
    if op == 'L2':
        return S.L2Norm(space) if variant == 0 else S.LpNorm(space, 2)
    if op == 'L2sq':
        return S.L2NormSquared(space)
    if op == 'Linf':
        return S.LpNorm(space, np.inf)
    if op == 'GroupL1':
        e = pexp(f)
        if e == 2:
            return S.GroupL1Norm(space) if variant == 0 else S.GroupL1Norm(space, 2)
        return S.GroupL1Norm(space, exponent=e)
    if op == 'Huber':
        return S.Huber(space, float(s))
    if op == 'IndBox':
        return S.IndicatorBox(space, float(s), float(c))
    if op == 'IndNonneg':
        return S.IndicatorNonnegativity(space)
    if op == 'IndZero':
        return S.IndicatorZero(space, constant=float(c)) if (c != 0 or variant) else S.IndicatorZero(space)
    if op == 'IndSum':
        return S.IndicatorSumConstraint(space, sum_value=float(s))
    if op == 'IndSimplex':
        return S.IndicatorSimplex(space, diameter=float(s))
    if op == 'IndBall1':
        return S.IndicatorLpUnitBall(space, 1)
    if op == 'IndBall2':
        return S.IndicatorLpUnitBall(space, 2)
    if op == 'IndBallInf':
        return S.IndicatorLpUnitBall(space, np.inf)
    if op == 'IndGroupBall':
        e = pexp(f)
        if e == 2:
            return S.IndicatorGroupL1UnitBall(space) if variant == 0 else S.IndicatorGroupL1UnitBall(space, 2)
        return S.IndicatorGroupL1UnitBall(space, exponent=e)
    if op == 'Quad':
        A = None
        if f['v']:
            d = frv(f['v'])
            if isinstance(space, odl.ProductSpace) or (all(t == d[0] for t in d) and variant == 0):
                if not all(t == d[0] for t in d):
                    raise Unbuildable('diagonal quadratic form on a product space')
                A = odl.ScalingOperator(space, float(d[0]))
            else:
                A = odl.MatrixOperator(np.diag([float(t) for t in d]), domain=space, range=space)
        b = vec(f['u']) if f['u'] else None
        return S.QuadraticForm(operator=A, vector=b, constant=float(c))
    if op == 'Const':
        return S.ZeroFunctional(space) if c == 0 else S.ConstantFunctional(space, float(c))
    if op == 'KL':
        return S.KullbackLeibler(space, prior=vec(f['v'])) if f['v'] else S.KullbackLeibler(space)
    if op == 'KLcc':
        return (S.KullbackLeibler(space, prior=vec(f['v'])) if f['v'] else S.KullbackLeibler(space)).convex_conj
    # ---- rules
    if op == 'SepSum':
        g1 = build(f['args'][0], space[0], part_desc(sp, 1), variant)
        g2 = build(f['args'][1], space[1], part_desc(sp, 2), variant)
        return S.SeparableSum(g1, g2)
    g = build(f['args'][0], space, sp, variant)
    if op == 'Translate':
        return g.translated(vec(f['u'])) if variant == 0 else S.FunctionalTranslation(g, vec(f['u']))
    if op == 'ArgScale':
        return g * float(s) if variant == 0 else S.FunctionalRightScalarMult(g, float(s))
    if op == 'LScale':
        return float(s) * g if variant == 0 else S.FunctionalLeftScalarMult(g, float(s))
    if op == 'RVec':
        return g * vec(f['v']) if variant == 0 else S.FunctionalRightVectorMult(g, vec(f['v']))
    if op == 'AddConst':
        return g + float(c) if variant == 0 else S.FunctionalScalarSum(g, float(c))
    if op == 'QuadPert':
        return S.FunctionalQuadraticPerturb(g, quadratic_coeff=float(s),
                                            linear_term=vec(f['u']) if f['u'] else None, constant=float(c))
    if op == 'Conj':
        try:
            return g.convex_conj
        except ValueError as e:      # refused with an explanation (e.g. negative multiple of a linear functional)
            raise Unbuildable('convex_conj refused: ' + str(e)[:80])
    if op == 'Bregman':
        y, p = vec(f['v']), vec(f['u'])
        return g.bregman(y, p) if variant == 0 else S.BregmanDistance(g, y, p)
    if op == 'CompPow':
        return g * odl.PowerOperator(space, int(s))
    if op == 'Comp':
        n = sp['m'] * sp['n']
        M = np.array([float(t) for t in frv(f['v'])]).reshape(n, n)
        return g * odl.MatrixOperator(M, domain=space, range=space)
    h = build(f['args'][1], space, sp, variant)
    if op == 'Sum':
        return g + h if variant == 0 else S.FunctionalSum(g, h)
    if op == 'Prod':
        return S.FunctionalProduct(g, h)
    if op == 'Quot':
        return S.FunctionalQuotient(g, h)
    if op == 'InfConv':
        return S.InfimalConvolution(g, h)
    raise Unbuildable(op)


def class_names(func, acc=None, depth=0):
    """Names of the Functional classes an ODL functional is made of (for the coverage audit)."""
    acc = set() if acc is None else acc
    if depth > 6 or not isinstance(func, S.Functional):
        return acc
    acc.add(type(func).__name__)
    for attr in ('functional', 'left', 'right', 'dividend', 'divisor'):
        try:
            sub = getattr(func, attr)
        except Exception:
            continue
        class_names(sub, acc, depth + 1)
    if isinstance(func, S.SeparableSum):
        for sub in func.functionals:
            class_names(sub, acc, depth + 1)
    return acc


def all_functional_classes():
    out = set()
    for mod in (odl.solvers, odl.solvers.functional.functional, odl.solvers.functional.default_functionals,
                odl.solvers.functional.example_funcs, odl.solvers.functional.derivatives):
        for name, obj in vars(mod).items():
            if inspect.isclass(obj) and issubclass(obj, S.Functional) and obj is not S.Functional:
                out.add(obj.__name__)
    return out


# ----------------------------------------------------------------------------- signatures
def param_class(f):
    """boundary class of the parameters of the first leaf (family-level, never the number itself)"""
    while f['args']:
        f = f['args'][0]
    op, s, c = f['op'], fr(f['s']), fr(f['c'])
    if op == 'IndSum':
        return 'sum_value=0' if s == 0 else 'sum_value!=0'
    if op == 'Huber':
        return 'gamma=0' if s == 0 else 'gamma>0'
    if op == 'IndBox':
        return 'lower=upper' if s == c else 'lower<upper'
    if op in ('GroupL1', 'IndGroupBall'):
        return 'exponent=%s' % pexp(f)
    if op in ('KL', 'KLcc'):
        return 'no-prior' if not f['v'] else ('prior-with-zeros' if any(fr(t) == 0 for t in f['v']) else 'prior>0')
    return '-'


def signature(sp, f, clause, extra=None):
    W = frv(sp['W'])
    ops = ops_of(f)
    sig = {'leaf': first_leaf(f), 'param': param_class(f),
           'ops': '+'.join(sorted(set(ops))),
           'space': sp['kind'],
           'weight': 'unit' if all(w == 1 for w in W) else 'weighted',
           'clause': clause}
    for o in sorted(set(ops)):
        sig['has_' + o] = 'yes'
    if extra:
        sig.update(extra)
    return sig


def report(ctx, sig, detail, cap=4):
    """ctx.violation, but at most `cap` replay files per family (the rest is counted in the evidence)."""
    key = json.dumps(sig, sort_keys=True)
    ctx.extra.setdefault('_ops', []).append(set(k[4:] for k in sig if k.startswith('has_')) | {sig.get('leaf', '')})
    seen = ctx.extra.setdefault('_fam', {})
    seen[key] = seen.get(key, 0) + 1
    if seen[key] <= cap:
        ctx.violation(sig, detail)
    else:
        ctx.extra['contradicting_cases_beyond_the_first_%d_per_family' % cap] = \
            ctx.extra.get('contradicting_cases_beyond_the_first_%d_per_family' % cap, 0) + 1


def finish_report(ctx):
    ctx.extra.pop('_ops', None)
    fam = ctx.extra.pop('_fam', {})
    ctx.extra['contradicting_cases_total'] = sum(fam.values())
    ctx.extra['contradicting_families'] = len(fam)
    lst = []
    for key, n in sorted(fam.items()):
        s = json.loads(key)
        lst.append('%s @ %s [%s] x%d' % (s.get('clause'), s.get('ops'), ' '.join(
            '%s=%s' % (k, s[k]) for k in ('space', 'weight', 'sigma', 'error', 'factory', 'option', 'at') if k in s), n))
    ctx.extra['contradicting_family_list'] = lst[:400]


# ----------------------------------------------------------------------------- TLC jobs
def fm_env(space, depth, group, rules, deep='all', xset='quick', mode='prox', out=os.devnull):
    return {'FM_SPACE': space, 'FM_DEPTH': str(depth), 'FM_GROUP': group, 'FM_RULES': rules,
            'FM_DEEP': deep, 'FM_XSET': xset, 'FM_MODE': mode, 'OUT_FILE': out}


def run_jobs(ctx, jobs, max_workers=12):
    """jobs: list of (name, module, cfg, env, workers) ; all must finish 'ok'."""
    def go(j):
        return j[0], run_tlc(j[1], j[2], ctx.work, env=j[3], workers=j[4], timeout=3000)
    with ThreadPoolExecutor(max_workers=max_workers) as ex:
        results = list(ex.map(go, jobs))
    for name, res in results:
        ctx.add_tlc(name, res)
    return dict(results)


def run_jobs_allow(ctx, jobs, allow=(), max_workers=14):
    """Like run_jobs, but the named jobs may end with a counter-example (handled by the caller).
    Heavy jobs first, so that the pool stays busy."""
    def go(j):
        return j[0], run_tlc(j[1], j[2], ctx.work, env=j[3], workers=j[4], timeout=3000, heap=TLC_HEAP)
    with ThreadPoolExecutor(max_workers=max_workers) as ex:
        results = list(ex.map(go, jobs))
    for name, res in results:
        ctx.add_tlc(name, res, expect='any' if name in allow else 'ok')
    return dict(results)


def impl_mismatches(res):
    """<<"IMPL", space, shape, {clauses}>> lines printed by MC_FuncRulesImpl -> set of (space, shape, clause)."""
    txt = re.sub(r'\s+', ' ', res.output)
    out = set()
    for m in re.finditer(r'<< ?"IMPL", "(\w+)", "([^"]+)", \{([^}]*)\} ?>>', txt):
        for cl in re.findall(r'"([^"]+)"', m.group(3)):
            out.add((m.group(1), m.group(2), cl))
    return out


def design_drift(ctx, design, confirmed_ops):
    """Layer C mirrors the current code.  A cell where TLC finds C differing from A but where the real code
    shows no contradiction for the same leaf / rule is model drift (exit 0), not a violation."""
    for space, shp, clause in sorted(design):
        ops = set(re.findall(r'\w+', shp))
        if not any(ops & c for c in confirmed_ops):
            msg = 'layer C predicts %s for %s, the real code does not contradict layer A there' % (clause, shp)
            if msg not in ctx.drift:
                ctx.drift_note(msg)


def by_rule(progs):
    out = {}
    for r in progs:
        k = r['f']['op'] if r['f']['args'] else 'leaf:' + r['f']['op']
        k = k if not k.startswith('leaf:') else 'leaf'
        out[k] = out.get(k, 0) + 1
    return dict(sorted(out.items()))


def read_export(path):
    if not os.path.exists(path):
        return []
    with open(path) as fh:
        return [json.loads(line) for line in fh if line.strip()]


TLC_HEAP = '1500m'        # the models are small; many JVMs run side by side


class EventSink(object):
    """Streams recorded events (and the detail needed to report a rejected one) to chunk files on disk, so that
    a thorough run does not hold hundreds of thousands of events in memory; validates the chunks with TLC."""

    def __init__(self, ctx, tag, chunk=1500):
        self.ctx, self.tag, self.chunk = ctx, tag, chunk
        self.n = 0
        self.files = []
        self._ev = self._det = None
        self.kinds = {}

    def add(self, ev, det):
        if self.n % self.chunk == 0:
            self._close()
            p = os.path.join(self.ctx.work, 'trace_%s_%d.ndjson' % (self.tag, self.n // self.chunk))
            self.files.append(p)
            self._ev = open(p, 'w')
            self._det = open(p + '.detail', 'w')
        ev = dict((k, v) for k, v in ev.items() if k != 'tag')
        ev['id'] = self.n
        self._ev.write(json.dumps(ev) + '\n')
        self._det.write(json.dumps(det, default=str) + '\n')
        self.kinds[ev['k']] = self.kinds.get(ev['k'], 0) + 1
        self.n += 1

    def _close(self):
        if self._ev:
            self._ev.close()
            self._det.close()
            self._ev = self._det = None

    def get(self, eid):
        p = self.files[eid // self.chunk]
        k = eid % self.chunk
        with open(p) as a, open(p + '.detail') as b:
            for i, (la, lb) in enumerate(zip(a, b)):
                if i == k:
                    return json.loads(la), json.loads(lb)
        raise KeyError(eid)

    def validate(self, max_workers=12):
        self._close()
        ctx = self.ctx

        def val(p):
            return p, run_tlc('Trace_FuncMachine.tla', 'Trace_FuncMachine.cfg', ctx.work,
                              env={'TRACE_FILE': p}, workers=1, timeout=3000, heap=TLC_HEAP)
        with ThreadPoolExecutor(max_workers=max_workers) as ex:
            vres = list(ex.map(val, self.files))
        fails = {}
        for p, res in vres:
            if res.status != 'ok':          # keep the event TLC stopped at, for the machinery-failure message
                ls = re.findall(r'\bl = (\d+)', res.output)
                try:
                    with open(p) as fh:
                        line = fh.read().splitlines()[int(ls[-1]) - 1]
                    res.output += '\nEVENT AT FAILURE: ' + line[:1500]
                except Exception:
                    pass
            ctx.add_tlc('trace-' + os.path.basename(p), res)
            for _line, eid, clauses_text in parse_fails(res.output):
                fails[eid] = re.findall(r'"\s*([^"]+?)\s*"', clauses_text)
        return fails


# ----------------------------------------------------------------------------- trace validation
def validate_events(ctx, events, tag, chunk=1500, max_workers=12):
    """events: list of dicts (already carrying 'id' = index).  Returns {event id: [clauses]} of rejected events."""
    files = []
    for ci in range(0, len(events), chunk):
        p = os.path.join(ctx.work, 'trace_%s_%d.ndjson' % (tag, ci // chunk))
        with open(p, 'w') as fh:
            for e in events[ci:ci + chunk]:
                fh.write(json.dumps(e) + '\n')
        files.append(p)

    def val(p):
        return p, run_tlc('Trace_FuncMachine.tla', 'Trace_FuncMachine.cfg', ctx.work,
                          env={'TRACE_FILE': p}, workers=1, timeout=3000, heap=TLC_HEAP)
    with ThreadPoolExecutor(max_workers=max_workers) as ex:
        vres = list(ex.map(val, files))
    fails = {}
    for p, res in vres:
        ctx.add_tlc('trace-' + os.path.basename(p), res)
        # TLC wraps long PrintT values over several lines: bracket-matching parser of the harness
        for _line, eid, clauses_text in parse_fails(res.output):
            fails[eid] = re.findall(r'"\s*([^"]+?)\s*"', clauses_text)
    return fails


# ----------------------------------------------------------------------------- observations
_WEIGHTS_CHECKED = set()


def _needs_flat(f, variant=0):
    """matrix operators (composition with a matrix, quadratic forms built on MatrixOperator) need a one-axis space"""
    if f['op'] == 'Comp':
        return True
    if f['op'] == 'Quad' and f['v']:
        d = frv(f['v'])
        if variant or not all(t == d[0] for t in d):
            return True
    return any(_needs_flat(a, variant) for a in f['args'])


class Built(object):
    """A program concretised on real ODL objects."""

    def __init__(self, sp, f, variant=0, factory=None, layout=0):
        self.sp, self.f, self.variant = sp, f, variant
        # operators that need a one-axis tensor space (matrices) keep the flat layout
        if layout and _needs_flat(f, variant):
            layout = 0
        self.layout = layout
        self.space = build_space(sp, layout)
        key = json.dumps(sp, sort_keys=True) + str(layout)
        if key not in _WEIGHTS_CHECKED:
            # the real space carries exactly the weights the specification computes with
            if not weights_ok(self.space, sp):
                raise MachineryError('space %r does not have the declared weights %r' % (self.space, sp['W']))
            _WEIGHTS_CHECKED.add(key)
        self.func = build(f, self.space, sp, variant)
        self.N = sp['m'] * sp['n']
        self.factory = factory(self) if factory else None     # proximal factory function instead of f.proximal

    def prox(self, sigma_arg):
        if self.factory is not None:
            return self.factory(sigma_arg)
        return self.func.proximal(sigma_arg)

    def el(self, vals):
        return element(self.space, self.sp, vals)

    def sigma_arg(self, sig, kind, style=0):
        """The step as a user would pass it: scalar (float / int / numpy) or per-component / per-point."""
        if kind == 's':
            v = fr(sig[0])
            if style == 1 and v.denominator == 1:
                return int(v)
            if style == 2:
                return np.float64(float(v))
            return float(v)
        vals = [float(t) for t in frv(sig)]
        if self.f['op'] == 'SepSum':
            n = self.sp['n']
            return [vals[0], vals[n]]
        return self.el(vals)

    def prox_objective(self, x, sig, kind):
        """F(z) = f(z) + ||z - x||^2 / (2 sigma) from the implementation's own f and the inner product of f.domain.
        Returns z -> (f(z), F(z))."""
        func = self.func
        if kind == 's':
            s = float(fr(sig[0]))

            def F(z):
                fz = float(func(z))
                return fz, fz + float((z - x).norm()) ** 2 / (2.0 * s)
            return F
        sv = self.el([float(t) for t in frv(sig)])

        def Fv(z):
            fz = float(func(z))
            d = z - x
            return fz, fz + float(d.inner(d / sv)) / 2.0
        return Fv


class Opaque(Built):
    """A functional outside the catalogue of the specification (no Val / InSubdiff): only the clauses that can
    be read off the implementation's own numbers apply (event kind "probe")."""

    def __init__(self, name, option, space, func, factory=None, indicator=False):
        self.name, self.option = name, option
        self.space, self.func = space, func
        self.N = int(sum(int(np.prod(s.shape)) for s in _leaves(space)))
        self.sp = {'kind': 'opaque', 'm': 1, 'n': self.N, 'W': []}
        self.f = {'op': name, 's': [0, 1], 'c': [0, 1], 'v': [], 'u': [], 'args': []}
        self.variant = 0
        self.factory = factory
        self.indicator = indicator

    def sigma_arg(self, sig, kind, style=0):
        return float(fr(sig[0]))


def _leaves(space):
    if isinstance(space, odl.ProductSpace):
        out = []
        for c in space:
            out += _leaves(c)
        return out
    return [space]


def probe_offsets(N, rnd, k=2):
    """coordinate probes +-{1/4, 1} e_i and a few mixed lattice perturbations"""
    out = []
    for i in range(N):
        for t in (0.25, 1.0):
            for sgn in (1, -1):
                v = [0.0] * N
                v[i] = sgn * t
                out.append(v)
    for _ in range(k):
        v = [rnd.choice([-1, -0.5, -0.25, 0, 0, 0.25, 0.5, 1]) for _ in range(N)]
        if any(v):
            out.append(v)
    return out


def observe_prox(B, sig, kind, xvals, zstar, rnd, style=0, want_idem=False):
    """One proximal call on real objects + probes.  Returns (event, info)."""
    x = B.el(xvals)
    info = {'err': '', 'shape': shape(B.f)}
    ev = {'k': 'prox', 'sp': B.sp, 'f': B.f, 'sig': sig, 'sk': kind, 'x': [qj(Fraction(v)) for v in xvals],
          'slackq': PROBE_SLACKQ, 'finite': 0, 'Fpq': 0, 'p': [], 'probes': [], 'idemq': -1}
    try:
        P = B.prox(B.sigma_arg(sig, kind, style))
    except (NotImplementedError, ValueError) as e:
        # the functional does not offer a proximal / refuses it with an explanation (e.g. "proximal operator of
        # functional scaled with a negative value is not well-defined"): outside "every f that offers a proximal"
        info['err'] = type(e).__name__
        return None, info
    except Exception as e:
        info['err'] = 'factory:' + type(e).__name__ + ': ' + str(e)[:100]
        return ev, info
    try:
        p = P(x)
    except NotImplementedError:
        info['err'] = 'NotImplementedError'
        return None, info
    except Exception as e:
        info['err'] = 'call:' + type(e).__name__ + ': ' + str(e)[:100]
        return ev, info
    if p not in B.space:
        info['err'] = 'call:result-not-in-domain'
        return ev, info
    pf = flat(p)
    ev['p'] = snapvec(pf)
    onlat = all(known(t) for t in ev['p'])
    # probes are taken around the SNAPPED p (exact lattice points) whenever p is on the lattice
    pbase = np.array([float(fr(t)) for t in ev['p']]) if onlat else pf
    F = B.prox_objective(x, sig, kind)
    try:
        fp, Fp = F(p)
    except NotImplementedError:
        # the functional cannot be evaluated (default convex conjugate): no literal verdict; the event is
        # judged by TLC through the sub-gradient certificate only
        ev['finite'] = 1
        ev['noeval'] = 1
        info['noeval'] = True
        info['p'] = pf.tolist()
        info['better'] = None
        return ev, info
    except Exception as e:
        info['err'] = 'value:' + type(e).__name__ + ': ' + str(e)[:100]
        return ev, info
    info['rounding_infeasible'] = False
    if not math.isfinite(fp):
        # f(p) = +inf within rounding distance (1e-9 relative) of the feasible set is not a verdict of this check
        # (ulp-level accuracy is out of scope): look at the lattice point p snaps to, then at p pushed by 1e-9
        # along the projection direction p - x and at a few random 1e-9 perturbations.
        near = []
        if onlat:
            near.append(pbase)
        scale = 1e-9 * max(1.0, float(np.max(np.abs(pf))))
        dirv = pf - np.array([float(v) for v in xvals])
        nd = float(np.linalg.norm(dirv))
        if nd > 0:
            near.append(pf + scale * dirv / nd)
        for w in (np.zeros_like(pf), np.array([float(v) for v in xvals])):
            dw = w - pf
            nw = float(np.linalg.norm(dw))
            if nw > 0:
                near.append(pf + scale * dw / nw)
        prn = np.random.RandomState(12345)
        for _ in range(64):
            near.append(pf + scale * prn.uniform(-1, 1, size=pf.shape))
        for cand in near:
            try:
                fp2, Fp2 = F(B.el(cand))
            except Exception:
                continue
            if math.isfinite(fp2):
                fp, Fp = fp2, Fp2
                info['rounding_infeasible'] = True
                break
    ev['finite'] = 1 if math.isfinite(fp) else 0
    fq = fixq(Fp)
    info['Fp'] = Fp
    info['p'] = pf.tolist()
    if fq is None:
        ev['Fpq'] = 0
        info['unquantised'] = True
    else:
        ev['Fpq'] = fq
    # probes: certified argmin from TLC, the input, segment points, coordinate and mixed perturbations of p
    cands = []
    if zstar is not None:
        cands.append(('zstar', [float(v) for v in zstar]))
    xv = np.array([float(v) for v in xvals])
    cands.append(('x', xv.tolist()))
    for t in (0.5,):
        cands.append(('seg', (pbase + t * (xv - pbase)).tolist()))
    for off in probe_offsets(B.N, rnd):
        cands.append(('pert', (pbase + np.array(off)).tolist()))
    worst = None
    for tag, zv in cands:
        zs = snapvec(zv)
        if all(known(t) for t in zs):
            zv = [float(fr(t)) for t in zs]         # evaluate AT the lattice point
        z = B.el(zv)
        try:
            fz, Fz = F(z)
        except Exception:
            continue
        Fq = fixq(Fz)
        pr = {'z': zs, 'fz': snapv(fz), 'Fq': Fq if Fq is not None else 0,
              'fin': 1 if (Fq is not None and fq is not None) else 0}
        ev['probes'].append(pr)
        if pr['fin'] and ev['finite'] and Fq < ev['Fpq'] - PROBE_SLACKQ:
            if worst is None or Fz < worst[1]:
                worst = (tag, Fz, zv)
    info['better'] = worst
    if want_idem:
        try:
            pp = P(p)
            ev['idemq'] = fixq(float((pp - p).norm())) or 0
            info['pp'] = flat(pp).tolist()
        except Exception as e:
            info['idem_err'] = type(e).__name__
    return ev, info


def vec_fr(vals):
    return [qj(Fraction(v)) for v in vals]


def uncovered_report(ctx, covered):
    finish_report(ctx)
    allc = all_functional_classes()
    abstract = {'Functional'}
    unc = sorted(allc - set(covered) - abstract)
    ctx.extra['functional_classes_total'] = len(allc)
    ctx.extra['functional_classes_exercised'] = sorted(set(covered) & allc)
    ctx.extra['uncovered_classes'] = unc

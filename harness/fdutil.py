"""Helpers of the C13 check (finite differences): call descriptors, execution on REAL ODL code,
exact projection of the observation.

A *call descriptor* `cd` is a JSON-able dict that completely determines one public call:

    api      'finite_diff' | 'operator'
    op       'pd' | 'grad' | 'div' | 'lap'
    variant  'call' | 'derivative' | 'adjoint'
    shape    [n_1..n_d]       axis  1-based axis for 'pd' (0 otherwise)
    hs       per-axis cell sides as Q  [[n,d],..]
    method, pad, c (pad constant as C number [[n,d],[n,d]])
    x        input: list of blocks, each the flat C-order list of C numbers
    dtype    numpy dtype name   inplace  bool   layout 'C' | 'F' | 'T' (finite_diff only: memory layout)
    D        denominator of the lattice every true output entry lies on (snapping)

`execute(cd)` performs the call and returns (y_blocks, err, notes): the observed output projected
onto the lattice (NaN token where the value is off the lattice / not finite), the exception class
name ('' if none) and notes such as 'out-not-returned'.  Nothing in this module knows what the
result should be.
"""
from fractions import Fraction
import math

import numpy as np
import odl
from odl.discr.diff_ops import finite_diff

from .exact import tol_for

NANC = [[0, 0], [0, 0]]


# ------------------------------------------------------------------ numbers
def fq(q):
    return Fraction(q[0], q[1])


def qj(fr):
    fr = Fraction(fr)
    return [fr.numerator, fr.denominator]


def cj(re, im=0):
    return [qj(re), qj(im)]


def c_to_py(c):
    return complex(float(fq(c[0])), float(fq(c[1])))


def c_is_real(c):
    return c[1][0] == 0


def c_mul_i(c):
    """c * i"""
    re, im = fq(c[0]), fq(c[1])
    return [qj(-im), qj(re)]


def c_div_i(c):
    """c / i  (NaN token stays)"""
    if c[0][1] == 0 or c[1][1] == 0:
        return NANC
    re, im = fq(c[0]), fq(c[1])
    return [qj(im), qj(-re)]


def is_nan_c(c):
    return c[0][1] == 0 or c[1][1] == 0


def blocks_to_arrays(blocks, shape, dtype):
    dt = np.dtype(dtype)
    res = []
    for b in blocks:
        if dt.kind == 'c':
            a = np.array([c_to_py(z) for z in b], dtype=dt)
        else:
            a = np.array([float(fq(z[0])) for z in b], dtype=dt)
        res.append(a.reshape(shape))
    return res


_qcache = {}


def snap_block(arr, D, dtype):
    """ndarray -> flat C-order list of C JSON numbers on the lattice 1/D (NaN token otherwise)."""
    a = np.asarray(arr)
    flat = a.ravel(order='C')
    tol = tol_for(dtype, D)
    out = []
    cplx = np.iscomplexobj(flat)
    re = flat.real if cplx else flat
    im = flat.imag if cplx else None
    for i in range(flat.size):
        parts = []
        ok = True
        for v in ((re[i], im[i]) if cplx else (re[i],)):
            v = float(v)
            if not math.isfinite(v):
                ok = False
                break
            k = round(v * D)
            if abs(v - k / D) > tol * max(1.0, abs(v)):
                ok = False
                break
            key = (k, D)
            q = _qcache.get(key)
            if q is None:
                q = qj(Fraction(k, D))
                if abs(q[0]) >= 2 ** 31 - 1 or q[1] >= 2 ** 31 - 1:      # TLC integers are 32 bit
                    ok = False
                    break
                if len(_qcache) < 200000:
                    _qcache[key] = q
            parts.append(q)
        if not ok:
            out.append(NANC)
        else:
            out.append([parts[0], parts[1] if cplx else [0, 1]])
    return out


# ------------------------------------------------------------------ real objects
_spaces = {}


def make_space(shape, hs, dtype):
    key = (tuple(shape), tuple(map(tuple, hs)), str(dtype))
    sp = _spaces.get(key)
    if sp is None:
        if len(_spaces) > 300:
            _spaces.clear()
        maxpt = [float(n * fq(h)) for n, h in zip(shape, hs)]
        # default nodes_on_bdry=False: uniform weighting by the cell volume
        sp = odl.uniform_discr([0.0] * len(shape), maxpt, list(shape), dtype=dtype)
        _spaces[key] = sp
    return sp


def make_operator(cd):
    sp = make_space(cd['shape'], cd['hs'], cd['dtype'])
    c = c_to_py(cd['c'])
    if np.dtype(cd['dtype']).kind != 'c':
        c = c.real
    op = cd['op']
    if op == 'pd':
        return odl.PartialDerivative(sp, axis=cd['axis'] - 1, method=cd['method'], pad_mode=cd['pad'], pad_const=c)
    if op == 'grad':
        return odl.Gradient(sp, method=cd['method'], pad_mode=cd['pad'], pad_const=c)
    if op == 'div':
        return odl.Divergence(range=sp, method=cd['method'], pad_mode=cd['pad'], pad_const=c)
    if op == 'lap':
        return odl.Laplacian(sp, pad_mode=cd['pad'], pad_const=c)
    raise ValueError(op)


def element_blocks(el):
    """ODL element (discretised or product space) -> list of ndarrays."""
    if isinstance(el.space, odl.ProductSpace):
        return [np.asarray(p.asarray()) for p in el]
    return [np.asarray(el.asarray())]


def make_element(space, arrays):
    if isinstance(space, odl.ProductSpace):
        return space.element([a for a in arrays])
    return space.element(arrays[0])


def nan_element(space):
    if isinstance(space, odl.ProductSpace):
        return space.element([np.full(p.shape, np.nan) for p in space])
    return space.element(np.full(space.shape, np.nan))


def with_layout(a, layout):
    if layout == 'F':
        return np.asfortranarray(a)
    if layout == 'T':                      # non-contiguous: every second entry of a wider buffer
        big = np.zeros(a.shape[:-1] + (2 * a.shape[-1],), dtype=a.dtype)
        v = big[..., ::2]
        v[...] = a
        return v
    return np.ascontiguousarray(a)


def execute(cd):
    """Perform the call described by cd on real ODL code.  Returns (y_blocks, err, notes)."""
    shape = tuple(cd['shape'])
    dtype = cd['dtype']
    D = cd['D']
    notes = []
    try:
        xs = blocks_to_arrays(cd['x'], shape, dtype)
        if cd['api'] == 'finite_diff':
            f = with_layout(xs[0], cd.get('layout', 'C'))
            c = c_to_py(cd['c'])
            if np.dtype(dtype).kind != 'c':
                c = c.real
            ax = cd['axis'] - 1
            if cd.get('negaxis'):
                ax -= len(shape)
            dx = float(fq(cd['hs'][cd['axis'] - 1]))
            f_before = f.copy()
            if cd['inplace']:
                out = with_layout(np.full(shape, np.nan, dtype=dtype), cd.get('layout', 'C'))
                res = finite_diff(f, axis=ax, dx=dx, method=cd['method'], out=out, pad_mode=cd['pad'], pad_const=c)
                if res is not out:
                    notes.append('out-not-returned')
            else:
                res = finite_diff(f, axis=ax, dx=dx, method=cd['method'], pad_mode=cd['pad'], pad_const=c)
            if not np.array_equal(f, f_before):
                notes.append('input-modified')
            ys = [res]
        else:
            op = make_operator(cd)
            if cd['variant'] == 'adjoint':
                T = op.adjoint
            elif cd['variant'] == 'derivative':
                T = op.derivative(op.domain.one())
            else:
                T = op
            x = make_element(T.domain, xs)
            xb = [b.copy() for b in element_blocks(x)]
            if cd['inplace']:
                out = nan_element(T.range)
                res = T(x, out=out)
                if res is not out:
                    notes.append('out-not-returned')
            else:
                res = T(x)
            if res not in T.range:
                notes.append('result-not-in-range')
            if any(not np.array_equal(u, v) for u, v in zip(xb, element_blocks(x))):
                notes.append('input-modified')
            ys = element_blocks(res)
        return [snap_block(y, D, dtype) for y in ys], '', notes
    except Exception as e:          # an exception is an observation
        return [], type(e).__name__, notes + [str(e)[:100]]


def event_of(cd, y, err, eid):
    """The NDJSON event validated by Trace_FD."""
    return {'id': eid, 'op': cd['op'], 'variant': cd['variant'], 'shape': list(cd['shape']), 'axis': cd['axis'],
            'hs': cd['hs'], 'method': cd['method'], 'pad': cd['pad'], 'c': cd['c'], 'x': cd['x'], 'y': y, 'err': err}


# ------------------------------------------------------------------ lattices (mirror only to choose D)
def lattice_for(cd_hs, axes, lap, Dx):
    """Denominator of the lattice the true result lives on: inputs on 1/Dx, stencil coefficients are
    multiples of 1/2, divided by the cell side (squared for the Laplacian) of every involved axis."""
    D = 1
    for a in axes:
        h = fq(cd_hs[a])
        inv = 1 / h
        if lap:
            inv = inv * inv
        D = D * inv.denominator // math.gcd(D, inv.denominator)
    return D * 2 * Dx


def lines_view(arr_flat, shape, axis0):
    """flat C-order list -> list of lines along axis0 (each a list), in C order of the other axes."""
    a = np.empty(len(arr_flat), dtype=object)
    for i, v in enumerate(arr_flat):
        a[i] = v
    a = a.reshape(shape)
    m = np.moveaxis(a, axis0, -1).reshape(-1, shape[axis0])
    return [list(r) for r in m]


def from_lines(lines, shape, axis0):
    """inverse of lines_view: list of lines -> flat C-order list."""
    other = [s for i, s in enumerate(shape) if i != axis0]
    a = np.empty((len(lines), shape[axis0]), dtype=object)
    for i, r in enumerate(lines):
        for j, v in enumerate(r):
            a[i, j] = v
    a = a.reshape(other + [shape[axis0]])
    a = np.moveaxis(a, -1, axis0)
    return list(a.reshape(-1))

"""Shared machinery of the OpMachine checks (C04, C05, C06): TLC export of operator programs,
construction of the REAL ODL operator from an abstract program through the Python overloads,
projection of results, random program generation for trace validation."""
import json
import os
import random
from fractions import Fraction

import numpy as np
import odl

from . import exact
from .concrete import cnum_to_py
from .tlc import run_tlc
from .common import MachineryError

CONSTS = ['W', 'Scal', 'Vecs', 'Mats', 'LeafSet', 'UnSet', 'BinSet', 'MaxSteps', 'MaxHeight']
PROFILE_W = {'R': [1.0, 1.0], 'RW': [2.0, 0.5], 'C': [1.0, 1.0], 'M': [1.0, 1.0]}
PROFILE_WQ = {'R': [[1, 1], [1, 1]], 'RW': [[2, 1], [1, 2]], 'C': [[1, 1], [1, 1]], 'M': [[1, 1], [1, 1]]}
TILE = 60


def export_programs(ctx, profile, size, name, simulate=None, depth=None, seed=None, timeout=900):
    out = os.path.join(ctx.work, 'op_%s_%s_%s.ndjson' % (name, profile, size))
    if os.path.exists(out):
        os.remove(out)
    res = run_tlc('MC_OpMachine.tla', 'MC_OpMachine_export.cfg', ctx.work,
                  env={'OM_PROFILE': profile, 'OM_SIZE': size, 'OUT_FILE': out}, workers=1,
                  simulate=simulate, depth=depth, seed=seed, timeout=timeout)
    # programs whose export line could not be evaluated (a value left TLC's 32-bit integers) are announced by the model
    # (MC_OpMachine!Export), never dropped silently; a run that loses more than a small share of them is refused
    dropped = (res.output or '').count('EXPORT-DROPPED')
    if dropped:
        nlines = sum(1 for _ in open(out)) if os.path.exists(out) else 0
        ctx.extra.setdefault('export_dropped_programs', {})['%s-%s-%s' % (name, profile, size)] = dropped
        if dropped > 0.02 * max(1, nlines) + 3:
            raise MachineryError('%d of %d programs could not be exported (%s %s %s)' % (dropped, nlines + dropped, name, profile, size))
    return out, res


def load_lines(path):
    progs, seen = [], set()
    if not os.path.exists(path):
        return progs
    with open(path) as f:
        for line in f:
            line = line.strip()
            if not line or line in seen:
                continue
            seen.add(line)
            progs.append(json.loads(line))
    return progs


# ------------------------------------------------------------------ spaces
class Spaces(object):
    """Concrete spaces for one profile: V (2 entries or tiled to 2*TILE), S = field."""

    def __init__(self, profile, big=False, dtype=None):
        self.profile, self.big = profile, big
        cplx = profile in ('C', 'M')
        self.n = 2 * TILE if big else 2
        self.tile = TILE if big else 1
        w = np.array(PROFILE_W[profile])
        dt = dtype or ('complex128' if cplx else 'float64')
        self.dtype = np.dtype(dt)
        if big:
            wt = np.tile(w, TILE) / TILE
            self.V = odl.tensor_space(self.n, dtype=dt, weighting=wt)
        elif profile == 'RW':
            self.V = odl.tensor_space(2, dtype=dt, weighting=w)
        else:
            self.V = odl.tensor_space(2, dtype=dt)
        self.S = self.V.field
        self.VR = self.V.real_space if cplx else self.V       # profile M: the real space next to the complex one

    def vec(self, v, arith=False, space=None):
        """abstract value (list of C json) -> element of V (tiled).  arith=True: the element is an operand of one of the
        arithmetic overloads (v * A, A * v, A + v, ...); those objects are remembered in self.arith (the caller may
        later hand one of them to the expression as `out`)."""
        arr = np.array([cnum_to_py(c) for c in v], dtype=self.dtype)
        if space is not None and space == self.VR and space != self.V:
            el = self.VR.element(np.tile(arr.real, self.tile))      # an operand on the real side (typed real by OpSem)
        else:
            el = self.V.element(np.tile(arr, self.tile))
        if arith:
            if not hasattr(self, 'arith'):
                self.arith = []
            self.arith.append(el)
        return el

    def scalar(self, c):
        z = cnum_to_py(c)
        if isinstance(z, complex):
            return z
        return int(z) if float(z).is_integer() and abs(z) < 1e9 and (int(z) % 2 == 0) else float(z)

    def point(self, sp, v):
        if sp == 'V':
            return self.vec(v)
        if sp == 'VR':
            return self.vec(v, space=self.VR)
        z = cnum_to_py(v[0])
        return complex(z) if self.profile == 'C' else float(z)

    def mat(self, m):
        M = np.array([[cnum_to_py(c) for c in row] for row in m], dtype=self.dtype)
        return np.kron(np.eye(self.tile, dtype=self.dtype), M) if self.big else M

    def project(self, sp, y, D):
        """result -> (abstract value (list of C json), note)."""
        if sp == 'S':
            z = complex(y)
            a, b = exact.snap(z.real, D, self.dtype), exact.snap(z.imag, D, self.dtype)
            if exact.OFF in (a, b) or a != a or b != b:
                return [[[0, 0], [0, 0]]], 'offlattice'
            return [[exact.to_q(a), exact.to_q(b)]], ''
        arr = np.asarray(y.asarray()).ravel()
        if arr.size != self.n:
            return [[[0, 0], [0, 0]]] * 2, 'size'
        per = arr[:2]
        if self.big:
            ref = np.tile(per, self.tile)
            tol = exact.tol_for(self.dtype, D)
            with np.errstate(invalid='ignore'):
                ok = np.abs(arr - ref) <= tol * np.maximum(1.0, np.abs(ref))
            if not bool(np.all(ok)):
                return [[[0, 0], [0, 0]]] * 2, 'tiling-broken'
        out, note = [], ''
        for z in per:
            z = complex(z)
            a, b = exact.snap(z.real, D, self.dtype), exact.snap(z.imag, D, self.dtype)
            if exact.OFF in (a, b) or a != a or b != b:
                out.append([[0, 0], [0, 0]])
                note = 'offlattice'
            else:
                out.append([exact.to_q(a), exact.to_q(b)])
        return out, note


# ------------------------------------------------------------------ building real operators
class SwapOp(odl.Operator):
    """User-defined linear operator (x0, x1) -> (x1, x0) per pair of entries, implemented IN PLACE ONLY and, like
    many real operators (finite differences), not alias-safe: it writes out while still reading x."""

    def __init__(self, space):
        super(SwapOp, self).__init__(space, space, linear=True)

    def _call(self, x, out):
        xa, oa = x.asarray(), out.asarray()
        oa[0::2] = xa[1::2]
        oa[1::2] = xa[0::2]

    @property
    def adjoint(self):
        # <Sx, y>_w = sum_i w_i x_swap(i) y_i  =>  (S* y)_i = (w_swap(i) / w_i) y_swap(i)
        w = getattr(self.domain.weighting, 'array', None)
        if w is None:
            return self
        w = np.asarray(w, dtype=float)
        ws = np.empty_like(w)
        ws[0::2], ws[1::2] = w[1::2], w[0::2]
        return odl.MultiplyOperator(self.domain.element(ws / w)) * self


def build(e, sp, subst=None, matmul=False):
    """Abstract program -> real ODL operator, through the PUBLIC constructors and Python overloads.
    subst: optional {leaf kind: factory(sp) -> operator} replacing leaves (C10 wraps proximals this way)."""
    t = e['t']
    V = sp.V
    if subst and t in subst:
        return subst[t](sp)
    if t == 'swap':
        return SwapOp(V)
    if t == 'rpart':
        return odl.RealPart(V)
    if t == 'cmod2':
        return odl.ComplexModulusSquared(V)
    if t == 'sqr':
        return odl.PowerOperator(sp.VR, 2)
    if t == 'linfn':
        return odl.solvers.FunctionalQuadraticPerturb(odl.solvers.ZeroFunctional(V), linear_term=sp.vec(e['v']))
    if t == 'id':
        return odl.IdentityOperator(V)
    if t == 'scale':
        return odl.ScalingOperator(V, sp.scalar(e['a']))
    if t == 'mat':
        return odl.MatrixOperator(sp.mat(e['m']), domain=V, range=V)
    if t == 'mulvec':
        return odl.MultiplyOperator(sp.vec(e['v']))
    if t == 'zero':
        return odl.ZeroOperator(V)
    if t == 'inner':
        return odl.InnerProductOperator(sp.vec(e['v']))
    if t == 'sq':
        return odl.PowerOperator(V, 2)
    if t == 'const':
        return odl.ConstantOperator(sp.vec(e['v']))
    if t == 'shift':
        return odl.OperatorVectorSum(odl.IdentityOperator(V), -sp.vec(e['v']))
    if t == 'l2sq':
        return odl.solvers.L2NormSquared(V)
    if t == 'l1':
        return odl.solvers.L1Norm(V)
    if t == 'smul':
        return odl.MultiplyOperator(sp.vec(e['v']), domain=sp.S)
    A = build(e['l'], sp, subst, matmul)
    if t == 'sum':
        return A + build(e['r'], sp, subst, matmul)
    if t == 'sub':
        return A - build(e['r'], sp, subst, matmul)
    if t == 'comp':
        B = build(e['r'], sp, subst, matmul)
        return (A @ B) if matmul else (A * B)
    if t == 'neg':
        return -A
    if t == 'lscal':
        return (sp.scalar(e['a']) @ A) if matmul else (sp.scalar(e['a']) * A)
    if t == 'rscal':
        return (A @ sp.scalar(e['a'])) if matmul else (A * sp.scalar(e['a']))
    if t == 'rdiv':
        return A / sp.scalar(e['a'])
    if t == 'addscal':
        return A + sp.scalar(e['a'])
    if t in ('lvec', 'flvm'):
        return (sp.vec(e['v'], True, A.range) @ A) if matmul else (sp.vec(e['v'], True, A.range) * A)
    if t == 'rvec':
        return (A @ sp.vec(e['v'], True, A.domain)) if matmul else (A * sp.vec(e['v'], True, A.domain))
    if t == 'addvec':
        return A + sp.vec(e['v'], True, A.range)
    if t == 'raddvec':
        return sp.vec(e['v'], True, A.range) + A
    if t == 'rsubvec':
        return sp.vec(e['v'], True, A.range) - A
    if t == 'subvec':
        return A - sp.vec(e['v'], True, A.range)
    if t == 'pow':
        return A ** e['n']
    raise ValueError(t)


def shape_of(e):
    """Family-level description of a program: the combinator skeleton."""
    t = e['t']
    if not e['l']:
        return t
    if e['r']:
        return '%s(%s,%s)' % (t, shape_of(e['l']), shape_of(e['r']))
    return '%s(%s)' % (t, shape_of(e['l']))


def top2(e):
    """Signature key: the two outermost node kinds and whether the leaves below are linear."""
    t = e['t']
    if not e['l']:
        return t
    inner = e['l']['t'] + ('|' + e['r']['t'] if e['r'] else '')
    return '%s[%s]' % (t, inner)


def n_comb(e):
    if not e['l']:
        return 0
    return 1 + n_comb(e['l']) + (n_comb(e['r']) if e['r'] else 0)


def leaf_kinds(e):
    """Set of leaf kinds below a program."""
    if not e['l']:
        return {e['t']}
    return leaf_kinds(e['l']) | (leaf_kinds(e['r']) if e['r'] else set())


def has_nonlinear_leaf(e):
    if not e['l']:
        return e['t'] in ('sq', 'const', 'shift', 'l2sq', 'l1', 'cmod2', 'sqr')
    return has_nonlinear_leaf(e['l']) or (bool(e['r']) and has_nonlinear_leaf(e['r']))


def den_of(obj):
    from .concrete import lattice_den
    return max(1, lattice_den(obj))


def space_name(sp, s):
    if s == sp.V:
        return 'V'
    if s == sp.S:
        return 'S'
    return 'VR' if s == getattr(sp, 'VR', None) else 'other'

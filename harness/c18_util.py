"""C18 helpers: real ODL transform objects -> projected observations (events for Trace_FT).

Everything here OBSERVES; nothing decides.  A task is a small dict; run_task(task) builds real
ODL objects through the public API, performs the calls and returns a list of observation records

    {'event':  the NDJSON event validated by TLC against spec/trace/Trace_FT.tla,
     'where':  family context  {class, impl, field, halfcomplex, clause},
     'extras': secondary case attributes {dims, parity, shift, mode, how, axes},
     'conc':   the concretisation (dtype, strides, ...) needed to re-run the observation,
     'abstract': hashable abstract case, 'nontrivial': bool,
     'expected': (optional) the table exported by TLC for this case}

Projection of a matrix entry z (DESIGN 4/C18):  |z| < eps -> -1 (exact zero); |z|/c off 1 -> -2;
angle(z) M / 2pi off the integers -> -3; otherwise the exponent e in 0..M-1.
"""
import math
import warnings
from fractions import Fraction

import numpy as np
import odl
from odl.trafos import (DiscreteFourierTransform, DiscreteFourierTransformInverse,
                        FourierTransform, FourierTransformInverse)

warnings.filterwarnings('ignore')

try:
    import pyfftw
    HAVE_FFTW = True
except ImportError:          # optional back-end
    pyfftw = None
    HAVE_FFTW = False
try:
    import pywt
    HAVE_PYWT = True
except ImportError:
    pywt = None
    HAVE_PYWT = False

DTYPES = {('R', 64): 'float64', ('R', 32): 'float32', ('C', 64): 'complex128', ('C', 32): 'complex64'}
CDTYPE = {64: 'complex128', 32: 'complex64'}


def forget():
    """FFTW wisdom is process-global history; every observation starts from a fresh planner so that results
    do not depend on the order in which cases are executed."""
    if HAVE_FFTW:
        pyfftw.forget_wisdom()


def errname(e):
    return type(e).__name__


def ranshape(shape, axes, hc):
    rs = list(shape)
    if hc:
        rs[axes[-1]] = shape[axes[-1]] // 2 + 1
    return tuple(rs)


def ntrans(shape, axes):
    return int(np.prod([shape[a] for a in axes]))


# ------------------------------------------------------------------ projection
def tols(prec):
    # (zero threshold relative to the largest entry, magnitude tolerance, angle tolerance in lattice steps)
    return (1e-9, 2.0 ** -20, 1e-6) if prec == 64 else (1e-4, 2.0 ** -10, 1e-3)


def project(mat, M, cmag, prec):
    """complex matrix -> int table.  cmag: expected magnitude of non-zero entries (None: phases only)."""
    zt, mt, at = tols(prec)
    mat = np.asarray(mat, dtype=complex)
    mag = np.abs(mat)
    bad = ~np.isfinite(mag)
    scale = cmag if cmag is not None else (np.nanmax(np.where(bad, 0, mag)) if mag.size else 1.0)
    scale = scale if scale > 0 else 1.0
    zero = mag < zt * scale
    ang = np.angle(np.where(zero | bad, 1.0, mat)) * M / (2 * math.pi)
    e = np.rint(ang)
    offang = np.abs(ang - e) > at
    tab = np.mod(e, M).astype(int)
    tab[offang] = -3
    if cmag is not None:
        offmag = np.abs(mag / cmag - 1.0) > mt
        tab[offmag & ~zero] = -2
    tab[zero] = -1
    tab[bad] = -2
    return tab.tolist()


def snap_int_matrix(mat, prec):
    """matrix that should be integer valued -> ints, -2 where off the lattice Z (tolerance of harness.exact)."""
    tol = 2.0 ** -20 if prec == 64 else 2.0 ** -10
    mat = np.asarray(mat)
    re = np.real(mat).astype(float)
    im = np.imag(mat).astype(float) if np.iscomplexobj(mat) else np.zeros_like(re)
    k = np.rint(re)
    off = (~np.isfinite(re)) | (np.abs(re - k) > tol * np.maximum(1.0, np.abs(re))) | (np.abs(im) > tol) | \
        (np.abs(k) > 1000)
    out = np.where(off, -2, np.where(np.isfinite(k), k, 0)).astype(int)
    return out.tolist()


def quant(v, scale, bits):
    return int(round(float(v) / scale * (2 ** bits)))


# ------------------------------------------------------------------ matrices by unit vectors
def columns(op, mode, units=(1,), cols=None):
    """Apply op to unit vectors (or to the given columns). Returns (matrix, input_ok, ret_ok).
    mode 'oop': y = op(x) ; 'ip': op(x, out=y) with y pre-filled with NaN."""
    dom, ran = op.domain, op.range
    out, input_ok, ret_ok = [], True, True
    if cols is None:
        srcs = []
        for idx in np.ndindex(dom.shape):
            for u in units:
                a = np.zeros(dom.shape, dtype=dom.dtype)
                a[idx] = u
                srcs.append((a, u))
    else:
        srcs = [(np.asarray(c, dtype=dom.dtype).reshape(dom.shape), 1) for c in cols]
    for a, u in srcs:
        x = dom.element(a.copy())
        if mode == 'oop':
            y = op(x)
        else:
            y = ran.element()
            y.asarray()[...] = np.nan
            r = op(x, out=y)
            ret_ok = ret_ok and (r is y)
        col = np.array(y.asarray(), copy=True).ravel()
        if u != 1:
            col = col / u
        out.append(col)
        if not np.array_equal(x.asarray(), a):
            input_ok = False
    return np.array(out).T, input_ok, ret_ok


def unit_arrays(shape, dtype):
    res = []
    for idx in np.ndindex(tuple(shape)):
        a = np.zeros(shape, dtype=dtype)
        a[idx] = 1
        res.append(a)
    return res


def numpy_fft(a, axes, sign, hc):
    if hc:
        return np.fft.rfftn(a, axes=axes)
    if sign < 0:
        return np.fft.fftn(a, axes=axes)
    return np.fft.ifftn(a, axes=axes) * np.prod([a.shape[i] for i in axes])


# ------------------------------------------------------------------ spaces
def dft_space(shape, dtype):
    nd = len(shape)
    return odl.uniform_discr([0] * nd, [float(n) for n in shape], shape, dtype=dtype)


def ft_space(shape, axes, x0, strides, dtype):
    """x0[i] = [a, b]: first node of transformed axis axes[i] sits at (a/b) * stride."""
    nd = len(shape)
    r = [Fraction(1, 2)] * nd
    for i, a in enumerate(axes):
        r[a] = Fraction(x0[i][0], x0[i][1])
    lo = [float(strides[a]) * float(r[a] - Fraction(1, 2)) for a in range(nd)]
    hi = [lo[a] + shape[a] * float(strides[a]) for a in range(nd)]
    return odl.uniform_discr(lo, hi, shape, dtype=dtype)


def cls_extras(shape, axes, shifts=None, mode='-', how='-'):
    ex = {'dims': '1d' if len(shape) == 1 else 'nd',
          'parity': 'odd' if shape[axes[-1]] % 2 else 'even',
          'axes': 'all' if len(axes) == len(shape) else 'subset',
          'mode': mode, 'how': how}
    if shifts is None:
        ex['shift'] = '-'
    else:
        ex['shift'] = 'all' if all(shifts) else ('none' if not any(shifts) else 'mixed')
    return ex


def hcname(field, hcflag):
    if field == 'C':
        return 'flag-on-complex' if hcflag else 'no'
    return 'yes' if hcflag else 'no'


def obs(event, where, extras, conc, abstract, nontrivial, expected=None, expkey=None):
    """expected: literal expectation exported by TLC (small); expkey: name of the exported table of the
    task's case ('tab' / 'inv') that the observation has to equal (looked up by the parent process)."""
    event.setdefault('err', '')
    return {'event': event, 'where': where, 'extras': extras, 'conc': conc, 'abstract': abstract,
            'nontrivial': bool(nontrivial), 'expected': expected, 'expkey': expkey}


def mirror_case(kind, shape, axes, sign, hc, shifts=None, x0=None):
    """Case record for configurations beyond the TLC export constants.  Only lattice parameters are mirrored
    (period M, reference frequencies); TLC re-derives both and rejects the event if they differ."""
    shape, axes = list(shape), list(axes)
    case = {'kind': kind, 'shape': shape, 'axes': axes, 'sign': sign, 'hc': hc}
    if kind == 'dft':
        M = 1
        for a in axes:
            M = M * shape[a] // math.gcd(M, shape[a])
        case['M'] = M
    else:
        M = 1
        for i, a in enumerate(axes):
            p = 2 * x0[i][1] * shape[a]
            M = M * p // math.gcd(M, p)
        case.update(M=M, shifts=list(shifts), x0=[list(q) for q in x0])
        rs = ranshape(shape, axes, hc)
        freqs = []
        for idx in np.ndindex(*rs):
            row = []
            for i, a in enumerate(axes):
                fr = Fraction(2 * idx[a] - shape[a] + (0 if shifts[i] else 1), 2 * shape[a])
                row.append([fr.numerator, fr.denominator])
            freqs.append(row)
        case['freqs'] = freqs
        case['mirrored'] = True
    return case


# ------------------------------------------------------------------ task: discrete transform
def task_dft(task):
    """One abstract DFT case (shape, axes, sign, hc_eff) under one concretisation
    (field, hcflag, prec, impl).  Observations: forward table (out-of-place and in-place), NumPy's FFT
    projected the same way, the inverse obtained by .inverse and by its constructor (table for complex
    spaces, recovery of the input from NumPy spectra for real spaces), the ODL round trip."""
    case, conc = task['case'], task['conc']
    shape, axes, sign = tuple(case['shape']), tuple(case['axes']), case['sign']
    hc = bool(case['hc'])                   # effective (documented) half-complex flag
    field, hcflag, prec, impl = conc['field'], conc['hcflag'], conc['prec'], conc['impl']
    dtype = DTYPES[(field, prec)]
    M, N = case['M'], ntrans(shape, axes)
    n = int(np.prod(shape))
    res = []
    cfg = {'shape': list(shape), 'axes': list(axes), 'sign': sign, 'hc': hc, 'M': M}
    abstract = ['dft', list(shape), list(axes), sign, hc, field, hcflag]
    hcn = hcname(field, hcflag)
    units = (1, 1j) if field == 'C' else (1,)

    def where(cls, clause, impl_=impl):
        return {'class': cls, 'impl': impl_, 'field': 'real' if field == 'R' else 'complex',
                'halfcomplex': hcn, 'clause': clause}

    # NumPy's FFT, projected the same way (reference of the "equals NumPy" clause)
    if conc.get('numpy_ref'):
        ref = np.array([numpy_fft(a, axes, sign, hc).ravel() for a in unit_arrays(shape, dtype)]).T
        ev = dict(cfg, k='tab', t='dft', src='numpy', obs=project(ref, M, 1.0, 64))
        res.append(obs(ev, where('numpy.fft', 'numpy-table', 'numpy'), cls_extras(shape, axes), conc, abstract, True,
                       expkey='tab' if 'tab' in case else None))

    rs = ranshape(shape, axes, hc)
    sgn = '-' if sign < 0 else '+'
    isgn = '+' if sign < 0 else '-'

    def build():
        forget()
        dom = dft_space(shape, dtype)
        ran = dft_space(rs, CDTYPE[prec]) if 1 in rs else None       # default range needs extent > 0
        return dom, DiscreteFourierTransform(dom, range=ran, axes=axes, sign=sgn, halfcomplex=hcflag, impl=impl)

    # ---- forward tables
    fwd = None
    for mode in conc.get('fwd_modes', ('oop', 'ip')):
        ex = cls_extras(shape, axes, mode=mode)
        ev = dict(cfg, k='tab', t='dft', src='odl')
        try:
            dom, op = build()
            mat, input_ok, _ = columns(op, mode, units)
            if field == 'C':       # columns for e_j and i e_j (divided by i) must agree: complex linearity
                a, b = mat[:, 0::2], mat[:, 1::2]
                ta, tb = project(a, M, 1.0, prec), project(b, M, 1.0, prec)
                ev['obs'] = ta if ta == tb else [[-2] * len(r) for r in ta]
                mat = a
            else:
                ev['obs'] = project(mat, M, 1.0, prec)
            if mode == 'oop':
                fwd = mat
            res.append(obs({'k': 'hist', 'pre': _h('a'), 'act': {'op': 'call', 'x': 'x1', 'o': 'r'},
                            'post': _h('a' if input_ok else 'other', r='Fa')},
                           where('DiscreteFourierTransform', 'input-modified'), ex, conc, abstract, True))
        except Exception as e:
            ev['err'] = errname(e)
        res.append(obs(ev, where('DiscreteFourierTransform', 'dft-table'), ex, conc, abstract, True,
                       expkey='tab' if 'tab' in case else None))

    # ---- inverses
    spectra = [numpy_fft(a, axes, sign, hc) for a in unit_arrays(shape, dtype)]
    for how, mode in conc.get('inv', [['prop', 'oop'], ['prop', 'ip'], ['ctor', 'oop'], ['ctor', 'ip']]):
        if True:
            ex = cls_extras(shape, axes, mode=mode, how=how)
            try:
                dom, op = build()
                if how == 'prop':
                    inv = op.inverse
                else:
                    inv = DiscreteFourierTransformInverse(range=dom, domain=op.range, axes=axes, sign=isgn,
                                                          halfcomplex=hcflag, impl=impl)
                iimpl = inv.impl
            except Exception as e:
                ev = {'k': 'id', 'n': n, 'obs': [], 'err': errname(e)}
                res.append(obs(ev, where('DiscreteFourierTransformInverse', 'inverse-recovers-input'), ex, conc,
                               abstract, True))
                continue
            if field == 'C' and not hc:
                ev = dict(cfg, k='tab', t='idft', src='odl', sign=-sign)
                try:
                    mat, input_ok, _ = columns(inv, mode, units)
                    a, b = mat[:, 0::2], mat[:, 1::2]
                    ta, tb = project(a, M, 1.0 / N, prec), project(b, M, 1.0 / N, prec)
                    ev['obs'] = ta if ta == tb else [[-2] * len(r) for r in ta]
                except Exception as e:
                    ev['err'] = errname(e)
                res.append(obs(ev, where('DiscreteFourierTransformInverse', 'idft-table', iimpl), ex, conc, abstract,
                               True, expkey='inv' if 'inv' in case else None))
            # the inverse recovers every unit vector from its NumPy spectrum
            ev = {'k': 'id', 'n': n}
            input_ok = True
            try:
                mat, input_ok, _ = columns(inv, mode, cols=spectra)
                ev['obs'] = snap_int_matrix(mat, prec)
            except Exception as e:
                ev['obs'] = []
                ev['err'] = errname(e)
            res.append(obs(ev, where('DiscreteFourierTransformInverse', 'inverse-recovers-input', iimpl), ex, conc,
                           abstract, True))
            if not ev.get('err'):
                res.append(obs({'k': 'hist', 'pre': _h('a', y='Fa'), 'act': {'op': 'inv', 'x': 'y', 'o': 'r'},
                                'post': _h('a', y='Fa' if input_ok else 'other', r='a')},
                               where('DiscreteFourierTransformInverse', 'input-modified', iimpl), ex, conc, abstract,
                               True))
    # ---- the ODL round trip  op.inverse(op(e_j)) = e_j
    ex = cls_extras(shape, axes, mode='oop', how='prop')
    ev = {'k': 'id', 'n': n}
    try:
        dom, op = build()
        inv = op.inverse
        back = []
        for a in unit_arrays(shape, dtype):
            back.append(np.array(inv(op(dom.element(a.copy()))).asarray(), copy=True).ravel())
        ev['obs'] = snap_int_matrix(np.array(back).T, prec)
    except Exception as e:
        ev['obs'] = []
        ev['err'] = errname(e)
    res.append(obs(ev, where('DiscreteFourierTransform', 'roundtrip'), ex, conc, abstract, True))
    return res


def _h(x1, x2='b', y='nan', z='nan', r='none', q='none'):
    return {'x1': x1, 'x2': x2, 'y': y, 'z': z, 'r': r, 'q': q}


# ------------------------------------------------------------------ task: continuous transform
def kernel_rows(case, strides):
    """documented magnitude of each row: prod_i stride_i * sinc(pi f_i) / sqrt(2 pi), f from the reference grid"""
    axes = case['axes']
    out = []
    for fr in case['freqs']:
        v = 1.0
        for i, a in enumerate(axes):
            f = fr[i][0] / fr[i][1]
            v *= float(strides[a]) * np.sinc(f) / math.sqrt(2 * math.pi)
        out.append(v)
    return out


def mag_rows(mat, ker, prec, axis):
    """quantised (max, min, documented) magnitude per row (axis=1) or per column (axis=0) over non-zero entries"""
    bits = 20 if prec == 64 else 11
    zt = tols(prec)[0]
    mag = np.abs(np.asarray(mat, dtype=complex))
    scale = max(max(ker), 1e-300)
    rows = []
    for k in range(len(ker)):
        v = mag[k, :] if axis == 1 else mag[:, k]
        v = v[np.isfinite(v)]
        nz = v[v > zt * (v.max() if v.size else 1.0)]
        if nz.size == 0:
            nz = np.array([0.0])
        q = [quant(min(nz.max(), 4 * scale), scale, bits), quant(min(nz.min(), 4 * scale), scale, bits),
             quant(min(ker[k], 4 * scale), scale, bits)]
        rows.append(q)
    return rows


def task_ft(task):
    case, conc = task['case'], task['conc']
    shape, axes, sign = tuple(case['shape']), tuple(case['axes']), case['sign']
    hc = bool(case['hc'])
    field, hcflag, prec, impl = conc['field'], conc['hcflag'], conc['prec'], conc['impl']
    strides = conc['strides']
    shifts = [bool(s) for s in case['shifts']]
    dtype = DTYPES[(field, prec)]
    M, N = case['M'], ntrans(shape, axes)
    n = int(np.prod(shape))
    res = []
    cfg = {'shape': list(shape), 'axes': list(axes), 'sign': sign, 'hc': hc, 'M': M,
           'shifts': shifts, 'x0': case['x0']}
    abstract = ['ft', list(shape), list(axes), sign, hc, shifts, case['x0'], field, hcflag]
    hcn = hcname(field, hcflag)
    units = (1, 1j) if field == 'C' else (1,)
    sgn = '-' if sign < 0 else '+'

    def where(cls, clause):
        return {'class': cls, 'impl': impl, 'field': 'real' if field == 'R' else 'complex',
                'halfcomplex': hcn, 'clause': clause}

    def build():
        forget()
        dom = ft_space(shape, axes, case['x0'], strides, dtype)
        return dom, FourierTransform(dom, axes=axes, sign=sgn, halfcomplex=hcflag, shift=shifts, impl=impl)

    try:
        build()
    except Exception as e:
        # explicit rejection by the constructor (ValueError) of a configuration that the code cannot represent:
        # a transformed axis of length 1 (no reciprocal space) or, should the guard be completed, a half-complex
        # transform with an un-shifted axis.  Outside the claim.  Anything else is an observation.
        if isinstance(e, ValueError) and (1 in [shape[a] for a in axes] or (hcflag and not all(shifts))):
            return [{'unsupported': 'FourierTransform: constructor raises ValueError for %s'
                     % ('a transformed axis of length 1' if 1 in [shape[a] for a in axes]
                        else 'half-complex with an un-shifted axis'), 'abstract': abstract}]
        ev = dict(cfg, k='tab', t='ft', src='odl', err=errname(e))
        return [obs(ev, where('FourierTransform', 'construct'), cls_extras(shape, axes, shifts), conc, abstract, True)]
    ker = kernel_rows(case, strides)
    for mode in conc.get('fwd_modes', ('oop', 'ip')):
        ex = cls_extras(shape, axes, shifts, mode=mode)
        ev = dict(cfg, k='tab', t='ft', src='odl')
        evm = {'k': 'mag', 'slack': 2}
        if case.get('mirrored'):
            evm = dict(cfg, k='magf', slack=2, freqs=case['freqs'])
        try:
            dom, op = build()
            mat, input_ok, _ = columns(op, mode, units)
            if field == 'C':
                a, b = mat[:, 0::2], mat[:, 1::2]
                ta, tb = project(a, M, None, prec), project(b, M, None, prec)
                ev['obs'] = ta if ta == tb else [[-2] * len(r) for r in ta]
                mat = a
            else:
                ev['obs'] = project(mat, M, None, prec)
            evm['rows'] = mag_rows(mat, ker, prec, 1)
            res.append(obs({'k': 'hist', 'pre': _h('a'), 'act': {'op': 'call', 'x': 'x1', 'o': 'r'},
                            'post': _h('a' if input_ok else 'other', r='Fa')},
                           where('FourierTransform', 'input-modified'), ex, conc, abstract, True))
        except Exception as e:
            ev['err'] = errname(e)
            evm = None
        res.append(obs(ev, where('FourierTransform', 'ft-phase'), ex, conc, abstract, True,
                       expkey='tab' if 'tab' in case else None))
        if evm is not None:
            res.append(obs(evm, where('FourierTransform', 'ft-magnitude'), ex, conc, abstract, True))
    # inverse: table for complex-to-complex, round trip for all
    for mode in conc.get('inv_modes', ('oop', 'ip')):
        ex = cls_extras(shape, axes, shifts, mode=mode, how='prop')
        if field == 'C':
            ev = dict(cfg, k='tab', t='ift', src='odl', sign=-sign)
            evm = {'k': 'mag', 'slack': 2}
            try:
                dom, op = build()
                inv = op.inverse
                mat, input_ok, _ = columns(inv, mode, units)
                a, b = mat[:, 0::2], mat[:, 1::2]
                ta, tb = project(a, M, None, prec), project(b, M, None, prec)
                ev['obs'] = ta if ta == tb else [[-2] * len(r) for r in ta]
                evm['rows'] = mag_rows(a, [1.0 / (N * k) for k in ker], prec, 0)
            except Exception as e:
                ev['err'] = errname(e)
                evm = None
            res.append(obs(ev, where('FourierTransformInverse', 'ift-phase'), ex, conc, abstract, True,
                           expkey='inv' if 'inv' in case else None))
            if evm is not None:
                res.append(obs(evm, where('FourierTransformInverse', 'ift-magnitude'), ex, conc, abstract, True))
        ev = {'k': 'id', 'n': n}
        try:
            dom, op = build()
            inv = op.inverse
            back = []
            for a in unit_arrays(shape, dtype):
                y = op(dom.element(a.copy()))
                if mode == 'oop':
                    b = inv(y)
                else:
                    b = dom.element()
                    b.asarray()[...] = np.nan
                    inv(y, out=b)
                back.append(np.array(b.asarray(), copy=True).ravel())
            ev['obs'] = snap_int_matrix(np.array(back).T, prec)
        except Exception as e:
            ev['obs'] = []
            ev['err'] = errname(e)
        res.append(obs(ev, where('FourierTransform', 'roundtrip'), ex, conc, abstract, True))
    return res


# ------------------------------------------------------------------ task: Gaussian convergence
def task_gauss(task):
    """|FT(f) - analytic| in the sup norm on the range grid for n, 2n, 4n points; f = exp(-|x - c|^2 / 2)."""
    nd, field, hcflag, prec, impl = task['nd'], task['field'], task['hcflag'], task['prec'], task['impl']
    shift, sign, n0, L, c = task['shift'], task['sign'], task['n0'], task['L'], task['c']
    dtype = DTYPES[(field, prec)]
    sgn = '-' if sign < 0 else '+'
    errs = []
    ev = {'k': 'conv'}
    try:
        for n in (n0, 2 * n0, 4 * n0):
            forget()
            sp = odl.uniform_discr([-L + c] * nd, [L + c] * nd, [n] * nd, dtype=dtype)
            op = FourierTransform(sp, halfcomplex=hcflag, shift=shift, sign=sgn, impl=impl)
            f = sp.element(lambda x: np.exp(-sum((xi - c) ** 2 for xi in x) / 2))
            ref = op.range.element(lambda xi: np.exp(-sum(t ** 2 for t in xi) / 2) *
                                   np.exp(sign * 1j * c * sum(xi)))
            errs.append(float(np.abs((op(f) - ref).asarray()).max()))
        scale = max(errs[0], 1e-300)
        ev['errs'] = [min(quant(e, scale, 20), 2 ** 24) for e in errs]
        ev['floor'] = quant((1e-12 if prec == 64 else 1e-5), scale, 20)
        ev['raw'] = ['%.3e' % e for e in errs]
    except Exception as e:
        ev['errs'] = []
        ev['floor'] = 0
        ev['err'] = errname(e)
    where = {'class': 'FourierTransform', 'impl': impl, 'field': 'real' if field == 'R' else 'complex',
             'halfcomplex': hcname(field, hcflag), 'clause': 'gaussian-convergence'}
    ex = {'dims': '1d' if nd == 1 else 'nd', 'parity': 'odd' if n0 % 2 else 'even', 'axes': 'all', 'mode': 'oop',
          'how': '-', 'shift': 'all' if shift else 'none'}
    abstract = ['gauss', nd, field, hcflag, shift, sign, n0, c]
    return [obs(ev, where, ex, dict(task), abstract, True)]


# ------------------------------------------------------------------ task: call histories
TOKENS = ('a', 'b', 'Fa', 'Fb')


class HistRig(object):
    """One transform object T with named element objects, driven by DFTMachine actions."""

    def __init__(self, conc, seed=0):
        self.conc = conc
        kind, field, hcflag, prec, impl = conc['kind'], conc['field'], conc['hcflag'], conc['prec'], conc['impl']
        shape = tuple(conc['shape'])
        axes = tuple(conc.get('axes', range(len(shape))))
        dtype = DTYPES[(field, prec)]
        self.prec = prec
        forget()
        # objects OWNED BY THE CALLER that are handed to the constructor: the 'scribble' action mutates them later
        self.owned_axes = list(axes)
        self.owned_shift = [bool(conc.get('shift', True))] * len(axes)
        self.owned_tmp = []
        if kind == 'dft':
            self.dom = dft_space(shape, dtype)
            self.T = DiscreteFourierTransform(self.dom, axes=self.owned_axes, sign=conc.get('sign', '-'),
                                              halfcomplex=hcflag, impl=impl)
        else:
            self.dom = odl.uniform_discr([-1.0] * len(shape), [1.0] * len(shape), shape, dtype=dtype)
            kw = {}
            if conc.get('tmp') == 'given':
                probe = FourierTransform(self.dom, axes=axes, sign=conc.get('sign', '-'), halfcomplex=hcflag,
                                         shift=conc.get('shift', True), impl=impl)
                tr = np.zeros(self.dom.shape, dtype=self.dom.dtype)
                tf = np.zeros(probe.range.shape, dtype=probe.range.dtype)
                self.owned_tmp = [tr, tf]
                kw = {'tmp_r': tr, 'tmp_f': tf}
            self.T = FourierTransform(self.dom, axes=self.owned_axes, sign=conc.get('sign', '-'), halfcomplex=hcflag,
                                      shift=self.owned_shift, impl=impl, **kw)
        for a in conc.get('chain', ''):          # T itself may be a derived operator (even chains: forward type)
            self.T = self.T.inverse if a == 'i' else self.T.adjoint
        self.ran = self.T.range
        rnd = np.random.RandomState(1000 + seed)
        self.ref = {}
        for name in ('a', 'b'):
            v = rnd.randint(-4, 5, size=shape).astype(float)
            if field == 'C':
                v = v + 1j * rnd.randint(-4, 5, size=shape)
            v.flat[0] += 1 if name == 'a' else -1
            self.ref[name] = v.astype(dtype)
        # reference transforms: NumPy's FFT for the discrete transform; for the continuous one a FRESH
        # transform object without history (its values are checked against layer A by the matrix tasks)
        for name in ('a', 'b'):
            if kind == 'dft':
                hc = hcflag and field == 'R'
                self.ref['F' + name] = numpy_fft(self.ref[name], axes, -1 if conc.get('sign', '-') == '-' else 1, hc)
            else:
                forget()
                fresh = FourierTransform(self.dom, axes=axes, sign=conc.get('sign', '-'), halfcomplex=hcflag,
                                         shift=conc.get('shift', True), impl=impl)
                self.ref['F' + name] = np.array(fresh(self.dom.element(self.ref[name].copy())).asarray(), copy=True)
        forget()
        self.objs = {'x1': self.dom.element(self.ref['a'].copy()), 'x2': self.dom.element(self.ref['b'].copy()),
                     'y': self.ran.element(), 'z': self.dom.element(), 'r': None, 'q': None}
        self.objs['y'].asarray()[...] = np.nan
        self.objs['z'].asarray()[...] = np.nan
        self.cached_inv = None

    def token(self, o):
        if o is None:
            return 'none'
        arr = np.asarray(o.asarray())
        if np.all(np.isnan(arr.real)):
            return 'nan'
        tol = 1e-8 if self.prec == 64 else 1e-3
        for t in TOKENS:
            r = self.ref[t]
            if r.shape == arr.shape and np.allclose(arr, r, rtol=0, atol=tol * max(1.0, np.abs(r).max())):
                return t
        return 'other'

    def heap(self):
        return {k: self.token(v) for k, v in self.objs.items()}

    def inverse(self):
        if self.conc.get('inv_mode') == 'cached':
            if self.cached_inv is None:
                self.cached_inv = self.T.inverse
            return self.cached_inv
        return self.T.inverse

    def kw(self, act):
        """the documented call keyword naming the FFTW planning effort of this call"""
        e = act.get('e', '-')
        if e in ('-', '', None) or self.conc['impl'] != 'pyfftw':
            return {}
        if self.conc['kind'] == 'ft':
            return {'planning_effort': e}
        return {'flags': ('FFTW_' + e.upper(),)}

    def do(self, act):
        op, x, o = act['op'], act['x'], act['o']
        kw = self.kw(act)
        eff = act.get('e', '-')
        if op == 'call':
            res = self.T(self.objs[x], **kw)
            self.objs['q'], self.objs['r'] = self.objs['r'], res
        elif op == 'callip':
            self.T(self.objs[x], out=self.objs[o], **kw)
        elif op == 'inv':
            res = self.inverse()(self.objs[x], **kw)
            self.objs['q'], self.objs['r'] = self.objs['r'], res
        elif op == 'invip':
            self.inverse()(self.objs[x], out=self.objs[o], **kw)
        elif op == 'plan' and eff not in ('-', '', None):
            self.T.init_fftw_plan(eff)
        elif op == 'planinv':
            if self.cached_inv is None:
                self.cached_inv = self.T.inverse
            self.conc = dict(self.conc, inv_mode='cached')      # the planned inverse object is the one used later
            if eff in ('-', '', None):
                self.cached_inv.init_fftw_plan()
            else:
                self.cached_inv.init_fftw_plan(eff)
        elif op == 'plan':
            self.T.init_fftw_plan()
        elif op == 'temps':
            self.T.create_temporaries()
        elif op == 'tempsinv':
            if self.cached_inv is None:
                self.cached_inv = self.T.inverse
            self.conc = dict(self.conc, inv_mode='cached')      # the inverse object that got temporaries is used later
            self.cached_inv.create_temporaries()
        elif op == 'scribble':
            # the caller re-uses / overwrites the objects it passed at construction
            self.owned_shift[:] = [not v for v in self.owned_shift]
            self.owned_axes.reverse()
            self.owned_axes.append(0)
            for arr in self.owned_tmp:
                arr[...] = np.nan
        else:
            raise ValueError(op)


def hist_applicable(conc, steps):
    ops = {s['act']['op'] for s in steps}
    if ops & {'plan', 'planinv'} and conc['impl'] != 'pyfftw':
        return False          # init_fftw_plan is documented to raise for the NumPy back-end
    if ops & {'temps', 'tempsinv'} and conc['kind'] != 'ft':
        return False          # only the continuous transform has temporaries
    return True


def hist_class(conc):
    return ('DiscreteFourierTransform' if conc['kind'] == 'dft' else 'FourierTransform') + \
        ('' if not conc.get('chain') else '.' + conc['chain'])


def task_hist(task):
    """Replay behaviours of DFTMachine on one real transform object per behaviour."""
    conc = task['conc']
    res = []
    for beh in task['behaviours']:
        steps = beh['steps']
        try:
            rig = HistRig(conc, task.get('seed', 0))
        except Exception as e:
            h0 = _h('a')
            ev = {'k': 'hist', 'pre': h0, 'act': steps[0]['act'], 'post': h0, 'err': errname(e)}
            where = {'class': hist_class(conc), 'impl': conc['impl'],
                     'field': 'real' if conc['field'] == 'R' else 'complex',
                     'halfcomplex': hcname(conc['field'], conc['hcflag']), 'clause': 'history'}
            ex = cls_extras(tuple(conc['shape']), tuple(conc.get('axes', range(len(conc['shape'])))),
                            None if conc['kind'] == 'dft' else [conc.get('shift', True)], how='construct')
            ex['after'] = 'fresh'
            return res + [obs(ev, where, ex, dict(conc, behaviour=[s['act'] for s in steps]),
                              ['hist-rig', conc['kind'], conc['impl'], conc['field'], conc['hcflag']], True)]
        pre = rig.heap()
        seen = []
        for st in steps:
            act = st['act']
            ev = {'k': 'hist', 'pre': pre, 'act': act}
            try:
                rig.do(act)
                post = rig.heap()
            except Exception as e:
                ev['err'] = errname(e)
                post = pre
            ev['post'] = post
            cls = hist_class(conc)
            opimpl = conc['impl']
            if act['op'] in ('inv', 'invip', 'planinv', 'tempsinv'):
                cls += 'Inverse'
                try:
                    opimpl = rig.inverse().impl       # DiscreteFourierTransform.inverse does not propagate impl
                except Exception:
                    pass
            where = {'class': cls, 'impl': opimpl, 'field': 'real' if conc['field'] == 'R' else 'complex',
                     'halfcomplex': hcname(conc['field'], conc['hcflag']), 'clause': 'history'}
            ex = cls_extras(tuple(conc['shape']), tuple(conc.get('axes', range(len(conc['shape'])))),
                            None if conc['kind'] == 'dft' else [conc.get('shift', True)],
                            mode='ip' if act['op'] in ('callip', 'invip') else 'oop', how=act['op'])
            ex['after'] = '+'.join(seen) if seen else 'fresh'
            ex['scribbled'] = 'yes' if 'scribble' in seen else 'no'
            ex['effort'] = act.get('e', '-')
            ex['planned'] = 'yes' if ('plan' in seen or 'planinv' in seen) else 'no'
            ex['temps'] = 'yes' if ('temps' in seen or 'tempsinv' in seen) else 'no'
            ex['sign'] = conc.get('sign', '-')
            ex['callno'] = 'later' if [o_ for o_ in seen if o_ in ('call', 'callip', 'inv', 'invip')] else 'first'
            res.append(obs(ev, where, ex, dict(conc, behaviour=[s['act'] for s in steps]),
                           ['hist', [s['act'] for s in steps][:len(seen) + 1], conc['kind'], conc['impl'],
                            conc['field'], conc['hcflag']],
                           act['op'] not in ('plan', 'planinv', 'temps', 'tempsinv', 'scribble'), st.get('heap')))
            seen.append(act['op'])
            if ev.get('err') or post != st.get('heap', st.get('mirror', post)):
                break           # the real objects left the specified behaviour: later steps are not comparable
            pre = post
    return res


# ------------------------------------------------------------------ task: wavelets
PYWT_MODE = {'constant': 'zero', 'periodic': 'periodic', 'symmetric': 'symmetric', 'order0': 'constant',
             'order1': 'smooth', 'pywt_periodic': 'periodization', 'reflect': 'reflect',
             'antireflect': 'antireflect', 'antisymmetric': 'antisymmetric'}


def wave_space(shape, cell=1.0):
    nd = len(shape)
    return odl.uniform_discr([0] * nd, [cell * n for n in shape], shape)


def wave_where(clause):
    return {'class': 'WaveletTransform', 'impl': 'pywt', 'field': 'real', 'halfcomplex': '-', 'clause': clause}


def wave_extras(shape, axes, wavelet, mode, L):
    fam = pywt.Wavelet(wavelet).family_name
    return {'dims': '1d' if len(shape) == 1 else 'nd',
            'parity': 'odd' if any(shape[a] % 2 for a in axes) else 'even',
            'axes': 'all' if len(axes) == len(shape) else 'subset', 'mode': mode, 'how': fam, 'shift': '-',
            'levels': 'max' if L is None else ('one' if L == 1 else 'multi')}


def filter_bank_error(wavelet):
    """Perfect-reconstruction defect of the FILTER BANK itself, measured with plain PyWavelets (no ODL)."""
    n = 64
    err = 0.0
    for j in (0, 17, 40):
        e = np.zeros(n)
        e[j] = 1
        ca, cd = pywt.dwt(e, wavelet, mode='periodization')
        err = max(err, np.abs(pywt.idwt(ca, cd, wavelet, mode='periodization')[:n] - e).max())
    return err


def pywt_refuses(shape, axes, wavelet, mode, L):
    """Plain PyWavelets (no ODL) cannot run this decomposition / reconstruction at all (e.g. reflect-type
    extension of a length-1 signal at an over-deep level): a limitation of the back-end, outside the claim."""
    try:
        x = np.arange(float(np.prod(shape))).reshape(shape) + 0.5
        ax = tuple(range(len(shape))) if axes is None else tuple(axes)
        c = pywt.wavedecn(x, wavelet, mode=PYWT_MODE[mode], level=L, axes=ax)
        pywt.waverecn(c, wavelet, mode=PYWT_MODE[mode], axes=ax)
        return None
    except Exception as e:
        return 'PyWavelets itself raises %s for mode %s at this size / level' % (errname(e), PYWT_MODE[mode])


def task_wave_rt(task):
    """W.inverse(W(e_j)) for all unit vectors, snapped to Z."""
    shape, axes, wavelet, mode, L = tuple(task['shape']), task['axes'], task['wavelet'], task['mode'], task['L']
    ax = tuple(range(len(shape))) if axes is None else tuple(axes)
    n = int(np.prod(shape))
    ev = {'k': 'id', 'n': n}
    why = pywt_refuses(shape, axes, wavelet, mode, L)
    if why:
        return [{'unsupported': why, 'abstract': ['wave-rt', list(shape), wavelet, mode, L]}]
    try:
        sp = wave_space(shape)
        W = odl.trafos.WaveletTransform(sp, wavelet, nlevels=L, pad_mode=mode, axes=axes)
        Wi = W.inverse
        back = []
        for a in unit_arrays(shape, 'float64'):
            back.append(np.array(Wi(W(sp.element(a))).asarray(), copy=True).ravel())
        ev['obs'] = snap_int_matrix(np.array(back).T, 64)
    except Exception as e:
        ev['obs'] = []
        ev['err'] = errname(e)
    return [obs(ev, wave_where('wavelet-roundtrip'), wave_extras(shape, ax, wavelet, mode, L), dict(task),
                ['wave-rt', list(shape), list(ax), wavelet, mode, L], True)]


def task_wave_adj(task):
    """<W x, y> = <x, W.adjoint y> entry-wise on unit vectors: A[j,i] against cellvol * B[i,j], quantised."""
    shape, axes, wavelet, mode, L = tuple(task['shape']), task['axes'], task['wavelet'], task['mode'], task['L']
    ax = tuple(range(len(shape))) if axes is None else tuple(axes)
    ev = {'k': 'adj'}
    try:
        sp = wave_space(shape, task.get('cell', 0.5))
        W = odl.trafos.WaveletTransform(sp, wavelet, nlevels=L, pad_mode=mode, axes=axes)
        Wa = W.adjoint
        lhs, rhs = [], []
        xs = [sp.element(a) for a in unit_arrays(shape, 'float64')]
        ys = [W.range.element(a) for a in unit_arrays((W.range.size,), 'float64')]
        Wx = [W(x) for x in xs]
        Way = [Wa(y) for y in ys]
        for i, x in enumerate(xs):
            for j, y in enumerate(ys):
                lhs.append(float(Wx[i].inner(y)))
                rhs.append(float(x.inner(Way[j])))
        scale = max(max(abs(v) for v in lhs), max(abs(v) for v in rhs), 1e-300)
        ev['a'] = [quant(v, scale, 20) for v in lhs]
        ev['b'] = [quant(v, scale, 20) for v in rhs]
    except Exception as e:
        ev['a'], ev['b'] = [], []
        ev['err'] = errname(e)
    return [obs(ev, wave_where('wavelet-adjoint'), wave_extras(shape, ax, wavelet, mode, L), dict(task),
                ['wave-adj', list(shape), list(ax), wavelet, mode, L], True)]


def task_wave_lay(task):
    """Observe where WaveletTransform puts every PyWavelets coefficient array inside its flat output."""
    case = task['case']
    shape, axes, L = tuple(case['shape']), tuple(case['axes']), case['L']
    wavelet, mode = task['wavelet'], task['mode']
    ev = {'k': 'lay', 'shape': list(shape), 'axes': list(axes), 'flen': case['flen'], 'mode': case['mode'], 'L': L}
    why = pywt_refuses(shape, axes, wavelet, mode, L)
    if why:
        return [{'unsupported': why, 'abstract': ['wave-lay', list(shape), wavelet, mode, L]}]
    try:
        sp = wave_space(shape)
        W = odl.trafos.WaveletTransform(sp, wavelet, nlevels=L, pad_mode=mode, axes=axes)
        rnd = np.random.RandomState(task.get('seed', 0) + 7)
        x = rnd.rand(*shape) + 0.5 + np.arange(int(np.prod(shape))).reshape(shape)
        c = np.asarray(W(sp.element(x)).asarray())
        coeffs = pywt.wavedecn(x, wavelet, mode=PYWT_MODE[mode], level=L, axes=axes)
        blocks = []

        def locate(arr, frm):
            """first position >= frm where the ravelled array sits in the flat output (equal-valued blocks,
            e.g. vanishing details, are told apart only by the fact that blocks cannot overlap)"""
            flat = np.asarray(arr).ravel()
            if flat.size == 0:
                return -1
            cand = [int(s) for s in np.flatnonzero(c == flat[0])
                    if s + flat.size <= c.size and np.array_equal(c[s:s + flat.size], flat)]
            later = [s for s in cand if s >= frm]
            return later[0] if later else (cand[0] if cand else -1)
        s = locate(coeffs[0], 0)
        blocks.append([0, 'a', list(coeffs[0].shape), s, s + coeffs[0].size])
        for lev, d in enumerate(coeffs[1:], start=1):
            for key in sorted(d):
                s = locate(d[key], max(blocks[-1][4], 0))
                blocks.append([lev, key, list(d[key].shape), s, s + d[key].size])
        ev['blocks'] = blocks
        ev['total'] = int(W.range.size)
        ev['scales'] = [int(v) for v in np.asarray(W.scales().asarray())]
    except Exception as e:
        ev['blocks'], ev['total'], ev['scales'] = [], 0, []
        ev['err'] = errname(e)
    expected = [list(b) for b in case['blocks']] if 'blocks' in case else None
    return [obs(ev, wave_where('wavelet-layout'), wave_extras(shape, axes, wavelet, mode, L), dict(task, case=None),
                ['wave-lay', list(shape), list(axes), case['flen'], case['mode'], L], L > 0, expected)]


# ------------------------------------------------------------------ task: derived operators
def observe_desc(op, vol):
    """Option record of an operator obtained through .inverse / .adjoint, read from public attributes; scalar
    multiples (the wavelet adjoint) are peeled off and reported as the exponent of the cell volume."""
    from odl.operator import OperatorLeftScalarMult, OperatorRightScalarMult
    from odl.trafos import WaveletTransform, WaveletTransformInverse
    scal = 1.0
    core = op
    while isinstance(core, (OperatorLeftScalarMult, OperatorRightScalarMult)):
        scal *= float(np.real(core.scalar))
        core = core.operator
    if abs(scal - 1.0) < 1e-12:
        pw = 0
    else:
        t = math.log(scal) / math.log(vol) if scal > 0 and vol not in (0.0, 1.0) else 99.0
        pw = int(round(t)) if abs(t - round(t)) < 1e-9 else 99
    d = {'pow': pw, 'wavelet': '', 'mode': '', 'nlevels': 0, 'orth': False, 'shifts': [], 'hc': False, 'sign': 0}
    if isinstance(core, (DiscreteFourierTransform, DiscreteFourierTransformInverse)):
        d['kind'] = 'dft'
        d['dir'] = 'fwd' if isinstance(core, DiscreteFourierTransform) else 'inv'
    elif isinstance(core, (FourierTransform, FourierTransformInverse)):
        d['kind'] = 'ft'
        d['dir'] = 'fwd' if isinstance(core, FourierTransform) else 'inv'
        d['shifts'] = [bool(v) for v in core.shifts]
    elif isinstance(core, (WaveletTransform, WaveletTransformInverse)):
        d['kind'] = 'wave'
        d['dir'] = 'fwd' if isinstance(core, WaveletTransform) else 'inv'
        d.update(wavelet=str(core.wavelet), mode=str(core.pad_mode), nlevels=int(core.nlevels),
                 orth=bool(core.is_orthogonal))
    else:
        d.update(kind=type(core).__name__, dir='?')
        return d, core
    if d['kind'] != 'wave':
        d['sign'] = -1 if core.sign == '-' else 1
        d['hc'] = bool(core.halfcomplex)
    real = core.domain if d['dir'] == 'fwd' else core.range
    d.update(axes=[int(a) for a in core.axes], impl=str(core.impl), shape=[int(n) for n in real.shape],
             field='C' if real.is_complex else 'R', prec=32 if real.dtype in (np.dtype('float32'), np.dtype('complex64')) else 64)
    return d, core


def build_described(D, x0, strides):
    """Real operator for an option record, built through its CONSTRUCTOR (never through a derivation)."""
    from odl.trafos import WaveletTransform, WaveletTransformInverse
    kind, shape, axes = D['kind'], tuple(D['shape']), list(D['axes'])
    sgn = '-' if D['sign'] < 0 else '+'
    osgn = '+' if D['sign'] < 0 else '-'
    if kind == 'wave':
        sp = wave_space(shape, 0.5)
        cls = WaveletTransform if D['dir'] == 'fwd' else WaveletTransformInverse
        return sp, cls(sp, D['wavelet'], nlevels=D['nlevels'], pad_mode=D['mode'], axes=tuple(axes))
    dtype = DTYPES[(D['field'], D['prec'])]
    forget()
    if kind == 'dft':
        dom = dft_space(shape, dtype)
        if D['dir'] == 'fwd':
            return dom, DiscreteFourierTransform(dom, axes=axes, sign=sgn, halfcomplex=D['hc'], impl=D['impl'])
        fw = DiscreteFourierTransform(dom, axes=axes, sign=osgn, halfcomplex=D['hc'], impl=D['impl'])
        return dom, DiscreteFourierTransformInverse(range=dom, domain=fw.range, axes=axes, sign=sgn,
                                                    halfcomplex=D['hc'], impl=D['impl'])
    dom = ft_space(shape, axes, x0, strides, dtype)
    shifts = [bool(v) for v in D['shifts']]
    if D['dir'] == 'fwd':
        return dom, FourierTransform(dom, axes=axes, sign=sgn, halfcomplex=D['hc'], shift=shifts, impl=D['impl'])
    fw = FourierTransform(dom, axes=axes, sign=osgn, halfcomplex=D['hc'], shift=shifts, impl=D['impl'])
    return dom, FourierTransformInverse(range=dom, domain=fw.range, axes=axes, sign=sgn, halfcomplex=D['hc'],
                                        shift=shifts, impl=D['impl'])


def deriv_histories(task, E, x0, strides, where, ex, conc, abstract):
    """Histories on the DERIVED object D itself (DFTMachine actions, validated by Trace_FT!HistClauses): D is
    derived anew per history, then receives init_fftw_plan() / create_temporaries() in both orders between calls
    (out-of-place and in-place) on one argument.  D of forward type: T = D, argument "a", actions call / callip /
    plan / temps; D of inverse type: D is the kept inverse object of the machine, argument the genuine spectrum
    "Fa" held by y, actions inv / invip / planinv / tempsinv.  References ("a" / "Fa"): an integer signal and its
    transform by a FRESH operator built through the constructor (never derived, no history) for the forward-type
    record that the specification derives - so the inverse type is held to `recovers the input`."""
    base, path = task['base'], task['path']
    kind, shape = base['kind'], tuple(base['shape'])
    dtype = DTYPES[(base['field'], base['prec'])]
    fwd_rec = E if E['dir'] == 'fwd' else dict(E, dir='fwd', sign=-E['sign'], pow=0)
    rnd = np.random.RandomState(5)
    sig = rnd.randint(-3, 4, size=shape).astype(float)
    if base['field'] == 'C':
        sig = sig + 1j * rnd.randint(-3, 4, size=shape)
    sig.flat[0] += 1
    sig = sig.astype(dtype)
    dom, Ff = build_described(fwd_rec, x0, strides)
    spec = np.array(Ff(dom.element(sig.copy())).asarray(), copy=True)
    isfwd = E['dir'] == 'fwd'
    refs = {'a': sig, 'Fa': spec}
    tol = 1e-8 if base['prec'] == 64 else 1e-3

    def token(o):
        if o is None:
            return 'none'
        arr = np.asarray(o.asarray())
        if np.all(np.isnan(arr.real)):
            return 'nan'
        for t in ('a', 'Fa'):
            r = refs[t]
            if r.shape == arr.shape and np.allclose(arr, r, rtol=0, atol=tol * max(1.0, np.abs(r).max())):
                return t
        return 'other'
    names = {'call': 'call' if isfwd else 'inv', 'callip': 'callip' if isfwd else 'invip',
             'plan': 'plan' if isfwd else 'planinv', 'temps': 'temps' if isfwd else 'tempsinv'}
    setup = [s_ for s_ in ('plan', 'temps') if (s_ == 'plan' and base['impl'] == 'pyfftw') or (s_ == 'temps' and kind == 'ft')]
    progs = [['call'] + [a for s_ in order for a in (s_, 'callip', 'call')] + ['callip']
             for order in ([setup, setup[::-1]] if len(setup) == 2 else [setup])]
    if setup:
        progs.append(setup + ['call', 'callip'])           # the derived object is planned before its first call
    out = []
    for prog in progs:
        forget()
        _, op = build_described(base, x0, strides)
        for a in path:
            op = op.inverse if a == 'i' else op.adjoint
        objs = {'x1': op.domain.element(sig.copy()) if isfwd else dom.element(sig.copy()),
                'x2': None, 'r': None, 'q': None,
                'y': op.range.element() if isfwd else op.domain.element(spec.copy()),
                'z': dom.element() if isfwd else op.range.element()}
        for k_ in (('y', 'z') if isfwd else ('z',)):
            objs[k_].asarray()[...] = np.nan
        arg, tgt = ('x1', 'y') if isfwd else ('y', 'z')

        def heap():
            h = {k_: token(v) for k_, v in objs.items()}
            h['x2'] = 'b'
            return h
        pre = heap()
        seen = []
        for step in prog:
            act = {'op': names[step], 'x': arg if step in ('call', 'callip') else '-',
                   'o': 'r' if step == 'call' else (tgt if step == 'callip' else '-'), 'e': '-'}
            ev = {'k': 'hist', 'pre': pre, 'act': act}
            try:
                if step == 'call':
                    objs['q'], objs['r'] = objs['r'], op(objs[arg])
                elif step == 'callip':
                    op(objs[arg], out=objs[tgt])
                elif step == 'plan':
                    op.init_fftw_plan()
                else:
                    op.create_temporaries()
                post = heap()
            except Exception as e:
                ev['err'] = errname(e)
                post = pre
            ev['post'] = post
            e2 = dict(ex, mode='ip' if step == 'callip' else 'oop', how=act['op'])
            e2['after'] = '+'.join(seen) if seen else 'fresh'
            e2['planned'] = 'yes' if 'plan' in seen else 'no'
            e2['temps'] = 'yes' if 'temps' in seen else 'no'
            e2['sign'] = '-' if E['sign'] < 0 else '+'
            e2['type'] = E['dir']
            out.append(obs(ev, where('history'), e2, conc, abstract + ['hist', seen + [step]],
                           step in ('call', 'callip')))
            seen.append(step)
            if ev.get('err') or 'other' in post.values():
                break
            pre = post
    return out



DERIV_CLS = {'dft': 'DiscreteFourierTransform', 'ft': 'FourierTransform', 'wave': 'WaveletTransform'}


def task_deriv(task):
    """One derivation chain (TLC export of DFTDerive): base operator by constructor, then .inverse / .adjoint
    along the path; the option record read from the result and the BEHAVIOUR of the result (table / recovery of
    the input / adjoint identity / repeated and in-place calls) against the role the specification derives."""
    base, path, E = task['base'], task['path'], task['desc']
    kind, shape, axes = base['kind'], tuple(base['shape']), tuple(base['axes'])
    nd = len(shape)
    strides = [0.5, 0.25, 1.0][:nd]
    x0 = [[1 - shape[a], 2] for a in axes]
    x0 = [[Fraction(p, q).numerator, Fraction(p, q).denominator] for p, q in x0]
    vol = 0.5 ** nd
    chain = ''.join(path)
    cname = DERIV_CLS[kind] + ('Inverse' if base['dir'] == 'inv' else '') + ('.' + chain if chain else '')
    hcn = ('yes' if base['hc'] else 'no') if kind != 'wave' else '-'
    abstract = ['deriv', base, path]
    res = []

    def where(clause):
        return {'class': cname, 'impl': base['impl'], 'field': 'real' if base['field'] == 'R' else 'complex',
                'halfcomplex': hcn, 'clause': clause}
    ex = cls_extras(shape, axes, base['shifts'] if kind == 'ft' else None, mode='oop',
                    how=(base['wavelet'] + '/' + base['mode']) if kind == 'wave' else '-')
    if kind == 'wave':
        ex['levels'] = 'one' if base['nlevels'] == 1 else 'multi'
    conc = {'x0': x0, 'strides': strides}
    ev = {'k': 'deriv', 'base': base, 'path': path}
    D = None
    try:
        dom, op = build_described(base, x0, strides)
        for a in path:
            op = op.inverse if a == 'i' else op.adjoint
        D = op
        ev['obs'], core = observe_desc(op, vol)
    except Exception as e:
        ev['obs'] = {}
        ev['err'] = errname(e)
    res.append(obs(ev, where('derived-options'), ex, conc, abstract, True, E))
    if D is None:
        return res
    # ---- behaviour of the derived operator in the role the specification derives for it
    n = int(np.prod(shape))
    scale = vol ** E['pow']
    dtype = DTYPES[(base['field'], base['prec'])]
    units = (1, 1j) if base['field'] == 'C' else (1,)
    first = None
    try:
        if kind == 'dft':
            case = mirror_case('dft', shape, axes, E['sign'], E['hc'])
            cfg = {'shape': list(shape), 'axes': list(axes), 'sign': E['sign'], 'hc': E['hc'], 'M': case['M']}
            if E['dir'] == 'fwd':
                mat, _, _ = columns(D, 'oop', units)
                a = mat[:, 0::len(units)]
                res.append(obs(dict(cfg, k='tab', t='dft', src='odl', obs=project(a, case['M'], 1.0, 64)),
                               where('dft-table'), ex, conc, abstract, True))
            else:
                if base['field'] == 'C':
                    mat, _, _ = columns(D, 'oop', units)
                    a = mat[:, 0::2]
                    res.append(obs(dict(cfg, k='tab', t='idft', src='odl',
                                        obs=project(a, case['M'], 1.0 / ntrans(shape, axes), 64)),
                                   where('idft-table'), ex, conc, abstract, True))
                spectra = [numpy_fft(u, axes, -E['sign'], E['hc']) for u in unit_arrays(shape, dtype)]
                mat, _, _ = columns(D, 'oop', cols=spectra)
                res.append(obs({'k': 'id', 'n': n, 'obs': snap_int_matrix(mat, 64)}, where('inverse-recovers-input'),
                               ex, conc, abstract, True))
        elif kind == 'ft':
            case = mirror_case('ft', shape, axes, E['sign'], E['hc'], E['shifts'], x0)
            cfg = {'shape': list(shape), 'axes': list(axes), 'sign': E['sign'], 'hc': E['hc'], 'M': case['M'],
                   'shifts': [bool(v) for v in E['shifts']], 'x0': x0}
            if E['dir'] == 'fwd':
                mat, _, _ = columns(D, 'oop', units)
                a = mat[:, 0::len(units)]
                res.append(obs(dict(cfg, k='tab', t='ft', src='odl', obs=project(a, case['M'], None, 64)),
                               where('ft-phase'), ex, conc, abstract, True))
                res.append(obs(dict(cfg, k='magf', slack=2, freqs=case['freqs'],
                                    rows=mag_rows(a, kernel_rows(case, strides), 64, 1)),
                               where('ft-magnitude'), ex, conc, abstract, True))
            else:
                if base['field'] == 'C':
                    mat, _, _ = columns(D, 'oop', units)
                    a = mat[:, 0::2]
                    res.append(obs(dict(cfg, k='tab', t='ift', src='odl', obs=project(a, case['M'], None, 64)),
                                   where('ift-phase'), ex, conc, abstract, True))
                fresh = dict(E, dir='fwd', sign=-E['sign'], pow=0)
                _, Ff = build_described(fresh, x0, strides)
                spectra = [np.array(Ff(u).asarray(), copy=True) for u in unit_arrays(shape, dtype)]
                mat, _, _ = columns(D, 'oop', cols=spectra)
                res.append(obs({'k': 'id', 'n': n, 'obs': snap_int_matrix(mat, 64)}, where('roundtrip'), ex, conc,
                               abstract, True))
        else:
            _, Wf = build_described(dict(E, dir='fwd', pow=0), x0, strides)
            if E['dir'] == 'fwd':
                Wi = Wf.inverse
                back = [np.array(Wi(np.asarray(D(u).asarray()) / scale).asarray(), copy=True).ravel()
                        for u in unit_arrays(shape, 'float64')]
            else:
                back = [np.asarray(D(Wf(u)).asarray()).ravel() / scale for u in unit_arrays(shape, 'float64')]
            res.append(obs({'k': 'id', 'n': n, 'obs': snap_int_matrix(np.array(back).T, 64)},
                           where('wavelet-roundtrip'), ex, conc, abstract, True))
            claimed = E['orth'] and E['mode'] == 'pywt_periodic' and \
                all(shape[a] % 2 ** E['nlevels'] == 0 for a in axes)
            if claimed:
                Da = D.adjoint
                xs = [D.domain.element(u) for u in unit_arrays(D.domain.shape, 'float64')]
                ys = [D.range.element(u) for u in unit_arrays(D.range.shape, 'float64')]
                Dx = [D(x) for x in xs]
                Day = [Da(y) for y in ys]
                lhs = [float(Dx[i].inner(y)) for i in range(len(xs)) for y in ys]
                rhs = [float(x.inner(Day[j])) for x in xs for j in range(len(ys))]
                sc = max(max(abs(v) for v in lhs), max(abs(v) for v in rhs), 1e-300)
                res.append(obs({'k': 'adj', 'a': [quant(v, sc, 20) for v in lhs], 'b': [quant(v, sc, 20) for v in rhs]},
                               where('wavelet-adjoint'), ex, conc, abstract, True))
        if kind == 'wave':
            # ---- repeated and in-place call on the same argument: same value, argument untouched
            rnd = np.random.RandomState(5)
            xa = rnd.randint(-3, 4, size=D.domain.shape).astype(D.domain.dtype)
            x = D.domain.element(xa.copy())
            y1 = np.array(D(x).asarray(), copy=True)
            out = D.range.element()
            out.asarray()[...] = np.nan
            D(x, out=out)
            tol = 1e-8 * max(1.0, np.abs(y1).max())
            same = np.allclose(out.asarray(), y1, rtol=0, atol=tol)
            kept = np.array_equal(x.asarray(), xa)
            res.append(obs({'k': 'hist', 'pre': _h('a', r='Fa'), 'act': {'op': 'callip', 'x': 'x1', 'o': 'y'},
                            'post': _h('a' if kept else 'other', y='Fa' if same else 'other', r='Fa')},
                           where('history'), dict(ex, mode='ip'), conc, abstract, True))
        else:
            res += deriv_histories(task, E, x0, strides, where, ex, conc, abstract)
    except Exception as e:
        res.append(obs({'k': 'id', 'n': n, 'obs': [], 'err': errname(e)}, where('derived-behaviour'), ex, conc, abstract,
                       True))
    return res


def task_pyfftw_alias(task):
    """odl.trafos.backends.pyfftw_call(a, a, ...): `array_out` "may be aliased with array_in" (documented)."""
    from odl.trafos.backends import pyfftw_call
    shape, axes, sign, eff, prec = tuple(task['shape']), tuple(task['axes']), task['sign'], task['effort'], task['prec']
    case = mirror_case('dft', shape, axes, sign, False)
    ev = {'k': 'tab', 't': 'dft', 'src': 'odl', 'shape': list(shape), 'axes': list(axes), 'sign': sign, 'hc': False,
          'M': case['M']}
    try:
        cols = []
        forget()
        for u in unit_arrays(shape, CDTYPE[prec]):
            a = u.copy()
            pyfftw_call(a, a, direction='forward' if sign < 0 else 'backward', axes=axes, planning_effort=eff)
            cols.append(a.ravel())
            if task.get('fresh_each'):
                forget()
        ev['obs'] = project(np.array(cols).T, case['M'], 1.0, prec)
    except Exception as e:
        ev['err'] = errname(e)
    where = {'class': 'pyfftw_call', 'impl': 'pyfftw', 'field': 'complex', 'halfcomplex': 'no', 'clause': 'aliased-arrays'}
    ex = cls_extras(shape, axes, mode='ip')
    ex['effort'] = eff
    return [obs(ev, where, ex, dict(task), ['pyfftw-alias', list(shape), list(axes), sign, eff], True)]


TASKS = {'pyfftw_alias': task_pyfftw_alias, 'deriv': task_deriv, 'dft': task_dft, 'ft': task_ft, 'gauss': task_gauss, 'hist': task_hist,
         'wave_rt': task_wave_rt, 'wave_adj': task_wave_adj, 'wave_lay': task_wave_lay}


def run_task(task):
    return TASKS[task['type']](task)

"""C20 helpers: descriptors of spec/sem/SetSem.tla -> real ODL objects (two independently constructed
copies per descriptor) and projections of real objects back to descriptor views.

Nothing here decides a verdict: all observations are logged and judged by TLC (Trace_Sets).
"""
from fractions import Fraction

import numpy as np
import odl
from odl.set.sets import (EmptySet, UniversalSet, RealNumbers, ComplexNumbers, Integers, Strings,
                          CartesianProduct, SetUnion, SetIntersection, FiniteSet)
from odl.space.npy_tensors import (NumpyTensorSpaceConstWeighting, NumpyTensorSpaceArrayWeighting,
                                   NumpyTensorSpaceCustomInner, NumpyTensorSpaceCustomNorm,
                                   NumpyTensorSpaceCustomDist)
from odl.space.pspace import (ProductSpaceConstWeighting, ProductSpaceArrayWeighting, ProductSpaceCustomInner,
                              ProductSpaceCustomNorm, ProductSpaceCustomDist)
from odl.space.weighting import ConstWeighting, ArrayWeighting, CustomInner, CustomNorm, CustomDist

DT = {'f16': 'float16', 'f32': 'float32', 'f64': 'float64', 'c64': 'complex64', 'c128': 'complex128', 'i32': 'int32',
      'i64': 'int64'}
DTR = {v: k for k, v in DT.items()}
INF = [1, 0]


def q(v):
    return Fraction(v[0], v[1])


def qf(v):
    """[n, d] -> float;  [n, d, k] -> the float k ulps next to n/d (SetSem!QU)."""
    if v[1] == 0:
        return float('inf') if v[0] > 0 else float('nan')
    x = float(q(v))
    if len(v) == 3:
        for _ in range(abs(v[2])):
            x = float(np.nextafter(x, np.inf if v[2] > 0 else -np.inf))
    return x


def has_ulp(d):
    """A near-equal number somewhere in the descriptor: only the generic constructors reproduce it exactly."""
    return any(len(t) == 3 for v in d['q'] for t in v) or any(has_ulp(s) for s in d['sub'])


def to_q(x):
    x = float(x)
    if np.isinf(x):
        return [1, 0]
    fr = Fraction(x).limit_denominator(4096)
    if float(fr) != x:
        raise ValueError('not on the dyadic lattice: %r' % x)
    return [fr.numerator, fr.denominator]


# ---- callables of the custom catalogue (module level: both copies use the SAME function objects)
def f1(x, y):
    return np.vdot(np.asarray(y).ravel(), np.asarray(x).ravel())


def f2(x, y):
    return 2 * np.vdot(np.asarray(y).ravel(), np.asarray(x).ravel())


def g1(x):
    return float(np.sum(np.abs(np.asarray(x))))


def h1(x, y):
    return float(np.sum(np.abs(np.asarray(x) - np.asarray(y))))


CALL = {'f1': f1, 'f2': f2, 'g1': g1, 'h1': h1}
CALLR = {v: k for k, v in CALL.items()}

PLAIN = {'EmptySet': EmptySet, 'UniversalSet': UniversalSet, 'RealNumbers': RealNumbers,
         'ComplexNumbers': ComplexNumbers, 'Integers': Integers}
WCLS = {'TWConst': NumpyTensorSpaceConstWeighting, 'PWConst': ProductSpaceConstWeighting,
        'TWArray': NumpyTensorSpaceArrayWeighting, 'PWArray': ProductSpaceArrayWeighting,
        'TWCustomInner': NumpyTensorSpaceCustomInner, 'PWCustomInner': ProductSpaceCustomInner,
        'TWCustomNorm': NumpyTensorSpaceCustomNorm, 'PWCustomNorm': ProductSpaceCustomNorm,
        'TWCustomDist': NumpyTensorSpaceCustomDist, 'PWCustomDist': ProductSpaceCustomDist}


class Builder(object):
    """Builds objects from instance descriptors; array objects are pooled by their resolved identity."""

    def __init__(self):
        self.pool = {}

    def array(self, d, shape=None, dtype='float64'):
        key = d['id']
        if key not in self.pool:
            arr = np.array([qf(v) for v in d['q'][1]], dtype=dtype)
            self.pool[key] = arr.reshape(shape) if shape is not None else arr
        return self.pool[key]

    def weighting(self, d, shape=None, dtype='float64'):
        cls = d['cls']
        ex = qf(d['q'][0][0])
        if cls in ('TWConst', 'PWConst'):
            return WCLS[cls](qf(d['q'][1][0]), exponent=ex)
        if cls in ('TWArray', 'PWArray'):
            return WCLS[cls](self.array(d, shape, dtype), exponent=ex)
        return WCLS[cls](CALL[d['s']])

    def build(self, d, copy=1):
        cls = d['cls']
        sub = d['sub']
        if has_ulp(d):
            copy = 1 if cls not in WCLS else copy          # generic route (weightings: float arguments anyway)
        if copy == 3:
            alt = self.build_alt(d)
            if alt is not None:
                return alt
        if cls in PLAIN:
            return PLAIN[cls]()
        if cls == 'Strings':
            return Strings(int(q(d['q'][0][0])))
        if cls == 'CartesianProduct':
            return CartesianProduct(*[self.build(s, copy) for s in sub])
        if cls == 'SetUnion':
            return SetUnion(*[self.build(s, copy) for s in sub])
        if cls == 'SetIntersection':
            return SetIntersection(*[self.build(s, copy) for s in sub])
        if cls == 'FiniteSet':
            return FiniteSet(*[int(q(v)) for v in d['q'][0]])
        if cls == 'IntervalProd':
            mn, mx = [qf(v) for v in d['q'][0]], [qf(v) for v in d['q'][1]]
            if d['s'] == 'negzero':                             # zero end points are negative zeros (equal to +0.0)
                mn, mx = [(-0.0 if t == 0 else t) for t in mn], [(-0.0 if t == 0 else t) for t in mx]
            if copy == 2 and len(mn) == 1:
                return odl.IntervalProd(mn[0], mx[0])          # scalar form
            return odl.IntervalProd(mn, mx)
        if cls == 'RectGrid':
            vecs = []
            for v in d['q']:
                a = np.array([qf(t) for t in v], dtype=float)
                if d['s'] == 'negzero':
                    a[a == 0] = -0.0
                vecs.append(a if copy == 1 else a.tolist())
            return odl.RectGrid(*vecs)
        if cls == 'RectPartition':
            return odl.RectPartition(self.build(sub[0], copy), self.build(sub[1], copy))
        if cls in WCLS:
            return self.weighting(d)
        if cls == 'Tensor':
            return self.tensor(d, copy)
        if cls == 'Discr':
            return self.discr(d, copy)
        if cls == 'PSpace':
            return self.pspace(d, copy)
        raise ValueError(cls)

    # ---- copy 3: other spellings and constructor routes for the same defining data
    def build_alt(self, d):
        cls, sub = d['cls'], d['sub']
        if cls in ('SetUnion', 'SetIntersection'):
            parts = [self.build(s, 3) for s in sub]
            ctor = SetUnion if cls == 'SetUnion' else SetIntersection
            return ctor(*(parts[::-1] + [self.build(sub[0], 3)]))         # other order, a duplicate
        if cls == 'FiniteSet':
            el = [int(q(v)) for v in d['q'][0]]
            return FiniteSet(*(el[::-1] + el[:1]))
        if cls == 'IntervalProd' and d['s'] == 'negzero':
            z = lambda vs: np.array([(-0.0 if qf(v) == 0 else qf(v)) for v in vs], dtype=float)
            return odl.IntervalProd(z(d['q'][0]), tuple(z(d['q'][1]).tolist()))
        if cls == 'IntervalProd':
            conv = lambda v: int(v[0]) if v[1] == 1 else qf(v)           # ints where possible
            return odl.IntervalProd(tuple(conv(v) for v in d['q'][0]), np.array([qf(v) for v in d['q'][1]]))
        if cls == 'RectGrid' and d['s'] != 'negzero':
            vecs = [[q(t) for t in v] for v in d['q']]
            uniform = all(len(v) > 1 and len({v[k + 1] - v[k] for k in range(len(v) - 1)}) == 1 for v in vecs)
            if uniform:
                return odl.uniform_grid([float(v[0]) for v in vecs], [float(v[-1]) for v in vecs],
                                        tuple(len(v) for v in vecs))
            return odl.RectGrid(*[tuple(float(t) for t in v) for v in vecs])
        if cls == 'RectPartition':
            iv, gr = sub
            grid = self.build(gr, 3)
            mn, mx = [qf(v) for v in iv['q'][0]], [qf(v) for v in iv['q'][1]]
            if grid.is_uniform and gr['s'] != 'negzero':
                return odl.uniform_partition_fromgrid(grid, min_pt=mn, max_pt=mx)
            return odl.nonuniform_partition(*grid.coord_vectors, min_pt=mn, max_pt=mx)
        if cls in ('TWConst', 'PWConst') and not has_ulp(d):
            ex, c = q(d['q'][0][0]) if d['q'][0][0][1] else None, q(d['q'][1][0])
            exv = float('inf') if ex is None else (int(ex) if ex.denominator == 1 else float(ex))
            return WCLS[cls](int(c) if c.denominator == 1 else float(c), exponent=exv)
        if cls == 'TWArray':
            arr = self.array(d)
            if arr.ndim == 1 and arr.dtype == np.float64:
                return WCLS[cls](odl.rn(arr.size).element(arr), exponent=qf(d['q'][0][0]))   # wraps the same ndarray
            return None
        if cls == 'Tensor':
            return self.tensor_alt(d)
        if cls == 'Discr':
            part_d, tn_d = sub
            w = tn_d['sub'][0]
            part = self.build(part_d, 3)
            if part.is_uniform and w['cls'] in ('TWConst', 'TWArray'):
                shape = tuple(int(q(v)) for v in tn_d['q'][0])
                ex = qf(w['q'][0][0])
                wt = qf(w['q'][1][0]) if w['cls'] == 'TWConst' else self.array(w, shape, 'float64')
                return odl.uniform_discr_frompartition(part, dtype=np.dtype(DT[tn_d['s']]), exponent=ex, weighting=wt,
                                                       **self.labels(d, len(shape)))
            return odl.DiscretizedSpace(part, self.tensor_alt(tn_d), **self.labels(d, len(tn_d['q'][0])))
        if cls == 'PSpace' and d.get('x') != 'field':
            w, comps = sub[0], sub[1:]
            spaces = [self.build(c, 3) for c in comps]
            ex = qf(w['q'][0][0])
            if w['cls'] == 'PWConst' and q(w['q'][1][0]) == 1 and ex == 2.0 and all(c == comps[0] for c in comps):
                return spaces[0] ** len(spaces)                                            # power operator
            if w['cls'] == 'PWConst':
                return odl.ProductSpace(*spaces, weighting=int(qf(w['q'][1][0])) if qf(w['q'][1][0]).is_integer()
                                        else qf(w['q'][1][0]), exponent=ex)
            if w['cls'] == 'PWArray' and w['id'] % 10 != 0:                                 # an un-shared array: a list will do
                if w['id'] in self.pool:
                    return None
                sp = odl.ProductSpace(*spaces, weighting=[qf(v) for v in w['q'][1]], exponent=ex)
                self.pool[w['id']] = sp.weighting.array           # the array object ODL made from the list
                return sp
            return None
        return None

    def tensor_alt(self, d):
        """rn / cn spellings, dtype and shape spelled differently."""
        shape = [int(q(v)) for v in d['q'][0]]
        w = d['sub'][0]
        dtn = DT[d['s']]
        spell = {'float64': float, 'complex128': complex, 'int64': int, 'float32': np.float32,
                 'complex64': np.dtype('complex64'), 'int32': 'i4', 'float16': np.float16}[dtn]
        if not w['cls'].startswith('TW'):
            return odl.tensor_space(shape, dtype=spell, weighting=self.weighting(w, tuple(shape), 'float64'))
        ex = qf(w['q'][0][0])
        kw = {}
        if w['cls'] == 'TWConst':
            c = qf(w['q'][1][0])
            if c != 1.0:
                kw['weighting'] = int(c) if c.is_integer() else c
            kw['exponent'] = int(ex) if ex in (1.0, 2.0, 3.0) else ex
        elif w['cls'] == 'TWArray':
            rdt = {'complex64': 'float32', 'complex128': 'float64'}.get(dtn, dtn)
            kw['weighting'] = self.array(w, tuple(shape), rdt if np.dtype(rdt).kind == 'f' else 'float64')
            kw['exponent'] = ex
        else:
            kw[{'TWCustomInner': 'inner', 'TWCustomNorm': 'norm', 'TWCustomDist': 'dist'}[w['cls']]] = CALL[w['s']]
        shp = shape[0] if len(shape) == 1 else tuple(shape)
        kind = np.dtype(dtn).kind
        if kind == 'f':
            return odl.rn(shp, dtype=spell, **kw)
        if kind == 'c':
            return odl.cn(shp, dtype=spell, **kw)
        return odl.tensor_space(shp, dtype=spell, **kw)

    def tensor(self, d, copy):
        shape = tuple(int(q(v)) for v in d['q'][0])
        dt = DT[d['s']]
        w = d['sub'][0]
        rdt = {'complex64': 'float32', 'complex128': 'float64'}.get(dt, dt)
        wdt = rdt if np.dtype(rdt).kind == 'f' else 'float64'
        if copy == 2 and w['cls'].startswith('TW'):
            # the way a user writes it: plain keyword arguments
            ex = qf(w['q'][0][0])
            if w['cls'] == 'TWConst':
                c = qf(w['q'][1][0])
                kw = {} if c == 1.0 else {'weighting': c}
                return odl.tensor_space(shape if len(shape) > 1 else shape[0], dtype=dt, exponent=ex, **kw)
            if w['cls'] == 'TWArray':
                return odl.tensor_space(shape, dtype=dt, exponent=ex, weighting=self.array(w, shape, wdt))
            key = {'TWCustomInner': 'inner', 'TWCustomNorm': 'norm', 'TWCustomDist': 'dist'}[w['cls']]
            return odl.tensor_space(shape, dtype=dt, **{key: CALL[w['s']]})
        return odl.tensor_space(shape, dtype=dt, weighting=self.weighting(w, shape, wdt))

    @staticmethod
    def labels(d, ndim):
        """Non-compared attribute x of a discretised space: axis_labels."""
        x = d.get('x', '')
        if x.startswith('labels:'):
            return {'axis_labels': tuple('%s%d' % (x[7:], k) for k in range(ndim))}
        return {}

    def discr(self, d, copy):
        part_d, tn_d = d['sub']
        if copy == 2 and d['s'] == 'factory':
            iv, gr = part_d['sub']
            mn, mx = [qf(v) for v in iv['q'][0]], [qf(v) for v in iv['q'][1]]
            shape = [len(v) for v in gr['q']]
            nob = [(q(v[0]) == q(a), q(v[-1]) == q(b)) for v, a, b in zip(gr['q'], iv['q'][0], iv['q'][1])]
            w = tn_d['sub'][0]
            ex = qf(w['q'][0][0])
            cellvol = Fraction(1)
            for v in gr['q']:
                cellvol *= (q(v[1]) - q(v[0]))
            kw = {}
            if not (w['cls'] == 'TWConst' and q(w['q'][1][0]) == cellvol):
                kw['weighting'] = qf(w['q'][1][0])
            kw.update(self.labels(d, len(shape)))
            if len(shape) == 1:
                return odl.uniform_discr(mn[0], mx[0], shape[0], dtype=DT[tn_d['s']], exponent=ex,
                                         nodes_on_bdry=[nob[0]] if nob[0][0] != nob[0][1] else nob[0][0], **kw)
            return odl.uniform_discr(mn, mx, shape, dtype=DT[tn_d['s']], exponent=ex, nodes_on_bdry=nob, **kw)
        return odl.DiscretizedSpace(self.build(part_d, copy), self.tensor(tn_d, copy),
                                    **self.labels(d, len(tn_d['q'][0])))

    def pspace(self, d, copy):
        w, comps = d['sub'][0], d['sub'][1:]
        spaces = [self.build(c, copy) for c in comps]
        if d.get('x') == 'field':             # non-compared argument: the field given explicitly
            return odl.ProductSpace(*spaces, weighting=self.weighting(w), field=spaces[0].field)
        ex = qf(w['q'][0][0])
        if copy == 2 and w['cls'].startswith('PW'):
            if w['cls'] == 'PWConst':
                c = qf(w['q'][1][0])
                kw = {} if c == 1.0 else {'weighting': c}
            elif w['cls'] == 'PWArray':
                kw = {'weighting': self.array(w)}
            else:
                kw = {{'PWCustomInner': 'inner', 'PWCustomNorm': 'norm', 'PWCustomDist': 'dist'}[w['cls']]: CALL[w['s']]}
            if 'Custom' not in w['cls']:
                kw['exponent'] = ex
            if all(c == comps[0] for c in comps) and 'Array' not in json_s(comps[0]):
                return odl.ProductSpace(spaces[0], len(spaces), **kw)      # power-space form
            return odl.ProductSpace(*spaces, **kw)
        return odl.ProductSpace(*spaces, weighting=self.weighting(w))


def json_s(o):
    import json
    return json.dumps(o, sort_keys=True)


# ----------------------------------------------------------------------------- observations
def observe_eq(a, b):
    try:
        r = (a == b)
        if r is True or r is False or isinstance(r, (bool, np.bool_)):
            return 'T' if bool(r) else 'F'
        return 'N'                      # not a truth value
    except Exception:
        return 'E'


def observe_hash(a):
    try:
        return ('ok', hash(a))
    except Exception as e:
        return ('raised', type(e).__name__)


def is_space(d):
    return d['cls'] in ('Tensor', 'Discr', 'PSpace')


# ----------------------------------------------------------------------------- views of real spaces
def wview(w):
    """Weighting object -> [kind, exp, c, arr, tag] (SetSem!WView); array weights by value, flat C order."""
    ex = w.exponent
    exq = [1, 0] if np.isinf(ex) else to_q(ex)
    if isinstance(w, ConstWeighting):
        return {'kind': 'const', 'exp': exq, 'c': to_q(w.const), 'arr': [], 'tag': ''}
    if isinstance(w, ArrayWeighting):
        return {'kind': 'array', 'exp': exq, 'c': [1, 1], 'arr': [to_q(v) for v in np.asarray(w.array).ravel(order='C')],
                'tag': ''}
    if isinstance(w, CustomInner):
        return {'kind': 'cinner', 'exp': exq, 'c': [1, 1], 'arr': [], 'tag': CALLR.get(w.inner, '?')}
    if isinstance(w, CustomNorm):
        return {'kind': 'cnorm', 'exp': exq, 'c': [1, 1], 'arr': [], 'tag': CALLR.get(w.norm, '?')}
    if isinstance(w, CustomDist):
        return {'kind': 'cdist', 'exp': exq, 'c': [1, 1], 'arr': [], 'tag': CALLR.get(w.dist, '?')}
    return {'kind': 'none', 'exp': exq, 'c': [1, 1], 'arr': [], 'tag': '?'}


def space_shape(sp):
    """Tree shape (SetSem!ShapeOf): leaf = array shape; product space = [-n] + tree shapes of the components."""
    if isinstance(sp, odl.ProductSpace):
        out = [-len(sp)]
        for c in sp:
            out += space_shape(c)
        return out
    return list(sp.shape)


def safe_repr(o, n=160):
    try:
        return repr(o).replace('\n', ' ')[:n]
    except Exception as e:             # e.g. DiscretizedSpace.__repr__ with an array weighting
        return '<%s: repr raises %s>' % (type(o).__name__, type(e).__name__)


def leaf_dtypes(sp):
    if isinstance(sp, odl.ProductSpace):
        out = []
        for c in sp:
            out += leaf_dtypes(c)
        return out
    return [DTR.get(np.dtype(sp.dtype).name, np.dtype(sp.dtype).name)]


def space_dtype(sp):
    """SetSem!DtypeOf: the common dtype of the leaves or 'mixed:<leaf dtypes>'."""
    ds = leaf_dtypes(sp)
    return ds[0] if all(t == ds[0] for t in ds) else 'mixed:' + ','.join(ds)


def view(sp):
    """Real space -> [shape, dt, fld, w] (SetSem!View)."""
    fld = 'C' if isinstance(sp.field, ComplexNumbers) else 'R'
    return {'shape': [[int(s), 1] for s in space_shape(sp)], 'dt': space_dtype(sp), 'fld': fld,
            'w': wview(sp.weighting), 'nw': nested_w(sp)}


def nested_w(sp):
    """SetSem!NestedW: weightings of the nested product spaces, pre-order."""
    out = []
    if isinstance(sp, odl.ProductSpace):
        for c in sp:
            if isinstance(c, odl.ProductSpace):
                out.append(wview(c.weighting))
                out += nested_w(c)
    return out


def pair_failures(derived, direct):
    """Everything that must hold between a derived object and the directly constructed equal one."""
    bad = []
    ab, ba = observe_eq(derived, direct), observe_eq(direct, derived)
    if ab != 'T':
        bad.append('derived-eq-direct')
    if ba != 'T':
        bad.append('direct-eq-derived')
    ha, hb = observe_hash(derived), observe_hash(direct)
    if ha[0] == hb[0] == 'ok':
        if ha[1] != hb[1]:
            bad.append('hash')
        try:
            if direct not in {derived}:
                bad.append('set-membership')
            if {derived: 1}.get(direct) != 1:
                bad.append('dict-lookup')
        except Exception:
            bad.append('set-or-dict-raises')
    if not hasattr(direct, 'zero'):
        return bad
    try:
        if direct.zero() not in derived:
            bad.append('element-of-direct-in-derived')
        if derived.zero() not in direct:
            bad.append('element-of-derived-in-direct')
    except Exception:
        bad.append('element-membership-raises')
    return bad


NOVIEW = {'shape': [], 'dt': '', 'fld': '', 'w': {'kind': 'none', 'exp': [0, 1], 'c': [1, 1], 'arr': [], 'tag': ''},
          'nw': []}


# ----------------------------------------------------------------------------- element values
def flat_values(x):
    """Element / array / nested sequence -> flat C-order list of JSON C numbers (exact small values)."""
    if isinstance(x, odl.space.pspace.ProductSpaceElement):
        out = []
        for p in x:
            out += flat_values(p)
        return out
    a = np.asarray(x)
    out = []
    for v in a.ravel(order='C'):
        z = complex(v)
        out.append([to_q(z.real), to_q(z.imag)])
    return out

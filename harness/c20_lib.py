"""C20 helpers: descriptors of spec/sem/SetSem.tla -> real ODL objects (two independently constructed
copies per descriptor) and projections of real objects back to descriptor views.

Nothing here decides a verdict: all observations are logged and judged by TLC (Trace_Sets).
"""
from fractions import Fraction

import numpy as np
import odl
from odl.set.sets import (EmptySet, UniversalSet, RealNumbers, ComplexNumbers, Integers, Strings,
                          CartesianProduct, SetUnion, SetIntersection, FiniteSet)
from odl.space.npy_tensors import (NumpyTensorSpaceConstWeighting, NumpyTensorSpaceArrayWeighting,
                                   NumpyTensorSpaceCustomInner, NumpyTensorSpaceCustomNorm,
                                   NumpyTensorSpaceCustomDist)
from odl.space.pspace import (ProductSpaceConstWeighting, ProductSpaceArrayWeighting, ProductSpaceCustomInner,
                              ProductSpaceCustomNorm, ProductSpaceCustomDist)
from odl.space.weighting import ConstWeighting, ArrayWeighting, CustomInner, CustomNorm, CustomDist

DT = {'f32': 'float32', 'f64': 'float64', 'c64': 'complex64', 'c128': 'complex128', 'i32': 'int32', 'i64': 'int64'}
DTR = {v: k for k, v in DT.items()}
INF = [1, 0]


def q(v):
    return Fraction(v[0], v[1])


def qf(v):
    if v[1] == 0:
        return float('inf') if v[0] > 0 else float('nan')
    return float(q(v))


def to_q(x):
    x = float(x)
    if np.isinf(x):
        return [1, 0]
    fr = Fraction(x).limit_denominator(4096)
    if float(fr) != x:
        raise ValueError('not on the dyadic lattice: %r' % x)
    return [fr.numerator, fr.denominator]


# ---- callables of the custom catalogue (module level: both copies use the SAME function objects)
def f1(x, y):
    return np.vdot(np.asarray(y).ravel(), np.asarray(x).ravel())


def f2(x, y):
    return 2 * np.vdot(np.asarray(y).ravel(), np.asarray(x).ravel())


def g1(x):
    return float(np.sum(np.abs(np.asarray(x))))


def h1(x, y):
    return float(np.sum(np.abs(np.asarray(x) - np.asarray(y))))


CALL = {'f1': f1, 'f2': f2, 'g1': g1, 'h1': h1}
CALLR = {v: k for k, v in CALL.items()}

PLAIN = {'EmptySet': EmptySet, 'UniversalSet': UniversalSet, 'RealNumbers': RealNumbers,
         'ComplexNumbers': ComplexNumbers, 'Integers': Integers}
WCLS = {'TWConst': NumpyTensorSpaceConstWeighting, 'PWConst': ProductSpaceConstWeighting,
        'TWArray': NumpyTensorSpaceArrayWeighting, 'PWArray': ProductSpaceArrayWeighting,
        'TWCustomInner': NumpyTensorSpaceCustomInner, 'PWCustomInner': ProductSpaceCustomInner,
        'TWCustomNorm': NumpyTensorSpaceCustomNorm, 'PWCustomNorm': ProductSpaceCustomNorm,
        'TWCustomDist': NumpyTensorSpaceCustomDist, 'PWCustomDist': ProductSpaceCustomDist}


class Builder(object):
    """Builds objects from instance descriptors; array objects are pooled by their resolved identity."""

    def __init__(self):
        self.pool = {}

    def array(self, d, shape=None, dtype='float64'):
        key = d['id']
        if key not in self.pool:
            arr = np.array([qf(v) for v in d['q'][1]], dtype=dtype)
            self.pool[key] = arr.reshape(shape) if shape is not None else arr
        return self.pool[key]

    def weighting(self, d, shape=None, dtype='float64'):
        cls = d['cls']
        ex = qf(d['q'][0][0])
        if cls in ('TWConst', 'PWConst'):
            return WCLS[cls](qf(d['q'][1][0]), exponent=ex)
        if cls in ('TWArray', 'PWArray'):
            return WCLS[cls](self.array(d, shape, dtype), exponent=ex)
        return WCLS[cls](CALL[d['s']])

    def build(self, d, copy=1):
        cls = d['cls']
        sub = d['sub']
        if cls in PLAIN:
            return PLAIN[cls]()
        if cls == 'Strings':
            return Strings(int(q(d['q'][0][0])))
        if cls == 'CartesianProduct':
            return CartesianProduct(*[self.build(s, copy) for s in sub])
        if cls == 'SetUnion':
            return SetUnion(*[self.build(s, copy) for s in sub])
        if cls == 'SetIntersection':
            return SetIntersection(*[self.build(s, copy) for s in sub])
        if cls == 'FiniteSet':
            return FiniteSet(*[int(q(v)) for v in d['q'][0]])
        if cls == 'IntervalProd':
            mn, mx = [qf(v) for v in d['q'][0]], [qf(v) for v in d['q'][1]]
            if copy == 2 and len(mn) == 1:
                return odl.IntervalProd(mn[0], mx[0])          # scalar form
            return odl.IntervalProd(mn, mx)
        if cls == 'RectGrid':
            vecs = []
            for v in d['q']:
                a = np.array([qf(t) for t in v], dtype=float)
                if d['s'] == 'negzero':
                    a[a == 0] = -0.0
                vecs.append(a if copy == 1 else a.tolist())
            return odl.RectGrid(*vecs)
        if cls == 'RectPartition':
            return odl.RectPartition(self.build(sub[0], copy), self.build(sub[1], copy))
        if cls in WCLS:
            return self.weighting(d)
        if cls == 'Tensor':
            return self.tensor(d, copy)
        if cls == 'Discr':
            return self.discr(d, copy)
        if cls == 'PSpace':
            return self.pspace(d, copy)
        raise ValueError(cls)

    def tensor(self, d, copy):
        shape = tuple(int(q(v)) for v in d['q'][0])
        dt = DT[d['s']]
        w = d['sub'][0]
        rdt = {'complex64': 'float32', 'complex128': 'float64'}.get(dt, dt)
        wdt = rdt if np.dtype(rdt).kind == 'f' else 'float64'
        if copy == 2 and w['cls'].startswith('TW'):
            # the way a user writes it: plain keyword arguments
            ex = qf(w['q'][0][0])
            if w['cls'] == 'TWConst':
                c = qf(w['q'][1][0])
                kw = {} if c == 1.0 else {'weighting': c}
                return odl.tensor_space(shape if len(shape) > 1 else shape[0], dtype=dt, exponent=ex, **kw)
            if w['cls'] == 'TWArray':
                return odl.tensor_space(shape, dtype=dt, exponent=ex, weighting=self.array(w, shape, wdt))
            key = {'TWCustomInner': 'inner', 'TWCustomNorm': 'norm', 'TWCustomDist': 'dist'}[w['cls']]
            return odl.tensor_space(shape, dtype=dt, **{key: CALL[w['s']]})
        return odl.tensor_space(shape, dtype=dt, weighting=self.weighting(w, shape, wdt))

    def discr(self, d, copy):
        part_d, tn_d = d['sub']
        if copy == 2 and d['s'] == 'factory':
            iv, gr = part_d['sub']
            mn, mx = [qf(v) for v in iv['q'][0]], [qf(v) for v in iv['q'][1]]
            shape = [len(v) for v in gr['q']]
            nob = [(q(v[0]) == q(a), q(v[-1]) == q(b)) for v, a, b in zip(gr['q'], iv['q'][0], iv['q'][1])]
            w = tn_d['sub'][0]
            ex = qf(w['q'][0][0])
            cellvol = Fraction(1)
            for v in gr['q']:
                cellvol *= (q(v[1]) - q(v[0]))
            kw = {}
            if not (w['cls'] == 'TWConst' and q(w['q'][1][0]) == cellvol):
                kw['weighting'] = qf(w['q'][1][0])
            if len(shape) == 1:
                return odl.uniform_discr(mn[0], mx[0], shape[0], dtype=DT[tn_d['s']], exponent=ex,
                                         nodes_on_bdry=[nob[0]] if nob[0][0] != nob[0][1] else nob[0][0], **kw)
            return odl.uniform_discr(mn, mx, shape, dtype=DT[tn_d['s']], exponent=ex, nodes_on_bdry=nob, **kw)
        return odl.DiscretizedSpace(self.build(part_d, copy), self.tensor(tn_d, copy))

    def pspace(self, d, copy):
        w, comps = d['sub'][0], d['sub'][1:]
        spaces = [self.build(c, copy) for c in comps]
        ex = qf(w['q'][0][0])
        if copy == 2 and w['cls'].startswith('PW'):
            if w['cls'] == 'PWConst':
                c = qf(w['q'][1][0])
                kw = {} if c == 1.0 else {'weighting': c}
            elif w['cls'] == 'PWArray':
                kw = {'weighting': self.array(w)}
            else:
                kw = {{'PWCustomInner': 'inner', 'PWCustomNorm': 'norm', 'PWCustomDist': 'dist'}[w['cls']]: CALL[w['s']]}
            if 'Custom' not in w['cls']:
                kw['exponent'] = ex
            if all(c == comps[0] for c in comps) and 'Array' not in json_s(comps[0]):
                return odl.ProductSpace(spaces[0], len(spaces), **kw)      # power-space form
            return odl.ProductSpace(*spaces, **kw)
        return odl.ProductSpace(*spaces, weighting=self.weighting(w))


def json_s(o):
    import json
    return json.dumps(o, sort_keys=True)


# ----------------------------------------------------------------------------- observations
def observe_eq(a, b):
    try:
        r = (a == b)
        if r is True or r is False or isinstance(r, (bool, np.bool_)):
            return 'T' if bool(r) else 'F'
        return 'N'                      # not a truth value
    except Exception:
        return 'E'


def observe_hash(a):
    try:
        return ('ok', hash(a))
    except Exception as e:
        return ('raised', type(e).__name__)


def is_space(d):
    return d['cls'] in ('Tensor', 'Discr', 'PSpace')


# ----------------------------------------------------------------------------- views of real spaces
def wview(w):
    """Weighting object -> [kind, exp, c, arr, tag] (SetSem!WView); array weights by value, flat C order."""
    ex = w.exponent
    exq = [1, 0] if np.isinf(ex) else to_q(ex)
    if isinstance(w, ConstWeighting):
        return {'kind': 'const', 'exp': exq, 'c': to_q(w.const), 'arr': [], 'tag': ''}
    if isinstance(w, ArrayWeighting):
        return {'kind': 'array', 'exp': exq, 'c': [1, 1], 'arr': [to_q(v) for v in np.asarray(w.array).ravel(order='C')],
                'tag': ''}
    if isinstance(w, CustomInner):
        return {'kind': 'cinner', 'exp': exq, 'c': [1, 1], 'arr': [], 'tag': CALLR.get(w.inner, '?')}
    if isinstance(w, CustomNorm):
        return {'kind': 'cnorm', 'exp': exq, 'c': [1, 1], 'arr': [], 'tag': CALLR.get(w.norm, '?')}
    if isinstance(w, CustomDist):
        return {'kind': 'cdist', 'exp': exq, 'c': [1, 1], 'arr': [], 'tag': CALLR.get(w.dist, '?')}
    return {'kind': 'none', 'exp': exq, 'c': [1, 1], 'arr': [], 'tag': '?'}


def space_shape(sp):
    """Tree shape (SetSem!ShapeOf): leaf = array shape; product space = [-n] + tree shapes of the components."""
    if isinstance(sp, odl.ProductSpace):
        out = [-len(sp)]
        for c in sp:
            out += space_shape(c)
        return out
    return list(sp.shape)


def safe_repr(o, n=160):
    try:
        return repr(o).replace('\n', ' ')[:n]
    except Exception as e:             # e.g. DiscretizedSpace.__repr__ with an array weighting
        return '<%s: repr raises %s>' % (type(o).__name__, type(e).__name__)


def space_dtype(sp):
    if isinstance(sp, odl.ProductSpace):
        return space_dtype(sp[0])
    return DTR.get(np.dtype(sp.dtype).name, np.dtype(sp.dtype).name)


def view(sp):
    """Real space -> [shape, dt, fld, w] (SetSem!View)."""
    fld = 'C' if isinstance(sp.field, ComplexNumbers) else 'R'
    return {'shape': [[int(s), 1] for s in space_shape(sp)], 'dt': space_dtype(sp), 'fld': fld,
            'w': wview(sp.weighting)}


NOVIEW = {'shape': [], 'dt': '', 'fld': '', 'w': {'kind': 'none', 'exp': [0, 1], 'c': [1, 1], 'arr': [], 'tag': ''}}


# ----------------------------------------------------------------------------- element values
def flat_values(x):
    """Element / array / nested sequence -> flat C-order list of JSON C numbers (exact small values)."""
    if isinstance(x, odl.space.pspace.ProductSpaceElement):
        out = []
        for p in x:
            out += flat_values(p)
        return out
    a = np.asarray(x)
    out = []
    for v in a.ravel(order='C'):
        z = complex(v)
        out.append([to_q(z.real), to_q(z.imag)])
    return out

"""Helpers shared by the recipe catalogues (linops, nlops, opcatalog, C10 proximal recipes).

* `spaces(...)`  - the SPACE AXES every catalogue crosses its class options with: tensor space / discretised space,
  real / complex, double / single precision, weighting none / const / array, 1-d / 2-d / 3-d shapes with unequal cell
  sides, nodes on the boundary no / yes / asymmetric per side.  Every space has <= 12 entries and only dyadic
  weights / cell sides, so full matrices stay exact on the snapping lattice (also in single precision).
* `pspaces(...)` - product spaces: power / general, weighting none / const / array, nested, real / complex.
* `pairwise(axes)` - deterministic greedy all-pairs selection over a dict of option axes (quick tier); the thorough
  tier takes the full product.

Option VALUES (labels) are short strings.  The label of a space reuses the vocabulary of the first catalogue version
('rn', 'rn-const', 'rn-array', 'cn', 'cn-const', 'discr', 'discr-bdry', 'discr-cplx') so that family-level signatures
of known findings keep matching; the additional axes live in their own keys ('dtype', 'shape', 'bdry').
"""
import itertools
from collections import OrderedDict

import numpy as np
import odl


# ------------------------------------------------------------------ tensor-like spaces
SHAPES = {'1d': (3,), '2d': (2, 3), '3d': (2, 2, 3)}
# physical extents giving UNEQUAL dyadic cell sides: 1-d 0.5 ; 2-d (0.5, 1) ; 3-d (0.5, 2, 1)
EXTENT = {'1d': ([0.0], [1.5]), '2d': ([0.0, -1.0], [1.0, 2.0]), '3d': ([0.0, -1.0, 0.0], [1.0, 3.0, 3.0])}


def _warr(shape):
    """dyadic positive weight array of the given shape (values cycle 1, 2, 0.5, 4)."""
    n = int(np.prod(shape))
    return np.resize(np.array([1.0, 2.0, 0.5, 4.0]), n).reshape(shape)


def mk_space(kind='rn', field='real', prec='double', weighting='none', shape='1d', bdry='False', exponent=None,
             shapes=None, sides=None):
    """-> (label fragment (dict of short strings), space).  shapes / sides: optional overrides of the SHAPES table and
    of the (dyadic) cell sides per shape label."""
    cplx = field == 'complex'
    dtype = {('real', 'double'): 'float64', ('real', 'single'): 'float32',
             ('complex', 'double'): 'complex128', ('complex', 'single'): 'complex64'}[(field, prec)]
    shp = (shapes or SHAPES)[shape]
    side_tab = sides or {'1d': [0.5], '2d': [0.5, 1.0], '3d': [0.5, 2.0, 1.0]}
    kw = {}
    if exponent is not None:
        kw['exponent'] = exponent
    if weighting == 'const':
        kw['weighting'] = 2.0
    elif weighting == 'array':
        w = _warr(shp)
        kw['weighting'] = w.astype('float32') if prec == 'single' else w
    lab = OrderedDict()
    if kind == 'rn':
        sp = odl.tensor_space(shp, dtype=dtype, **kw)
        name = ('cn' if cplx else 'rn') + ('' if weighting == 'none' else '-' + weighting)
    else:
        nd = len(shp)
        lo = [0.0, -1.0, 0.0][:nd]
        hi = [l + s * n for l, s, n in zip(lo, side_tab[shape], shp)]
        if bdry == 'True':
            nob = True
        elif bdry == 'asym':
            nob = [(True, False)] if nd == 1 else [(True, False)] + [(False, True)] * (nd - 1)
        else:
            nob = False
        if bdry != 'False':
            # nodes on the boundary: cell side = extent / (n - 1) [both] or extent / (n - 1/2) [one side]; choose the extent
            # so that the cell sides stay dyadic
            lo = [0.0] * nd
            hi = []
            for ax, (n, s) in enumerate(zip(shp, side_tab[shape])):
                if bdry == 'True':
                    hi.append(s * (n - 1))
                else:
                    hi.append(s * (n - 0.5))
        sp = odl.uniform_discr(lo, hi, shp, dtype=dtype, nodes_on_bdry=nob, **kw)
        # explicit weightings replace the cell-volume weighting (also on the boundary cells), so they name the space;
        # a complex discretised space is 'discr' + dtype key (keeps the label vocabulary small)
        name = 'discr'
        if weighting != 'none':
            name += '-' + weighting
        elif bdry != 'False':
            name += '-bdry'
    lab['space'] = name
    if cplx:
        lab['field'] = 'complex'
    if prec == 'single':
        lab['dtype'] = 'complex64' if cplx else 'float32'
    elif cplx and kind != 'rn':
        lab['dtype'] = 'complex128'
    if shape != '1d':
        lab['shape'] = shape
    if kind != 'rn' and bdry != 'False':
        lab['nodes_on_bdry'] = 'True'
    if bdry == 'asym':
        lab['bdry'] = 'asym'
    if exponent is not None:
        lab['exponent'] = str(exponent)
    return lab, sp


def spaces(kinds=('rn', 'discr'), fields=('real', 'complex'), precs=('double', 'single'),
           weightings=('none', 'const', 'array'), shapes=('1d', '2d', '3d'), bdrys=('False', 'True', 'asym'),
           full=False):
    """List of (label dict, space).  full=False: all-pairs selection over the axes (each kind separately)."""
    out, seen = [], set()
    for kind in kinds:
        axes = OrderedDict([('field', list(fields)), ('prec', list(precs)), ('weighting', list(weightings)),
                            ('shape', list(shapes))])
        if kind == 'discr':
            axes['bdry'] = list(bdrys)
        for combo in (product(axes) if full else pairwise(axes)):
            lab, sp = mk_space(kind=kind, **combo)
            key = tuple(lab.items())
            if key in seen:
                continue
            seen.add(key)
            out.append((lab, sp))
    return out


def vec(sp, vals=None, cplx_vals=None):
    """Element of a tensor-like / product space with small dyadic entries cycling through `vals`."""
    if isinstance(sp, odl.ProductSpace):
        parts, k = [], 0
        for s in sp:
            v = None if vals is None else list(np.roll(np.asarray(vals), -k))
            parts.append(vec(s, v, cplx_vals))
            k += 1
        return sp.element(parts)
    if sp.is_real:
        vals = [2.0, -1.0, 0.5, 3.0, -0.25] if vals is None else vals
        arr = np.resize(np.array(vals, dtype=float), sp.size).reshape(sp.shape)
    else:
        cv = [1 + 2j, -1j, 2.0, -0.5 + 1j, 3 - 1j] if cplx_vals is None else cplx_vals
        arr = np.resize(np.array(cv, dtype=complex), sp.size).reshape(sp.shape)
    return sp.element(arr.astype(sp.dtype))


def posvec(sp, vals=(1.0, 2.5, 0.75, 3.0, 0.5, 1.75, 4.0)):
    """strictly positive element (weights, priors, steps)."""
    if isinstance(sp, odl.ProductSpace):
        return sp.element([posvec(s, tuple(np.roll(np.asarray(vals), -k))) for k, s in enumerate(sp)])
    arr = np.resize(np.array(vals, dtype=float), sp.size).reshape(sp.shape)
    return sp.element(arr.astype(sp.dtype))


# ------------------------------------------------------------------ product spaces
def mk_pspace(base, form='power2', weighting='none', exponent=None):
    """form: power1 / power2 / power3 (base ** n), general (base x other), nested ((base^2)^2), nested-general."""
    kw = {}
    if exponent is not None:
        kw['exponent'] = exponent
    n = {'power1': 1, 'power2': 2, 'power3': 3, 'general': 2, 'nested': 2, 'nested-general': 2}[form]
    if weighting == 'const':
        kw['weighting'] = 2.0
    elif weighting == 'array':
        kw['weighting'] = [1.0, 4.0, 0.5][:n]
    if form.startswith('power'):
        ps = odl.ProductSpace(base, n, **kw)
    elif form == 'general':
        other = odl.tensor_space(2, dtype=base.dtype)
        ps = odl.ProductSpace(base, other, **kw)
    elif form == 'nested':
        ps = odl.ProductSpace(odl.ProductSpace(base, 2), 2, **kw)
    else:
        other = odl.tensor_space(2, dtype=base.dtype)
        ps = odl.ProductSpace(odl.ProductSpace(base, other), base, **kw)
    return ps


# ------------------------------------------------------------------ option crossing
def product(axes):
    keys = list(axes)
    return [OrderedDict(zip(keys, c)) for c in itertools.product(*[axes[k] for k in keys])]


_PW_CACHE = {}


def pairwise(axes, valid=None, key=None):
    """Deterministic all-pairs covering array over `axes` (OrderedDict name -> list of hashable values): every pair of
    values of two different axes that can be completed to a valid combination occurs in the result.
    Pair-driven greedy construction (no enumeration of the full product): for every still uncovered value pair the other
    axes are filled value by value so that as many uncovered pairs as possible are hit; invalid completions are retried
    with pseudo-random fillings (fixed seed).  `key`: memoisation key (the catalogues are built several times per run)."""
    import random
    if key is not None and key in _PW_CACHE:
        return [OrderedDict(c) for c in _PW_CACHE[key]]
    keys = list(axes)
    vals = [list(axes[k]) for k in keys]
    n = len(keys)
    size = 1
    for v in vals:
        size *= len(v)
    if n < 2 or size <= 6:
        return [c for c in product(axes) if valid is None or valid(c)]
    rng = random.Random(20260926)
    ok = (lambda c: True) if valid is None else valid
    covered = set()
    rows, rowset = [], set()

    def mk(t):
        return OrderedDict(zip(keys, t))

    def cover(t):
        for a in range(n):
            for b in range(a + 1, n):
                covered.add((a, t[a], b, t[b]))

    def gain(t, a, v):
        g = 0
        for b in range(n):
            if b != a and t[b] is not None:
                p = (a, v, b, t[b]) if a < b else (b, t[b], a, v)
                if p not in covered:
                    g += 1
        return g
    for i in range(n):
        for j in range(i + 1, n):
            for vi in vals[i]:
                for vj in vals[j]:
                    if (i, vi, j, vj) in covered:
                        continue
                    found = None
                    for attempt in range(40):
                        t = [None] * n
                        t[i], t[j] = vi, vj
                        order = [a for a in range(n) if a not in (i, j)]
                        if attempt:
                            rng.shuffle(order)
                        for a in order:
                            if attempt < 2:
                                best, bg = None, -1
                                off = len(rows) + attempt
                                for q in range(len(vals[a])):
                                    v = vals[a][(q + off) % len(vals[a])]
                                    g = gain(t, a, v)
                                    if g > bg:
                                        best, bg = v, g
                                t[a] = best
                            else:
                                t[a] = vals[a][rng.randrange(len(vals[a]))]
                        if ok(mk(t)):
                            found = tuple(t)
                            break
                    if found is None:
                        covered.add((i, vi, j, vj))      # no valid completion found: the pair is treated as infeasible
                        continue
                    cover(found)
                    if found not in rowset:
                        rowset.add(found)
                        rows.append(found)
    out = [mk(t) for t in rows]
    if key is not None:
        _PW_CACHE[key] = [tuple(c.items()) for c in out]
    return out


def cross(tier, axes, valid=None, cap=400):
    """quick: all-pairs ; otherwise: the full product if it has <= cap valid members, else all-pairs plus a deterministic
    pseudo-random sample of the product (cap members)."""
    import random
    pw = pairwise(axes, valid)
    if tier == 'quick':
        return pw
    keys = list(axes)
    size = 1
    for k in keys:
        size *= len(axes[k])
    if size <= 20 * cap:
        full = [c for c in product(axes) if valid is None or valid(c)]
        if len(full) <= cap:
            return full
        rng = random.Random(7)
        pick = set(rng.sample(range(len(full)), cap))
        seen = {tuple(c.values()) for c in pw}
        return pw + [c for i, c in enumerate(full) if i in pick and tuple(c.values()) not in seen]
    rng = random.Random(7)
    seen = {tuple(c.values()) for c in pw}
    out = list(pw)
    tries = 0
    while len(out) < len(pw) + cap and tries < 50 * cap:
        tries += 1
        c = OrderedDict((k, axes[k][rng.randrange(len(axes[k]))]) for k in keys)
        t = tuple(c.values())
        if t in seen or (valid is not None and not valid(c)):
            continue
        seen.add(t)
        out.append(c)
    return out


def labels(combo, skip=()):
    """combo values may be (label, value) tuples or plain strings: -> dict name -> label string."""
    out = OrderedDict()
    for k, v in combo.items():
        if k in skip:
            continue
        out[k] = v[0] if isinstance(v, tuple) else str(v)
    return out


def val(v):
    return v[1] if isinstance(v, tuple) else v

#!/bin/sh
# usage: tools/seedsweep.sh [jobs] [pattern]  -- run every stored seed through its check (scratch worktrees), report detected / missed
J="${1:-4}"; PAT="${2:-}"
OUT=/verif/.work/seedsweep.log; : > "$OUT"
cd /verif
ls seeded | grep "$PAT" | xargs -P "$J" -I{} sh -c '
  n={}
  set -- $(/venv/bin/python -c "
import json,re
m=json.load(open(\"seeded/$n/meta.json\")); c=m.get(\"checked_with\",\"\").split()
prop=c[-1] if c and re.match(\"^(C[0-9][0-9]|EXT)\$\",c[-1]) else m[\"property\"]
env=[t for t in c if t.startswith(\"VERIF_EXT=\")]
print(prop, env[0] if env else \"VERIF_EXT=\")")
  prop=$1; envset=$2
  r=$(env $envset MUT_LINES=0 tools/mutcheck.sh seeded/$n/patch.diff $prop 2>&1 | grep -m1 "^exit=")
  echo "$n $prop $r" >> /verif/.work/seedsweep.log'
sort "$OUT"

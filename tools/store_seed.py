#!/venv/bin/python
"""usage: tools/store_seed.py <srcdir> <k> <name> <detection> <detected_as>   -- copy a confirmed seed into seeded/<name>/"""
import json, os, shutil, sys
src, k, name, det, how = sys.argv[1:6]
dst = '/verif/seeded/' + name
os.makedirs(dst, exist_ok=True)
shutil.copy('%s/patch%s.diff' % (src, k), dst + '/patch.diff')
shutil.copy('%s/demo%s.py' % (src, k), dst + '/demo.py')
m = json.load(open('%s/meta%s.json' % (src, k)))
m['confirmed_by_lead'] = {'command': 'tools/confirm_seed.sh %s %s' % (src, k), 'result': 'demo_clean_exit=0 demo_mutated_exit=1 tests: 3873 passed'}
prop = m.get('property', name.split('-')[0])
m['checked_with'] = 'tools/mutcheck.sh seeded/%s/patch.diff %s' % (name, prop)
m['detection'] = det
m['detected_as'] = how
json.dump(m, open(dst + '/meta.json', 'w'), indent=1)
print('stored', name)

#!/venv/bin/python
"""Regenerate the auto-generated blocks of DESIGN.md (findings, seeds) from known_findings.json and seeded/*/meta.json."""
import json, glob, os, re
V = os.path.dirname(os.path.dirname(os.path.abspath(__file__)))
k = json.load(open(os.path.join(V, 'known_findings.json')))['findings']
lines = ['<!-- AUTO-FINDINGS-BEGIN (tools/mkdesign_tables.py) -->', '',
         '| id | property | status | commit | what |', '|---|---|---|---|---|']
for f in sorted(k, key=lambda f: (f['property'], f['id'])):
    what = f['what']
    what = re.sub(r'^fixed: property=\S+ \S+ ', '', what)
    lines.append('| %s | %s | %s | %s | %s |' % (f['id'], f['property'], f['status'], f.get('commit', ''), what.replace('|', '/')[:260]))
nfix = sum(1 for f in k if f['status'] == 'fixed'); nopen = sum(1 for f in k if f['status'] == 'open')
lines += ['', '%d genuine defects repaired by `fix:` commits, %d open findings.' % (nfix, nopen), '', '<!-- AUTO-FINDINGS-END -->']
seeds = ['<!-- AUTO-SEEDS-BEGIN (tools/mkdesign_tables.py) -->', '', '| seed | property | needs | detection | detected as |', '|---|---|---|---|---|']
nd = nm = 0
for d in sorted(glob.glob(os.path.join(V, 'seeded', '*'))):
    m = json.load(open(os.path.join(d, 'meta.json')))
    det = m.get('detection', '')
    if det.startswith('MISSED'):
        nm += 1
    else:
        nd += 1
    seeds.append('| %s | %s | %s | %s | %s |' % (os.path.basename(d), m.get('property', ''), str(m.get('needs', ''))[:200].replace('|', '/').replace('\n', ' '),
                                               det[:240].replace('|', '/'), str(m.get('detected_as', ''))[:120].replace('|', '/')))
seeds += ['', '%d seeded mutations kept; %d were detected by the check as it stood when the seed arrived, %d were missed at first and drove the strengthening named in the row (all but those marked pending are detected now).' % (nd + nm, nd, nm), '', '<!-- AUTO-SEEDS-END -->']
p = os.path.join(V, 'DESIGN.md')
s = open(p).read()
for tag, block in (('FINDINGS', lines), ('SEEDS', seeds)):
    b, e = '<!-- AUTO-%s-BEGIN' % tag, '<!-- AUTO-%s-END -->' % tag
    txt = '\n'.join(block)
    if b in s:
        i = s.index(b); j = s.index(e) + len(e)
        s = s[:i] + txt + s[j:]
    else:
        title = '### 10.6 All findings (generated from known_findings.json)' if tag == 'FINDINGS' else '### 10.7 All seeded mutations (generated from seeded/*/meta.json)'
        s += '\n\n' + title + '\n\n' + txt + '\n'
open(p, 'w').write(s)
print('findings', len(k), 'seeds', nd + nm)

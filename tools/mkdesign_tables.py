#!/venv/bin/python
"""Regenerate the auto-generated blocks of DESIGN.md (findings, seeds) from known_findings.json and seeded/*/meta.json."""
import json, glob, os, re
V = os.path.dirname(os.path.dirname(os.path.abspath(__file__)))
k = json.load(open(os.path.join(V, 'known_findings.json')))['findings']
lines = ['<!-- AUTO-FINDINGS-BEGIN (tools/mkdesign_tables.py) -->', '',
         '| id | property | status | commit | what |', '|---|---|---|---|---|']
for f in sorted(k, key=lambda f: (f['property'], f['id'])):
    what = f['what']
    what = re.sub(r'^fixed: property=\S+ \S+ ', '', what)
    lines.append('| %s | %s | %s | %s | %s |' % (f['id'], f['property'], f['status'], f.get('commit', ''), what.replace('|', '/')[:260]))
nfix = sum(1 for f in k if f['status'] == 'fixed'); nopen = sum(1 for f in k if f['status'] == 'open')
lines += ['', '%d genuine defects repaired by `fix:` commits, %d open findings.' % (nfix, nopen), '', '<!-- AUTO-FINDINGS-END -->']
seeds = ['<!-- AUTO-SEEDS-BEGIN (tools/mkdesign_tables.py) -->', '', '| seed | property | needs | detection | detected as |', '|---|---|---|---|---|']
nd = nm = 0
for d in sorted(glob.glob(os.path.join(V, 'seeded', '*'))):
    m = json.load(open(os.path.join(d, 'meta.json')))
    det = m.get('detection', '')
    if det.startswith('MISSED'):
        nm += 1
    else:
        nd += 1
    seeds.append('| %s | %s | %s | %s | %s |' % (os.path.basename(d), m.get('property', ''), str(m.get('needs', ''))[:200].replace('|', '/').replace('\n', ' '),
                                               det[:240].replace('|', '/'), str(m.get('detected_as', ''))[:120].replace('|', '/')))
seeds += ['', '%d seeded mutations kept; %d were detected by the check as it stood when the seed arrived, %d were missed at first and drove the strengthening named in the row (all but those marked pending are detected now).' % (nd + nm, nd, nm), '', '<!-- AUTO-SEEDS-END -->']

# --- specification inventory -------------------------------------------------
def _first_sentence(path):
    txt = open(path).read()
    m = re.search(r'\(\*+\)\s*\n((?:\(\*.*\*\)\s*\n)+)', txt)
    body = ''
    if m:
        body = ' '.join(re.sub(r'^\(\*\s?|\s*\*\)$', '', ln.strip()) for ln in m.group(1).splitlines())
    else:
        m = re.search(r'((?:\\\*.*\n)+)', txt)
        if m:
            body = ' '.join(ln.strip()[2:].strip() for ln in m.group(1).splitlines())
    body = re.sub(r'\s+', ' ', body).strip()
    cut = re.split(r'(?<=[a-z\)])\.\s', body, maxsplit=1)[0]
    return cut[:230].replace('|', '/')

def _users(mod):
    out = []
    for f in sorted(glob.glob(os.path.join(V, 'harness', 'checks', '*.py')) + glob.glob(os.path.join(V, 'harness', 'extras', '*.py')) + glob.glob(os.path.join(V, 'harness', '*.py'))):
        t = open(f).read()
        if re.search(r"['\"/]%s['\"._]" % re.escape(mod), t):
            out.append(os.path.basename(f)[:-3])
    return out

layers = (('num', 'carrier'), ('sem', 'A reference semantics'), ('mach', 'B state machine'), ('impl', 'C implementation-shaped'), ('trace', 'D trace specification'), ('cfg', 'bounded instance'))
inv = ['<!-- AUTO-SPECINV-BEGIN (tools/mkdesign_tables.py) -->', '', '| module | layer | lines | subject (first sentence of the module comment) | run by |', '|---|---|---|---|---|']
tot = 0; nmod = 0
alltxt = {}
for sub, lname in layers:
    for f in sorted(glob.glob(os.path.join(V, 'spec', sub, '*.tla'))):
        alltxt[os.path.basename(f)[:-4]] = open(f).read()
for sub, lname in layers:
    for f in sorted(glob.glob(os.path.join(V, 'spec', sub, '*.tla'))):
        mod = os.path.basename(f)[:-4]
        n = sum(1 for _ in open(f)); tot += n; nmod += 1
        users = _users(mod)
        if not users:   # reached through EXTENDS / INSTANCE of a module that is run
            for other, t in alltxt.items():
                if other != mod and re.search(r'\b(EXTENDS|INSTANCE)\b[^\n]*\b%s\b' % re.escape(mod), t):
                    users = sorted(set(users + ['via ' + other]))
        inv.append('| `%s` | %s | %d | %s | %s |' % (mod, lname, n, _first_sentence(f), ', '.join(users)[:120]))
inv += ['', '%d modules, %d lines of TLA+.' % (nmod, tot), '', '<!-- AUTO-SPECINV-END -->']

p = os.path.join(V, 'DESIGN.md')
s = open(p).read()
for tag, block in (('FINDINGS', lines), ('SEEDS', seeds), ('SPECINV', inv)):
    b, e = '<!-- AUTO-%s-BEGIN' % tag, '<!-- AUTO-%s-END -->' % tag
    txt = '\n'.join(block)
    if b in s:
        i = s.index(b); j = s.index(e) + len(e)
        s = s[:i] + txt + s[j:]
    else:
        title = {'FINDINGS': '### 10.6 All findings (generated from known_findings.json)', 'SEEDS': '### 10.7 All seeded mutations (generated from seeded/*/meta.json)',
                 'SPECINV': '### 10.12 Specification inventory (generated from spec/)'}[tag]
        s += '\n\n' + title + '\n\n' + txt + '\n'
open(p, 'w').write(s)
print('findings', len(k), 'seeds', nd + nm)

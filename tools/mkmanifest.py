#!/venv/bin/python
"""Regenerate MANIFEST.json from the table below (single source of truth for claims)."""
import json, os, subprocess
V = os.path.dirname(os.path.dirname(os.path.abspath(__file__)))
props = [json.loads(l) for l in open(os.path.join(V, 'properties.jsonl'))]

CLAIMS = {
 'C01': dict(
    technique='TLA+ state machine (VecMachine) + TLC exhaustive transition export replayed on real ODL elements; layer-C model of _lincomb_impl refined against it; TLC trace validation (Trace_VecMachine) of recorded call sequences',
    text='TLC enumerates every (heap state, action, aliasing choice) transition of the bounded vector machine over three scalar/dtype profiles and checks frame, stale-output independence and returns-target as action properties; a layer-C model of the lincomb decision tree is checked against the reference for every (aliasing, scalar class, regime) cell. Every exported transition is replayed on real ODL elements under concretisations that straddle the 100- and 50000-entry switches, all dtypes, C/F/strided layouts and tensor/discretised/product/nested spaces (NaN-prefilled outputs), and every real call, plus seeded random call sequences on live objects, is validated by TLC against the trace specification.',
    note='Trusted: TLC, the snapping projection (tolerance 2^-20/D vs lattice spacing 1/D), periodic tiling for long vectors (verified on the whole array). Bounded: 3 objects, 2-6 entry abstract vectors, scalar alphabets of 5-6 values per profile. Integer true division outside the claim.',
    ref='4/C01'),
 'C03': dict(
    technique='TLA+ model of the call dispatch (DispatchImpl: Operator.__new__ signature classification + Operator.__call__ checks) refined against the call protocol by TLC, cells replayed on generated toy classes; TLC trace validation (Trace_OpCall) of calls on every operator recipe',
    text='TLC checks that the transcribed dispatch (4 signature kinds x behaviours of _call x 3 kinds of x x 3 kinds of out x functional) refines the protocol (result in range; in-place returns the very out object holding F(x); bad x -> OpDomainError, bad out -> OpRangeError before anything is written) on all 135 cells and exports them; each cell is replayed on a toy operator class generated with that signature. Then ~1100 recipes (built-in linear and nonlinear operators x options, ufunc operators, functionals with gradients/proximals/conjugates, transforms with both back-ends, ray transform, deformation, ...) are called out-of-place twice, in-place with NaN-filled and garbage-filled out, with uncastable input and with a foreign out; TLC validates every recorded call (range membership, identity of the returned object, byte-identical x, in-place = out-of-place, rejection class, out untouched on rejection). Operator subclasses not reached are listed in the evidence.',
    note='Trusted: TLC; value equality in-place vs out-of-place is relational (two runs of the same code, tolerance 1e-9 / 1e-4 for float32). Inputs positive so that domain-restricted operators are defined. Coverage of classes is by recipes (159 of 211 Operator subclasses reached; the rest are abstract bases and scalar ufunc functionals, listed as uncovered).',
    ref='4/C03'),
 'C10': dict(
    technique='TLA+ statement-level models of the proximal _call bodies on an aliased heap (ProxBodiesImpl) checked by TLC; TLC trace validation (Trace_OpCall, mode alias) of P(y, out=y) vs P(x) on every proximal factory x options x spaces and on arithmetic wrappers generated from OpMachine programs',
    text='TLC checks for all small inputs that the L1, conj-L1, L2-squared and conj-L2-squared (element-valued step) bodies, transcribed statement by statement with the C01 lincomb semantics, leave in x what the plain call returns (switching the model to the pinned tree body yields the ProximalL1 counter-example). On the real code every proximal factory (22 factories x lam x g x scalar/element sigma x rn / rn(120) / weighted / discretised / product spaces), every Functional-API proximal, the building-block operators solvers apply in place (scaling, multiplication, identity, zero, constant) and ~1200 operator-arithmetic wrappers (OpMachine programs whose nonlinear leaves are replaced by proximals) are called as y = x.copy(); P(y, out=y) and compared with P(x); each call is one event validated by TLC.',
    note='Trusted: TLC; comparison of two real runs (relative tolerance 1e-9). Operators outside the kinds named by the property (finite differences, component projection) are exercised and listed as informational only.',
    ref='4/C10'),
 'C13': dict(
    technique='TLA+ reference stencils (FDSem) vs statement-level model of finite_diff (FDImpl) checked by TLC over methods x paddings x sizes; per-configuration export replayed on real finite_diff / PartialDerivative / Gradient / Divergence / Laplacian via unit vectors; TLC trace validation (Trace_FD)',
    text='TLC checks FDImpl = textbook stencil on the one-cell extension (full matrices and affine parts) for 3 methods x 10 padding modes x n in 2..7 x pad constants x cell sides, that inadmissible lengths are refused, AdjointIsTranspose (incl. the _ADJ_METHOD/_ADJ_PADDING pairing and sign), Div = -Grad^T, derivative of the constant-padding variant = zero-padding variant, and reference laws (constants annihilated, order1/order2 exact on ramps, periodic circulant, Laplacian = forward - backward); N-d Gradient/Divergence/Laplacian on 6-14 shapes with distinct cell sides. ~6200 exported configurations are replayed on the real code (1-3 d, every axis, f32/f64/c64/c128, C/F/strided, NaN-prefilled out, operators incl. .adjoint and .derivative on uniformly weighted spaces) - ~65k real calls - and ~13.6k recorded events are validated by TLC.',
    note='Trusted: TLC; dyadic cell sides so all values are exact. "symmetric" follows code and tests (edge-inclusive mirror), "order2" = one-sided three-point edge rows. nodes_on_bdry=True / non-default weightings are left to C05 (property says "on uniformly weighted spaces").',
    ref='4/C13'),
 'C14': dict(
    technique='TLA+ partition semantics over exact rationals (PartSem) with invariants checked by TLC, layer-C model of uniform_partition argument completion / index / getitem (PartitionImpl) refined against it; per-(partition, query) export replayed on real RectPartition/RectGrid/IntervalProd and constructors; TLC trace validation (Trace_Part)',
    text='TLC enumerates every 1-d partition in the bounded space (uniform over quarter-lattice limits x n in 1..5 x 4 node placements, non-uniform, degenerate and non-dyadic vectors) and 2-d/3-d products, and checks as invariants: boundaries strictly increasing and ending at the limits, node in own cell, sizes sum to the extent, side x count = extent with the requested placement, Index = containing cell (and fractional position) for every eighth-lattice point under the tie rule, unit-step selections = selected cells, stepped selections = selected nodes + documented hull, insert/append/squeeze/byaxis, all ways of specifying a uniform partition agree, and layer C = layer A. ~40k exported (partition, query) states are replayed on the real classes and constructors (~55k calls incl. random dyadic non-uniform and beyond-bound drivers up to 17 nodes) and every call is validated by TLC.',
    note='Trusted: TLC. Probe points exactly on cell boundaries only where all coordinates are dyadic (tie rule); "cells are exactly the selected cells" is demanded for unit-step selections only. Open finding KF-C14-3 (cell_sizes_vecs = 0 on one-node axes, documented behaviour that contradicts the statement).',
    ref='4/C14'),
 'C15': dict(
    technique='TLA+ sampling / nearest / linear / per-axis interpolation semantics (InterpSem) with laws checked by TLC, layer-C model of _find_indices and the weight/edge helpers (InterpImpl) refined against it; export replayed on real element(func)/sampling_function/point_collocation and interpolators under all calling conventions; TLC trace validation (Trace_Interp)',
    text='TLC checks node reproduction, linear exact for affine data inside the hull, right neighbour on ties, convex weights, zero extension just outside the hull, per-axis all-nearest = nearest and Impl = reference for 1-d grids x data sets x schemes x quarter-lattice points from min-1 to max+1, 2-d and 3-d scheme mixtures, resampling and deformation cases. ~14k exported states are replayed on the real code: each abstract function supplied natively vectorised, through odl.util.vectorize, broadcasting on some coordinates, writing in place, keyword-only out, returning constants, real and complex; each interpolator called with single points, point arrays and mesh grids; float32/64, complex, integer and string data; Resampling and linear_deform on lattice data. Every call is validated by TLC; Python comparison and TLC verdict must agree event by event.',
    note='Trusted: TLC. Beyond one edge step outside the hull linear interpolation is not compared (property silent). Integer data only claimed for nearest. Open findings KF-C15-1 (wide strings), KF-C15-3 (NumPy ufunc as 1-d in-place callable).',
    ref='4/C15'),
 'C16': dict(
    technique='TLA+ source-map reference (ResizeSem) vs model of the slice arithmetic of resize_array/_apply_padding/_resize_discr (ResizeImpl) checked by TLC; per-configuration export replayed on real resize_array and ResizingOperator; TLC trace validation (Trace_Resize)',
    text='TLC checks ImplCorrect (slice arithmetic = reference, refusal exactly outside the documented length restrictions), AdjointIsTranspose, ExtendThenCropIsIdentity, OverlapCopied, AxisOrderIrrelevant, LinearRampLaw, ComplexAgrees and the range-geometry model for all n_in, n_out in 1..5 x offsets x 5 modes x {forward c=0, forward c=3, adjoint} in 1-d and every grow/shrink mixture with per-axis sizes 1..3 in 2-d. ~5200 exported configurations are replayed on the real code (int32/int64/float/complex, with/without out, C/F order, restricted axes, numpy.pad agreement, ResizingOperator call/adjoint/inverse via ran_shp, explicit range and default offset, adjoint identities in the weighted inner products, padding larger than the array) - ~47k real calls - and ~17k recorded events are validated by TLC.',
    note='Trusted: TLC. When shrinking by an odd number with the default offset either side may lose the extra cell; .inverse values are compared only where the inverse is a pure crop.',
    ref='4/C16'),
 'C17': dict(
    technique='TLA+ rules for result kind/shape/dtype and exact values of integer-valued ufuncs and their methods (UfuncSem) checked by TLC, layer-C model of the result-space construction in __array_ufunc__ (UfuncResSpaceImpl) refined against it; export replayed on real tensor/discretised/power-space elements; TLC trace validation (Trace_Ufunc) with NumPy-on-raw-arrays as environment oracle',
    text='TLC checks that the shape/kind/dtype rules are total and consistent and the method laws hold (keepdims, iterated reduce, accumulate vs reduce, reduceat, outer, at) over kind x method x nin/nout x shapes up to (2,3,2) x every axis subset (negative and mixed-sign) x keepdims x out kind x operand order x dtype keyword, and exports ~1900 cases with expected shape, kind, dtype and exact values. They are replayed on real elements, and 84 of 85 NumPy ufuncs x dtypes x element kinds x methods x out kinds (~10k combinations) are executed: every event carries the observed result and the reference obtained from the same ufunc on the raw ndarrays (ulp distance), result kind/shape/dtype, out identity, mixed operand order, no-copy wrapping, asarray round trip and the legacy x.ufuncs agreement; ~31.7k events validated by TLC.',
    note='The property defines NumPy as the value oracle (environment oracle, <= 2 ulp); exact values only for integer-valued ufuncs. Only "same kind, matching shape and dtype" is demanded of the result space. Open findings KF-C17-5/6: product-space elements have no __array_ufunc__ (out=, at, partial reduce raise; dtypes cast back).',
    ref='4/C17'),
 'C19': dict(
    technique='TLA+ rational rigid-motion semantics (GeomSem: rational rotations, Rodrigues, Euler ZXZ) with relations checked by TLC, layer-C models of slicing / factory extents / shape rule (GeomImpl); export replayed on the five real geometry classes with rational parameters passed as floats; TLC trace validation (Trace_Geom)',
    text='TLC checks on every configuration (geometry descriptor x rational angle x detector parameter): rotation orthonormal with determinant 1, detector point = reference point + rotated surface point, det_to_src consistent with the source position (unit length when normalised), parallel-beam direction constant in u and orthogonal to the detector axes, angle group law; the broadcast shape rule and the slice rule are total. ~1700 exported configurations are replayed on Parallel2d/3dAxis/3dEuler, FanBeam, ConeBeam (flat and curved detectors, helical pitch, translations, init matrices): scalar, vectorised, broadcast, sliced and original-after-slice evaluation, frommatrix, and the factories (every volume corner projects inside the detector); ~12.8k events (71k public calls) incl. 1500 random rational configurations validated by TLC.',
    note='Rational parameters (Pythagorean angles, rational axes) make all true values rational; outputs snapped with the scenario denominator. Vectorised vs single evaluation compared with 4*2^-30 relative slack. ASTRA absent (skipped). Open findings KF-C19-3/4 (curved detector frames), KF-C19-7 (factory coverage; the repair changes values pinned by existing tests), KF-C19-8 (zero det_pos_init).',
    ref='4/C19'),
 'C04': dict(
    technique='TLA+ expression stack machine (OpMachine) with reference semantics OpSem; TLC exhaustive + simulated program export replayed through the real Python overloads; layer-C model of class selection / scalar merging (RewriteImpl) refined against the table; TLC trace validation (Trace_OpMachine)',
    text='A behaviour of OpMachine is a well-typed operator program. TLC enumerates all programs with <= 3 construction steps over 12 leaf kinds and 16 combinators (real, array-weighted real, complex), checks sanity invariants of the reference (structural linearity implies additivity, adjoint identity, stencil derivative) and that the layer-C transcription of the overload rules evaluates to the documented table (it exhibits the pinned tree\'s (A*a)*B defect as a counter-example when the slip is switched on), exports every program with Eval at probe points, domain, range and linearity, plus -simulate behaviours up to 7 steps. Each program is rebuilt from real ODL operators via +,-,*,/,** and evaluated out-of-place and in-place (NaN-prefilled out) on 2 and 120 entries; every real evaluation is re-evaluated by TLC from the logged program.',
    note='Trusted: TLC, snapping projection. Bounded: programs <= 3 steps exhaustively (quick) / medium alphabets (thorough), deeper ones sampled by TLC simulation; spaces F^2 and its 60-fold tiling. Unsupported-by-design expressions (scalar + non-Functional scalar-valued operator) are named by OpSem!Supported and not demanded.',
    ref='4/C04'),
 'C05': dict(
    technique='TLA+ reference adjoint N = Gd^-1 M^H Gr over OpMachine programs (TLC export replayed on real expr.adjoint) + TLC trace validation of full matrices of every built-in linear operator recipe (Trace_Adjoint: entry-wise identity = all x,y)',
    text='(A) every linear OpMachine program (weighted and complex profiles) is rebuilt in ODL; expr.adjoint is applied to each range basis vector and compared with the reference adjoint column computed by TLC; adjoint domain/range and adjoint.adjoint are checked; observations re-validated by TLC. (B) for ~500 recipes of built-in linear operators x options (weightings, complex dtypes, nodes on boundary, 3 methods x 10 paddings, product-space blocks, sampling, flattening, Fourier, wavelets) the full matrices of A, A.adjoint, A.adjoint.adjoint and the Gram weights are recorded from the real code and TLC decides Gd[i]N[i][j] = conj(M[j][i])Gr[j] entry-wise, i.e. the adjoint identity for all x and y (exact rationals where entries are rational, 2^-8 quantisation otherwise; real-part form for real<->complex operators).',
    note='Trusted: TLC; Gram matrices diagonal in the canonical basis. Operators documented as approximate adjoints are exempt; operators that raise NotImplementedError for .adjoint are exempt. Open findings are listed in known_findings.json (weighted MatrixOperator, nodes_on_bdry difference operators, Fourier adjoints, ...).',
    ref='4/C05'),
 'C06': dict(
    technique='TLA+ directional derivative defined from values by the exact 5-point stencil over OpMachine programs (TLC export replayed on real expr.derivative) + relational central-difference convergence of built-in derivatives decided by TLC (Trace_Derivative)',
    text='(A) for every OpMachine program of polynomial degree <= 4 TLC computes the directional derivative from Eval only (exact central-difference stencil, no chain rule) and exports it; the real expr.derivative(x)(d) is snapped and compared, derivative(x) must be linear with the right spaces, linear programs are their own derivative; observations re-validated by TLC. (B) ~110 recipes of built-in operators with closed-form derivatives (power, norm, dist, modulus, pointwise norm, ufunc operators, functionals, product-space blocks, affine finite differences): central differences of the real operator at h, h/2, h/4 against derivative(x)(d); TLC decides the O(h^2) convergence relation.',
    note='Trusted: TLC. Exact clause only for polynomial programs (degree <= 4); non-polynomial operators are relational-only (numbers from the implementation). Complex non-holomorphic programs and deformation operators are outside the claim.',
    ref='4/C06'),
}

def main():
    with open(os.path.join(V, 'hooks.json')) as f:
        hooks = json.load(f)
    m = {
     'version': 1,
     'setup_cmd': './setup.sh',
     'hooks': hooks,
     'engines': [{'name': 'vcheck', 'path': 'vcheck', 'serves_properties': sorted(CLAIMS),
                  'kind_free_text': 'TLA+ specifications (spec/) checked with TLC 1.8; Python conformance harness (harness/) replaying TLC-exported cases into real ODL and validating recorded traces with TLC'}],
     'checks': [],
     'notes': 'See DESIGN.md. Exit 0 held / 1 VIOLATION / 2 machinery failure. known_findings.json lists open findings and fixed: records.',
     'not_applicable': [],
    }
    for p in props:
        i = p['id']
        if i in CLAIMS:
            c = CLAIMS[i]
            m['checks'].append({
              'property_id': i,
              'quick_cmd': './vcheck %s --tier quick' % i,
              'thorough_cmd': './vcheck %s --tier thorough' % i,
              'evidence_file': 'evidence/%s.json' % i,
              'replay_cmd_template': './vcheck replay {path}',
              'engine': 'vcheck',
              'level_claimed': {'category': 'model_checking', 'text': c['text'], 'design_ref': c['ref']},
              'level_note': c['note'],
              'technique': c['technique']})
        else:
            m['not_applicable'].append({'property_id': i, 'reason': 'check not built yet (construction in progress, see DESIGN.md section 9); no claim is made'})
    with open(os.path.join(V, 'MANIFEST.json'), 'w') as f:
        json.dump(m, f, indent=1)
    print('claimed:', sorted(CLAIMS))

if __name__ == '__main__':
    main()

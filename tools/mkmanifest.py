#!/venv/bin/python
"""Regenerate MANIFEST.json from the table below (single source of truth for claims)."""
import json, os, subprocess
V = os.path.dirname(os.path.dirname(os.path.abspath(__file__)))
props = [json.loads(l) for l in open(os.path.join(V, 'properties.jsonl'))]

CLAIMS = {
 'C01': dict(
    technique='TLA+ state machine (VecMachine) + TLC exhaustive transition export replayed on real ODL elements; layer-C model of _lincomb_impl refined against it; TLC trace validation (Trace_VecMachine) of recorded call sequences',
    text='TLC enumerates every (heap state, action, aliasing choice) transition of the bounded vector machine over three scalar/dtype profiles and checks frame, stale-output independence and returns-target as action properties; a layer-C model of the lincomb decision tree is checked against the reference for every (aliasing, scalar class, regime) cell. Every exported transition is replayed on real ODL elements under concretisations that straddle the 100- and 50000-entry switches, all dtypes, C/F/strided layouts and tensor/discretised/product/nested spaces (NaN-prefilled outputs), and every real call, plus seeded random call sequences on live objects, is validated by TLC against the trace specification.',
    note='Trusted: TLC, the snapping projection (tolerance 2^-20/D vs lattice spacing 1/D), periodic tiling for long vectors (verified on the whole array). Bounded: 3 objects, 2-6 entry abstract vectors, scalar alphabets of 5-6 values per profile. Integer true division outside the claim.',
    ref='4/C01'),
}

def main():
    with open(os.path.join(V, 'hooks.json')) as f:
        hooks = json.load(f)
    m = {
     'version': 1,
     'setup_cmd': './setup.sh',
     'hooks': hooks,
     'engines': [{'name': 'vcheck', 'path': 'vcheck', 'serves_properties': sorted(CLAIMS),
                  'kind_free_text': 'TLA+ specifications (spec/) checked with TLC 1.8; Python conformance harness (harness/) replaying TLC-exported cases into real ODL and validating recorded traces with TLC'}],
     'checks': [],
     'notes': 'See DESIGN.md. Exit 0 held / 1 VIOLATION / 2 machinery failure. known_findings.json lists open findings and fixed: records.',
     'not_applicable': [],
    }
    for p in props:
        i = p['id']
        if i in CLAIMS:
            c = CLAIMS[i]
            m['checks'].append({
              'property_id': i,
              'quick_cmd': './vcheck %s --tier quick' % i,
              'thorough_cmd': './vcheck %s --tier thorough' % i,
              'evidence_file': 'evidence/%s.json' % i,
              'replay_cmd_template': './vcheck replay {path}',
              'engine': 'vcheck',
              'level_claimed': {'category': 'model_checking', 'text': c['text'], 'design_ref': c['ref']},
              'level_note': c['note'],
              'technique': c['technique']})
        else:
            m['not_applicable'].append({'property_id': i, 'reason': 'check not built yet (construction in progress, see DESIGN.md section 9); no claim is made'})
    with open(os.path.join(V, 'MANIFEST.json'), 'w') as f:
        json.dump(m, f, indent=1)
    print('claimed:', sorted(CLAIMS))

if __name__ == '__main__':
    main()

#!/venv/bin/python
"""usage: tools/vsummary.py Cnn key1,key2,...   -- count replay files of a property grouped by signature keys"""
import sys, json, glob, collections
prop, keys = sys.argv[1], sys.argv[2].split(',')
c = collections.Counter()
for p in glob.glob('/verif/replays/%s/*.json' % prop):
    s = json.load(open(p))['signature']
    c[tuple(str(s.get(k, '')) for k in keys)] += 1
for k, v in sorted(c.items()):
    print(v, k)
print('total', sum(c.values()), 'families', len(c))

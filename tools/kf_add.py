#!/venv/bin/python
"""usage: tools/kf_add.py <proposal dir> open            -- add the proposal's finding(s) to known_findings.json as open
          tools/kf_add.py <proposal dir> fixed <commit>  -- ... as fixed by <commit> (a fixed entry suppresses nothing)
   optional 4th/3rd argument: comma-separated ids to restrict to"""
import json, os, sys
V = os.path.dirname(os.path.dirname(os.path.abspath(__file__)))
d, status = sys.argv[1], sys.argv[2]
commit = sys.argv[3] if status == 'fixed' else ''
only = sys.argv[4 if status == 'fixed' else 3].split(',') if len(sys.argv) > (4 if status == 'fixed' else 3) else None
f = json.load(open(os.path.join(d, 'finding.json')))
f = f if isinstance(f, list) else [f]
p = os.path.join(V, 'known_findings.json')
k = json.load(open(p))
ids = {x['id'] for x in k['findings']}
for e in f:
    if only and e['id'] not in only:
        continue
    if e['id'] in ids:
        print('already listed', e['id']); continue
    e = dict(e)
    e['status'] = status
    e['proposal'] = os.path.relpath(os.path.abspath(d), V)
    if status == 'fixed':
        e['commit'] = commit
        e.pop('signature', None)
        e['what'] = 'fixed: property=%s %s %s' % (e['property'], commit, e['what'])
    k['findings'].append(e)
    print(status, e['id'])
json.dump(k, open(p, 'w'), indent=1)

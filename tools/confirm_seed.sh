#!/bin/sh
# usage: tools/confirm_seed.sh <outdir> <k>  -- confirm a seeded mutation: demo passes on HEAD, fails with the patch, full test suite still passes
OUT="$1"; K="$2"
WT="/tmp/confirm-$$"
git -C /repo worktree add --detach -q "$WT" HEAD || exit 2
trap 'git -C /repo worktree remove --force "$WT" >/dev/null 2>&1; rm -rf "$WT"' EXIT
cd "$WT"
PYTHONPATH="$WT" /venv/bin/python "$OUT/demo$K.py" >/dev/null 2>&1; A=$?
git apply "$OUT/patch$K.diff" || { echo "patch does not apply"; exit 2; }
PYTHONPATH="$WT" /venv/bin/python "$OUT/demo$K.py" >/dev/null 2>&1; B=$?
T=$(PYTHONPATH="$WT" /venv/bin/python -m pytest -q -p no:cacheprovider --timeout=900 odl 2>&1 | tail -1)
echo "demo_clean_exit=$A demo_mutated_exit=$B tests: $T"

#!/bin/sh
# usage: tools/mutcheck.sh <patch.diff> <PROP> [tier]   -- run a check against a scratch worktree of /repo with the patch applied
set -e
PATCH="$(realpath "$1")"; PROP="$2"; TIER="${3:-quick}"
WT="/tmp/mut-$$"
git -C /repo worktree add --detach -q "$WT" HEAD
trap 'git -C /repo worktree remove --force "$WT" >/dev/null 2>&1; rm -rf "$WT"' EXIT
git -C "$WT" apply "$PATCH" 2>/dev/null || git -C "$WT" apply -3 "$PATCH" || { echo "exit=patch-does-not-apply"; exit 3; }
cd /verif
set +e
VERIF_REPO="$WT" ./vcheck "$PROP" --tier "$TIER" > "/verif/.work/mut-$PROP-$$.log" 2>&1
RC=$?
echo "exit=$RC"; grep -c '^VIOLATION' "/verif/.work/mut-$PROP-$$.log"; grep -E '^(VIOLATION|OK|MACHINERY|KNOWN)' "/verif/.work/mut-$PROP-$$.log" | cut -c1-260 | head -${MUT_LINES:-5}

----------------------------- MODULE CbFullSem -----------------------------
(***************************************************************************)
(* Layer A (extension stage "cbfull"): the solver callbacks of              *)
(* odl/solvers/util/callback.py, every class, written from the DOCSTRINGS.  *)
(* The documented observable of a callback is a function of the HISTORY of  *)
(* Call(v) / Reset made on the (root) object.                               *)
(*                                                                         *)
(* A callback expression is a tree of records [k, step, opt, l, r]:         *)
(*   k = "and"      l & r      "calls both in sequence", "callables to be   *)
(*                             called in sequence as listed"                *)
(*   k = "compose"  l * op     "calls first the operator, and then applies  *)
(*                             the callback to the result" (op: x -> 10 x)  *)
(*   leaves (step = the documented `step`, opt = option class):             *)
(*   "store"     opt own | caller | func   CallbackStore(results, function, step) *)
(*   "apply"                               CallbackApply(function, step)    *)
(*   "raw"       a plain callable on the right of & ("other : callable")    *)
(*   "printiter"                           CallbackPrintIteration(fmt, step)*)
(*   "print"     opt "" | func             CallbackPrint(func, fmt, step)   *)
(*   "printnorm"                           CallbackPrintNorm()  (no step)   *)
(*   "timing"    opt cum | inc             CallbackPrintTiming(fmt, step, cumulative) *)
(*   "save"      opt <impl>:<idx|fix>      CallbackSaveToDisk(saveto, step, impl) *)
(*   "sleep"     opt "" | ms20             CallbackSleep(seconds) (no step) *)
(*   "show"      opt "" | saveto | savefn  CallbackShow(title, step, saveto)*)
(*   "showconv"                            CallbackShowConvergence(functional) *)
(*   "progress"                            CallbackProgressBar(niter, step) *)
(*                                                                         *)
(* History h: sequence of [a |-> "call" | "reset", v |-> iterate].          *)
(* The iteration number of a call ("cur_iter_num") is the number of calls   *)
(* since construction or the last reset ("Reset the callback to its initial *)
(* state"), starting at 0 (docstring examples: iter = 0, iter = 1; with     *)
(* step=2: 0, 2).  A leaf with `step` acts at the iterations 0, s, 2s, ...  *)
(* ("Number of iterates between ..."; CallbackApply example: step=2 acts at *)
(* the first and third call).  The progress bar shows COMPLETED iterations: *)
(* it advances by `step` after every step-th call.                          *)
(*                                                                         *)
(* An emission is <<j, it, val>>: j = position of the call in the history,  *)
(* it = the iteration number where the class DISPLAYS it (print text, file  *)
(* name, figure title, x coordinate), else -1; val = the value displayed /  *)
(* stored / passed on (iterate, function value), 0 where it is a time.      *)
(***************************************************************************)
EXTENDS Integers, Sequences, FiniteSets, TLC

StepKinds   == {"store", "apply", "printiter", "print", "timing", "save", "show"}
NoStepKinds == {"printnorm", "sleep", "showconv", "raw"}
LeafKinds   == StepKinds \cup NoStepKinds \cup {"progress"}
\* kinds that have a documented iteration counter which reset() sets back
CounterKinds == StepKinds \cup {"showconv", "progress"}
\* kinds whose emission is visible on the shared channel (stdout / the user's function / the show method)
LoudKinds == {"apply", "raw", "printiter", "print", "printnorm", "timing", "show", "showconv"}
\* kinds that display the iteration number
ItKinds == {"printiter", "save", "show", "showconv"}

IsLeaf(e) == e.k \in LeafKinds

\* the function used for the deprecated `function` / `func` arguments in all instances
Fn(v) == v + 1
OpScale == 10

\* ---------------------------------------------------------------- histories
RECURSIVE CntAt(_, _)
\* number of calls since the last reset among h[1..j]
CntAt(h, j) == IF j = 0 THEN 0 ELSE IF h[j].a = "reset" THEN 0 ELSE CntAt(h, j - 1) + 1
\* position of the last reset (0: none)
RECURSIVE LastReset(_, _)
LastReset(h, j) == IF j = 0 THEN 0 ELSE IF h[j].a = "reset" THEN j ELSE LastReset(h, j - 1)

\* ---------------------------------------------------------------- one leaf
Selected(leaf, k) ==
  IF leaf.k \in StepKinds THEN k % leaf.step = 0
  ELSE IF leaf.k = "progress" THEN (k + 1) % leaf.step = 0
  ELSE TRUE

Emits(leaf) == leaf.k # "sleep"

\* CallbackSleep(seconds): "Number of seconds to sleep": a lower bound (microseconds, 10 % clock slack) for the time one call
\* of the leaf takes; opt "ms20" = 20 ms, "" = no measurable sleep
SleepUs(leaf) == IF leaf.k = "sleep" /\ leaf.opt = "ms20" THEN 18000 ELSE 0

ItShown(leaf, k) == IF leaf.k \in ItKinds THEN k ELSE -1

Val(leaf, k, v) ==
  CASE leaf.k \in {"printiter", "timing"} -> 0
    [] leaf.k \in {"store", "print"} /\ leaf.opt = "func" -> Fn(v)
    [] leaf.k = "progress" -> leaf.step
    [] OTHER -> v

\* emission of the leaf for the call at position j of h (<<>>: none), iterate already transformed: v * scale
EmitAt(leaf, scale, h, j) ==
  IF h[j].a # "call" THEN <<>>
  ELSE LET k == CntAt(h, j - 1)
       IN  IF Emits(leaf) /\ Selected(leaf, k) THEN << <<j, ItShown(leaf, k), Val(leaf, k, h[j].v * scale)>> >> ELSE <<>>

RECURSIVE StreamUpTo(_, _, _, _)
StreamUpTo(leaf, scale, h, j) == IF j = 0 THEN <<>> ELSE StreamUpTo(leaf, scale, h, j - 1) \o EmitAt(leaf, scale, h, j)
\* everything the leaf has emitted over the whole history
Stream(leaf, scale, h) == StreamUpTo(leaf, scale, h, Len(h))

\* CallbackStore: "List in which to store the iterates", reset: "Clear the results list": the values since the last reset
Results(leaf, scale, h) ==
  LET S == Stream(leaf, scale, h) r == LastReset(h, Len(h))
      T == SelectSeq(S, LAMBDA e : e[1] > r)
  IN  [i \in 1..Len(T) |-> T[i][3]]

\* documented counter ("Set `iter` to 0"); -1: the class has none
Counter(leaf, h) == IF leaf.k \in CounterKinds THEN CntAt(h, Len(h)) ELSE -1

\* CallbackSaveToDisk: "filename = saveto.format(cur_iter_num)": with an indexed pattern one file per saved iteration
\* number (a later save to the same number - after a reset - overwrites), with a constant pattern one file "overwriting
\* the previous one" (index -1).  Content = the iterate.  Sorted sequence of <<index, value>>.
FileIdx(leaf, k) == IF leaf.opt \in {"pickle:idx", "numpy:idx", "txt:idx", "saveto", "savefn"} THEN k ELSE -1
Files(leaf, scale, h) ==
  LET S == Stream(leaf, scale, h)
      idxs == { FileIdx(leaf, S[i][2]) : i \in 1..Len(S) }
      last(ix) == LET I == { i \in 1..Len(S) : FileIdx(leaf, S[i][2]) = ix } m == CHOOSE i \in I : \A q \in I : q <= i IN S[m][3]
      all == [i \in 1..(Len(h) + 1) |-> i - 2]
      present == SelectSeq(all, LAMBDA ix : ix \in idxs)
  IN  [i \in 1..Len(present) |-> <<present[i], last(present[i])>>]

\* ---------------------------------------------------------------- trees
RECURSIVE NLeaves(_)
NLeaves(e) == IF e.k = "and" THEN NLeaves(e.l) + NLeaves(e.r) ELSE IF e.k = "compose" THEN NLeaves(e.l) ELSE 1

\* pre-order leaf list: [leaf, scale]
RECURSIVE Leaves(_, _)
Leaves(e, scale) ==
  IF e.k = "and" THEN Leaves(e.l, scale) \o Leaves(e.r, scale)
  ELSE IF e.k = "compose" THEN Leaves(e.l, scale * OpScale)
  ELSE << [leaf |-> e, scale |-> scale] >>

\* what the tree emits on the shared channel during the call at position j: & = in sequence as listed, * = operator first.
\* Entries <<leaf index, j, it, val>>; off = number of leaves to the left of e
RECURSIVE TreeEmit(_, _, _, _, _)
TreeEmit(e, off, scale, h, j) ==
  IF e.k = "and" THEN TreeEmit(e.l, off, scale, h, j) \o TreeEmit(e.r, off + NLeaves(e.l), scale, h, j)
  ELSE IF e.k = "compose" THEN TreeEmit(e.l, off, scale * OpScale, h, j)
  ELSE IF e.k \in LoudKinds
       THEN LET E == EmitAt(e, scale, h, j) IN [i \in 1..Len(E) |-> <<off + 1, E[i][1], E[i][2], E[i][3]>>]
       ELSE <<>>

RECURSIVE OutUpTo(_, _, _)
OutUpTo(e, h, j) == IF j = 0 THEN <<>> ELSE OutUpTo(e, h, j - 1) \o TreeEmit(e, 0, 1, h, j)
Out(e, h) == OutUpTo(e, h, Len(h))

\* ---------------------------------------------------------------- documented observation of a tree after a history
Obs(e, h) ==
  LET L == Leaves(e, 1) IN
  [ cnt   |-> [i \in 1..Len(L) |-> Counter(L[i].leaf, h)],
    strm  |-> [i \in 1..Len(L) |-> Stream(L[i].leaf, L[i].scale, h)],
    res   |-> [i \in 1..Len(L) |-> IF L[i].leaf.k = "store" THEN Results(L[i].leaf, L[i].scale, h) ELSE <<>>],
    files |-> [i \in 1..Len(L) |-> IF L[i].leaf.k = "save" \/ (L[i].leaf.k = "show" /\ L[i].leaf.opt # "")
                                   THEN Files(L[i].leaf, L[i].scale, h) ELSE <<>>],
    out   |-> Out(e, h) ]

\* ---------------------------------------------------------------- laws of the reference (checked by TLC in layer B)
\* regrouping of & and distribution of * over & do not change the observable effect
Reassoc(e) == IF e.k = "and" /\ e.l.k = "and" THEN [e EXCEPT !.l = e.l.l, !.r = [e EXCEPT !.l = e.l.r, !.r = e.r]] ELSE e
Distribute(e) == IF e.k = "compose" /\ e.l.k = "and"
                 THEN [e.l EXCEPT !.l = [e EXCEPT !.l = e.l.l], !.r = [e EXCEPT !.l = e.l.r]] ELSE e
=============================================================================

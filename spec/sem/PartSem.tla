------------------------------- MODULE PartSem -------------------------------
(***************************************************************************)
(* Layer A (C14): rectangular partitions over exact rationals.             *)
(*                                                                         *)
(* Written from the documentation of RectPartition / uniform_partition /   *)
(* nonuniform_partition and DESIGN Appendix E2 - not from the code.        *)
(*                                                                         *)
(*   axis  == [min |-> Q, max |-> Q, nodes |-> Seq(Q)]   (n >= 1 nodes)    *)
(*   part  == Seq(axis)                                                    *)
(*                                                                         *)
(* Cell j (0-based) of an axis with nodes g_0 < ... < g_{n-1} in [a, b] is *)
(* [beta_j, beta_{j+1}] with beta_0 = a, beta_j = (g_{j-1}+g_j)/2,         *)
(* beta_n = b ("grid points lie in the centre of the sub-intervals").      *)
(* All indices visible to the outside (Index, index expressions, axes)     *)
(* are 0-based like in Python; TLA+ sequences are 1-based internally.      *)
(***************************************************************************)
EXTENDS ExactNum

NONE   == 99                 \* "not given" for integer slots (slice start/stop/step, shape)
NoneQ  == <<0, -1>>          \* "not given" for rational slots (min_pt, max_pt, cell_sides)
IsNoneQ(q) == q[2] = -1

Axis(a, b, g) == [min |-> a, max |-> b, nodes |-> g]
NN(ax)        == Len(ax.nodes)
Extent(ax)    == QSub(ax.max, ax.min)
Shape(part)   == [k \in 1..Len(part) |-> NN(part[k])]

StrictInc(s)  == \A i \in 1..(Len(s) - 1) : QLt(s[i], s[i + 1])
WeakInc(s)    == \A i \in 1..(Len(s) - 1) : QLe(s[i], s[i + 1])
AxisOK(ax)    == /\ NN(ax) >= 1
                 /\ StrictInc(ax.nodes)
                 /\ QLe(ax.min, ax.nodes[1])
                 /\ QLe(ax.nodes[NN(ax)], ax.max)
PartOK(part)  == \A k \in 1..Len(part) : AxisOK(part[k])
Degenerate(ax) == ax.min = ax.max          \* then necessarily one node = min = max

(* ------------------------- derived vectors ------------------------------ *)
\* cell boundaries beta_0..beta_n as a sequence of length n+1
Bdry(ax) ==
  LET n == NN(ax)
  IN  [j \in 1..(n + 1) |->
         IF j = 1 THEN ax.min
         ELSE IF j = n + 1 THEN ax.max
         ELSE QHalf(QAdd(ax.nodes[j - 1], ax.nodes[j]))]

\* size of every cell: the length of the interval it occupies
CellSizes(ax) == LET B == Bdry(ax) IN [j \in 1..NN(ax) |-> QSub(B[j + 1], B[j])]

\* fraction of the "natural" outermost cells contained in the set; 1 on a one-node axis
BdryFrac(ax) ==
  LET n == NN(ax)  g == ax.nodes
  IN  IF n = 1 THEN <<QOne, QOne>>
      ELSE <<QAdd(<<1, 2>>, QDiv(QSub(g[1], ax.min), QSub(g[2], g[1]))),
             QAdd(<<1, 2>>, QDiv(QSub(ax.max, g[n]), QSub(g[n], g[n - 1])))>>

NodesOnBdry(ax) == <<ax.nodes[1] = ax.min, ax.nodes[NN(ax)] = ax.max>>

IsUniform(ax) == \A i \in 1..(NN(ax) - 2) :
                    QSub(ax.nodes[i + 1], ax.nodes[i]) = QSub(ax.nodes[i + 2], ax.nodes[i + 1])
\* side of the inner cells of a uniform axis; a one-node axis has the single cell [min, max]
CellSide(ax) == IF NN(ax) = 1 THEN Extent(ax) ELSE QSub(ax.nodes[2], ax.nodes[1])

\* everything a partition reports about one axis
DerivedOf(ax) == [bdry |-> Bdry(ax), sizes |-> CellSizes(ax), frac |-> BdryFrac(ax), nob |-> NodesOnBdry(ax),
                  uniform |-> IsUniform(ax), side |-> IF IsUniform(ax) THEN CellSide(ax) ELSE NoneQ,
                  extent |-> Extent(ax)]

(* ------------------------- point location ------------------------------- *)
InAxis(ax, p) == QLe(ax.min, p) /\ QLe(p, ax.max)
\* the cell containing p: beta_j <= p < beta_{j+1}; the right end of the domain belongs to the last cell
Index0(ax, p) ==
  LET B == Bdry(ax)  n == NN(ax)
  IN  IF p = ax.max THEN n - 1
      ELSE CHOOSE j \in 0..(n - 1) : QLe(B[j + 1], p) /\ QLt(p, B[j + 2])
\* cell index plus the distance from the left cell boundary as a fraction of the cell size
IndexF(ax, p) ==
  LET B == Bdry(ax)  j == Index0(ax, p)
  IN  QAdd(QI(j), QDiv(QSub(p, B[j + 1]), QSub(B[j + 2], B[j + 1])))
Index(part, p, floating) ==
  [k \in 1..Len(part) |-> IF floating THEN IndexF(part[k], p[k]) ELSE QI(Index0(part[k], p[k]))]
\* p lies in cell j (closed cell; used to state the law, not to compute)
InCell(ax, j, p) == LET B == Bdry(ax) IN QLe(B[j + 1], p) /\ QLe(p, B[j + 2])

(* ------------------------- index expressions ---------------------------- *)
(* item == [k |-> "int", i |-> Int] | [k |-> "slice", a, b, s |-> Int or NONE] | [k |-> "ell"]      *)
(* idx  == [k |-> "tuple", items |-> Seq(item)] | [k |-> "list", l |-> Seq(Int)] (first axis)    *)
IInt(i)         == [k |-> "int", i |-> i, a |-> NONE, b |-> NONE, s |-> NONE]
ISlice(a, b, s) == [k |-> "slice", i |-> 0, a |-> a, b |-> b, s |-> s]
IEll            == [k |-> "ell", i |-> 0, a |-> NONE, b |-> NONE, s |-> NONE]
IFull           == ISlice(NONE, NONE, NONE)
ITuple(items)   == [k |-> "tuple", items |-> items, l |-> <<>>]
IList(l)        == [k |-> "list", items |-> <<>>, l |-> l]

NormInt(i, n)   == IF i < 0 THEN i + n ELSE i
\* Python slice semantics for a positive step: clipped start / stop
SlStart(a, n)   == IF a = NONE THEN 0 ELSE IF a < 0 THEN Max2(a + n, 0) ELSE Min2(a, n)
SlStop(b, n)    == IF b = NONE THEN n ELSE IF b < 0 THEN Max2(b + n, 0) ELSE Min2(b, n)
SlStep(s)       == IF s = NONE THEN 1 ELSE s
\* selected 0-based indices, ascending
SlCount(lo, hi, s) == IF hi <= lo THEN 0 ELSE ((hi - lo - 1) \div s) + 1
SlIdx(it, n) ==
  LET lo == SlStart(it.a, n)  hi == SlStop(it.b, n)  s == SlStep(it.s)
  IN  [t \in 1..SlCount(lo, hi, s) |-> lo + (t - 1) * s]

ItemOK(it, n) ==
  CASE it.k = "int"   -> NormInt(it.i, n) \in 0..(n - 1)
    [] it.k = "slice" -> SlStep(it.s) >= 1 /\ SlStart(it.a, n) < SlStop(it.b, n)
    [] OTHER          -> FALSE

\* sub-axis selected by one item.
\*  int i           : the single cell i (the axis is kept with one node)
\*  slice, step 1   : cells lo..hi-1 - exactly the selected cells
\*  slice, step > 1 : the selected nodes; limits = hull of the cells of the un-stepped range
\*                    (documented: p[::2] keeps the maximum)
SelAxis(ax, it) ==
  LET n == NN(ax)  B == Bdry(ax)  g == ax.nodes
  IN  IF it.k = "int"
        THEN LET i == NormInt(it.i, n) IN Axis(B[i + 1], B[i + 2], <<g[i + 1]>>)
        ELSE LET lo == SlStart(it.a, n)  hi == SlStop(it.b, n)  ix == SlIdx(it, n)
             IN  Axis(B[lo + 1], B[hi + 1], [t \in 1..Len(ix) |-> g[ix[t] + 1]])

\* index list on the first axis: the listed nodes, hull from the first to the last listed cell
ListOK(l, n) == /\ Len(l) >= 1
                /\ \A t \in 1..Len(l) : NormInt(l[t], n) \in 0..(n - 1)
                /\ \A t \in 1..(Len(l) - 1) : NormInt(l[t], n) < NormInt(l[t + 1], n)
SelList(ax, l) ==
  LET n == NN(ax)  B == Bdry(ax)  g == ax.nodes
      ll == [t \in 1..Len(l) |-> NormInt(l[t], n)]
  IN  Axis(B[ll[1] + 1], B[ll[Len(ll)] + 2], [t \in 1..Len(ll) |-> g[ll[t] + 1]])

\* tuple normalisation: fewer items than axes are filled up with an ellipsis from the right;
\* the (single) ellipsis stands for as many full slices as needed
NumEll(items)  == Cardinality({t \in 1..Len(items) : items[t].k = "ell"})
WithEll(items, ndim) == IF NumEll(items) = 0 /\ Len(items) < ndim THEN Append(items, IEll) ELSE items
Normalise(items0, ndim) ==
  LET items == WithEll(items0, ndim)
  IN  IF NumEll(items) = 0 THEN items
      ELSE LET e == CHOOSE t \in 1..Len(items) : items[t].k = "ell"
               extra == ndim - (Len(items) - 1)
           IN  SubSeq(items, 1, e - 1) \o [t \in 1..extra |-> IFull] \o SubSeq(items, e + 1, Len(items))
IdxOK(part, idx) ==
  IF idx.k = "list" THEN Len(part) >= 1 /\ ListOK(idx.l, NN(part[1]))
  ELSE LET items == WithEll(idx.items, Len(part))
       IN  /\ NumEll(items) <= 1
           /\ Len(items) - NumEll(items) <= Len(part)
           /\ (NumEll(items) = 0 => Len(items) = Len(part))
           /\ LET nrm == Normalise(idx.items, Len(part))
              IN  Len(nrm) = Len(part) /\ \A k \in 1..Len(part) : ItemOK(nrm[k], NN(part[k]))
GetItem(part, idx) ==
  IF idx.k = "list" THEN <<SelList(part[1], idx.l)>> \o Tail(part)
  ELSE LET nrm == Normalise(idx.items, Len(part))
       IN  [k \in 1..Len(part) |-> SelAxis(part[k], nrm[k])]
\* is the selection along axis k contiguous with unit step (then "cells are exactly the selected cells")?
UnitStepItem(it) == it.k = "int" \/ (it.k = "slice" /\ SlStep(it.s) = 1)

(* ------------------------- structural operations ------------------------ *)
RECURSIVE Flatten(_)
Flatten(ps) == IF ps = <<>> THEN <<>> ELSE Head(ps) \o Flatten(Tail(ps))
\* insert the axes of the partitions ps (as a block) before axis `index` (negative: from the end)
Insert(part, index, ps) ==
  LET i == IF index < 0 THEN index + Len(part) ELSE index
  IN  SubSeq(part, 1, i) \o Flatten(ps) \o SubSeq(part, i + 1, Len(part))
AppendParts(part, ps) == Insert(part, Len(part), ps)
RECURSIVE KeepAxes(_, _, _)
KeepAxes(part, keep, k) ==
  IF k > Len(part) THEN <<>>
  ELSE (IF k \in keep THEN <<part[k]>> ELSE <<>>) \o KeepAxes(part, keep, k + 1)
\* remove one-node axes among `axes` (set of 0-based axis numbers)
Squeeze(part, axes) ==
  KeepAxes(part, {k \in 1..Len(part) : ~((k - 1) \in axes /\ NN(part[k]) = 1)}, 1)
AllAxes(part) == 0..(Len(part) - 1)
\* byaxis: sel = sequence of 0-based axis numbers (after normalising negatives), any order, repeats allowed
ByAxisSeq(part, axs) == [t \in 1..Len(axs) |-> part[NormInt(axs[t], Len(part)) + 1]]
\* byaxis with an int / slice item selects the axes a Python index on range(ndim) would select
ByAxisItem(part, it) ==
  IF it.k = "int" THEN <<part[NormInt(it.i, Len(part)) + 1]>>
  ELSE LET ix == SlIdx(it, Len(part)) IN [t \in 1..Len(ix) |-> part[ix[t] + 1]]

(* ------------------------- uniform constructors ------------------------- *)
B2I(b) == IF b THEN 1 ELSE 0
\* number of full cells between min and max: every node on the boundary costs half a cell
NumCells(n, L, R) == QSub(QI(n), Q(B2I(L) + B2I(R), 2))
\* requested placement is satisfiable: n = 1 with both nodes on the boundary needs min = max
PlacementOK(a, b, n, L, R) == n >= 1 /\ QLe(a, b) /\ ((n = 1 /\ L /\ R) => a = b) /\ (n > 1 => QLt(a, b))
FirstNode(a, b, n, L, R) ==
  IF L THEN a
  ELSE IF R THEN QAdd(a, QDiv(QSub(b, a), QI(2 * n - 1)))
  ELSE QAdd(a, QDiv(QSub(b, a), QI(2 * n)))
LastNode(a, b, n, L, R) ==
  IF R THEN b
  ELSE IF L THEN QSub(b, QDiv(QSub(b, a), QI(2 * n - 1)))
  ELSE QSub(b, QDiv(QSub(b, a), QI(2 * n)))
UniformNodes(a, b, n, L, R) ==
  LET g0 == FirstNode(a, b, n, L, R)  g1 == LastNode(a, b, n, L, R)
  IN  IF n = 1 THEN <<g0>>
      ELSE [i \in 1..n |-> QAdd(g0, QMul(QSub(g1, g0), Q(i - 1, n - 1)))]
UniformAxis(a, b, n, L, R) == Axis(a, b, UniformNodes(a, b, n, L, R))
\* inner cell side of the uniform axis (a, b, n, L, R): extent / number of cells
SideOf(a, b, n, L, R) == QDiv(QSub(b, a), NumCells(n, L, R))

\* argument completion: any three of (min, max, shape, cell side) determine the fourth through
\*      max = min + NumCells(n, L, R) * side ;   four given values must satisfy it.
\* args == [min |-> Q or NoneQ, max |-> ..., n |-> Int or NONE, h |-> Q or NoneQ]
NGiven(args) == B2I(~IsNoneQ(args.min)) + B2I(~IsNoneQ(args.max)) + B2I(args.n # NONE) + B2I(~IsNoneQ(args.h))
Inconsistent == [min |-> NoneQ, max |-> NoneQ, n |-> NONE]
Complete(args, L, R) ==
  IF NGiven(args) < 3 THEN Inconsistent
  ELSE IF IsNoneQ(args.min)
    THEN [min |-> QSub(args.max, QMul(NumCells(args.n, L, R), args.h)), max |-> args.max, n |-> args.n]
  ELSE IF IsNoneQ(args.max)
    THEN [min |-> args.min, max |-> QAdd(args.min, QMul(NumCells(args.n, L, R), args.h)), n |-> args.n]
  ELSE IF args.n = NONE
    THEN LET nq == QAdd(QDiv(QSub(args.max, args.min), args.h), Q(B2I(L) + B2I(R), 2))
         IN  IF nq[2] = 1 /\ nq[1] >= 1 THEN [min |-> args.min, max |-> args.max, n |-> nq[1]] ELSE Inconsistent
  ELSE IF IsNoneQ(args.h) THEN [min |-> args.min, max |-> args.max, n |-> args.n]
  ELSE IF args.max = QAdd(args.min, QMul(NumCells(args.n, L, R), args.h))
    THEN [min |-> args.min, max |-> args.max, n |-> args.n]
  ELSE Inconsistent
UniformPartitionAxis(args, L, R) ==
  LET c == Complete(args, L, R)
  IN  IF c = Inconsistent \/ ~PlacementOK(c.min, c.max, c.n, L, R) THEN Axis(NoneQ, NoneQ, <<>>)
      ELSE UniformAxis(c.min, c.max, c.n, L, R)
IsErrAxis(ax) == IsNoneQ(ax.min)

\* partition from a grid: limits given or, by default, half a step beyond the outermost nodes
\* ("the grid points are the centres of the cells"); the default needs two nodes
FromGridAxis(g, mn, mx) ==
  LET n == Len(g)
  IN  Axis(IF IsNoneQ(mn) THEN QSub(g[1], QHalf(QSub(g[2], g[1]))) ELSE mn,
           IF IsNoneQ(mx) THEN QAdd(g[n], QHalf(QSub(g[n], g[n - 1]))) ELSE mx, g)
\* nonuniform_partition: explicit limit | node on the boundary | single node (degenerate) | half a step beyond
NonuniformAxis(g, mn, mx, L, R) ==
  LET n == Len(g)
  IN  Axis(IF ~IsNoneQ(mn) THEN mn ELSE IF L \/ n = 1 THEN g[1] ELSE QSub(g[1], QHalf(QSub(g[2], g[1]))),
           IF ~IsNoneQ(mx) THEN mx ELSE IF R \/ n = 1 THEN g[n] ELSE QAdd(g[n], QHalf(QSub(g[n], g[n - 1]))), g)

(* ------------------------- history-free reference answers ---------------- *)
\* what a partition answers to the four query kinds of the history machine (PartHist) - a function of its own
\* defining data (limits, nodes) only
Queries == {"lite", "sides", "index", "sub"}
LiteOf(part) == [k \in 1..Len(part) |-> [axis |-> part[k], d |-> DerivedOf(part[k])]]
SubOf(part)  == IF NN(part[1]) > 1 THEN GetItem(part, ITuple(<<ISlice(1, NONE, NONE)>>)) ELSE part
Ref(part, q) ==
  CASE q = "lite"  -> LiteOf(part)
    [] q = "sides" -> [k \in 1..Len(part) |-> IF IsUniform(part[k]) THEN CellSide(part[k]) ELSE NoneQ]
    [] q = "index" -> [k \in 1..Len(part) |-> [j \in 1..NN(part[k]) |-> Index0(part[k], part[k].nodes[j])]]
    [] q = "sub"   -> LiteOf(SubOf(part))
RefAll(part) == [lite |-> Ref(part, "lite"), sides |-> Ref(part, "sides"), index |-> Ref(part, "index"), sub |-> Ref(part, "sub")]

\* equality of a "lite" answer with the reference; the size of the single cell of a one-node axis is left out
\* (documented 0.0 convention of cell_sizes_vecs, open finding)
LiteSame(ref, obs) ==
  /\ Len(ref) = Len(obs)
  /\ \A k \in 1..Len(ref) :
        /\ obs[k].axis = ref[k].axis
        /\ \A f \in {"bdry", "sizes", "frac", "nob", "uniform", "side", "extent"} :
              \/ (f = "sizes" /\ NN(ref[k].axis) = 1 /\ ~Degenerate(ref[k].axis))
              \/ obs[k].d[f] = ref[k].d[f]
AnsSame(q, ref, obs) == IF q \in {"lite", "sub"} THEN LiteSame(ref, obs) ELSE ref = obs

(* ------------------------- the laws of C14 ------------------------------ *)
\* (these are the clauses of the property statement; TLC checks that the definitions above satisfy them)
LawBdryIncreasing(ax) == IF Degenerate(ax) THEN WeakInc(Bdry(ax)) ELSE StrictInc(Bdry(ax))
LawBdryEnds(ax)       == LET B == Bdry(ax) IN B[1] = ax.min /\ B[NN(ax) + 1] = ax.max
LawNodeInCell(ax)     == \A j \in 0..(NN(ax) - 1) : InCell(ax, j, ax.nodes[j + 1])
LawSizesSum(ax)       == QSumSeq(CellSizes(ax)) = Extent(ax)
LawSizesPositive(ax)  == Degenerate(ax) \/ \A j \in 1..NN(ax) : QLt(QZero, CellSizes(ax)[j])
AxisLaws(ax) == /\ LawBdryIncreasing(ax) /\ LawBdryEnds(ax) /\ LawNodeInCell(ax)
                /\ LawSizesSum(ax) /\ LawSizesPositive(ax)
\* uniform placement: side * count = extent, flags as requested, every interior cell has the side,
\* boundary cells are halved exactly where a node lies on the boundary
LawUniform(a, b, n, L, R) ==
  LET ax == UniformAxis(a, b, n, L, R)  h == SideOf(a, b, n, L, R)
  IN  /\ AxisOK(ax) /\ IsUniform(ax)
      /\ QMul(h, NumCells(n, L, R)) = Extent(ax)
      /\ (n > 1 => CellSide(ax) = h)
      /\ (a # b => NodesOnBdry(ax) = <<L, R>>)
      /\ (n > 1 => BdryFrac(ax) = <<IF L THEN <<1, 2>> ELSE QOne, IF R THEN <<1, 2>> ELSE QOne>>)
      /\ (n > 1 => \A j \in 1..n : CellSizes(ax)[j] =
                     IF (j = 1 /\ L) \/ (j = n /\ R) THEN QHalf(h) ELSE h)
\* point location: the returned cell contains the point; fractional position consistent with it
LawIndex(ax, p) ==
  LET j == Index0(ax, p)  B == Bdry(ax)  f == IndexF(ax, p)
  IN  /\ j \in 0..(NN(ax) - 1) /\ InCell(ax, j, p)
      /\ (QLt(p, B[j + 2]) \/ p = ax.max)
      /\ (Degenerate(ax) \/ (QLe(QI(j), f) /\ QLe(f, QI(j + 1))
                             /\ QAdd(B[j + 1], QMul(QSub(f, QI(j)), QSub(B[j + 2], B[j + 1]))) = p))
\* unit-step selection: the cells of the result are exactly the selected cells of the original
LawSelUnit(ax, it) ==
  LET sub == SelAxis(ax, it)  n == NN(ax)
      lo == IF it.k = "int" THEN NormInt(it.i, n) ELSE SlStart(it.a, n)
  IN  /\ AxisOK(sub)
      /\ Bdry(sub) = SubSeq(Bdry(ax), lo + 1, lo + NN(sub) + 1)
      /\ sub.nodes = SubSeq(ax.nodes, lo + 1, lo + NN(sub))
\* stepped selection: selected nodes, documented hull (cells do not tile - nothing more is required)
LawSelStep(ax, it) ==
  LET sub == SelAxis(ax, it)  n == NN(ax)  ix == SlIdx(it, n)
  IN  /\ AxisOK(sub)
      /\ sub.nodes = [t \in 1..Len(ix) |-> ax.nodes[ix[t] + 1]]
      /\ sub.min = Bdry(ax)[SlStart(it.a, n) + 1] /\ sub.max = Bdry(ax)[SlStop(it.b, n) + 1]
      /\ QLe(ax.min, sub.min) /\ QLe(sub.max, ax.max)
=============================================================================

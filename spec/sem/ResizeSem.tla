------------------------------ MODULE ResizeSem ------------------------------
(***************************************************************************)
(* Layer A (property C16): reference semantics of array resizing / padding, *)
(* written from the documentation (resize_array / ResizingOperator          *)
(* docstrings, DESIGN Appendix E3), NOT from odl/util/numerics.py.          *)
(*                                                                         *)
(* One axis: input f_0 .. f_{m-1}, output length n, offset o >= 0 = number  *)
(* of output entries left of the input when growing, = number of input      *)
(* entries skipped when shrinking.                                          *)
(*     growing  (n > m):  out_i = Ext(f)(i - o)                             *)
(*     shrinking (n < m): out_i = f_{i + o}                                 *)
(* Ext is the infinite extension by the named rule.  The result is a SOURCE *)
(* MAP: each output index |-> integer combination of input indices plus a   *)
(* multiple of the pad constant, i.e. an integer matrix `mat` (n x m) and   *)
(* an integer vector `aff` (coefficient of the pad constant).               *)
(* The adjoint direction is the transpose; N-d = composition over the axes. *)
(* The documented length restrictions are part of the reference (`adm`).    *)
(***************************************************************************)
EXTENDS ExactNum

Modes == {"constant", "periodic", "symmetric", "order0", "order1"}

Eager(s) == SubSeq(s, 1, Len(s))        \* identity (TLC: materialise a lazily defined sequence)
EagerM(M) == Eager([i \in 1..Len(M) |-> Eager(M[i])])

\* linear forms over m inputs: integer coefficient vector (position j+1 = input index j) and pad-constant coefficient
UnitF(m, j)      == [co |-> [k \in 1..m |-> IF k = j + 1 THEN 1 ELSE 0], k |-> 0]
ConstF(m)        == [co |-> [k \in 1..m |-> 0], k |-> 1]
Comb2F(m, a, i, b, j) ==      \* a * f_i + b * f_j   (i # j)
  [co |-> [k \in 1..m |-> IF k = i + 1 THEN a ELSE IF k = j + 1 THEN b ELSE 0], k |-> 0]

\* the infinite extension of f_0..f_{m-1} at integer position t, as a linear form
ExtForm(mode, m, t) ==
  IF t >= 0 /\ t < m THEN UnitF(m, t)
  ELSE CASE mode = "constant"  -> ConstF(m)
         [] mode = "periodic"  -> UnitF(m, t % m)
         \* reflection about the edge entry, the edge itself is not repeated
         [] mode = "symmetric" -> IF t < 0 THEN UnitF(m, -t) ELSE UnitF(m, 2 * (m - 1) - t)
         [] mode = "order0"    -> IF t < 0 THEN UnitF(m, 0) ELSE UnitF(m, m - 1)
         \* constant slope:  f_0 + t (f_1 - f_0)   /   f_{m-1} + (t-m+1)(f_{m-1} - f_{m-2})
         [] mode = "order1"    -> IF t < 0 THEN Comb2F(m, 1 - t, 0, t, 1)
                                           ELSE Comb2F(m, 1 + (t - m + 1), m - 1, -(t - m + 1), m - 2)

ValidOffset(m, n, o) == o >= 0 /\ o <= (IF n >= m THEN n - m ELSE m - n)

\* documented restrictions on the padding lengths (only where padding is applied)
Admissible1(mode, m, n, o) ==
  IF n <= m THEN TRUE
  ELSE LET padl == o  padr == n - m - o IN
       CASE mode = "constant"  -> TRUE
         [] mode = "periodic"  -> padl <= m /\ padr <= m
         [] mode = "symmetric" -> padl < m /\ padr < m
         [] mode = "order0"    -> m >= 1
         [] mode = "order1"    -> m >= 2

\* forward source map of one axis:  [mat (n x m), aff (n)]
Fwd1(mode, m, n, o) ==
  LET form(i) == IF n > m THEN ExtForm(mode, m, i - o)
                 ELSE IF n < m THEN UnitF(m, i + o)
                 ELSE UnitF(m, i)
      rows == [i \in 1..n |-> form(i - 1)]
  IN  [mat |-> EagerM([i \in 1..n |-> rows[i].co]), aff |-> Eager([i \in 1..n |-> rows[i].k])]

TransposeI(M, r, s) == EagerM([j \in 1..s |-> [i \in 1..r |-> M[i][j]]])     \* M is r x s

\* one axis of resize(arr of length m -> length n) in the given direction.
\* adjoint direction: the transpose of the forward map n -> m with the same offset and mode
AxisMap(mode, dir, m, n, o) ==
  IF dir = "forward"
    THEN LET F == Fwd1(mode, m, n, o) IN [mat |-> F.mat, aff |-> F.aff, adm |-> Admissible1(mode, m, n, o)]
    ELSE LET F == Fwd1(mode, n, m, o)
         IN  [mat |-> TransposeI(F.mat, m, n), aff |-> [i \in 1..n |-> 0], adm |-> Admissible1(mode, n, m, o)]

(* ----------------------------- N-d arrays ------------------------------- *)
RECURSIVE ProdFromR(_, _)
ProdFromR(shape, a) == IF a > Len(shape) THEN 1 ELSE shape[a] * ProdFromR(shape, a + 1)
SizeR(shape) == ProdFromR(shape, 1)

\* apply the axis map (mat n x m, aff) along axis a of a flat C-order INTEGER array of shape shapeIn
ApplyAxisI(mat, aff, c, shapeIn, a, arr) ==
  LET m  == shapeIn[a]
      n  == Len(mat)
      st == ProdFromR(shapeIn, a + 1)
      No == (SizeR(shapeIn) \div m) * n
  IN  Eager([k \in 1..No |->
        LET i     == ((k - 1) \div st) % n
            outer == (k - 1) \div (n * st)
            inner == (k - 1) % st
            base  == outer * m * st + inner + 1
            RECURSIVE Acc(_)
            Acc(t) == IF t > m THEN 0 ELSE mat[i + 1][t] * arr[base + (t - 1) * st] + Acc(t + 1)
        IN  Acc(1) + aff[i + 1] * c])
\* the same on Gaussian-rational arrays (pad constant c a Gaussian rational)
ApplyAxisC(mat, aff, c, shapeIn, a, arr) ==
  LET m  == shapeIn[a]
      n  == Len(mat)
      st == ProdFromR(shapeIn, a + 1)
      No == (SizeR(shapeIn) \div m) * n
  IN  Eager([k \in 1..No |->
        LET i     == ((k - 1) \div st) % n
            outer == (k - 1) \div (n * st)
            inner == (k - 1) % st
            base  == outer * m * st + inner + 1
        IN  CAdd(CSumSeq([t \in 1..m |-> IF mat[i + 1][t] = 0 THEN CZero
                                          ELSE CScal(QI(mat[i + 1][t]), arr[base + (t - 1) * st])]),
                 CScal(QI(aff[i + 1]), c))])

\* composition over the axes in the order given by `order` (a permutation of 1..d)
RECURSIVE FoldI(_, _, _, _, _, _, _, _)
FoldI(mode, dir, c, shape, shapeOut, offs, order, arr) ==
  IF order = <<>> THEN arr
  ELSE LET a == Head(order)
           R == AxisMap(mode, dir, shape[a], shapeOut[a], offs[a])
       IN  FoldI(mode, dir, c, [shape EXCEPT ![a] = shapeOut[a]], shapeOut, offs, Tail(order),
                 ApplyAxisI(R.mat, R.aff, c, shape, a, arr))
RECURSIVE FoldC(_, _, _, _, _, _, _, _)
FoldC(mode, dir, c, shape, shapeOut, offs, order, arr) ==
  IF order = <<>> THEN arr
  ELSE LET a == Head(order)
           R == AxisMap(mode, dir, shape[a], shapeOut[a], offs[a])
       IN  FoldC(mode, dir, c, [shape EXCEPT ![a] = shapeOut[a]], shapeOut, offs, Tail(order),
                 ApplyAxisC(R.mat, R.aff, c, shape, a, arr))

AxesOf(shape) == [a \in 1..Len(shape) |-> a]
RevAxesOf(shape) == [a \in 1..Len(shape) |-> Len(shape) + 1 - a]

AdmissibleND(mode, dir, shapeIn, shapeOut, offs) ==
  \A a \in 1..Len(shapeIn) : AxisMap(mode, dir, shapeIn[a], shapeOut[a], offs[a]).adm
\* An offset entry on an axis whose size does not change has nothing to add or remove: it is ignored (this is what makes
\* the scalar spelling offset=k of an n-d resizing that changes only some axes meaningful: k = [k, 0] there).
EffOffs(shapeIn, shapeOut, offs) == [a \in 1..Len(shapeIn) |-> IF shapeIn[a] = shapeOut[a] THEN 0 ELSE offs[a]]
ValidOffsets(shapeIn, shapeOut, offs) ==
  \A a \in 1..Len(shapeIn) : ValidOffset(shapeIn[a], shapeOut[a], offs[a])

\* Resize(arr, ...): resize_array on Gaussian-rational data, either direction
Resize(mode, dir, c, shapeIn, shapeOut, offs, arr) ==
  FoldC(mode, dir, c, shapeIn, shapeOut, offs, AxesOf(shapeIn), arr)
\* on integer data
ResizeI(mode, dir, c, shapeIn, shapeOut, offs, arr) ==
  FoldI(mode, dir, c, shapeIn, shapeOut, offs, AxesOf(shapeIn), arr)

\* full matrix (rows = flat output, columns = flat input) and affine vector on flat arrays
UnitArr(N, j) == [k \in 1..N |-> IF k = j THEN 1 ELSE 0]
ZeroArr(N)    == [k \in 1..N |-> 0]
FullMat(mode, dir, shapeIn, shapeOut, offs) ==
  LET Ni == SizeR(shapeIn)
      No == SizeR(shapeOut)
      cols == EagerM([j \in 1..Ni |-> ResizeI(mode, dir, 0, shapeIn, shapeOut, offs, Eager(UnitArr(Ni, j)))])
  IN  EagerM([i \in 1..No |-> [j \in 1..Ni |-> cols[j][i]]])
FullAff(mode, dir, shapeIn, shapeOut, offs) ==
  ResizeI(mode, dir, 1, shapeIn, shapeOut, offs, Eager(ZeroArr(SizeR(shapeIn))))

MatMulI(A, B, r, s, t) ==      \* A is r x s, B is s x t
  LET RECURSIVE Dot(_, _, _)
      Dot(i, j, k) == IF k > s THEN 0 ELSE A[i][k] * B[k][j] + Dot(i, j, k + 1)
  IN  EagerM([i \in 1..r |-> [j \in 1..t |-> Dot(i, j, 1)]])
IdentI(n) == EagerM([i \in 1..n |-> [j \in 1..n |-> IF i = j THEN 1 ELSE 0]])

(* ----------------------------- data type of the fill --------------------- *)
\* "fills the remainder with the constant value": the pad constant is a value of the data type of the RESULT
\* (for ResizingOperator: of the range, whatever the data type of the domain is).  The reference decides the padded
\* values exactly when the constant is representable in that type; otherwise the fill is whatever NumPy's conversion
\* gives, which only the numpy.pad cross-check judges.  Type classes: "int", "f32", "f64", "c64", "c128".
RECURSIVE IsPow2(_)
IsPow2(d) == d = 1 \/ (d > 1 /\ d % 2 = 0 /\ IsPow2(d \div 2))
InF32(q) == IsPow2(q[2]) /\ Abs(q[1]) < 16777216            \* 24-bit significand (exponent range not an issue here)
InF64(q) == IsPow2(q[2])                                     \* every dyadic number TLC can hold is a float64
Representable(c, dt) ==
  CASE dt = "int" -> c[2] = QZero /\ c[1][2] = 1
    [] dt = "f32" -> c[2] = QZero /\ InF32(c[1])
    [] dt = "f64" -> c[2] = QZero /\ InF64(c[1])
    [] dt = "c64" -> InF32(c[1]) /\ InF32(c[2])
    [] OTHER      -> InF64(c[1]) /\ InF64(c[2])
\* the operator (or array map) is linear iff it does not pad with a non-zero constant - judged on the constant itself
IsLinearResize(mode, c) == mode # "constant" \/ c = CZero

(* ----------------------------- operator geometry ------------------------ *)
\* ResizingOperator on a uniform partition [lo, hi] with n cells per axis: the range keeps the cell side
\* h = (hi - lo) / n, gains o cells on the left when growing and loses o cells there when shrinking.
CellSide(lo, hi, n) == QDiv(QSub(hi, lo), QI(n))
RangeLo(lo, hi, m, n, o) ==
  LET h == CellSide(lo, hi, m) IN
  IF n >= m THEN QSub(lo, QMul(QI(o), h)) ELSE QAdd(lo, QMul(QI(o), h))
RangeHi(lo, hi, m, n, o) == QAdd(RangeLo(lo, hi, m, n, o), QMul(QI(n), CellSide(lo, hi, m)))
\* The same with nodes on the boundary (documentation of uniform_partition / DESIGN E2).  A uniform partition of
\* [lo, hi] with m nodes and flags L, R (1: the first / last node lies ON the boundary, 0: half a cell inside) has
\* m - (L + R)/2 cells.  ResizingOperator(domain, ran_shp, offset, discr_kwargs={'nodes_on_bdry': (rL, rR)}):
\* the range keeps the cell side and its nodes are the domain nodes continued with the same spacing (so that the
\* copied block sits at the same physical grid points); rL, rR only decide where the range ENDS relative to its
\* first / last node.  All-zero flags give RangeLo / RangeHi above.
CellsB2(m, L, R) == 2 * m - L - R                                   \* twice the number of cells
CellSideB(lo, hi, m, L, R) == QDiv(QMul(QI(2), QSub(hi, lo)), QI(CellsB2(m, L, R)))
HalfIf0(flag, h) == IF flag = 1 THEN QZero ELSE QHalf(h)
Node0B(lo, hi, m, L, R) == QAdd(lo, HalfIf0(L, CellSideB(lo, hi, m, L, R)))
RangeNode0B(lo, hi, m, n, o, dL, dR) ==
  LET h == CellSideB(lo, hi, m, dL, dR)
      g == Node0B(lo, hi, m, dL, dR)
  IN  IF n >= m THEN QSub(g, QMul(QI(o), h)) ELSE QAdd(g, QMul(QI(o), h))
RangeLoB(lo, hi, m, n, o, dL, dR, rL) ==
  QSub(RangeNode0B(lo, hi, m, n, o, dL, dR), HalfIf0(rL, CellSideB(lo, hi, m, dL, dR)))
RangeHiB(lo, hi, m, n, o, dL, dR, rR) ==
  LET h == CellSideB(lo, hi, m, dL, dR)
  IN  QAdd(QAdd(RangeNode0B(lo, hi, m, n, o, dL, dR), QMul(QI(n - 1), h)), HalfIf0(rR, h))
\* flags are meaningful only on axes with at least two nodes
FlagsOK(m, n, dL, dR, rL, rR) == (dL + dR > 0 => m >= 2) /\ (rL + rR > 0 => n >= 2)
\* default offset: the difference is distributed evenly, the left side is preferred when growing by an odd
\* number; when shrinking by an odd number the documentation does not say which side loses more
DefaultOffsetOK(m, n, o) ==
  IF n >= m THEN o = (n - m) - ((n - m) \div 2)
  ELSE o \in {(m - n) \div 2, (m - n) - ((m - n) \div 2)}
=============================================================================

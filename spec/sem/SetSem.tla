------------------------------- MODULE SetSem -------------------------------
(***************************************************************************)
(* Layer A for property C20: what equality, membership and element         *)
(* creation MEAN for ODL's sets, grids, partitions, weightings and spaces. *)
(* Written from the class documentation and DESIGN Appendix E11:           *)
(*   equality = same class and equal defining data                         *)
(*     fields / Empty / Universal : the class                               *)
(*     Strings : the length;   CartesianProduct : the ordered components    *)
(*     SetUnion / SetIntersection / FiniteSet : the SET of components       *)
(*        ("has the same subsets", duplicates ignored, order irrelevant)    *)
(*     IntervalProd / RectGrid / RectPartition : exact coordinates          *)
(*     weightings : the KIND (constant / array / custom inner, norm, dist), *)
(*        the exponent, and the constant by value, the array by IDENTITY    *)
(*        (documented: "identical array"), the callable by identity         *)
(*     spaces : shape, dtype, weighting (tensor); partition and tensor      *)
(*        space (discretised); weighting and ordered components (product)   *)
(*                                                                         *)
(* A descriptor is a record with uniformly typed fields                     *)
(*   cls  class tag (STRING)                                                *)
(*   sub  Seq(descriptor)   components / weighting / partition / ...        *)
(*   q    Seq(Seq(Q))       numeric data (coordinates, shape, constants)    *)
(*   s    STRING            dtype / callable tag / storage flag             *)
(*   id   Nat               identity of the array object of an array        *)
(*                          weighting (0 = none)                            *)
(* An OBJECT (instance) is [oid |-> unique number, d |-> descriptor].       *)
(***************************************************************************)
EXTENDS ExactNum, TLC

Dsc(cls, sub, q, s, id) == [cls |-> cls, sub |-> sub, q |-> q, s |-> s, id |-> id, x |-> ""]
\* x: constructor arguments / attributes that equality does NOT compare (documented: DiscretizedSpace "is equal
\* if tspace and partition are" -- axis_labels are not part of it; ProductSpace compares length, weighting and
\* factors -- an explicitly passed `field` is not).  Objects that differ only in x are EQUAL, so they must hash
\* equal, too.  SetEq below never looks at x.
WithX(d, x) == [d EXCEPT !.x = x]
\* NEAR-equal numbers: <<n, d, k>> is the floating-point number k ulps next to n/d (k # 0).  It is a different
\* number than <<n, d>> -- equality of coordinates, constants and exponents is EXACT (the tolerant comparison
\* is the separate, documented approx_equals) -- so plain equality of the tuples is the right comparison.
QU(n, d, k) == <<n, d, k>>
RECURSIVE HasUlp(_)
HasUlp(d) == (\E v \in 1..Len(d.q) : \E i \in 1..Len(d.q[v]) : Len(d.q[v][i]) = 3)
             \/ \E k \in 1..Len(d.sub) : HasUlp(d.sub[k])

SetClasses   == {"EmptySet", "UniversalSet", "RealNumbers", "ComplexNumbers", "Integers", "Strings",
                 "CartesianProduct", "SetUnion", "SetIntersection", "FiniteSet", "IntervalProd",
                 "RectGrid", "RectPartition"}
UnorderedCls == {"SetUnion", "SetIntersection"}
ConstW  == {"TWConst", "PWConst"}
ArrayW  == {"TWArray", "PWArray"}
CInnerW == {"TWCustomInner", "PWCustomInner"}
CNormW  == {"TWCustomNorm", "PWCustomNorm"}
CDistW  == {"TWCustomDist", "PWCustomDist"}
WeightingClasses == ConstW \cup ArrayW \cup CInnerW \cup CNormW \cup CDistW
SpaceClasses == {"Tensor", "Discr", "PSpace"}

IsWeighting(d) == d.cls \in WeightingClasses
IsSpace(d)     == d.cls \in SpaceClasses
WKind(d) == CASE d.cls \in ConstW -> "const" [] d.cls \in ArrayW -> "array" [] d.cls \in CInnerW -> "cinner"
              [] d.cls \in CNormW -> "cnorm" [] d.cls \in CDistW -> "cdist" [] OTHER -> "none"
\* weighting data: q[1] = <<exponent>> (Inf token for inf), q[2] = <<const>> or the array values
WExp(d)   == d.q[1][1]
WConstOf(d) == d.q[2][1]
WArrOf(d) == d.q[2]

(* ------------------------------ equality -------------------------------- *)
RECURSIVE SetEq(_, _)
SetEq(a, b) ==
  IF IsWeighting(a) \/ IsWeighting(b)
    THEN /\ IsWeighting(a) /\ IsWeighting(b)
         /\ WKind(a) = WKind(b)
         /\ WExp(a) = WExp(b)
         /\ CASE WKind(a) = "const" -> WConstOf(a) = WConstOf(b)
              [] WKind(a) = "array" -> a.id = b.id                 \* identity of the array object
              [] OTHER -> a.s = b.s                                \* the same callable
  ELSE IF a.cls # b.cls THEN FALSE
  ELSE IF a.cls \in UnorderedCls
    THEN /\ \A i \in 1..Len(a.sub) : \E j \in 1..Len(b.sub) : SetEq(a.sub[i], b.sub[j])
         /\ \A j \in 1..Len(b.sub) : \E i \in 1..Len(a.sub) : SetEq(a.sub[i], b.sub[j])
  ELSE IF a.cls = "FiniteSet"
    THEN {a.q[1][i] : i \in 1..Len(a.q[1])} = {b.q[1][i] : i \in 1..Len(b.q[1])}
  ELSE /\ a.q = b.q                                                \* exact numbers (0.0 and -0.0 are one number)
       /\ (a.cls # "Tensor" \/ a.s = b.s)                          \* s: the dtype of a tensor space;
                                                                   \* elsewhere a storage / construction hint
       /\ Len(a.sub) = Len(b.sub)
       /\ \A k \in 1..Len(a.sub) : SetEq(a.sub[k], b.sub[k])

\* objects
ObjEq(x, y) == SetEq(x.d, y.d)

(* ------------------------------ membership ------------------------------ *)
\* an element belongs to a space exactly when its own space equals that space
Member(xspace, S) == IsSpace(S) /\ SetEq(xspace, S)

(* ------------------------------ spaces: data ----------------------------- *)
\* Tensor: q[1] = shape, s = dtype, sub[1] = weighting
\* Discr : sub[1] = partition, sub[2] = tensor space
\* PSpace: sub[1] = weighting, sub[2..] = components
RECURSIVE ShapeOf(_), ShapesFrom(_, _)
TensorOf(spc) == IF spc.cls = "Discr" THEN spc.sub[2] ELSE spc
\* tree shape: a leaf has its array shape; a product space of n components has <<-n>> followed by the
\* tree shapes of its components
ShapesFrom(subs, k) == IF k > Len(subs) THEN <<>> ELSE ShapeOf(subs[k]) \o ShapesFrom(subs, k + 1)
ShapeOf(spc) == IF spc.cls = "PSpace"
                  THEN <<QI(-(Len(spc.sub) - 1))>> \o ShapesFrom(spc.sub, 2)
                  ELSE TensorOf(spc).q[1]
\* dtypes of the leaves, in order; the dtype of a space: the common one, or "mixed:<leaf dtypes>" for a
\* product space whose components have different dtypes (ProductSpace.dtype is not defined there)
RECURSIVE LeafDts(_), LeafDtsFrom(_, _), JoinDts(_, _)
LeafDtsFrom(subs, k) == IF k > Len(subs) THEN <<>> ELSE LeafDts(subs[k]) \o LeafDtsFrom(subs, k + 1)
LeafDts(spc) == IF spc.cls = "PSpace" THEN LeafDtsFrom(spc.sub, 2) ELSE <<TensorOf(spc).s>>
JoinDts(ds, k) == IF k > Len(ds) THEN "" ELSE (IF k = 1 THEN "" ELSE ",") \o ds[k] \o JoinDts(ds, k + 1)
DtStr(ds) == IF \A k \in 1..Len(ds) : ds[k] = ds[1] THEN ds[1] ELSE "mixed:" \o JoinDts(ds, 1)
DtypeOf(spc) == DtStr(LeafDts(spc))
FieldOfDtype(dt) == IF dt \in {"c64", "c128"} THEN "C" ELSE "R"
FieldOf(spc) == FieldOfDtype(LeafDts(spc)[1])
WeightingOf(spc) == IF spc.cls = "PSpace" THEN spc.sub[1] ELSE TensorOf(spc).sub[1]
Comps(spc) == SubSeq(spc.sub, 2, Len(spc.sub))

(* ---------------------------- element creation --------------------------- *)
(* space.element(inp):                                                       *)
(*   inp is an element whose space equals `spc`  -> inp itself               *)
(*   otherwise, shapes compatible                -> a new element whose      *)
(*                              values are the input converted to the dtype  *)
(*   otherwise                                   -> raises                   *)
(* inp = [k |-> "elem" | "data", spc |-> descriptor of inp.space (elem),     *)
(*        shape |-> Seq(Q), vals |-> flat Seq(C)]                            *)
(* (conversions used by the harness are exact on the chosen values: int ->   *)
(*  float -> complex, float64 <-> float32 on small dyadics, and complex      *)
(*  inputs are offered to complex spaces only)                               *)
ElementOf(spc, inp) ==
  IF inp.k = "elem" /\ SetEq(inp.spc, spc) THEN [k |-> "same", vals |-> inp.vals]
  ELSE IF inp.shape = ShapeOf(spc) THEN [k |-> "new", vals |-> inp.vals]
  ELSE [k |-> "raise", vals |-> <<>>]

(* ------------------------------ derived spaces --------------------------- *)
(* The result is described by what the property names: shape, dtype, field, *)
(* and the weighting OF THE SELECTION as [kind, exponent, const, arr]        *)
(* (array weights by value: the selected / converted entries).               *)
WView(w) == [kind |-> WKind(w), exp |-> WExp(w),
             c |-> (IF WKind(w) = "const" THEN WConstOf(w) ELSE QOne),
             arr |-> (IF WKind(w) = "array" THEN WArrOf(w) ELSE <<>>),
             tag |-> (IF WKind(w) \in {"cinner", "cnorm", "cdist"} THEN w.s ELSE "")]
\* nw: the weightings of the NESTED product spaces (pre-order), so that a view shows every weighting that is
\* not a leaf's own
RECURSIVE NestedW(_), NestedWFrom(_, _)
NestedWFrom(subs, k) ==
  IF k > Len(subs) THEN <<>>
  ELSE (IF subs[k].cls = "PSpace" THEN <<WView(subs[k].sub[1])>> \o NestedW(subs[k]) ELSE <<>>) \o NestedWFrom(subs, k + 1)
NestedW(spc) == IF spc.cls = "PSpace" THEN NestedWFrom(spc.sub, 2) ELSE <<>>
View(spc) == [shape |-> ShapeOf(spc), dt |-> DtypeOf(spc), fld |-> FieldOf(spc), w |-> WView(WeightingOf(spc)),
              nw |-> NestedW(spc)]

\* astype / real_space / complex_space: everything but the dtype (and hence the field) is kept
AstypeView(spc, dt) == [View(spc) EXCEPT !.dt = dt, !.fld = FieldOfDtype(dt)]

\* selection of axes idx (sequence of 1-based axis numbers) of a tensor space:
\* shape of the selection; constant weights are kept; array weights are claimed only for a
\* permutation of ALL axes, where the selection's weights are the correspondingly transposed array
Perm(idx, n) == Len(idx) = n /\ {idx[k] : k \in 1..n} = 1..n
IntOfQ(qq) == qq[1]
\* transposition of a 2-d C-order array (rows r, cols c) given flat
Transpose2(arr, r, c) == [k \in 1..(r * c) |-> arr[((k - 1) % r) * c + ((k - 1) \div r) + 1]]
ByAxisClaimed(spc, idx) ==
  WKind(WeightingOf(spc)) # "array" \/ (Perm(idx, Len(ShapeOf(spc))) /\ Len(idx) <= 2)
ByAxisView(spc, idx) ==
  LET sh == ShapeOf(spc)  w == WView(WeightingOf(spc))
      ident == \A k \in 1..Len(idx) : idx[k] = k
  IN  [View(spc) EXCEPT !.shape = [k \in 1..Len(idx) |-> sh[idx[k]]],
                        !.w = IF w.kind = "array" /\ ~ident
                                THEN [w EXCEPT !.arr = Transpose2(w.arr, IntOfQ(sh[1]), IntOfQ(sh[2]))]
                                ELSE w]

\* product-space indexing by a list of component numbers (1-based): the components, the same
\* exponent, a constant weight kept, an array weight restricted to the selected entries
PSelectView(spc, idx) ==
  LET w == WView(WeightingOf(spc))
      cs == Comps(spc)
  IN  [shape |-> <<QI(-Len(idx))>> \o ShapesFrom([k \in 1..Len(idx) |-> cs[idx[k]]], 1),
       dt |-> DtStr(LeafDtsFrom([k \in 1..Len(idx) |-> cs[idx[k]]], 1)), fld |-> FieldOf(spc),
       w |-> IF w.kind = "array" THEN [w EXCEPT !.arr = [k \in 1..Len(idx) |-> w.arr[idx[k]]]] ELSE w,
       nw |-> NestedWFrom([k \in 1..Len(idx) |-> cs[idx[k]]], 1)]

(* ------------------- derived-space cases: enumeration, expectation, claims -------------- *)
(* A case is [op, dt, idx, form]:                                                          *)
(*   op   astype | real_space | complex_space | byaxis | byaxis_in | getitem-int | getitem-list *)
(*   dt   target dtype (dtype-changing ops), "" otherwise                                   *)
(*   idx  1-based axis / component numbers selected, in order                               *)
(*   form the spelling of the index expression (int-or-list | slice | negative-int | ...)   *)
DCase(op, dt, idx, form) == [op |-> op, dt |-> dt, idx |-> idx, form |-> form]
Floating(dt) == dt \in {"f32", "f64", "c64", "c128"}
RealDt(dt) == CASE dt = "c64" -> "f32" [] dt = "c128" -> "f64" [] OTHER -> dt
CplxDt(dt) == CASE dt = "f32" -> "c64" [] dt = "f64" -> "c128" [] OTHER -> dt
MapDts(ds, mode) == [k \in 1..Len(ds) |-> IF mode = "real" THEN RealDt(ds[k]) ELSE CplxDt(ds[k])]
NDim(spc) == Len(ShapeOf(spc))
AxisIdxs(nd) == IF nd = 1 THEN {<<1>>}
                ELSE {<<1>>, <<2>>, <<1, 2>>, <<2, 1>>, <<1, 1>>} \cup (IF nd = 3 THEN {<<3, 1, 2>>, <<1, 2, 3>>} ELSE {})
DerivedCases(spc) ==
  LET dt0 == DtypeOf(spc)  nd == NDim(spc)  axop == IF spc.cls = "Discr" THEN "byaxis_in" ELSE "byaxis"
      n == Len(spc.sub) - 1
  IN
       {DCase("astype", t, <<>>, "call") : t \in {"f32", "f64", "c64", "c128", "i64"}}
  \cup (IF \A k \in 1..Len(LeafDts(spc)) : Floating(LeafDts(spc)[k])
          THEN {DCase("real_space", DtStr(MapDts(LeafDts(spc), "real")), <<>>, "property"),
                DCase("complex_space", DtStr(MapDts(LeafDts(spc), "complex")), <<>>, "property")} ELSE {})
  \cup (IF spc.cls \in {"Tensor", "Discr"}
          THEN {DCase(axop, "", ix, "int-or-list") : ix \in AxisIdxs(nd)}
               \cup {DCase(axop, "", <<nd>>, "negative-int")}
               \cup (IF nd >= 2 THEN {DCase(axop, "", [a \in 1..nd |-> a], "slice"),
                                      DCase(axop, "", [a \in 1..(nd - 1) |-> a + 1], "slice")} ELSE {})
          ELSE {})
  \cup (IF spc.cls = "PSpace"
          THEN {DCase("getitem-int", "", <<k>>, "int") : k \in 1..n}
               \cup {DCase("getitem-int", "", <<n>>, "negative-int"),
                     DCase("getitem-list", "", [k \in 1..n |-> k], "slice"),
                     DCase("getitem-list", "", [k \in 1..(n - 1) |-> k + 1], "slice-from-1"),
                     DCase("getitem-list", "", <<1>>, "slice-to-1"),
                     DCase("getitem-list", "", <<n, 1>>, "list"),
                     DCase("getitem-list", "", [k \in 1..((n + 1) \div 2) |-> 2 * k - 1], "stepped-slice")}
          ELSE {})

\* default weighting of a discretised space over the selected axes: the cell volume of the selection
GridOf(spc) == spc.sub[1].sub[2]
SideOf(spc, a) == LET v == GridOf(spc).q[a] IN IF Len(v) = 1 THEN QOne ELSE QSub(v[2], v[1])
RECURSIVE QProd(_)
QProd(s) == IF s = <<>> THEN QOne ELSE QMul(Head(s), QProd(Tail(s)))
CellVolOf(spc, idx) == QProd([k \in 1..Len(idx) |-> SideOf(spc, idx[k])])
AllAxes(spc) == [a \in 1..Len(GridOf(spc).q) |-> a]
HasDefaultWeighting(spc) ==
  LET w == WView(WeightingOf(spc)) IN
  w.kind = "const" /\ w.c = (IF w.exp = Inf THEN QOne ELSE CellVolOf(spc, AllAxes(spc)))

\* is anything claimed about the result at all / about its weighting?
DerivedClaimed(spc, c) == IF c.op = "byaxis" THEN ByAxisClaimed(spc, c.idx) ELSE TRUE
DerivedWeightingClaimed(spc, c) ==
  CASE c.op = "astype" -> Floating(c.dt)
    [] c.op \in {"real_space", "complex_space"} -> TRUE
    [] c.op = "byaxis" -> TRUE
    [] c.op = "byaxis_in" -> HasDefaultWeighting(spc)        \* documented: "except possibly weighting"
    [] c.op \in {"getitem-int", "getitem-list"} -> TRUE
\* the view layer A expects
DerivedView(spc, c) ==
  \* dtype changes are COMPONENT-WISE on product spaces: P.astype(t) = ProductSpace(*[c.astype(t) for c in P]),
  \* real_space / complex_space take the counterpart of every component
  CASE c.op = "astype" -> AstypeView(spc, c.dt)
    [] c.op = "real_space" -> [View(spc) EXCEPT !.dt = DtStr(MapDts(LeafDts(spc), "real")), !.fld = "R"]
    [] c.op = "complex_space" -> [View(spc) EXCEPT !.dt = DtStr(MapDts(LeafDts(spc), "complex")), !.fld = "C"]
    [] c.op = "byaxis" -> ByAxisView(spc, c.idx)
    [] c.op = "byaxis_in" ->
         LET v == ByAxisView(spc, c.idx) IN
         [v EXCEPT !.w = [v.w EXCEPT !.c = IF v.w.exp = Inf THEN QOne ELSE CellVolOf(spc, c.idx)]]
    [] c.op = "getitem-int" -> View(Comps(spc)[c.idx[1]])
    [] c.op = "getitem-list" -> PSelectView(spc, c.idx)
\* the DESCRIPTOR of the space a derived-space case must be equal to (where everything incl. the weighting is
\* claimed): it is built DIRECTLY by the harness and compared (==, hash, set / dict / element membership) with
\* the derived object -- "derived" and "direct" objects typically differ in non-compared attributes (x)
RECURSIVE AstypeDesc(_, _)
AstypeDesc(d, mode) ==       \* mode: a dtype, or "real" / "complex" for the counterparts
  LET t(dt) == IF mode = "real" THEN RealDt(dt) ELSE IF mode = "complex" THEN CplxDt(dt) ELSE mode IN
  CASE d.cls = "Tensor" -> [d EXCEPT !.s = t(d.s)]
    [] d.cls = "Discr" -> [d EXCEPT !.sub = <<d.sub[1], [d.sub[2] EXCEPT !.s = t(d.sub[2].s)]>>, !.x = ""]
    [] d.cls = "PSpace" -> [d EXCEPT !.sub = <<d.sub[1]>> \o [k \in 1..(Len(d.sub) - 1) |-> AstypeDesc(d.sub[k + 1], mode)],
                                     !.x = ""]
SelSeq(sq, idx) == [k \in 1..Len(idx) |-> sq[idx[k]]]
DerivedDescDefined(spc, c) ==
  /\ DerivedClaimed(spc, c) /\ DerivedWeightingClaimed(spc, c)
  /\ WKind(WeightingOf(spc)) # "array" \/ c.op \in {"getitem-int"}
  /\ (c.op = "getitem-list" => Len(c.idx) > 0)
DerivedDesc(spc, c) ==
  CASE c.op = "astype" -> AstypeDesc(spc, c.dt)
    [] c.op = "real_space" -> AstypeDesc(spc, "real")
    [] c.op = "complex_space" -> AstypeDesc(spc, "complex")
    [] c.op = "byaxis" -> [spc EXCEPT !.q = <<SelSeq(spc.q[1], c.idx)>>]
    [] c.op = "byaxis_in" ->
         LET pt == spc.sub[1]  iv == pt.sub[1]  gr == pt.sub[2]  tn == spc.sub[2]  w == tn.sub[1]
             nw == [w EXCEPT !.q = <<w.q[1], <<IF WExp(w) = Inf THEN QOne ELSE CellVolOf(spc, c.idx)>>>>]
         IN  [spc EXCEPT !.x = "", !.s = "",
                         !.sub = <<[pt EXCEPT !.sub = <<[iv EXCEPT !.q = <<SelSeq(iv.q[1], c.idx), SelSeq(iv.q[2], c.idx)>>],
                                                         [gr EXCEPT !.q = SelSeq(gr.q, c.idx)]>>],
                                   [tn EXCEPT !.q = <<SelSeq(tn.q[1], c.idx)>>, !.sub = <<nw>>]>>]
    [] c.op = "getitem-int" -> Comps(spc)[c.idx[1]]
    [] c.op = "getitem-list" ->
         LET w == spc.sub[1] IN
         [spc EXCEPT !.x = "", !.sub = <<IF WKind(w) = "array" THEN [w EXCEPT !.q = <<w.q[1], SelSeq(w.q[2], c.idx)>>] ELSE w>>
                                        \o SelSeq(Comps(spc), c.idx)]

\* fields in which an observed / modelled view differs from the expected one
ViewDiff(obs, exp, withw) ==
       (IF obs.shape # exp.shape THEN {"shape"} ELSE {})
  \cup (IF obs.dt # exp.dt THEN {"dtype"} ELSE {})
  \cup (IF obs.fld # exp.fld THEN {"field"} ELSE {})
  \cup (IF withw /\ (obs.w # exp.w \/ obs.nw # exp.nw) THEN {"weighting"} ELSE {})
\* result [k |-> "ok" | "raise", view] against layer A: the set of failing clause stems
DerivedDiff(spc, c, res) ==
  IF ~DerivedClaimed(spc, c) THEN {}
  ELSE IF res.k = "raise" THEN {"raises"}
  ELSE ViewDiff(res.view, DerivedView(spc, c), DerivedWeightingClaimed(spc, c))

(* ------------------------ chains of derived spaces (histories) -------------------------- *)
(* Derived spaces are FUNCTIONS of the space they are taken from: whatever was computed from a *)
(* space before (caches), the same chain of operations from an equal space gives an equal     *)
(* space.  The expectation for a chain is therefore the fold of the single-step views.        *)
(*   op = [op |-> "astype" | "real_space" | "complex_space" | "byaxis", dt, idx]              *)
(*   e  = [k |-> "ok" | "unclaimed", view, wclaim]  (wclaim: the weighting is still claimed)  *)
IsCplx(dt)  == dt \in {"c64", "c128"}
FloatingX(dt) == dt \in {"f16", "f32", "f64", "c64", "c128"}
\* the documented counterparts: real part type of a complex type; np.result_type(dtype, 1j) of a float type
ARealDt(dt) == CASE dt = "c64" -> "f32" [] dt = "c128" -> "f64" [] OTHER -> dt
ACplxDt(dt) == CASE dt \in {"f16", "f32", "c64"} -> "c64" [] dt \in {"f64", "c128"} -> "c128" [] OTHER -> "none"
COp(op, dt, idx) == [op |-> op, dt |-> dt, idx |-> idx]
AView(v, t) == [v EXCEPT !.dt = t, !.fld = FieldOfDtype(t)]
AStep(e, o) ==
  IF e.k # "ok" THEN e
  ELSE LET v == e.view IN
    CASE o.op = "astype" -> [k |-> "ok", view |-> AView(v, o.dt), wclaim |-> e.wclaim /\ (o.dt = v.dt \/ FloatingX(o.dt))]
      [] o.op = "real_space" -> [k |-> "ok", view |-> AView(v, ARealDt(v.dt)), wclaim |-> e.wclaim]
      [] o.op = "complex_space" ->
           IF ACplxDt(v.dt) = "none" THEN [e EXCEPT !.k = "unclaimed"]     \* integers: no complex counterpart documented
           ELSE [k |-> "ok", view |-> AView(v, ACplxDt(v.dt)), wclaim |-> e.wclaim]
      [] o.op = "byaxis" -> [e EXCEPT !.view = [v EXCEPT !.shape = [k \in 1..Len(o.idx) |-> v.shape[o.idx[k]]]]]
\* the descriptor a chain leads to (for the derived-vs-direct comparison at the end of the chain)
DStep(d, o) ==
  CASE o.op = "astype" -> AstypeDesc(d, o.dt)
    [] o.op = "real_space" -> AstypeDesc(d, "real")
    [] o.op = "complex_space" -> AstypeDesc(d, IF ACplxDt(LeafDts(d)[1]) = "none" THEN LeafDts(d)[1] ELSE ACplxDt(LeafDts(d)[1]))
    [] o.op = "byaxis" -> [d EXCEPT !.q = <<SelSeq(d.q[1], o.idx)>>]
RECURSIVE DFold(_, _, _)
DFold(d, path, k) == IF k > Len(path) THEN d ELSE DFold(DStep(d, path[k]), path, k + 1)
ChainDesc(spc, path) == DFold(spc, path, 1)
RECURSIVE AFold(_, _, _)
AFold(e, path, k) == IF k > Len(path) THEN e ELSE AFold(AStep(e, path[k]), path, k + 1)
ChainExpect(spc, path) == AFold([k |-> "ok", view |-> View(spc), wclaim |-> TRUE], path, 1)

(* --------------- histories of construction, hashing and in-place mutation ---------------- *)
(* Objects whose equality / hash involve ARRAY CONTENTS, built from caller-owned arrays:      *)
(*   identity kinds  TW, PW (array weightings), rn, discr, pspace (spaces with weighting=w):  *)
(*        the array is wrapped, NOT copied; documented equality = the identical array object  *)
(*        (TW and PW are one weighting kind), so mutating the array never changes equality;   *)
(*   copy kinds  grid (RectGrid(g)), part (RectPartition over such a grid), discrg            *)
(*        (DiscretizedSpace over such a partition): the coordinates are COPIED at             *)
(*        construction; equality = equal coordinates now (they can be changed in place        *)
(*        through grid.coord_vectors).                                                        *)
(* An action is [a |-> "construct" | "hash" | "mutate" | "mutate-internal", kind, w, o]:      *)
(*   construct(kind, w)  a new object from caller array number w                              *)
(*   hash(o)             hash(object o) is taken now (an observation; matters for caches)     *)
(*   mutate(w)           the caller arrays number w are changed in place (one more shift)     *)
(*   mutate-internal(o)  the coordinate array OF copy-kind object o is changed in place       *)
(* State: [objs |-> Seq([kind, w, base, m]), ver |-> Seq(Nat)]; contents are counted in shifts.*)
IdentityKinds == {"TW", "PW", "rn", "discr", "pspace"}
CopyKinds == {"grid", "part", "discrg"}
HAct(a, kind, w, o) == [a |-> a, kind |-> kind, w |-> w, o |-> o]
HInit(nw) == [objs |-> <<>>, ver |-> [w \in 1..nw |-> 0]]
HStep(st, act) ==
  CASE act.a = "construct" ->
         [st EXCEPT !.objs = Append(st.objs, [kind |-> act.kind, w |-> act.w, base |-> st.ver[act.w], m |-> 0])]
    [] act.a = "mutate" -> [st EXCEPT !.ver[act.w] = st.ver[act.w] + 1]
    [] act.a = "mutate-internal" -> [st EXCEPT !.objs[act.o].m = st.objs[act.o].m + 1]
    [] act.a = "hash" -> st
RECURSIVE HFold(_, _, _)
HFold(st, acts, k) == IF k > Len(acts) THEN st ELSE HFold(HStep(st, acts[k]), acts, k + 1)
\* the contents an object shows NOW
HContent(st, o) == IF o.kind \in CopyKinds THEN o.base + o.m ELSE st.ver[o.w]
HClass(kind) == IF kind \in {"TW", "PW"} THEN "weighting" ELSE kind
\* documented equality
HEq(st, a, b) ==
  /\ HClass(a.kind) = HClass(b.kind)
  /\ IF a.kind \in CopyKinds THEN HContent(st, a) = HContent(st, b) ELSE a.w = b.w

(* ------------------ derived sets: parts of a partition (derived vs direct) ---------------- *)
\* RectPartition: .set, .grid, .byaxis[idx] are the interval product / grid / partition of the selected axes
PartCases(d) ==
  LET nd == Len(d.sub[2].q) IN
       {[op |-> "set", idx |-> <<>>], [op |-> "grid", idx |-> <<>>]}
  \cup {[op |-> "byaxis", idx |-> ix] : ix \in {<<a>> : a \in 1..nd} \cup (IF nd = 2 THEN {<<2, 1>>, <<1, 2>>} ELSE {})}
PartDerivedDesc(d, c) ==
  LET iv == d.sub[1]  gr == d.sub[2] IN
  CASE c.op = "set" -> iv
    [] c.op = "grid" -> gr
    [] c.op = "byaxis" -> [d EXCEPT !.sub = <<[iv EXCEPT !.q = <<SelSeq(iv.q[1], c.idx), SelSeq(iv.q[2], c.idx)>>],
                                              [gr EXCEPT !.q = SelSeq(gr.q, c.idx)]>>]
=============================================================================

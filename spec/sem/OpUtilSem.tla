------------------------------ MODULE OpUtilSem ------------------------------
(***************************************************************************)
(* Layer A: reference semantics of ODL's OPERATOR UTILITIES                 *)
(*   odl.operator.oputils  (matrix_representation, power_method_opnorm,     *)
(*                          as_scipy_operator, as_scipy_functional)         *)
(*   odl.ufunc_ops         (ufunc operators / functionals)                  *)
(*   odl.solvers.functional.derivatives (NumericalDerivative / -Gradient)   *)
(* written from the docstrings:                                             *)
(*                                                                         *)
(* matrix_representation(op): "a matrix representation of a linear          *)
(*   operator.  If the domain or range is a ProductSpace, it must be a      *)
(*   power-space."  "works by letting the operator act on all unit vectors, *)
(*   and stacking the output"; the doctest fixes the axis convention:       *)
(*   np.tensordot(tensor, x, axes=op.domain.ndim) == op(x), i.e. RANGE axes *)
(*   first, then DOMAIN axes (the sentence "shape will be op.domain.shape + *)
(*   op.range.shape" contradicts the doctest; the doctest is executable and *)
(*   wins); "dtype is the promoted (greatest) dtype of domain and range".   *)
(* power_method_opnorm: "Estimate the operator norm with the power method", *)
(*   "If its range does not coincide with its domain, an adjoint must be    *)
(*   defined", "maxiter : positive int ... If the domain and range of op do *)
(*   not match, it needs to be an even number.  If None is given, iterate   *)
(*   until convergence", "callback: called with the current iterate in each *)
(*   iteration", "evaluated until maxiter operator calls or until           *)
(*   abs(a - b) <= atol + rtol * abs(b), a and b consecutive iterates".     *)
(* as_scipy_operator: "matvec which calls op, and rmatvec which calls       *)
(*   op.adjoint" (so rmatvec is the adjoint w.r.t. the spaces' inner        *)
(*   products, not the plain conjugate transpose), on flat arrays.          *)
(* as_scipy_functional: "a function operating on linear arrays", optional   *)
(*   gradient, "intended to be used with the scipy solvers".                *)
(* NumericalDerivative / NumericalGradient: the three difference formulas   *)
(*   of the Notes sections, verbatim.                                       *)
(* ufunc_ops.<name>(space): "applies a ufunc pointwise".                    *)
(*                                                                         *)
(* All values are exact: Gaussian rationals (ExactNum), vectors = flat      *)
(* sequences in C order.                                                    *)
(***************************************************************************)
EXTENDS Vec

(* ============================ shapes ==================================== *)
RECURSIVE Prod(_)
Prod(s) == IF s = <<>> THEN 1 ELSE Head(s) * Prod(Tail(s))
\* C-order multi-index (0-based) of the 0-based flat index k
RECURSIVE Unflat(_, _)
Unflat(s, k) == IF s = <<>> THEN <<>>
                ELSE LET r == Prod(Tail(s)) IN <<k \div r>> \o Unflat(Tail(s), k % r)
RECURSIVE FlatIx(_, _)
FlatIx(s, ix) == IF s = <<>> THEN 0 ELSE Head(ix) * Prod(Tail(s)) + FlatIx(Tail(s), Tail(ix))

(* ============================ spaces ==================================== *)
(* tensor space : [k |-> "t", shape, w (constant weight, Q), cplx, parts |-> <<>>]        *)
(* product space: [k |-> "p", shape |-> <<>>, w |-> QOne, cplx, parts |-> <<sp, ...>>]     *)
TSp(shape, w, cplx) == [k |-> "t", shape |-> shape, w |-> w, cplx |-> cplx, parts |-> <<>>]
PSp(parts) == [k |-> "p", shape |-> <<>>, w |-> QOne, cplx |-> parts[1].cplx, parts |-> parts]
IsTensor(sp) == sp.k = "t"
IsPower(sp)  == sp.k = "p" /\ \A i \in 1..Len(sp.parts) : sp.parts[i] = sp.parts[1]
RECURSIVE SizeOf(_)
SizeOf(sp) == IF sp.k = "t" THEN Prod(sp.shape)
              ELSE LET RECURSIVE S(_) S(i) == IF i = 0 THEN 0 ELSE SizeOf(sp.parts[i]) + S(i - 1)
                   IN S(Len(sp.parts))
\* documented `shape` of a space: a power space has (n,) + base.shape, other product spaces (n,)
RECURSIVE ShapeOf(_)
ShapeOf(sp) == IF sp.k = "t" THEN sp.shape
               ELSE IF IsPower(sp) THEN <<Len(sp.parts)>> \o ShapeOf(sp.parts[1])
               ELSE <<Len(sp.parts)>>
\* flat weights of the inner product  <x, y> = sum_i w_i x_i conj(y_i)
RECURSIVE FlatW(_)
FlatW(sp) == IF sp.k = "t" THEN [i \in 1..Prod(sp.shape) |-> sp.w]
             ELSE LET RECURSIVE C(_) C(i) == IF i > Len(sp.parts) THEN <<>> ELSE FlatW(sp.parts[i]) \o C(i + 1)
                  IN C(1)
\* what matrix_representation documents about its spaces: tensor space, or a power space (of tensor spaces:
\* "ok"); for a power space of something else the documentation is silent ("either"); another product space
\* violates "it must be a power-space" ("raises")
MatRepSpaceClass(sp) ==
  IF IsTensor(sp) THEN "ok"
  ELSE IF IsPower(sp) THEN (IF IsTensor(sp.parts[1]) THEN "ok" ELSE "either")
  ELSE "raises"

(* ============================ operator expressions ====================== *)
(* [t, sp, a, v, m, n, l, r] ; sp = domain of a leaf                        *)
NoE == <<>>
OE(t, sp, a, v, m, n, l, r) == [t |-> t, sp |-> sp, a |-> a, v |-> v, m |-> m, n |-> n, l |-> l, r |-> r]
OLeaf(t, sp, a, v, m, n) == OE(t, sp, a, v, m, n, NoE, NoE)
NoSp == TSp(<<>>, QOne, FALSE)
OBin(t, l, r) == OE(t, NoSp, CZero, <<>>, <<>>, 0, l, r)
OUn(t, a, l)  == OE(t, NoSp, a, <<>>, <<>>, 0, l, NoE)
OLeafKinds == {"id", "scale", "mulvec", "mataxis", "flatten", "proj", "emb", "cembed", "sq", "zero"}
OIsLeaf(e) == e.t \in OLeafKinds

ReplaceAt(s, i, val) == [j \in 1..Len(s) |-> IF j = i THEN val ELSE s[j]]

RECURSIVE ODom(_)
RECURSIVE ORan(_)
ODom(e) == CASE OIsLeaf(e) /\ e.t # "emb" -> e.sp
             [] e.t = "emb"   -> e.sp.parts[e.n + 1]
             [] e.t = "comp"  -> ODom(e.r)
             [] e.t \in {"red", "diag"} -> PSp(<<ODom(e.l), ODom(e.r)>>)
             [] OTHER -> ODom(e.l)        \* sum, lscal, bcast
ORan(e) == CASE e.t \in {"id", "scale", "mulvec", "sq", "zero"} -> e.sp
             [] e.t = "mataxis" -> TSp(ReplaceAt(e.sp.shape, e.n + 1, Len(e.m)), e.sp.w, e.sp.cplx)
             [] e.t = "flatten" -> TSp(<<Prod(e.sp.shape)>>, QOne, e.sp.cplx)   \* "always a TensorSpace" of the size (unweighted)
             [] e.t = "proj"    -> e.sp.parts[e.n + 1]
             [] e.t = "emb"     -> e.sp
             [] e.t = "cembed"  -> TSp(e.sp.shape, e.sp.w, TRUE)
             [] e.t \in {"bcast", "diag"} -> PSp(<<ORan(e.l), ORan(e.r)>>)
             [] OTHER -> ORan(e.l)        \* comp, sum, lscal, red

RECURSIVE OLinear(_)
OLinear(e) == IF OIsLeaf(e) THEN e.t # "sq"
              ELSE IF e.t = "lscal" THEN OLinear(e.l)
              ELSE OLinear(e.l) /\ OLinear(e.r)

\* offset (0-based) of part i (1-based) in the flat vector of a product space
PartOff(sp, i) == LET RECURSIVE S(_) S(j) == IF j = 0 THEN 0 ELSE SizeOf(sp.parts[j]) + S(j - 1) IN S(i - 1)
Slice(x, off, n) == [i \in 1..n |-> x[off + i]]

\* MatrixOperator(m, domain, axis): "Sum over this axis of an input tensor in the multiplication"; the result
\* keeps the other axes in place and the contracted axis becomes the matrix' row axis.
MatAxisApply(m, shape, ax, x) ==
  LET oshape == ReplaceAt(shape, ax + 1, Len(m))
  IN [p \in 1..Prod(oshape) |->
        LET oix == Unflat(oshape, p - 1)
        IN CSumSeq([k \in 1..shape[ax + 1] |->
              CMul(m[oix[ax + 1] + 1][k], x[FlatIx(shape, ReplaceAt(oix, ax + 1, k - 1)) + 1])])]
\* FlatteningOperator(space, order): order 0 = 'C', 1 = 'F' (first index fastest)
Reverse(s) == [i \in 1..Len(s) |-> s[Len(s) + 1 - i]]
FlattenApply(shape, ord, x) ==
  IF ord = 0 THEN x
  ELSE [p \in 1..Prod(shape) |-> x[FlatIx(shape, Reverse(Unflat(Reverse(shape), p - 1))) + 1]]

\* (TLC keeps [i \in S |-> ...] lazy and re-evaluates it at every application: every result is forced with \o <<>>)
RECURSIVE OApply(_, _)
RECURSIVE OApplyRaw(_, _)
OApply(e, x) == OApplyRaw(e, x) \o <<>>
OApplyRaw(e, x) ==
  CASE e.t = "id"      -> x
    [] e.t = "scale"   -> VScal(e.a, x)
    [] e.t = "mulvec"  -> VMul(e.v, x)
    [] e.t = "zero"    -> VZeroN(Len(x))
    [] e.t = "sq"      -> VMul(x, x)
    [] e.t = "cembed"  -> x
    [] e.t = "mataxis" -> MatAxisApply(e.m, e.sp.shape, e.n, x)
    [] e.t = "flatten" -> FlattenApply(e.sp.shape, e.n, x)
    [] e.t = "proj"    -> Slice(x, PartOff(e.sp, e.n + 1), SizeOf(e.sp.parts[e.n + 1]))
    [] e.t = "emb"     -> LET off == PartOff(e.sp, e.n + 1)
                          IN [i \in 1..SizeOf(e.sp) |-> IF i > off /\ i <= off + Len(x) THEN x[i - off] ELSE CZero]
    [] e.t = "comp"    -> OApply(e.l, OApply(e.r, x))
    [] e.t = "sum"     -> VAdd(OApply(e.l, x), OApply(e.r, x))
    [] e.t = "lscal"   -> VScal(e.a, OApply(e.l, x))
    [] e.t = "bcast"   -> OApply(e.l, x) \o OApply(e.r, x)
    [] e.t = "red"     -> LET n1 == SizeOf(ODom(e.l))
                          IN VAdd(OApply(e.l, Slice(x, 0, n1)), OApply(e.r, Slice(x, n1, Len(x) - n1)))
    [] e.t = "diag"    -> LET n1 == SizeOf(ODom(e.l))
                          IN OApply(e.l, Slice(x, 0, n1)) \o OApply(e.r, Slice(x, n1, Len(x) - n1))

OUnit(n, j) == [i \in 1..n |-> IF i = j THEN COne ELSE CZero]
\* flat matrix (rows = range entries, columns = domain entries, both in C order): "letting the operator act on
\* all unit vectors and stacking the output"
FlatMat(e) == LET nd == SizeOf(ODom(e))
                  cols == [j \in 1..nd |-> OApply(e, OUnit(nd, j))] \o <<>>
              IN [i \in 1..SizeOf(ORan(e)) |-> [j \in 1..nd |-> cols[j][i]]]

(* ---------------------- matrix_representation --------------------------- *)
MatRepOutcome(e) ==
  IF ~OLinear(e) THEN "raises"
  ELSE LET a == MatRepSpaceClass(ODom(e)) b == MatRepSpaceClass(ORan(e))
       IN IF a = "raises" \/ b = "raises" THEN "raises"
          ELSE IF a = "either" \/ b = "either" THEN "either" ELSE "ok"
\* axis convention of the doctest: range axes first, then domain axes
MatRepShape(e) == ShapeOf(ORan(e)) \o ShapeOf(ODom(e))
MatRepCplx(e)  == ODom(e).cplx \/ ORan(e).cplx
\* entry at a full multi-index (0-based): the first ndim(range) indices address the output
MatRepEntry(e, M, ix) ==
  LET rs == ShapeOf(ORan(e)) ds == ShapeOf(ODom(e))
      ri == SubSeq(ix, 1, Len(rs)) di == SubSeq(ix, Len(rs) + 1, Len(ix))
  IN M[FlatIx(rs, ri) + 1][FlatIx(ds, di) + 1]
\* the tensor in C order of MatRepShape (what numpy's ravel() shows)
MatRepFlat(e) == LET M == FlatMat(e) \o <<>> sh == MatRepShape(e)
                 IN [p \in 1..Prod(sh) |-> MatRepEntry(e, M, Unflat(sh, p - 1))]
\* the documented use: np.tensordot(tensor, x, axes=domain.ndim) = op(x)
TensorDot(T, rs, ds, x) ==
  [p \in 1..Prod(rs) |-> CSumSeq([q \in 1..Prod(ds) |->
       CMul(T[FlatIx(rs \o ds, Unflat(rs, p - 1) \o Unflat(ds, q - 1)) + 1], x[q])])]

(* ---------------------- as_scipy_operator ------------------------------- *)
MatVecC(M, x) == [i \in 1..Len(M) |-> CSumSeq([j \in 1..Len(x) |-> CMul(M[i][j], x[j])])]
\* adjoint w.r.t. the weighted inner products: N = Gd^-1 M^H Gr
AdjOf(M, wd, wr) == [i \in 1..Len(wd) |-> [j \in 1..Len(wr) |-> CScal(QDiv(wr[j], wd[i]), CConj(M[j][i]))]]
ScipyShape(e) == <<SizeOf(ORan(e)), SizeOf(ODom(e))>>
ScipyOutcome(e) == IF ~OLinear(e) THEN "raises"
                   \* undocumented combinations: mixed fields, spaces that are not tensor / power-of-tensor spaces
                   ELSE IF ODom(e).cplx # ORan(e).cplx \/ MatRepSpaceClass(ODom(e)) # "ok"
                           \/ MatRepSpaceClass(ORan(e)) # "ok" THEN "either" ELSE "ok"
WInnerF(x, y, w) == CSumSeq([i \in 1..Len(x) |-> CScal(w[i], CMul(x[i], CConj(y[i])))])
NormSqW(x, w) == QSumSeq([i \in 1..Len(x) |-> QMul(w[i], CAbs2(x[i]))])

(* ---------------------- power_method_opnorm ----------------------------- *)
(* A case: M (flat matrix), wd / wr (flat weights), x0, square (domain = range), hasadj (an adjoint is       *)
(* defined), selfadj (op.adjoint IS op: the plain iteration x <- A x / |A x| is then documented in the code  *)
(* comment; otherwise the iteration runs on A* A and the estimate is the square root).  Which of the two     *)
(* iterations ran is OBSERVED (was the adjoint called?); layer A defines the estimate for both.              *)
PMIter(M, wd, wr, normal, x) == IF normal THEN MatVecC(AdjOf(M, wd, wr), MatVecC(M, x) \o <<>>) \o <<>> ELSE MatVecC(M, x) \o <<>>
RECURSIVE GcdSeq(_)
GcdSeq(s) == IF s = <<>> THEN 0 ELSE Gcd(Abs(Head(s)), GcdSeq(Tail(s)))
Lcm(a, b) == (a * b) \div Gcd(a, b)
RECURSIVE LcmSeq(_)
LcmSeq(s) == IF s = <<>> THEN 1 ELSE Lcm(Head(s), LcmSeq(Tail(s)))
\* only the direction of the iterate matters (the code normalises): rescale by a positive rational to the
\* primitive integer vector of the same direction
Reduce(v) ==
  LET n == Len(v)
      L == LcmSeq([i \in 1..2 * n |-> IF i <= n THEN v[i][1][2] ELSE v[i - n][2][2]])
      re == [i \in 1..n |-> v[i][1][1] * (L \div v[i][1][2])] \o <<>>
      im == [i \in 1..n |-> v[i][2][1] * (L \div v[i][2][2])] \o <<>>
      g == GcdSeq(re \o im)
  IN IF g = 0 THEN v ELSE [i \in 1..n |-> <<QI(re[i] \div g), QI(im[i] \div g)>>] \o <<>>

\* estimate after the step x -> y :  |y| / |x| for the normalised iteration; = est^2 when plain, est^4 when normal
PMEstPow(wd, x, y) == QDiv(NormSqW(y, wd), NormSqW(x, wd))
\* documented argument errors
\* mnone: maxiter=None was passed ("iterate until convergence")
PMArgOutcome(mnone, maxiter, square, hasadj, x0zero) ==
  IF ~mnone /\ maxiter <= 0 THEN "raises"                          \* "positive int"
  ELSE IF ~square /\ ~hasadj THEN "raises"                        \* "an adjoint must be defined"
  ELSE IF ~square /\ ~mnone /\ maxiter % 2 = 1 THEN "raises"      \* "needs to be an even number"
  ELSE IF x0zero THEN "raises-or-finite-bounded"                  \* undocumented: only the general law applies
  ELSE "returns"
\* the documented stopping rule on integer quanta (a, b consecutive estimates), rtol = rn/rd, atol = atq quanta.
\* "abs(a - b) <= atol + rtol * abs(b)": which of the two consecutive estimates is b is not said -> both readings
CloseWith(a, b, rn, rd, atq, slack) == rd * (Abs(a - b) + slack) <= rd * atq + rn * Abs(b)
SurelyClose(a, b, rn, rd, atq)   == CloseWith(a, b, rn, rd, atq, 3) /\ CloseWith(b, a, rn, rd, atq, 3)
PossiblyClose(a, b, rn, rd, atq) == CloseWith(a, b, rn, rd, atq, -3) \/ CloseWith(b, a, rn, rd, atq, -3)

(* ---------------------- numerical differentiation ----------------------- *)
(* polynomial maps R^n -> R^n (pointwise) and functionals R^n -> R with rational coefficient vectors          *)
\* operator families: "sq" x^2 ; "cube" x^3 ; "aff" c*x + b ; "quad" c*x^2 + b*x
PolyOp(fam, c, b, x) ==
  CASE fam = "sq"   -> VMul(x, x)
    [] fam = "cube" -> VMul(x, VMul(x, x))
    [] fam = "aff"  -> VAdd(VMul(c, x), b)
    [] fam = "quad" -> VAdd(VMul(c, VMul(x, x)), VMul(b, x))
PolyOpDeg(fam) == CASE fam = "sq" -> 2 [] fam = "cube" -> 3 [] fam = "aff" -> 1 [] fam = "quad" -> 2
PolyOpDeriv(fam, c, b, x, d) ==
  CASE fam = "sq"   -> VScal(CInt(2), VMul(x, d))
    [] fam = "cube" -> VScal(CInt(3), VMul(VMul(x, x), d))
    [] fam = "aff"  -> VMul(c, d)
    [] fam = "quad" -> VAdd(VScal(CInt(2), VMul(c, VMul(x, d))), VMul(b, d))
\* functional families: "lin" <c,x> + b0 ; "fquad" sum c_i x_i^2 + sum b_i x_i ; "fcube" sum c_i x_i^3 ;
\* "l2sq" w * sum x_i^2 (the squared norm of a space with constant weight c[1])
SumV(v) == CSumSeq(v)
PolyFn(fam, c, b, x) ==
  CASE fam = "lin"   -> SumV(VAdd(VMul(c, x), b))
    [] fam = "fquad" -> SumV(VAdd(VMul(c, VMul(x, x)), VMul(b, x)))
    [] fam = "fcube" -> SumV(VMul(c, VMul(x, VMul(x, x))))
    [] fam = "l2sq"  -> CMul(c[1], SumV(VMul(x, x)))
PolyFnDeg(fam) == CASE fam = "lin" -> 1 [] fam = "fquad" -> 2 [] fam = "fcube" -> 3 [] fam = "l2sq" -> 2
PolyFnPartial(fam, c, b, x, i) ==
  CASE fam = "lin"   -> c[i]
    [] fam = "fquad" -> CAdd(CMul(CInt(2), CMul(c[i], x[i])), b[i])
    [] fam = "fcube" -> CMul(CInt(3), CMul(c[i], CMul(x[i], x[i])))
    [] fam = "l2sq"  -> CMul(CInt(2), CMul(c[1], x[i]))

\* NumericalDerivative, Notes section (h a rational step, nd = ||dx|| a rational):
\*   backward (A(x) - A(x - dx h/|dx|)) |dx|/h ; forward (A(x + dx h/|dx|) - A(x)) |dx|/h ;
\*   central (A(x + dx h/(2|dx|)) - A(x - dx h/(2|dx|))) |dx|/h
NumDeriv(method, h, nd, fam, c, b, x, dx) ==
  LET s  == CR(QDiv(h, nd))  s2 == CR(QDiv(h, QMul(QI(2), nd)))  back == CR(QDiv(nd, h))
      A(y) == PolyOp(fam, c, b, y)
  IN CASE method = "backward" -> VScal(back, VSub(A(x), A(VSub(x, VScal(s, dx)))))
       [] method = "forward"  -> VScal(back, VSub(A(VAdd(x, VScal(s, dx))), A(x)))
       [] method = "central"  -> VScal(back, VSub(A(VAdd(x, VScal(s2, dx))), A(VSub(x, VScal(s2, dx)))))
\* NumericalGradient, Notes section: (f(x) - f(x - h e_i))/h ; (f(x + h e_i) - f(x))/h ;
\*   (f(x + (h/2) e_i) - f(x - (h/2) e_i))/h
NumGrad(method, h, fam, c, b, x) ==
  LET n == Len(x)  hv(i, t) == [j \in 1..n |-> IF j = i THEN CR(t) ELSE CZero]
      f(y) == PolyFn(fam, c, b, y)  inv == CR(QInv(h))  h2 == QHalf(h)
  IN [i \in 1..n |->
       CASE method = "backward" -> CMul(inv, CSub(f(x), f(VSub(x, hv(i, h)))))
         [] method = "forward"  -> CMul(inv, CSub(f(VAdd(x, hv(i, h))), f(x)))
         [] method = "central"  -> CMul(inv, CSub(f(VAdd(x, hv(i, h2))), f(VSub(x, hv(i, h2)))))]
\* On a space with constant weight w the gradient is the Riesz representative w.r.t. the weighted inner product:
\* <grad f(x), e_i>_w = w (grad f(x))_i is the difference quotient of the Notes, so the quotients are divided by w
\* (the Notes state the unweighted case; /repo commit 2f5eccc made the code follow the Riesz reading).
NumGradW(method, h, w, fam, c, b, x) == VScal(CR(QInv(w)), NumGrad(method, h, fam, c, b, x))
Methods == {"backward", "forward", "central"}

(* ---------------------- ufunc operators --------------------------------- *)
\* exactly representable ufuncs on Gaussian rationals (others are relational-only)
QCeil(p) == -QFloor(QNeg(p))
QTrunc(p) == IF p[1] >= 0 THEN QFloor(p) ELSE QCeil(p)
\* round half to even (numpy.rint)
QRint(p) == LET f == QFloor(p)  r == QSub(p, QI(f))
            IN IF QLt(r, Q(1, 2)) THEN f ELSE IF QLt(Q(1, 2), r) THEN f + 1 ELSE IF f % 2 = 0 THEN f ELSE f + 1
UfExact1 == {"negative", "square", "absolute", "sign", "reciprocal", "floor", "ceil", "trunc", "rint", "conj"}
UfExact2 == {"add", "subtract", "multiply", "maximum", "minimum", "fmax", "fmin", "true_divide", "divide"}
Uf1(name, z) ==       \* z real unless conj / square / negative / reciprocal
  CASE name = "negative" -> CNeg(z)
    [] name = "square"   -> CMul(z, z)
    [] name = "absolute" -> CR(QAbs(z[1]))
    [] name = "sign"     -> CR(QSign(z[1]))
    [] name = "reciprocal" -> CInv(z)
    [] name = "floor"    -> CInt(QFloor(z[1]))
    [] name = "ceil"     -> CInt(QCeil(z[1]))
    [] name = "trunc"    -> CInt(QTrunc(z[1]))
    [] name = "conj"     -> CConj(z)
    [] name = "rint"     -> CInt(QRint(z[1]))
Uf2(name, z, w) ==
  CASE name = "add" -> CAdd(z, w)
    [] name = "subtract" -> CSub(z, w)
    [] name = "multiply" -> CMul(z, w)
    [] name \in {"maximum", "fmax"} -> CR(QMax(z[1], w[1]))
    [] name \in {"minimum", "fmin"} -> CR(QMin(z[1], w[1]))
    [] name \in {"true_divide", "divide"} -> CDiv(z, w)
\* mathematically linear ufuncs (an operator flagged is_linear must be one of these)
UfTrulyLinear == {"negative", "rad2deg", "deg2rad", "add", "subtract"}
\* ufuncs whose operator documents a derivative / whose functional documents a gradient
UfWithDeriv == {"sin", "cos", "tan", "sqrt", "square", "log", "exp", "reciprocal", "sinh", "cosh"}
\* exact derivative multiplier where polynomial / rational
UfDerivExact == {"square", "reciprocal", "negative"}
UfDerivMul(name, z) == CASE name = "square" -> CMul(CInt(2), z)
                         [] name = "reciprocal" -> CNeg(CInv(CMul(z, z)))
                         [] name = "negative" -> CInt(-1)
\* relational form of the derivative multiplier for transcendental ufuncs: a recipe over OTHER ufunc operators
UfDerivRecipe(name) ==
  CASE name = "sin" -> "cos"            \* cos(x)
    [] name = "cos" -> "neg-sin"        \* -sin(x)
    [] name = "tan" -> "one-plus-tan2"  \* 1 + tan(x)^2
    [] name = "sqrt" -> "half-over-sqrt"   \* 1 / (2 sqrt(x))
    [] name = "log" -> "reciprocal"     \* 1 / x
    [] name = "exp" -> "exp"
    [] name = "sinh" -> "cosh"
    [] name = "cosh" -> "sinh"
    [] OTHER -> "none"
=============================================================================

----------------------------- MODULE SolverSem -----------------------------
(***************************************************************************)
(* Layer A for properties C11 / C12: the textbook / documented iterations  *)
(* of ODL's solvers over exact rationals, the exact proximals and          *)
(* sub-differentials of the functionals used, optimality (KKT) conditions  *)
(* and the quantities each solver promises to decrease.                    *)
(*                                                                         *)
(* Written from DESIGN Appendix E7/E8, the cited papers and the solvers'   *)
(* docstrings - never from the loop bodies (those are layer C,             *)
(* spec/impl/Solver*Impl.tla).                                             *)
(*                                                                         *)
(*   number    Q = <<n, d>>  (ExactNum), NaN = <<0,0>> marks an            *)
(*             uninitialised buffer entry and is absorbing                 *)
(*   vector    sequence of Q                                               *)
(*   matrix    sequence of rows (sequences of Q)                           *)
(*   functional  record [k, c, t, lo, hi]                                  *)
(*        "L1"    c * || x - t ||_1          "L2sq"  c * || x - t ||_2^2    *)
(*        "Box"   indicator of lo <= x <= hi   "Zero"  0                    *)
(*        (t = <<>> stands for t = 0)                                       *)
(*                                                                         *)
(* Arithmetic is the overflow-conscious variant of ExactNum (denominators  *)
(* are combined through their gcd) because solver iterates live on dyadic  *)
(* lattices whose denominator grows with the iteration count.              *)
(***************************************************************************)
EXTENDS ExactNum, TLC

(* ------------------------- scalars ------------------------------------- *)
IsNaN(p) == p[2] = 0
SAdd(p, q) ==
  IF p[2] = 0 \/ q[2] = 0 THEN NaN
  ELSE IF p[2] = q[2] THEN QNorm(p[1] + q[1], p[2])
  ELSE LET g == Gcd(p[2], q[2])
           a == p[2] \div g
           b == q[2] \div g
       IN  QNorm(p[1] * b + q[1] * a, a * q[2])
SNeg(p) == <<-p[1], p[2]>>
SSub(p, q) == SAdd(p, SNeg(q))
SMul(p, q) ==
  IF p[2] = 0 \/ q[2] = 0 THEN NaN
  ELSE LET g1 == Gcd(Abs(p[1]), q[2])
           g2 == Gcd(Abs(q[1]), p[2])
       IN  QNorm((p[1] \div g1) * (q[1] \div g2), (p[2] \div g2) * (q[2] \div g1))
SInv(q) == IF q[1] > 0 THEN <<q[2], q[1]>> ELSE <<-q[2], -q[1]>>      \* q # 0
SDiv(p, q) == IF p[2] = 0 \/ q[2] = 0 THEN NaN ELSE SMul(p, SInv(q))
SLe(p, q) == SSub(p, q)[1] <= 0
SLt(p, q) == SSub(p, q)[1] < 0
SAbs(p) == <<Abs(p[1]), p[2]>>
SSq(p) == SMul(p, p)
SMin(p, q) == IF SLe(p, q) THEN p ELSE q
SMax(p, q) == IF SLe(p, q) THEN q ELSE p
SPos(p) == p[1] > 0
SIsZero(p) == p[1] = 0 /\ p[2] # 0
Two == <<2, 1>>
Half == <<1, 2>>

RECURSIVE SSum(_)
SSum(s) == IF s = <<>> THEN QZero ELSE SAdd(Head(s), SSum(Tail(s)))

Lcm2(a, b) == (a \div Gcd(a, b)) * b
RECURSIVE DenSeq(_)
DenSeq(s) == IF s = <<>> THEN 1 ELSE Lcm2(Head(s)[2], DenSeq(Tail(s)))
IsPow2(n) == n >= 1 /\ \E e \in 0..30 : n = 2 ^ e

(* ------------------------- vectors / matrices --------------------------- *)
RZero(n) == [i \in 1..n |-> QZero]
ROne(n)  == [i \in 1..n |-> QOne]
Garbage(n) == [i \in 1..n |-> NaN]          \* an uninitialised buffer (space.element())
HasNaN(u) == \E i \in 1..Len(u) : u[i][2] = 0
RAdd(u, v) == [i \in 1..Len(u) |-> SAdd(u[i], v[i])]
RSub(u, v) == [i \in 1..Len(u) |-> SSub(u[i], v[i])]
RScal(a, u) == [i \in 1..Len(u) |-> SMul(a, u[i])]
RNeg(u) == [i \in 1..Len(u) |-> SNeg(u[i])]
RMul(u, v) == [i \in 1..Len(u) |-> SMul(u[i], v[i])]
RDivE(u, v) == [i \in 1..Len(u) |-> SDiv(u[i], v[i])]
RLin(a, u, b, v) == [i \in 1..Len(u) |-> SAdd(SMul(a, u[i]), SMul(b, v[i]))]
RDot(u, v) == SSum([i \in 1..Len(u) |-> SMul(u[i], v[i])])
RNorm2(u) == RDot(u, u)
RDen(u) == DenSeq(u)                         \* lattice denominator of a vector
RInt(s) == [i \in 1..Len(s) |-> <<s[i], 1>>]  \* integer tuple -> vector

NRows(M) == Len(M)
NCols(M) == Len(M[1])
MatVec(M, x) == [i \in 1..Len(M) |-> RDot(M[i], x)]
MatTVec(M, y) == [j \in 1..Len(M[1]) |-> SSum([i \in 1..Len(M) |-> SMul(M[i][j], y[i])])]
MInt(M) == [i \in 1..Len(M) |-> RInt(M[i])]   \* integer matrix -> matrix
Frob2(M) == SSum([i \in 1..Len(M) |-> RNorm2(M[i])])    \* ||M||_F^2 >= ||M||^2 (root-free bound)
RowSel(M, rows) == [i \in 1..Len(rows) |-> M[rows[i]]]

(* ------------------------- functionals --------------------------------- *)
FL1(c, t)     == [k |-> "L1",   c |-> c,    t |-> t,    lo |-> QZero, hi |-> QZero]
FL2sq(c, t)   == [k |-> "L2sq", c |-> c,    t |-> t,    lo |-> QZero, hi |-> QZero]
FBox(lo, hi)  == [k |-> "Box",  c |-> QOne, t |-> <<>>, lo |-> lo,    hi |-> hi]
FZero         == [k |-> "Zero", c |-> QOne, t |-> <<>>, lo |-> QZero, hi |-> QZero]
Tr(f, n) == IF f.t = <<>> THEN RZero(n) ELSE f.t
IsSmooth(f) == f.k \in {"L2sq", "Zero"}

\* value (Inf outside the box)
Val(f, x) ==
  LET n == Len(x)  t == Tr(f, n) IN
  CASE f.k = "L1"   -> SMul(f.c, SSum([i \in 1..n |-> SAbs(SSub(x[i], t[i]))]))
    [] f.k = "L2sq" -> SMul(f.c, SSum([i \in 1..n |-> SSq(SSub(x[i], t[i]))]))
    [] f.k = "Box"  -> IF \A i \in 1..n : SLe(f.lo, x[i]) /\ SLe(x[i], f.hi) THEN QZero ELSE Inf
    [] f.k = "Zero" -> QZero

\* gradient of the smooth functionals
Grad(f, x) ==
  LET n == Len(x)  t == Tr(f, n) IN
  CASE f.k = "L2sq" -> [i \in 1..n |-> SMul(SMul(Two, f.c), SSub(x[i], t[i]))]
    [] f.k = "Zero" -> RZero(n)
\* Lipschitz constant of the gradient
GradLip(f) == IF f.k = "L2sq" THEN SMul(Two, f.c) ELSE QZero

\* exact proximal  argmin_z  f(z) + |z - x|^2 / (2 s), coordinate-wise closed forms
Prox1(f, s, xi, ti) ==
  CASE f.k = "L1" ->
         LET d == SSub(xi, ti)  thr == SMul(s, f.c)
         IN  IF SLt(thr, d) THEN SSub(xi, thr)
             ELSE IF SLt(d, SNeg(thr)) THEN SAdd(xi, thr) ELSE ti
    [] f.k = "L2sq" ->
         LET w == SMul(Two, SMul(s, f.c))
         IN  SDiv(SAdd(xi, SMul(w, ti)), SAdd(QOne, w))
    [] f.k = "Box"  -> SMin(SMax(xi, f.lo), f.hi)
    [] f.k = "Zero" -> xi
Prox(f, s, x) ==
  IF HasNaN(x) THEN Garbage(Len(x))
  ELSE LET t == Tr(f, Len(x)) IN [i \in 1..Len(x) |-> Prox1(f, s, x[i], t[i])]
\* proximal of the convex conjugate through Moreau's identity
ProxConj(f, s, y) ==
  IF HasNaN(y) THEN Garbage(Len(y))
  ELSE RSub(y, RScal(s, Prox(f, SInv(s), RScal(SInv(s), y))))

\* sub-differential membership  g \in df(x)  (all functionals are separable)
Sub1(f, xi, ti, gi) ==
  CASE f.k = "L1" ->
         LET d == SSub(xi, ti)
         IN  IF SPos(d) THEN gi = f.c
             ELSE IF SPos(SNeg(d)) THEN gi = SNeg(f.c)
             ELSE SLe(SAbs(gi), f.c)
    [] f.k = "L2sq" -> gi = SMul(SMul(Two, f.c), SSub(xi, ti))
    [] f.k = "Box"  ->
         /\ SLe(f.lo, xi) /\ SLe(xi, f.hi)
         /\ IF f.lo = f.hi THEN TRUE
            ELSE IF xi = f.lo THEN SLe(gi, QZero)
            ELSE IF xi = f.hi THEN SLe(QZero, gi)
            ELSE gi = QZero
    [] f.k = "Zero" -> gi = QZero
InSubdiff(f, x, g) ==
  LET t == Tr(f, Len(x)) IN \A i \in 1..Len(x) : Sub1(f, x[i], t[i], g[i])
\* z \in df*(y)  <=>  y \in df(z)
InSubdiffConj(f, y, z) == InSubdiff(f, z, y)

\* laws the closed forms must satisfy (checked by TLC as sanity of layer A):
\* p = prox_{s f}(x)  <=>  (x - p)/s \in df(p) ;  q = prox_{s f*}(y)  <=>  (y - q)/s \in df*(q)
ProxOptimal(f, s, x) ==
  LET p == Prox(f, s, x) IN InSubdiff(f, p, RScal(SInv(s), RSub(x, p)))
ProxConjOptimal(f, s, y) ==
  LET q == ProxConj(f, s, y) IN InSubdiffConj(f, q, RScal(SInv(s), RSub(y, q)))

(* ------------------------- sequences of blocks -------------------------- *)
\* sum_i L_i^T v_i
RECURSIVE AdjSum(_, _, _)
AdjSum(Ls, vs, n) ==
  IF Ls = <<>> THEN RZero(n) ELSE RAdd(MatTVec(Head(Ls), Head(vs)), AdjSum(Tail(Ls), Tail(vs), n))

(* ======================================================================= *)
(* Textbook iterations.  `I` is a problem instance (record, fields below);  *)
(* every step maps a state record to a state record.                        *)
(*   I.Ls   sequence of matrices (single-operator solvers use Ls[1])        *)
(*   I.f    functional on the domain      I.gs  functionals on the ranges   *)
(*   I.h    smooth functional on the domain (grad used)                     *)
(*   I.tau, I.sig (sequence), I.th   step sizes / relaxation                *)
(*   I.b    right-hand sides (sequence of vectors)                          *)
(*   I.pw   componentwise power of the forward maps (1 = linear)            *)
(*   I.ls   infimal-convolution terms of forward-backward (<<>> = absent)   *)
(* ======================================================================= *)
L1of(I) == I.Ls[1]
G1of(I) == I.gs[1]
S1of(I) == I.sig[1]

\* --- PDHG (Chambolle-Pock 2011, Alg. 1):  state [x, y, xr]
PDHGDual(I, s) == ProxConj(G1of(I), S1of(I), RAdd(s.y, RScal(S1of(I), MatVec(L1of(I), s.xr))))
PDHGStep(I, s) ==
  LET y1 == PDHGDual(I, s)
      x1 == Prox(I.f, I.tau, RSub(s.x, RScal(I.tau, MatTVec(L1of(I), y1))))
  IN  [x |-> x1, y |-> y1, xr |-> RAdd(x1, RScal(I.th, RSub(x1, s.x)))]

\* --- linearised ADMM (Parikh-Boyd 4.4.2):  state [x, z, u]
ADMMStep(I, s) ==
  LET L  == L1of(I)
      x1 == Prox(I.f, I.tau,
                 RSub(s.x, RScal(SDiv(I.tau, S1of(I)),
                                 MatTVec(L, RSub(RAdd(MatVec(L, s.x), s.u), s.z)))))
      Lx == MatVec(L, x1)
      z1 == Prox(G1of(I), S1of(I), RAdd(Lx, s.u))
  IN  [x |-> x1, z |-> z1, u |-> RSub(RAdd(s.u, Lx), z1)]

\* --- alternating dual updates (McGaffin-Fessler):  state [x, d]  (d = sequence of duals)
\*     one outer iteration: x -= (1/s) sum L_i^T d_i ; then for j in order:
\*     n_j = prox_{s*is_j g_j*}(d_j + s*is_j L_j x) ; x -= (1/s) L_j^T (n_j - d_j) ; d_j = n_j
RECURSIVE ADUInner(_, _, _, _)
ADUInner(I, x, d, j) ==
  IF j > Len(I.Ls) THEN [x |-> x, d |-> d]
  ELSE LET st == SMul(I.tau, I.sig[j])
           nj == ProxConj(I.gs[j], st, RAdd(d[j], RScal(st, MatVec(I.Ls[j], x))))
           x1 == RSub(x, RScal(SInv(I.tau), MatTVec(I.Ls[j], RSub(nj, d[j]))))
       IN  ADUInner(I, x1, [d EXCEPT ![j] = nj], j + 1)
ADUStep(I, s) ==
  ADUInner(I, RSub(s.x, RScal(SInv(I.tau), AdjSum(I.Ls, s.d, Len(s.x)))), s.d, 1)

\* --- double-proximal DC (Banert-Bot 2016):  state [x, y] ; tau = gamma, sig[1] = mu, h = phi
DPDCStep(I, s) ==
  LET K  == L1of(I)
      x1 == Prox(I.f, I.tau, RAdd(s.x, RScal(I.tau, RSub(MatTVec(K, s.y), Grad(I.h, s.x)))))
      y1 == ProxConj(G1of(I), S1of(I), RAdd(s.y, RScal(S1of(I), MatVec(K, x1))))
  IN  [x |-> x1, y |-> y1]

\* --- Douglas-Rachford primal-dual (Bot-Hendrich 2013, Alg. 3.1, l_i absent):
\*     state [xi, v, x] : xi, v the algorithm's variables, x = p1 the solution estimate
\*     produced by the most recent iteration (what the solver reports)
DRp1(I, s) == Prox(I.f, I.tau, RSub(s.xi, RScal(SMul(I.tau, Half), AdjSum(I.Ls, s.v, Len(s.xi)))))
DRStep(I, s) ==
  LET m  == Len(I.Ls)
      n  == Len(s.xi)
      p1 == DRp1(I, s)
      w1 == RSub(RScal(Two, p1), s.xi)
      p2 == [i \in 1..m |-> ProxConj(I.gs[i], I.sig[i],
                               RAdd(s.v[i], RScal(SMul(I.sig[i], Half), MatVec(I.Ls[i], w1))))]
      w2 == [i \in 1..m |-> RSub(RScal(Two, p2[i]), s.v[i])]
      z1 == RSub(w1, RScal(SMul(I.tau, Half), AdjSum(I.Ls, w2, n)))
      q  == RSub(RScal(Two, z1), w1)
      z2 == [i \in 1..m |-> RAdd(w2[i], RScal(SMul(I.sig[i], Half), MatVec(I.Ls[i], q)))]
  IN  [xi |-> RAdd(s.xi, RScal(I.th, RSub(z1, p1))),
       v |-> [i \in 1..m |-> RAdd(s.v[i], RScal(I.th, RSub(z2[i], p2[i])))],
       x |-> p1]

\* --- infimal-convolution terms l_i (forward_backward_pd's option `l`): strongly convex squared norms
\*     l(z) = c |z - t|^2 ,  l*(v) = |v|^2/(4c) + <t, v> ,  grad l*(v) = v/(2c) + t
GradConj(l, v) == [i \in 1..Len(v) |-> SAdd(SDiv(v[i], SMul(Two, l.c)), Tr(l, Len(v))[i])]
\* the argument of g_i in the dual inclusion:  L_i x - grad l_i*(v_i)   (no l: L_i x)
LArg(I, i, z, v) == IF I.ls = <<>> THEN z ELSE RSub(z, GradConj(I.ls[i], v))

\* --- forward-backward primal-dual (Bot-Csetnek 2015 / Condat-Vu; with l_i: v+ uses L_i y - grad l_i*(v_i)):  state [x, v]
FBStep(I, s) ==
  LET m  == Len(I.Ls)
      x1 == Prox(I.f, I.tau,
                 RSub(s.x, RScal(I.tau, RAdd(Grad(I.h, s.x), AdjSum(I.Ls, s.v, Len(s.x))))))
      y  == RSub(RScal(Two, x1), s.x)
  IN  [x |-> x1,
       v |-> [i \in 1..m |-> ProxConj(I.gs[i], I.sig[i],
                               RAdd(s.v[i], RScal(I.sig[i], LArg(I, i, MatVec(I.Ls[i], y), s.v[i]))))]]

\* --- proximal gradient (ISTA with relaxation th) for  min f(x) + g(L x), g = gs[1] smooth:  state [x]
PGGrad(I, x) == MatTVec(L1of(I), Grad(G1of(I), MatVec(L1of(I), x)))
PGStep(I, s) ==
  LET p == Prox(I.f, I.tau, RSub(s.x, RScal(I.tau, PGGrad(I, s.x))))
  IN  [x |-> RLin(SSub(QOne, I.th), s.x, I.th, p)]

\* --- forward operators of the linear-inverse-problem solvers:  A_j(x) = L_j (x .^ pw)  (componentwise
\*     power, pw = 1: linear).  Derivative at x applied adjointly:  A_j'(x)^* r = pw x.^(pw-1) (.) L_j^T r.
\*     The documented iterations linearise at the CURRENT iterate.
RECURSIVE SPowN(_, _)
SPowN(p, k) == IF k = 0 THEN QOne ELSE SMul(p, SPowN(p, k - 1))
RPow(u, k) == [i \in 1..Len(u) |-> SPowN(u[i], k)]
Fwd(I, j, x) == IF I.pw = 1 THEN MatVec(I.Ls[j], x) ELSE MatVec(I.Ls[j], RPow(x, I.pw))
AdjDer(I, j, x, r) ==
  IF I.pw = 1 THEN MatTVec(I.Ls[j], r)
  ELSE RMul(RScal(<<I.pw, 1>>, RPow(x, I.pw - 1)), MatTVec(I.Ls[j], r))

\* --- Landweber:  x+ = x - omega A'(x)^* (A(x) - b)
LandweberStep(I, s) ==
  [x |-> RSub(s.x, RScal(I.tau, AdjDer(I, 1, s.x, RSub(Fwd(I, 1, s.x), I.b[1]))))]

\* --- Kaczmarz, fixed order, one sweep over the blocks
RECURSIVE KaczFrom(_, _, _)
KaczFrom(I, x, i) ==
  IF i > Len(I.Ls) THEN x
  ELSE KaczFrom(I, RSub(x, RScal(I.sig[i], AdjDer(I, i, x, RSub(Fwd(I, i, x), I.b[i])))), i + 1)
KaczmarzStep(I, s) == [x |-> KaczFrom(I, s.x, 1)]

\* --- conjugate gradient for A x = b, A symmetric positive definite:  state [x, r, p]
CGInit(I, x0) == LET r == RSub(I.b[1], MatVec(L1of(I), x0)) IN [x |-> x0, r |-> r, p |-> r]
CGStep(I, s) ==
  LET Ap == MatVec(L1of(I), s.p)
      pAp == RDot(s.p, Ap)
  IN  IF SIsZero(pAp) THEN s
      ELSE LET al == SDiv(RNorm2(s.r), pAp)
               r1 == RSub(s.r, RScal(al, Ap))
               be == SDiv(RNorm2(r1), RNorm2(s.r))
           IN  [x |-> RAdd(s.x, RScal(al, s.p)), r |-> r1, p |-> RAdd(r1, RScal(be, s.p))]

\* --- CG on the normal equations (CGLS):  state [x, rd, p, s]
CGNInit(I, x0) ==
  LET d == RSub(I.b[1], MatVec(L1of(I), x0))
      p == MatTVec(L1of(I), d)
  IN  [x |-> x0, rd |-> d, p |-> p, s |-> p]
CGNStep(I, st) ==
  LET q == MatVec(L1of(I), st.p)
      qq == RNorm2(q)
  IN  IF SIsZero(qq) THEN st
      ELSE LET a  == SDiv(RNorm2(st.s), qq)
               d1 == RSub(st.rd, RScal(a, q))
               s1 == MatTVec(L1of(I), d1)
               b  == SDiv(RNorm2(s1), RNorm2(st.s))
           IN  [x |-> RAdd(st.x, RScal(a, st.p)), rd |-> d1, p |-> RAdd(s1, RScal(b, st.p)), s |-> s1]

\* --- MLEM:  x+ = x (.) A^T(b / A x) / A^T 1     (positive data)
MLEMStep(I, s) ==
  LET A == L1of(I)
  IN  [x |-> RDivE(RMul(s.x, MatTVec(A, RDivE(I.b[1], MatVec(A, s.x)))),
                   MatTVec(A, ROne(Len(A))))]

\* --- steepest descent for F(x) = |A(x) - b|^2
LSQVal(I, x) == RNorm2(RSub(Fwd(I, 1, x), I.b[1]))
LSQGrad(I, x) == RScal(Two, AdjDer(I, 1, x, RSub(Fwd(I, 1, x), I.b[1])))
SDStep(I, s) == [x |-> RSub(s.x, RScal(I.tau, LSQGrad(I, s.x)))]
\* Armijo backtracking: alpha = 1, 1/2, 1/4 ... until F(x - a g) <= F(x) - delta a |g|^2
ArmijoOk(I, x, g, a) ==
  SLe(LSQVal(I, RSub(x, RScal(a, g))), SSub(LSQVal(I, x), SMul(SMul(I.th, a), RNorm2(g))))
ArmijoTie(I, x, g, a) ==
  LSQVal(I, RSub(x, RScal(a, g))) = SSub(LSQVal(I, x), SMul(SMul(I.th, a), RNorm2(g)))
RECURSIVE ArmijoFrom(_, _, _, _, _, _)
ArmijoFrom(I, x, g, a, n, tie) ==  \* n = remaining trials; returns <<alpha, met-a-tie>>, alpha = 0 if none found
  IF n = 0 THEN <<QZero, tie>>
  ELSE IF ArmijoOk(I, x, g, a) THEN <<a, tie \/ ArmijoTie(I, x, g, a)>>
  ELSE ArmijoFrom(I, x, g, SMul(a, Half), n - 1, tie)    \* (a failed trial is strict, hence no tie)
ArmijoAlpha(I, x) == ArmijoFrom(I, x, LSQGrad(I, x), QOne, 12, FALSE)
SDArmijoStep(I, s) ==
  LET g == LSQGrad(I, s.x) IN [x |-> RSub(s.x, RScal(ArmijoAlpha(I, s.x)[1], g))]

\* --- power iteration on A^T A, un-normalised (integer) form:  state [x]
PowerStep(I, s) == [x |-> MatTVec(L1of(I), MatVec(L1of(I), s.x))]
\* fourth power of the estimate produced after the step from v :  |A^T A v|^2 / |v|^2
PowerEst4(I, v) == SDiv(RNorm2(MatTVec(L1of(I), MatVec(L1of(I), v))), RNorm2(v))

(* ------------------------- optimality ----------------------------------- *)
\* first-order conditions of  min f(x) + h(x) + sum_i g_i(L_i x)  for a primal-dual pair:
\*     -grad h(x) - sum L_i^T y_i \in df(x) ,  y_i \in dg_i(L_i x - grad l_i*(y_i))   (l_i absent: dg_i(L_i x))
KKT(I, x, ys) ==
  /\ InSubdiff(I.f, x, RNeg(RAdd(Grad(I.h, x), AdjSum(I.Ls, ys, Len(x)))))
  /\ \A i \in 1..Len(I.Ls) : InSubdiff(I.gs[i], LArg(I, i, MatVec(I.Ls[i], x), ys[i]), ys[i])

\* all sequences over a sequence of sets
RECURSIVE SeqProd(_)
SeqProd(sets) ==
  IF sets = <<>> THEN {<<>>}
  ELSE {<<a>> \o r : a \in Head(sets), r \in SeqProd(Tail(sets))}
VecsOver(lat, n) == SeqProd([i \in 1..n |-> lat])

\* dual candidates on a lattice for a given x: per coordinate, the lattice points of dg(Lx)_i
\* (a smooth g has the single candidate grad g(z), on the lattice or not)
DualCands(g, z, lat) ==
  IF IsSmooth(g) THEN {Grad(g, z)}
  ELSE LET t == Tr(g, Len(z)) IN SeqProd([i \in 1..Len(z) |-> {v \in lat : Sub1(g, z[i], t[i], v)}])
\* with an infimal-convolution term l (squared norm): v \in dg(z - v/(2 c_l) - t_l), coordinate by coordinate;
\* a smooth g gives the single solution of the linear equation
DualCandsL(g, l, z, lat) ==
  LET n == Len(z)  tg == Tr(g, n)  tl == Tr(l, n) IN
  IF g.k = "L2sq"
    THEN {[i \in 1..n |-> SDiv(SMul(SMul(Two, g.c), SSub(SSub(z[i], tl[i]), tg[i])),
                               SAdd(QOne, SDiv(g.c, l.c)))]}
  ELSE IF g.k = "Zero" THEN {RZero(n)}
  ELSE SeqProd([i \in 1..n |-> {v \in lat : Sub1(g, SSub(z[i], SAdd(SDiv(v, SMul(Two, l.c)), tl[i])), tg[i], v)}])
DualCandsI(I, i, z, lat) == IF I.ls = <<>> THEN DualCands(I.gs[i], z, lat) ELSE DualCandsL(I.gs[i], I.ls[i], z, lat)
\* KKT pairs <<x, ys>> with x on latX^n and every dual coordinate on latY
KKTPoints(I, latX, latY) ==
  LET n == NCols(I.Ls[1]) IN
  UNION { { <<x, ys>> : ys \in { ys \in SeqProd([i \in 1..Len(I.Ls) |->
                                      DualCandsI(I, i, MatVec(I.Ls[i], x), latY)]) :
                                 KKT(I, x, ys) } } : x \in VecsOver(latX, n) }

(* ------------------------- promised decrease ---------------------------- *)
\* PDHG with theta = 1 is a proximal-point iteration on w_k = (x_k, y_{k+1}) in the metric
\*   |x|^2/tau + |y|^2/sigma - 2 <L x, y>   (He-Yuan 2012); Fejer w.r.t. every KKT pair
PDMetric(I, dx, dy) ==
  SSub(SAdd(SMul(SInv(I.tau), RNorm2(dx)), SMul(SInv(S1of(I)), RNorm2(dy))),
       SMul(Two, RDot(MatVec(L1of(I), dx), dy)))
\* root-free admissibility certificates (||L||^2 <= ||L||_F^2)
PDHGAdmissible(I) == SLt(SMul(SMul(I.tau, S1of(I)), Frob2(L1of(I))), QOne)
ADMMAdmissible(I) == SLt(SMul(I.tau, Frob2(L1of(I))), S1of(I))
RECURSIVE SigFrobSum(_, _)
SigFrobSum(I, i) == IF i > Len(I.Ls) THEN QZero
                    ELSE SAdd(SMul(I.sig[i], Frob2(I.Ls[i])), SigFrobSum(I, i + 1))
DRAdmissible(I) == SLt(SMul(I.tau, SigFrobSum(I, 1)), <<4, 1>>) /\ SPos(I.th) /\ SLt(I.th, Two)
\* Condat-Vu:  1/tau - sum sigma_i ||L_i||^2 > beta/2
FBAdmissible(I) == SLt(SAdd(SigFrobSum(I, 1), SMul(Half, GradLip(I.h))), SInv(I.tau))
\* proximal gradient: 0 < gamma < 2/beta, 0 < lam <= 1
PGAdmissible(I) == SLt(SMul(I.tau, SMul(GradLip(G1of(I)), Frob2(L1of(I)))), Two) /\ SPos(I.th) /\ SLe(I.th, QOne)
LandweberAdmissible(I) == SPos(I.tau) /\ SLt(SMul(I.tau, Frob2(L1of(I))), Two)
KaczmarzAdmissible(I) ==
  \A i \in 1..Len(I.Ls) : SPos(I.sig[i]) /\ SLt(SMul(I.sig[i], Frob2(I.Ls[i])), Two)
=============================================================================

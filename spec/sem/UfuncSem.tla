------------------------------ MODULE UfuncSem ------------------------------
(***************************************************************************)
(* Layer A for property C17: what a NumPy universal function, called on   *)
(* space elements, has to return.  Written from the property statement and *)
(* the NumPy ufunc documentation (methods __call__, reduce, accumulate,    *)
(* outer, at, reduceat), not from ODL.                                     *)
(*                                                                         *)
(*  array   [sh |-> shape, v |-> flat C-order sequence of C numbers]       *)
(*          (C = Gaussian rational <<re, im>> of ExactNum)                 *)
(*  axis    sequence of (possibly negative) 0-based axes;                  *)
(*          <<99>> = keyword not given, <<98>> = axis=None                 *)
(*                                                                         *)
(* Three groups of operators:                                              *)
(*   protocol   ResShape, ResKind, ResDType  -- result shape / kind / dtype*)
(*   values     ExactCall1/2, ExactReduce, ExactAccumulate, ExactOuter,    *)
(*              ExactAt, ExactReduceAt for the exact integer-valued ufuncs *)
(*   (for all other ufuncs NumPy itself is the value oracle: the trace     *)
(*   carries the reference computed on the raw arrays)                     *)
(***************************************************************************)
EXTENDS ExactNum, TLC

(* ------------------------------ shapes --------------------------------- *)
RECURSIVE Prod(_)
Prod(s) == IF Len(s) = 0 THEN 1 ELSE Head(s) * Prod(Tail(s))

\* 0-based coordinates of the 0-based flat C-order index i0 in shape s, and back
RECURSIVE Coords(_, _)
Coords(i0, s) == IF Len(s) = 0 THEN <<>>
                 ELSE LET rest == Prod(Tail(s)) IN <<i0 \div rest>> \o Coords(i0 % rest, Tail(s))
RECURSIVE Flat(_, _)
Flat(c, s) == IF Len(s) = 0 THEN 0 ELSE Head(c) * Prod(Tail(s)) + Flat(Tail(c), Tail(s))

AxisDefault == <<99>>
AxisNone    == <<98>>
NormAxis(ax, nd) == IF ax < 0 THEN ax + nd ELSE ax
AxisValid(axis, nd) ==
  \/ axis = AxisDefault \/ axis = AxisNone
  \/ /\ \A i \in 1..Len(axis) : NormAxis(axis[i], nd) \in 0..(nd - 1)
     /\ \A i \in 1..Len(axis), j \in 1..Len(axis) : i # j => NormAxis(axis[i], nd) # NormAxis(axis[j], nd)
\* set of (0-based, normalised) axes a reduction runs over; the NumPy default is axis 0
AxesOf(axis, nd) ==
  IF axis = AxisDefault THEN {0}
  ELSE IF axis = AxisNone THEN 0..(nd - 1)
  ELSE { NormAxis(axis[i], nd) : i \in 1..Len(axis) }
\* the single axis of accumulate / reduceat
AxisOf(axis, nd) == IF axis = AxisDefault THEN 0 ELSE NormAxis(axis[1], nd)

\* shape after reducing over the axis set A
RECURSIVE DropAxes(_, _, _, _)
DropAxes(s, A, keep, k) ==          \* k: 0-based number of the first axis of s
  IF Len(s) = 0 THEN <<>>
  ELSE (IF k \in A THEN (IF keep THEN <<1>> ELSE <<>>) ELSE <<Head(s)>>) \o DropAxes(Tail(s), A, keep, k + 1)
ReducedShape(s, A, keep) == DropAxes(s, A, keep, 0)

Methods == {"call", "reduce", "accumulate", "outer", "at", "reduceat"}

\* RESULT SHAPE per method.  shapes: the operand shapes; nidx: number of reduceat indices
ResShape(method, shapes, axis, keepdims, nidx) ==
  LET s == shapes[1]  nd == Len(shapes[1]) IN
  CASE method = "call"       -> s
    [] method = "accumulate" -> s
    [] method = "outer"      -> shapes[1] \o shapes[2]
    [] method = "reduce"     -> ReducedShape(s, AxesOf(axis, nd), keepdims)
    [] method = "reduceat"   -> [s EXCEPT ![AxisOf(axis, nd) + 1] = nidx]
    [] method = "at"         -> s          \* shape of the (in-place modified) first operand

(* ------------------------------- kinds --------------------------------- *)
\* kind of the operand elements: "tensor" | "discr" | "power"
\* outkind: "none" | "element" (of the operand kind) | "tensor" | "ndarray"
\* result kinds: the above, "scalar" (NumPy scalar), "none" (at returns nothing),
\*   "refused" : the discretised classes DOCUMENT that they decline the request (explicit ValueError /
\*               TypeError): a refusal is accepted, a result must still be right
\*   "any"     : the statement does not fix a product space of that shape; any carrier of the right numbers
\* (a discretised element given as out= to tensor operands puts the discretised class in charge, so its documented
\*  refusals apply there as well; its outer additionally insists on discretised INPUTS)
ResKind(kind, method, outkind, keepdims, fullreduce, mixed) ==
  LET dk == kind = "discr" \/ outkind = "discr" IN
  IF method = "at" THEN "none"
  ELSE IF dk /\ method = "reduceat" THEN "refused"
  ELSE IF dk /\ method = "reduce" /\ keepdims THEN "refused"
  ELSE IF dk /\ method = "outer" /\ (mixed \/ kind # "discr") THEN "refused"
  ELSE IF outkind = "element" THEN kind
  ELSE IF outkind # "none" THEN outkind
  ELSE IF method = "reduce" /\ fullreduce /\ ~keepdims THEN "scalar"
  ELSE IF kind = "power" /\ method \in {"reduce", "outer", "reduceat"} THEN "any"
  ELSE kind

(* ------------------------------- dtypes -------------------------------- *)
\* result dtype of the exact ufuncs (for every other ufunc the NumPy reference defines it)
RealOf(dt) == CASE dt = "complex64" -> "float32" [] dt = "complex128" -> "float64" [] OTHER -> dt
\* NumPy documents that add / multiply reductions of integers narrower than the platform integer are
\* carried out (and returned) in the platform integer
ResDType(name, method, dt, dtkw) ==
  IF method = "at" THEN dt                       \* in place: the first operand keeps its dtype
  ELSE IF dtkw # "none" THEN dtkw
  ELSE IF name \in {"equal", "not_equal", "less", "less_equal", "greater", "greater_equal",
                    "logical_and", "logical_or", "logical_xor", "logical_not"} THEN "bool"
  ELSE IF name = "absolute" THEN RealOf(dt)
  ELSE IF method \in {"reduce", "accumulate", "reduceat"} /\ name \in {"add", "multiply"} /\ dt = "int32" THEN "int64"
  ELSE dt

\* The dtype keyword and the out argument (NumPy's own rule): the computation is carried out in dtype= (if
\* given), the result is then CAST into out (if given) -- so the returned object, which is out itself, has
\* the dtype of out and holds the value computed in the requested dtype.  outdt = "none": no out argument.
ResDTypeOut(name, method, dt, dtkw, outdt) ==
  IF outdt # "none" THEN outdt ELSE ResDType(name, method, dt, dtkw)
\* the dtype ladder used for "wider" / "narrower" keyword and out dtypes ("n/a": there is none)
WiderDT(dt) == CASE dt = "bool" -> "int64" [] dt = "int32" -> "int64" [] dt = "int64" -> "float64"
                 [] dt = "float32" -> "float64" [] dt = "float64" -> "complex128"
                 [] dt = "complex64" -> "complex128" [] OTHER -> "n/a"
NarrowerDT(dt) == CASE dt = "int64" -> "int32" [] dt = "float64" -> "float32" [] dt = "complex128" -> "complex64"
                    [] OTHER -> "n/a"
RelDT(mode, dt) == CASE mode = "same" -> dt [] mode = "wider" -> WiderDT(dt) [] mode = "narrower" -> NarrowerDT(dt)
                     [] OTHER -> "none"

(* --------------------------- exact entry functions --------------------- *)
B01(b) == IF b THEN COne ELSE CZero
Truthy(z) == z # CZero
RealC(q) == <<q, QZero>>
ExactBinary == {"add", "subtract", "multiply", "maximum", "minimum", "equal", "not_equal", "less",
                "less_equal", "greater", "greater_equal", "logical_and", "logical_or", "logical_xor"}
ExactUnary  == {"negative", "positive", "absolute", "sign", "square", "conjugate", "logical_not"}
\* the entries of maximum / minimum / order comparisons / absolute / sign are real numbers
F2(name, a, b) ==
  CASE name = "add"           -> CAdd(a, b)
    [] name = "subtract"      -> CSub(a, b)
    [] name = "multiply"      -> CMul(a, b)
    [] name = "maximum"       -> RealC(QMax(a[1], b[1]))
    [] name = "minimum"       -> RealC(QMin(a[1], b[1]))
    [] name = "equal"         -> B01(a = b)
    [] name = "not_equal"     -> B01(a # b)
    [] name = "less"          -> B01(QLt(a[1], b[1]))
    [] name = "less_equal"    -> B01(QLe(a[1], b[1]))
    [] name = "greater"       -> B01(QLt(b[1], a[1]))
    [] name = "greater_equal" -> B01(QLe(b[1], a[1]))
    [] name = "logical_and"   -> B01(Truthy(a) /\ Truthy(b))
    [] name = "logical_or"    -> B01(Truthy(a) \/ Truthy(b))
    [] name = "logical_xor"   -> B01(Truthy(a) # Truthy(b))
F1(name, a) ==
  CASE name = "negative"    -> CNeg(a)
    [] name = "positive"    -> a
    [] name = "absolute"    -> RealC(QAbs(a[1]))
    [] name = "sign"        -> RealC(QSign(a[1]))
    [] name = "square"      -> CMul(a, a)
    [] name = "conjugate"   -> CConj(a)
    [] name = "logical_not" -> B01(~Truthy(a))

RECURSIVE FoldL(_, _, _)
FoldL(name, acc, s) == IF Len(s) = 0 THEN acc ELSE FoldL(name, F2(name, acc, Head(s)), Tail(s))
\* left fold of a non-empty sequence, starting from its first entry (NumPy's order along an axis);
\* the logical ufuncs produce booleans, so their first entry is cast to a boolean as well
Logical == {"logical_and", "logical_or", "logical_xor"}
Cast(name, z) == IF name \in Logical THEN B01(Truthy(z)) ELSE z
Fold(name, s) == FoldL(name, Cast(name, Head(s)), Tail(s))

Idx(n) == [i \in 1..n |-> i]

(* ------------------------------- methods ------------------------------- *)
ExactCall1(name, x) == [sh |-> x.sh, v |-> [i \in 1..Len(x.v) |-> F1(name, x.v[i])]]
ExactCall2(name, x, y) == [sh |-> x.sh, v |-> [i \in 1..Len(x.v) |-> F2(name, x.v[i], y.v[i])]]

\* coordinates with the axes of A removed
RECURSIVE DropCoords(_, _, _)
DropCoords(c, A, k) == IF Len(c) = 0 THEN <<>>
                       ELSE (IF k \in A THEN <<>> ELSE <<Head(c)>>) \o DropCoords(Tail(c), A, k + 1)

ExactReduce(name, x, axis, keepdims) ==
  LET nd == Len(x.sh)
      A  == AxesOf(axis, nd)
      rs == ReducedShape(x.sh, A, FALSE)
      key(i) == Flat(DropCoords(Coords(i - 1, x.sh), A, 0), rs) + 1
      members(j) == SelectSeq(Idx(Len(x.v)), LAMBDA i : key(i) = j)
  IN  [sh |-> ReducedShape(x.sh, A, keepdims),
       v  |-> [j \in 1..Prod(rs) |-> Fold(name, [k \in 1..Len(members(j)) |-> x.v[members(j)[k]]])]]

ExactAccumulate(name, x, axis) ==
  LET nd == Len(x.sh)
      ax == AxisOf(axis, nd)
      prefix(i) == LET c == Coords(i - 1, x.sh)
                   IN  [k \in 1..(c[ax + 1] + 1) |-> x.v[Flat([c EXCEPT ![ax + 1] = k - 1], x.sh) + 1]]
  IN  [sh |-> x.sh, v |-> [i \in 1..Len(x.v) |-> Fold(name, prefix(i))]]

ExactOuter(name, x, y) ==
  LET ny == Len(y.v) IN
  [sh |-> x.sh \o y.sh,
   v  |-> [i \in 1..(Len(x.v) * ny) |-> F2(name, x.v[((i - 1) \div ny) + 1], y.v[((i - 1) % ny) + 1])]]

\* ufunc.at(x, idx[, b]) with a list idx of (possibly repeated, possibly negative) indices into the FIRST
\* axis and a scalar second operand b: unbuffered, i.e. every occurrence of an index is applied
RECURSIVE AtLoop(_, _, _, _, _, _)
AtLoop(name, sh, v, idx, b, unary) ==
  IF Len(idx) = 0 THEN v
  ELSE LET row == NormAxis(Head(idx), sh[1])
           v2 == [i \in 1..Len(v) |->
                    IF Coords(i - 1, sh)[1] = row
                      THEN (IF unary THEN F1(name, v[i]) ELSE F2(name, v[i], b))
                      ELSE v[i]]
       IN  AtLoop(name, sh, v2, Tail(idx), b, unary)
ExactAt(name, x, idx, b, unary) == [sh |-> x.sh, v |-> AtLoop(name, x.sh, x.v, idx, b, unary)]

\* ufunc.reduceat(x, ind, axis): segment k is [ind[k], ind[k+1]) if increasing, the single entry ind[k]
\* otherwise; the last segment runs to the end of the axis
ExactReduceAt(name, x, ind, axis) ==
  LET nd == Len(x.sh)
      ax == AxisOf(axis, nd)
      n  == x.sh[ax + 1]
      rs == [x.sh EXCEPT ![ax + 1] = Len(ind)]
      hi(k) == IF k < Len(ind) THEN ind[k + 1] ELSE n
      seg(k) == IF ind[k] < hi(k) THEN [p \in 1..(hi(k) - ind[k]) |-> ind[k] + p - 1] ELSE <<ind[k]>>
      entry(j) == LET c == Coords(j - 1, rs)
                      k == c[ax + 1] + 1
                  IN  Fold(name, [p \in 1..Len(seg(k)) |-> x.v[Flat([c EXCEPT ![ax + 1] = seg(k)[p]], x.sh) + 1]])
  IN  [sh |-> rs, v |-> [j \in 1..Prod(rs) |-> entry(j)]]

(* ------------------------- the value oracle, one entry point ----------- *)
\* ExactUfunc(name, a): the array an exact ufunc has to produce.  a is the call record
\*   [method, unary, x, y, axis, keepdims, idx, b]
\* (x, y operand arrays; idx the indices of at / reduceat; b the scalar second operand of at)
ExactUfunc(name, a) ==
  CASE a.method = "call" /\ a.unary -> ExactCall1(name, a.x)
    [] a.method = "call"       -> ExactCall2(name, a.x, a.y)
    [] a.method = "reduce"     -> ExactReduce(name, a.x, a.axis, a.keepdims)
    [] a.method = "accumulate" -> ExactAccumulate(name, a.x, a.axis)
    [] a.method = "outer"      -> ExactOuter(name, a.x, a.y)
    [] a.method = "at"         -> ExactAt(name, a.x, a.idx, a.b, a.unary)
    [] a.method = "reduceat"   -> ExactReduceAt(name, a.x, a.idx, a.axis)
=============================================================================

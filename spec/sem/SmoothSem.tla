----------------------------- MODULE SmoothSem -----------------------------
(***************************************************************************)
(* Layer A (extension stage "smooth"): reference semantics of ODL's smooth *)
(* solvers and step-length rules,                                          *)
(*    odl/solvers/smooth/{newton,gradient,nonlinear_cg}.py                 *)
(*    odl/solvers/util/steplen.py                                          *)
(* written from the DOCSTRINGS and the texts they cite ([GNS2009] 12.2-3,  *)
(* [BV2004] 9.2-9.5, [KB2015] Alg. 1, the Wikipedia articles on BFGS,      *)
(* Broyden's method, nonlinear conjugate gradients and backtracking line   *)
(* search) - never from the loop bodies (those are layer C, SmoothImpl).   *)
(*                                                                         *)
(* Everything lives in a Hilbert space  X = (R^n, <u,v> = sum w_i u_i v_i) *)
(* (w = 1: rn; w = const: rn(weighting=c), uniform_discr with cell volume  *)
(* c; w = array: rn(weighting=array), weighted product spaces).  The       *)
(* docstrings say "differentiable f : X -> R on a Hilbert space X", "finds *)
(* a zero of the gradient  grad f : X -> X", and Functional.gradient       *)
(* documents grad f(x) as "the element used to evaluate derivatives in a   *)
(* direction d by <grad f(x), d>" - the Riesz representative.  So every    *)
(* "y^T s" of the cited formulas is the inner product of X.                *)
(*                                                                         *)
(* Problems (record P):                                                    *)
(*   kind "quad"   f(x) = 1/2 x^T M x - c^T x,  M symmetric positive def., *)
(*                 sol = the minimiser (M sol = c, checked by TLC)         *)
(*   kind "quart"  f(x) = 1/4 sum_i w_i (x_i - t_i)^4  (non-quadratic,     *)
(*                 separable: Newton contracts x - t by 2/3 per step)      *)
(*   kind "lin"    f(x) = c^T x  (constant gradient; never stationary)     *)
(* Exact arithmetic on rationals <<n,d>> (overflow-conscious variant of    *)
(* SolverSem, which this module extends for its scalar / vector algebra).  *)
(***************************************************************************)
EXTENDS SolverSem

Three == <<3, 1>>
\* TLC evaluates a LET definition anew at every use and keeps [i \in S |-> e] as an unevaluated lambda; operator
\* ARGUMENTS are evaluated once.  W binds a value once, E forces it.
W(v, Op(_)) == Op(v)
E(v) == TLCEval(v)
Dim(P) == Len(P.w)

(* ------------------------- the Hilbert space ---------------------------- *)
WInner(P, u, v) == SSum([i \in 1..Len(u) |-> SMul(P.w[i], SMul(u[i], v[i]))])
WNorm2(P, u) == WInner(P, u, u)
Unit(n, j) == [i \in 1..n |-> IF i = j THEN QOne ELSE QZero]
IsZeroVec(u) == \A i \in 1..Len(u) : SIsZero(u[i])

(* ------------------------- the functionals ------------------------------ *)
SCube(p) == SMul(p, SMul(p, p))
QVal(P, x) ==
  IF P.kind = "quad"
    THEN SSub(SMul(Half, RDot(x, MatVec(P.M, x))), RDot(P.c, x))
  ELSE IF P.kind = "lin" THEN RDot(P.c, x)
    ELSE SMul(<<1, 4>>, SSum([i \in 1..Len(x) |-> SMul(P.w[i], SSq(SSq(SSub(x[i], P.t[i]))))]))
\* Euclidean gradient (the vector of partial derivatives)
QEGrad(P, x) ==
  IF P.kind = "quad" THEN RSub(MatVec(P.M, x), P.c)
  ELSE IF P.kind = "lin" THEN P.c
  ELSE [i \in 1..Len(x) |-> SMul(P.w[i], SCube(SSub(x[i], P.t[i])))]
\* gradient in X: <QGrad(x), d> = f'(x; d) for every d
QGrad(P, x) == LET e == QEGrad(P, x) IN [i \in 1..Len(x) |-> SDiv(e[i], P.w[i])]
\* Hessian operator of X at x applied to v (derivative of the gradient operator)
QHessV(P, x, v) ==
  IF P.kind = "quad" THEN LET e == MatVec(P.M, v) IN [i \in 1..Len(v) |-> SDiv(e[i], P.w[i])]
  ELSE IF P.kind = "lin" THEN RZero(Len(v))
  ELSE [i \in 1..Len(v) |-> SMul(SMul(Three, SSq(SSub(x[i], P.t[i]))), v[i])]
\* directional derivative, as LineSearch.__call__ documents its third argument
DirDeriv(P, x, d) == WInner(P, QGrad(P, x), d)
Stationary(P, x) == IsZeroVec(QEGrad(P, x))
\* well-formedness of a catalogue problem (TLC checks it on every instance)
ProblemOK(P) ==
  /\ \A i \in 1..Dim(P) : SPos(P.w[i])
  /\ P.kind = "quad" =>
       /\ \A i, j \in 1..Dim(P) : P.M[i][j] = P.M[j][i]
       /\ MatVec(P.M, P.sol) = P.c
       /\ \A j \in 1..Dim(P) : SPos(RDot(Unit(Dim(P), j), MatVec(P.M, Unit(Dim(P), j))))
  /\ P.kind = "quart" => P.sol = P.t

(* ------------------------- conjugate gradients in X --------------------- *)
\* CG for  H p = r0  (H = Hessian at x, self-adjoint and positive in X), started at p = 0:  state [p, r, q]
WCGInit(r0) == [p |-> RZero(Len(r0)), r |-> r0, q |-> r0]
\* one CG update of [p, r, q] with H q given; `fld` names the iterate field
CGUpdate(P, s, Hq, fld) ==
  W(SDiv(WNorm2(P, s.r), WInner(P, s.q, Hq)), LAMBDA al :
  W(E(RSub(s.r, RScal(al, Hq))), LAMBDA r1 :
  W(SDiv(WNorm2(P, r1), WNorm2(P, s.r)), LAMBDA be :
    [s EXCEPT ![fld] = E(RAdd(s[fld], RScal(al, s.q))), !.r = r1, !.q = E(RAdd(r1, RScal(be, s.q)))])))
WCGStep(P, x, s) == IF IsZeroVec(s.r) THEN s ELSE CGUpdate(P, s, E(QHessV(P, x, s.q)), "p")
RECURSIVE WCGRun(_, _, _, _)
WCGRun(P, x, s, j) == IF j = 0 THEN s ELSE WCGRun(P, x, E(WCGStep(P, x, s)), j - 1)
\* linear CG for the minimisation problem itself (reference of the "BFGS / nonlinear CG with exact line search on a
\* quadratic generate the CG iterates" theorems):  state [x, r, q] with r = -grad f(x)
LCGInit(P, x0) == W(E(RNeg(QGrad(P, x0))), LAMBDA r : [x |-> x0, r |-> r, q |-> r])
LCGStep(P, s) == IF IsZeroVec(s.r) THEN s ELSE CGUpdate(P, s, E(QHessV(P, s.x, s.q)), "x")

(* ======================================================================= *)
(* Step-length rules (odl/solvers/util/steplen.py)                          *)
(*                                                                         *)
(* A rule is a record `ls`; rules with memory also have an object state     *)
(* `lo = [calls, alpha, total]` that persists as long as the OBJECT lives   *)
(* (also across solver calls that are handed the same object).              *)
(*   k = "const"    ConstantLineSearch(a) / a float: always a               *)
(*   k = "iternum"  LineSearchFromIterNum(func): "the returned step length  *)
(*                  is func(iter_count)", "the iteration count starts at 0" *)
(*                  -> call number j (j = 1, 2, ..) returns seq[j]          *)
(*   k = "exact"    a user-defined LineSearch (the interface the docstrings *)
(*                  allow) returning the exact minimiser along d from the   *)
(*                  dir_derivative it is handed:  a = -dd / <d, H d>        *)
(*   k = "bt"       BacktrackingLineSearch(f, tau, discount, alpha,         *)
(*                  max_num_iter, estimate_step)                            *)
(* ======================================================================= *)
LS0 == [k |-> "const", a |-> QOne, seq |-> <<>>, tau |-> Half, disc |-> <<1, 100>>, alpha0 |-> QOne,
        est |-> FALSE, maxit |-> 40]
LSConst(a) == [LS0 EXCEPT !.a = a]
LSExact == [LS0 EXCEPT !.k = "exact"]
LSIterNum(seq) == [LS0 EXCEPT !.k = "iternum", !.seq = seq]
LSBT(tau, disc, alpha0, est, maxit) ==
  [LS0 EXCEPT !.k = "bt", !.tau = tau, !.disc = disc, !.alpha0 = alpha0, !.est = est, !.maxit = maxit]
LOInit(ls) == [calls |-> 0, alpha |-> ls.alpha0, total |-> 0]

\* --- backtracking ([BV2004] Alg. 9.2, [GNS2009] p. 378, class docstring):
\*   "tau: the step length is updated as step_length *= tau as long as it does not fulfill the decrease condition",
\*   "discount: the discount factor on step length * direction derivative, yielding the threshold under which the
\*    function value must lie to be accepted",  "alpha: the initial guess for the step length",
\*   "estimate_step: if the last step should be used as an estimate for the next step",
\*   "max_num_iter: maximum number of iterations allowed each time the line search method is called".
\* The candidates are  a_j = sg * start * tau^j , j = 0, 1, ..;  sg = -1 for an ascent direction (the search then
\* moves backwards - behaviour fixed by ODL's own unit test, which demands a decrease for d = +x).
BTArmijo(P, x, d, dd, a, disc) ==
  SLe(QVal(P, RAdd(x, RScal(a, d))), SAdd(QVal(P, x), SMul(disc, SMul(a, dd))))
BTTie(P, x, d, dd, a, disc) ==
  QVal(P, RAdd(x, RScal(a, d))) = SAdd(QVal(P, x), SMul(disc, SMul(a, dd)))
\* first candidate number j in j0..jmax that is accepted, as [j, a, tie]; j = -1: none
RECURSIVE BTFrom(_, _, _, _, _, _, _, _, _)
BTFrom(P, x, d, dd, a, ls, j, jmax, tie) ==
  IF j > jmax THEN [j |-> -1, a |-> a, tie |-> tie]
  ELSE IF BTArmijo(P, x, d, dd, a, ls.disc)
         THEN [j |-> j, a |-> a, tie |-> tie \/ BTTie(P, x, d, dd, a, ls.disc)]
  ELSE BTFrom(P, x, d, dd, SMul(a, ls.tau), ls, j + 1, jmax, tie)
\* the documented start of a call: the initial guess `alpha`; with estimate_step the last returned step length
BTStart(ls, lo) == IF ls.est /\ lo.calls > 0 THEN lo.alpha ELSE ls.alpha0
BTSign(dd) == IF SPos(dd) THEN <<-1, 1>> ELSE QOne
\* result of one call: [status, a, j, tie]
\*   status "ok"      a = the first accepted candidate, j <= maxit - 1 reductions were needed
\*          "edge"    the first accepted candidate needs exactly maxit reductions: "maximum number of iterations"
\*                    can be read as reductions or as trials, so returning a and raising are both acceptable
\*          "raise"   no candidate within the allowed number is accepted: the call raises (ValueError)
\*          "nodescent"  dd = 0: "no descent can be found" (raises)
BTCall(P, ls, lo, x, d, dd) ==
  IF SIsZero(dd) THEN [status |-> "nodescent", a |-> QZero, j |-> 0, tie |-> FALSE]
  ELSE LET r == BTFrom(P, x, d, dd, SMul(BTSign(dd), BTStart(ls, lo)), ls, 0, ls.maxit, FALSE)
       IN  [status |-> IF r.j = -1 THEN "raise" ELSE IF r.j = ls.maxit THEN "edge" ELSE "ok",
            a |-> r.a, j |-> r.j, tie |-> r.tie]
BTNext(lo, r) ==
  IF r.status \in {"ok", "edge"}
    THEN [calls |-> lo.calls + 1, alpha |-> SAbs(r.a), total |-> lo.total + r.j]
    ELSE [lo EXCEPT !.calls = lo.calls + 1]
\* laws of a successful call (checked as invariants): the returned step fulfils the decrease condition, every earlier
\* candidate fails it, and it is start * tau^j with the documented start
RECURSIVE TauPow(_, _)
TauPow(tau, j) == IF j = 0 THEN QOne ELSE SMul(tau, TauPow(tau, j - 1))
BTLaw(P, ls, lo, x, d, dd, r) ==
  r.status \in {"ok", "edge"} =>
    /\ BTArmijo(P, x, d, dd, r.a, ls.disc)
    /\ SLt(QVal(P, RAdd(x, RScal(r.a, d))), QVal(P, x))
    /\ r.a = SMul(SMul(BTSign(dd), BTStart(ls, lo)), TauPow(ls.tau, r.j))
    /\ \A i \in 0..(r.j - 1) :
         ~BTArmijo(P, x, d, dd, SMul(SMul(BTSign(dd), BTStart(ls, lo)), TauPow(ls.tau, i)), ls.disc)

\* --- exact minimiser along d of a quadratic (the user-defined rule)
ExactStep(P, x, d, dd) == SDiv(SNeg(dd), WInner(P, d, QHessV(P, x, d)))

\* --- one call of any rule from a solver:  [a, lo, ok, tie]
StepLen(P, ls, lo, x, d, dd) ==
  CASE ls.k = "const"   -> [a |-> ls.a, lo |-> [lo EXCEPT !.calls = lo.calls + 1], ok |-> TRUE, tie |-> FALSE]
    [] ls.k = "iternum" -> [a |-> ls.seq[lo.calls + 1], lo |-> [lo EXCEPT !.calls = lo.calls + 1], ok |-> TRUE,
                            tie |-> FALSE]
    [] ls.k = "exact"   -> [a |-> ExactStep(P, x, d, dd), lo |-> [lo EXCEPT !.calls = lo.calls + 1], ok |-> TRUE,
                            tie |-> FALSE]
    [] ls.k = "bt"      -> LET r == BTCall(P, ls, lo, x, d, dd)
                           IN  [a |-> r.a, lo |-> BTNext(lo, r), ok |-> r.status = "ok", tie |-> r.tie]

(* ======================================================================= *)
(* The solvers.  An instance I:                                             *)
(*   solver  "newton" | "bfgs" | "broyden" | "ncg" | "sd" | "adam"          *)
(*   P, x0, N (maxiter), ls                                                 *)
(*   store   num_store of bfgs_method (-1 = None: all corrections)          *)
(*   h0      diagonal of hessinv_estimate (<<>> = default identity)         *)
(*   impl    "first" | "second" (broydens_method)                           *)
(*   beta    "FR" | "PR" | "HS" | "DY" (conjugate_gradient_nonlinear)       *)
(*   cgit    cg_iter of newtons_method (0 = enough for the exact solve)     *)
(*   box     <<lo, hi>> projection of steepest_descent (<<>> = none)        *)
(*   lr, b1, b2   adam                                                      *)
(* A solver state is a record with the fields of S0 (unused ones stay at    *)
(* their initial value); `d, dd, a` describe the most recent line-search    *)
(* call (current point = the x before the update), `ok` turns FALSE when    *)
(* the rule failed or the textbook iteration is undefined (breakdown).      *)
(* ======================================================================= *)
S0(I, x, lo) ==
  [x |-> x, lo |-> lo, d |-> <<>>, dd |-> QZero, a |-> QZero, ok |-> TRUE, tie |-> FALSE,
   pairs |-> <<>>,                \* bfgs: stored corrections [s, y], oldest first
   H |-> <<>>,                    \* broyden: dense inverse Jacobian estimate (matrix)
   gp |-> <<>>, sp |-> <<>>,      \* ncg: previous gradient and previous search direction
   m |-> <<>>, v |-> <<>>, t |-> 0]      \* adam: moment estimates, time step

Diag(h) == [i \in 1..Len(h) |-> [j \in 1..Len(h) |-> IF i = j THEN h[i] ELSE QZero]]
H0Vec(I) == IF I.h0 = <<>> THEN ROne(Dim(I.P)) ELSE I.h0
H0Apply(I, v) == RMul(H0Vec(I), v)

\* ---- Newton ([BV2004] 9.5, docstring: solve  f''(x_k) p_k = -f'(x_k),  x_{k+1} = x_k + alpha p_k; "the system of
\*      equations is solved using the conjugate gradient method", cg_iter = "number of iterations in the conjugate
\*      gradient solver"; the default is enough for the exact solution)
NewtonExactDir(P, x) ==
  IF P.kind = "quad" THEN RSub(P.sol, x)
  ELSE [i \in 1..Len(x) |-> SMul(<<-1, 3>>, SSub(x[i], P.t[i]))]
NewtonDir(I, x) ==
  IF I.cgit = 0 THEN NewtonExactDir(I.P, x)
  ELSE WCGRun(I.P, x, WCGInit(E(RNeg(QGrad(I.P, x)))), I.cgit).p
\* common tail of the line-search methods: ask the rule, move
Move(I, s, d, dd, r) ==
  [s EXCEPT !.x = RAdd(s.x, RScal(r.a, d)), !.lo = r.lo, !.d = d, !.dd = dd, !.a = r.a,
            !.ok = s.ok /\ r.ok, !.tie = s.tie \/ r.tie]
NewtonStep(I, s) ==
  W(E(NewtonDir(I, s.x)), LAMBDA d :
  W(DirDeriv(I.P, s.x, d), LAMBDA dd :
  W(E(StepLen(I.P, I.ls, s.lo, s.x, d, dd)), LAMBDA r : Move(I, s, d, dd, r))))

\* ---- BFGS ([GNS2009] 12.3, Wikipedia, and the recursion stated with _bfgs_direction):
\*        H_{n+1} = (I - s y^T / y^T s) H_n (I - y s^T / y^T s) + s s^T / y^T s ,   H_0 = hessinv_estimate
\*      x_{n+1} = x_n + alpha_n d_n,  d_n = -H_n grad f(x_n),  s_n = x_{n+1} - x_n,  y_n = grad f(x_{n+1}) - grad f(x_n).
\*      num_store = m: "maximum number of correction factors to store ... the method becomes the Limited Memory BFGS
\*      method": H_n is built from H_0 with the most recent min(n, m) corrections.
RECURSIVE BFGSApply(_, _, _, _)
BFGSUpd(P, s, y, rho, sv, u) ==
  RAdd(RSub(u, RScal(SMul(rho, WInner(P, y, u)), s)),                  \* (I - rho s y^T) u
       RScal(SMul(rho, sv), s))                                        \* + rho s s^T v
BFGSApply(I, pairs, n, v) ==          \* H built from pairs[1..n], applied to v
  IF n = 0 THEN H0Apply(I, v)
  ELSE W(SInv(WInner(I.P, pairs[n].y, pairs[n].s)), LAMBDA rho :
       W(WInner(I.P, pairs[n].s, v), LAMBDA sv :
       W(E(BFGSApply(I, pairs, n - 1, E(RSub(v, RScal(SMul(rho, sv), pairs[n].y))))), LAMBDA u :   \* H_{n-1} (I - rho y s^T) v
         E(BFGSUpd(I.P, pairs[n].s, pairs[n].y, rho, sv, u)))))
LastN(seq, m) == IF m < 0 \/ Len(seq) <= m THEN seq ELSE SubSeq(seq, Len(seq) - m + 1, Len(seq))
BFGSStep(I, s) ==
  W(E(QGrad(I.P, s.x)), LAMBDA g :
  W(E(RNeg(BFGSApply(I, s.pairs, Len(s.pairs), g))), LAMBDA d :
  W(WInner(I.P, g, d), LAMBDA dd :
  W(E(StepLen(I.P, I.ls, s.lo, s.x, d, dd)), LAMBDA r :
  W(E(RScal(r.a, d)), LAMBDA sv :
  W(E(RSub(QGrad(I.P, RAdd(s.x, sv)), g)), LAMBDA y :
  W(WInner(I.P, y, sv), LAMBDA curv :
    [Move(I, s, d, dd, r) EXCEPT
       !.ok = s.ok /\ r.ok /\ SPos(curv),                              \* y^T s > 0: the update is defined
       !.pairs = IF SPos(curv) THEN LastN(Append(s.pairs, [s |-> sv, y |-> y]), I.store) ELSE s.pairs])))))))

\* ---- Broyden (Wikipedia "Broyden's method", [Bro1965]; solving grad f = 0 with an inverse Jacobian estimate H):
\*        x_{n+1} = x_n - alpha_n H_n g_n ,  dx = x_{n+1} - x_n ,  dg = g_{n+1} - g_n
\*      "first" / good:   H_{n+1} = H_n + (dx - H_n dg) / (dx^T H_n dg) * dx^T H_n
\*      "second" / bad:   H_{n+1} = H_n + (dx - H_n dg) / (dg^T dg) * dg^T
\*      dense matrices; "u v^T" is the operator z -> u <v, z>
MatMul(A, B) == [i \in 1..Len(A) |-> [j \in 1..Len(B[1]) |-> SSum([l \in 1..Len(B) |-> SMul(A[i][l], B[l][j])])]]
MatAdd(A, B) == [i \in 1..Len(A) |-> RAdd(A[i], B[i])]
OuterW(P, u, v) == [i \in 1..Len(u) |-> [j \in 1..Len(v) |-> SMul(u[i], SMul(v[j], P.w[j]))]]
BroydenStep(I, s) ==
  W(E(QGrad(I.P, s.x)), LAMBDA g :
  W(E(RNeg(MatVec(s.H, g))), LAMBDA d :
  W(WInner(I.P, g, d), LAMBDA dd :
  W(E(StepLen(I.P, I.ls, s.lo, s.x, d, dd)), LAMBDA r :
  W(E(RScal(r.a, d)), LAMBDA dx :
  W(E(RSub(QGrad(I.P, RAdd(s.x, dx)), g)), LAMBDA dg :
  W(E(MatVec(s.H, dg)), LAMBDA Hdg :
  W(IF I.impl = "first" THEN WInner(I.P, dx, Hdg) ELSE WInner(I.P, dg, dg), LAMBDA den :
    IF SIsZero(den) THEN [Move(I, s, d, dd, r) EXCEPT !.ok = FALSE]
    ELSE W(E(RScal(SInv(den), RSub(dx, Hdg))), LAMBDA u :
         [Move(I, s, d, dd, r) EXCEPT
            !.H = E(IF I.impl = "first" THEN MatAdd(s.H, MatMul(E(OuterW(I.P, u, dx)), s.H))
                    ELSE MatAdd(s.H, OuterW(I.P, u, dg)))])))))))))

\* ---- nonlinear conjugate gradients (the Wikipedia article the docstring cites), dx_n = -grad f(x_n):
\*        s_0 = dx_0 ;  s_n = dx_n + beta_n s_{n-1} ;  x_{n+1} = x_n + alpha_n s_n
\*        FR  dx_n^T dx_n / dx_{n-1}^T dx_{n-1}            PR  dx_n^T (dx_n - dx_{n-1}) / dx_{n-1}^T dx_{n-1}
\*        HS  dx_n^T (dx_n - dx_{n-1}) / (-s_{n-1}^T (dx_n - dx_{n-1}))      DY  dx_n^T dx_n / (-s_{n-1}^T (dx_n - dx_{n-1}))
\*      The article mentions  beta = max(0, beta)  as "a popular choice": instances on which some beta is negative are
\*      flagged (`tie`) and not compared.
NCGBetaDen(I, g, s) ==
  IF I.beta \in {"FR", "PR"} THEN WNorm2(I.P, s.gp) ELSE WInner(I.P, s.sp, RSub(g, s.gp))
NCGBetaNum(I, g, s) ==
  IF I.beta \in {"FR", "DY"} THEN WNorm2(I.P, g) ELSE WInner(I.P, g, RSub(g, s.gp))
NCGStep(I, s) ==
  W(E(QGrad(I.P, s.x)), LAMBDA g :
  W(IF s.sp = <<>> THEN QOne ELSE NCGBetaDen(I, g, s), LAMBDA den :
  W(IF s.sp = <<>> \/ SIsZero(den) THEN QZero ELSE SDiv(NCGBetaNum(I, g, s), den), LAMBDA be :
  W(E(IF s.sp = <<>> THEN RNeg(g) ELSE RAdd(RNeg(g), RScal(be, s.sp))), LAMBDA d :
  W(WInner(I.P, g, d), LAMBDA dd :
  W(E(StepLen(I.P, I.ls, s.lo, s.x, d, dd)), LAMBDA r :
    [Move(I, s, d, dd, r) EXCEPT
       !.ok = s.ok /\ r.ok /\ ~SIsZero(den), !.tie = s.tie \/ r.tie \/ ~SLe(QZero, be),
       !.gp = g, !.sp = d]))))))

\* ---- steepest descent ([BV2004] 9.3, [GNS2009] 12.2):  x+ = proj(x - alpha grad f(x));  "projection: function that
\*      can be used to modify the iterates in each iteration, for example enforcing positivity"
BoxProj(box, x) == IF box = <<>> THEN x ELSE [i \in 1..Len(x) |-> SMin(SMax(x[i], box[1]), box[2])]
SDStepA(I, s) ==
  W(E(QGrad(I.P, s.x)), LAMBDA g :
  W(E(RNeg(g)), LAMBDA d :
  W(WInner(I.P, g, d), LAMBDA dd :
  W(E(StepLen(I.P, I.ls, s.lo, s.x, d, dd)), LAMBDA r :
    [Move(I, s, d, dd, r) EXCEPT !.x = BoxProj(I.box, RAdd(s.x, RScal(r.a, d)))]))))

\* ---- ADAM ([KB2015] Algorithm 1; "all parameter names and default values are taken from the article"):
\*        t = t + 1 ; g_t = grad f(x_{t-1}) ; m_t = b1 m_{t-1} + (1 - b1) g_t ; v_t = b2 v_{t-1} + (1 - b2) g_t^2
\*        mh_t = m_t / (1 - b1^t) ; vh_t = v_t / (1 - b2^t) ; x_t = x_{t-1} - lr * mh_t / (sqrt(vh_t) + eps)
\*      (component-wise).  eps is taken below the comparison tolerance (eps -> 0), which also makes the article's two
\*      formulations of the update coincide.  The step is rational when every component of vh_t is a rational square
\*      (b2 = 0: vh_t = g_t^2; constant gradient: vh_t = g^2); otherwise the instance is not comparable (ok = FALSE).
RECURSIVE ISqrtB(_, _, _)
ISqrtB(n, lo, hi) ==                     \* integer square root by bisection (46340^2 < 2^31)
  IF lo >= hi THEN lo
  ELSE IF ((lo + hi + 1) \div 2) * ((lo + hi + 1) \div 2) <= n THEN ISqrtB(n, (lo + hi + 1) \div 2, hi)
  ELSE ISqrtB(n, lo, ((lo + hi + 1) \div 2) - 1)
ISqrtF(n) == ISqrtB(n, 0, IF n < 46340 THEN n ELSE 46340)
IsSq(n) == n >= 0 /\ ISqrtF(n) * ISqrtF(n) = n
SSqrt(p) == <<ISqrtF(p[1]), ISqrtF(p[2])>>
RSqrtOK(u) == \A i \in 1..Len(u) : u[i][1] > 0 /\ IsSq(u[i][1]) /\ IsSq(u[i][2])
AdamStep(I, s) ==
  W(E(QGrad(I.P, s.x)), LAMBDA g :
  W(E(RLin(I.b1, s.m, SSub(QOne, I.b1), g)), LAMBDA m :
  W(E(RLin(I.b2, s.v, SSub(QOne, I.b2), RMul(g, g))), LAMBDA v :
  W(E(RScal(SInv(SSub(QOne, TauPow(I.b1, s.t + 1))), m)), LAMBDA mh :
  W(E(RScal(SInv(SSub(QOne, TauPow(I.b2, s.t + 1))), v)), LAMBDA vh :
  W(E(IF RSqrtOK(vh) THEN [i \in 1..Len(g) |-> SDiv(mh[i], SSqrt(vh[i]))] ELSE RZero(Len(g))), LAMBDA up :
    [s EXCEPT !.x = RSub(s.x, RScal(I.lr, up)), !.m = m, !.v = v, !.t = s.t + 1,
              !.d = RNeg(up), !.a = I.lr, !.ok = s.ok /\ RSqrtOK(vh)]))))))

\* ---- a solver call starts from the caller's x (and the caller's line-search object) with fresh internal state
StartState(I, x, lo) ==
  CASE I.solver = "broyden" -> [S0(I, x, lo) EXCEPT !.H = Diag(H0Vec(I))]
    [] I.solver = "adam"    -> [S0(I, x, lo) EXCEPT !.m = RZero(Len(x)), !.v = RZero(Len(x))]
    [] OTHER -> S0(I, x, lo)
StepA(I, s) ==
  CASE I.solver = "newton"  -> NewtonStep(I, s)
    [] I.solver = "bfgs"    -> BFGSStep(I, s)
    [] I.solver = "broyden" -> BroydenStep(I, s)
    [] I.solver = "ncg"     -> NCGStep(I, s)
    [] I.solver = "sd"      -> SDStepA(I, s)
    [] I.solver = "adam"    -> AdamStep(I, s)
\* "tol: tolerance that should be used for terminating the iteration": whatever quantity an implementation compares
\* with tol > 0, at an exactly stationary point it vanishes - the iteration is over
Converged(I, s) == Stationary(I.P, s.x)
=============================================================================

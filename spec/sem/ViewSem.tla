------------------------------ MODULE ViewSem ------------------------------
(***************************************************************************)
(* Layer A (extension EXT/views): the HEAP behind ODL's tensors, discretised *)
(* elements, product-space elements and the NumPy arrays they hand out.     *)
(*                                                                         *)
(* Written from the documentation, not from the code:                      *)
(*  [T.getitem]  NumpyTensor.__getitem__: "the returned object is a writable *)
(*               view into the original tensor, except for the case when   *)
(*               ``indices`` is a list" (+ example "not a view, won't       *)
(*               modify x"); a full integer index gives a scalar.          *)
(*               Index ARRAYS (integer / boolean ndarrays or tensors; release *)
(*               notes 0.7.0: "natively support almost all kinds of Numpy   *)
(*               fancy indexing") select by the NumPy rules; whether the    *)
(*               result shares memory is not stated for them ("unspec").    *)
(*  [T.setitem]  NumpyTensor.__setitem__: scalar / array-like / tensor;     *)
(*               "The Numpy assignment and broadcasting rules apply".      *)
(*  [S.pointer]  NumpyTensorSpace.element(data_ptr=, order=): "Elements can  *)
(*               also be constructed from a data pointer, resulting again in*)
(*               shared memory" (contiguous array, order 'C' or 'F').       *)
(*  [S.element]  NumpyTensorSpace.element: "a copy is avoided whenever      *)
(*               possible. This requires correct shape and dtype, and if    *)
(*               order is provided, also contiguousness in that ordering.  *)
(*               If any of these conditions is not met, a copy is made";    *)
(*               "both array and space element access the same memory,     *)
(*               such that mutations will affect both".  LinearSpace.element:*)
(*               "If inp in self, this has [to] return inp or a view of inp".*)
(*               DiscretizedSpace.element: same wording, refers to tspace.  *)
(*               DiscretizedSpace.element(callable): "a new element is      *)
(*               created by sampling the function" (fresh memory).         *)
(*  [T.asarray]  Tensor.asarray / numpy_guide: "np.asarray(x) is x.asarray()",*)
(*               "These are both optimized and return a view if possible", *)
(*               "x.data is float_arr"; with out=: "the returned object is a*)
(*               reference to it".                                         *)
(*  [T.copy]     "identical (deep) copy"; astype: "Return a copy of this    *)
(*               element with new dtype".                                  *)
(*  [T.real]     getters: real / imaginary part as an element of the real   *)
(*               space (imag of a real element: zero); SHARING of the      *)
(*               result is documented only for discretised elements        *)
(*               (release notes 0.7.0: "Fix DiscreteLpElement.real (and     *)
(*               .imag) sometimes returning a copy instead of a view");     *)
(*               setters: x.real = v / x.imag = v with element, scalar,     *)
(*               array-like and broadcasting; imag setter on a real space   *)
(*               raises ValueError.                                        *)
(*  [T.conj]     conj(out): "Element to which the complex conjugate is      *)
(*               written ... the returned object is a reference to it",     *)
(*               in-place x.conj(out=x) documented.                        *)
(*  [L.lincomb]  LinearSpace.lincomb: "out[:] = a * x1 + b * x2 ... The     *)
(*               elements out, x1 and x2 may be aligned"; assign: "Assign   *)
(*               the values of other to self"; set_zero.                   *)
(*  [P.*]        ProductSpace.element: "a new element is created from the   *)
(*               components by calling the element() methods in the        *)
(*               component spaces" (hence [S.element] sharing per part);    *)
(*               parts: "Parts of this product space element"; asarray:     *)
(*               "commutes with indexing"; release notes: "Numpy-style      *)
(*               indexing for ProductSpaceElement", "indexing with integers,*)
(*               slices, tuples and lists"; real/imag setters with          *)
(*               examples; copy: "identical (deep) copy".                  *)
(*                                                                         *)
(* Where the documentation does not say whether a returned object shares    *)
(* memory ("unspec": tensor real/imag getters, conj() without out,          *)
(* discretised x[idx], product z[[i,j]], product asarray/real/imag) only    *)
(* the VALUE at the time of the call is specified and the object is not     *)
(* tracked any further.                                                    *)
(*                                                                         *)
(* Model.  state = [bufs, objs].  A buffer is a flat sequence of Gaussian   *)
(* rationals (logical C order of its base shape) with a memory layout.  A   *)
(* leaf object (element or ndarray) sees the cells `cells` (in its own C    *)
(* order) of buffer `b` through the component `comp` ("full", "re", "im").  *)
(* A product object is a sequence of object ids.  Every operation is given  *)
(* from the PRE-state (NumPy semantics: right-hand side first).            *)
(***************************************************************************)
EXTENDS ExactNum, TLC

NoneTok == 99                 \* an omitted slice bound

(* ------------------------- Python slices ------------------------------- *)
\* Python language reference, slice.indices(n): 0-based positions of slice(a, b, s) on an axis of length n
Clamp(v, lo, hi) == IF v < lo THEN lo ELSE IF v > hi THEN hi ELSE v
SlNorm(n, v, lo, hi) == Clamp(IF v < 0 THEN v + n ELSE v, lo, hi)
SlStart(n, a, s) == IF s > 0 THEN (IF a = NoneTok THEN 0 ELSE SlNorm(n, a, 0, n))
                             ELSE (IF a = NoneTok THEN n - 1 ELSE SlNorm(n, a, -1, n - 1))
SlStop(n, b, s)  == IF s > 0 THEN (IF b = NoneTok THEN n ELSE SlNorm(n, b, 0, n))
                             ELSE (IF b = NoneTok THEN -1 ELSE SlNorm(n, b, -1, n - 1))
SlLen(st, sp, s) == IF s > 0 THEN (IF sp > st THEN (sp - st + s - 1) \div s ELSE 0)
                             ELSE (IF sp < st THEN (st - sp - s - 1) \div (-s) ELSE 0)
PySlice(n, a, b, s) ==
  LET st == SlStart(n, a, s)
      sp == SlStop(n, b, s)
  IN  [k \in 1..SlLen(st, sp, s) |-> st + (k - 1) * s]

\* independent characterisation (used as a law of the reference): the set of selected positions
SliceSet(n, a, b, s) ==
  LET st == SlStart(n, a, s)
      sp == SlStop(n, b, s)
  IN  IF s > 0 THEN {i \in 0..(n - 1) : i >= st /\ i < sp /\ (i - st) % s = 0}
               ELSE {i \in 0..(n - 1) : i <= st /\ i > sp /\ (st - i) % (-s) = 0}

(* ------------------------- index expressions --------------------------- *)
\* one entry per axis; an index expression is a sequence of 1..ndim entries (missing axes = full slices)
IInt(i)      == [k |-> "int",  a |-> i, b |-> 0, s |-> 0, l |-> <<>>]
ISl(a, b, s) == [k |-> "sl",   a |-> a, b |-> b, s |-> s, l |-> <<>>]
IList(l)     == [k |-> "list", a |-> 0, b |-> 0, s |-> 0, l |-> l]
IArr(l)      == [k |-> "arr",  a |-> 0, b |-> 0, s |-> 0, l |-> l]      \* integer index ARRAY on one axis
IMask(l)     == [k |-> "mask", a |-> 0, b |-> 0, s |-> 0, l |-> l]      \* boolean array (flags 0 / 1) on one axis
IMaskAll(l)  == [k |-> "maskall", a |-> 0, b |-> 0, s |-> 0, l |-> l]   \* boolean array of the shape of the whole object
IFull        == ISl(NoneTok, NoneTok, 1)

NormI(n, i) == IF i < 0 THEN i + n ELSE i
Ones(l) == SelectSeq([k \in 1..Len(l) |-> k - 1], LAMBDA p : l[p + 1] = 1)   \* 0-based positions of the set flags
AxisPos(n, e) ==
  CASE e.k = "int"  -> <<NormI(n, e.a)>>
    [] e.k = "sl"   -> PySlice(n, e.a, e.b, e.s)
    [] e.k \in {"list", "arr"} -> [k \in 1..Len(e.l) |-> NormI(n, e.l[k])]
    [] e.k = "mask" -> Ones(e.l)

AxisOk(n, e) ==
  CASE e.k = "int"  -> e.a >= -n /\ e.a < n
    [] e.k = "sl"   -> e.s # 0
    [] e.k \in {"list", "arr"} -> Len(e.l) >= 1 /\ \A k \in 1..Len(e.l) : e.l[k] >= -n /\ e.l[k] < n
    [] e.k = "mask" -> Len(e.l) = n /\ \A k \in 1..Len(e.l) : e.l[k] \in {0, 1}
    [] OTHER -> FALSE
IsAdvE(e) == e.k \in {"list", "arr", "mask"}
IsArrE(e) == e.k \in {"arr", "mask", "maskall"}

Size(shp) == IF Len(shp) = 0 THEN 1 ELSE IF Len(shp) = 1 THEN shp[1] ELSE shp[1] * shp[2]
Pad(shp, idx) == idx \o [i \in 1..(Len(shp) - Len(idx)) |-> IFull]

IdxOk(shp, idx) ==
  /\ Len(shp) \in {1, 2}
  /\ Len(idx) >= 1 /\ Len(idx) <= Len(shp)
  /\ IF idx[1].k = "maskall"
       THEN Len(idx) = 1 /\ Len(idx[1].l) = Size(shp) /\ \A k \in 1..Len(idx[1].l) : idx[1].l[k] \in {0, 1}
       ELSE /\ \A i \in 1..Len(idx) : AxisOk(shp[i], idx[i])
            /\ (Len(idx) = 2 /\ IsAdvE(idx[1]) /\ IsAdvE(idx[2])) =>
                  Len(AxisPos(shp[1], idx[1])) = Len(AxisPos(shp[2], idx[2]))

\* Selection: positions (1-based, in the indexed object's own C order) in the C order of the result, the result shape
\* (<<>> = scalar), whether the index is "advanced" (contains a list or an index array) and whether it contains an
\* index ARRAY.  NumPy rules: entries address their axis; two advanced entries are paired point-wise; one advanced
\* entry combines with the other axis as an outer product in place; a boolean array of the whole shape selects the
\* flagged entries in C order.
Sel(shp, idx) ==
  IF idx # <<>> /\ idx[1].k = "maskall" THEN
    LET p == Ones(idx[1].l) IN [pos |-> [k \in 1..Len(p) |-> p[k] + 1], shp |-> <<Len(p)>>, adv |-> TRUE, arr |-> TRUE]
  ELSE
  LET f == Pad(shp, idx) IN
  IF Len(shp) = 1 THEN
    LET p == AxisPos(shp[1], f[1]) IN
      [pos |-> [k \in 1..Len(p) |-> p[k] + 1],
       shp |-> IF f[1].k = "int" THEN <<>> ELSE <<Len(p)>>,
       adv |-> IsAdvE(f[1]), arr |-> IsArrE(f[1])]
  ELSE
    LET p1 == AxisPos(shp[1], f[1])
        p2 == AxisPos(shp[2], f[2])
    IN  IF IsAdvE(f[1]) /\ IsAdvE(f[2]) THEN
          [pos |-> [k \in 1..Len(p1) |-> p1[k] * shp[2] + p2[k] + 1], shp |-> <<Len(p1)>>, adv |-> TRUE,
           arr |-> IsArrE(f[1]) \/ IsArrE(f[2])]
        ELSE
          [pos |-> [k \in 1..(Len(p1) * Len(p2)) |->
                      p1[((k - 1) \div Len(p2)) + 1] * shp[2] + p2[((k - 1) % Len(p2)) + 1] + 1],
           shp |-> (IF f[1].k = "int" THEN <<>> ELSE <<Len(p1)>>) \o (IF f[2].k = "int" THEN <<>> ELSE <<Len(p2)>>),
           adv |-> IsAdvE(f[1]) \/ IsAdvE(f[2]), arr |-> IsArrE(f[1]) \/ IsArrE(f[2])]

(* ------------------------------ objects -------------------------------- *)
\* uniform record:  k "leaf"|"prod" ; ty "elem"|"arr" ; sk "tensor"|"dtensor"|"discr"|"pspace" (space kind of an
\* element; "dtensor" = the tensor space underneath a discretisation, which carries the discretisation's weighting)
\* cx: complex-valued ; b, cells, shp, comp: what a leaf sees ; parts: ids of a product's components
\* dt "same"|"other": the dtype is / is not the dtype of the spaces of the scenario (ndarrays of another dtype,
\* elements made by astype(other dtype))
\* src, spos: provenance of a documented view (object id, positions in it) - used by the laws only
Leaf(ty, sk, cx, b, cells, shp, comp, dt) ==
  [k |-> "leaf", ty |-> ty, sk |-> sk, cx |-> cx, b |-> b, cells |-> cells, shp |-> shp, comp |-> comp,
   parts |-> <<>>, dt |-> dt, src |-> 0, spos |-> <<>>]
Prod(cx, parts) ==
  [k |-> "prod", ty |-> "elem", sk |-> "pspace", cx |-> cx, b |-> 0, cells |-> <<>>, shp |-> <<>>, comp |-> "full",
   parts |-> parts, dt |-> "same", src |-> 0, spos |-> <<>>]
Buf(v, shp, lay) == [v |-> v, shp |-> shp, lay |-> lay]
Iota(n) == [k \in 1..n |-> k]
Whole(ty, sk, cx, b, shp, dt) == Leaf(ty, sk, cx, b, Iota(Size(shp)), shp, "full", dt)

GetC(comp, z) == CASE comp = "full" -> z [] comp = "re" -> CR(z[1]) [] comp = "im" -> CR(z[2])
PutC(comp, old, new) == CASE comp = "full" -> new
                          [] comp = "re" -> <<new[1], old[2]>>
                          [] comp = "im" -> <<old[1], new[1]>>

RECURSIVE FlattenSeq(_)
FlattenSeq(ss) == IF ss = <<>> THEN <<>> ELSE Head(ss) \o FlattenSeq(Tail(ss))

LeafVal(bufs, o) == [k \in 1..Len(o.cells) |-> GetC(o.comp, bufs[o.b].v[o.cells[k]])]

RECURSIVE Val(_, _)
Val(st, i) ==
  LET o == st.objs[i] IN
    IF o.k = "leaf" THEN LeafVal(st.bufs, o)
    ELSE FlattenSeq([j \in 1..Len(o.parts) |-> Val(st, o.parts[j])])

RECURSIVE OSize(_, _)
OSize(objs, i) ==
  LET o == objs[i] IN
    IF o.k = "leaf" THEN Len(o.cells)
    ELSE LET RECURSIVE Sum(_)
             Sum(ps) == IF ps = <<>> THEN 0 ELSE OSize(objs, Head(ps)) + Sum(Tail(ps))
         IN Sum(o.parts)

\* memory cells <<buffer, cell>> an object can read or write
RECURSIVE Cells(_, _)
Cells(objs, i) ==
  LET o == objs[i] IN
    IF o.k = "leaf" THEN {<<o.b, o.cells[k]>> : k \in 1..Len(o.cells)}
    ELSE UNION {Cells(objs, o.parts[j]) : j \in 1..Len(o.parts)}

\* component-level footprint <<buffer, cell, "re"|"im">>
CompSet(comp) == IF comp = "full" THEN {"re", "im"} ELSE {comp}
RECURSIVE Foot(_, _)
Foot(objs, i) ==
  LET o == objs[i] IN
    IF o.k = "leaf" THEN {<<o.b, o.cells[k], c>> : k \in 1..Len(o.cells), c \in CompSet(o.comp)}
    ELSE UNION {Foot(objs, o.parts[j]) : j \in 1..Len(o.parts)}

\* the leaves of an object in order
RECURSIVE Leaves(_, _)
Leaves(objs, i) ==
  LET o == objs[i] IN
    IF o.k = "leaf" THEN <<i>>
    ELSE FlattenSeq([j \in 1..Len(o.parts) |-> Leaves(objs, o.parts[j])])

MaxOf(S) == CHOOSE m \in S : \A t \in S : t <= m

\* write vals[k] at position pos[k] of leaf o through the component `comp` (later entries win, as in NumPy)
LeafWriteC(bufs, o, comp, pos, vals) ==
  [bufs EXCEPT ![o.b].v =
     [c \in 1..Len(@) |->
        LET ks == {k \in 1..Len(pos) : o.cells[pos[k]] = c} IN
          IF ks = {} THEN @[c] ELSE PutC(comp, @[c], vals[MaxOf(ks)])]]
LeafWrite(bufs, o, pos, vals) == LeafWriteC(bufs, o, o.comp, pos, vals)

\* component used when the real / imaginary part of leaf o is written
SubComp(o, part) == IF o.cx THEN part ELSE o.comp

\* write the flat value `vals` into object i (leaf: all positions; product: part after part); part = "all"|"re"|"im"
RECURSIVE ObjWrite(_, _, _, _, _)
ObjWrite(bufs, objs, i, part, vals) ==
  LET o == objs[i] IN
    IF o.k = "leaf" THEN
      LeafWriteC(bufs, o, IF part = "all" THEN o.comp ELSE SubComp(o, part), Iota(Len(o.cells)), vals)
    ELSE
      LET RECURSIVE Go(_, _, _)
          Go(bf, ps, vs) ==
            IF ps = <<>> THEN bf
            ELSE LET n == OSize(objs, Head(ps)) IN
                   Go(ObjWrite(bf, objs, Head(ps), part, SubSeq(vs, 1, n)), Tail(ps), SubSeq(vs, n + 1, Len(vs)))
      IN Go(bufs, o.parts, vals)

(* ------------------------- memory layout -------------------------------- *)
\* offset (in items) of logical cell c of a buffer
Mem(buf, c) ==
  IF buf.lay = "F" /\ Len(buf.shp) = 2
    THEN ((c - 1) \div buf.shp[2]) + ((c - 1) % buf.shp[2]) * buf.shp[1]
    ELSE c - 1
\* C-order positions of an object of shape shp listed in Fortran order
FOrder(shp) ==
  IF Len(shp) = 2 THEN [k \in 1..(shp[1] * shp[2]) |-> ((k - 1) % shp[1]) * shp[2] + ((k - 1) \div shp[1]) + 1]
  ELSE Iota(Size(shp))
Consec(s) == \A k \in 1..(Len(s) - 1) : s[k + 1] = s[k] + 1
Contig(bufs, o, ord) ==
  /\ o.comp = "full"
  /\ LET m == [k \in 1..Len(o.cells) |-> Mem(bufs[o.b], o.cells[k])] IN
       IF ord = "C" THEN Consec(m) ELSE Consec([k \in 1..Len(m) |-> m[FOrder(o.shp)[k]]])

(* ------------------------------ actions -------------------------------- *)
\* uniform action record; v is a value record [k "scalar"|"seq"|"row"|"obj"|"perpart", c, vals, o]
NoV == [k |-> "none", c |-> CZero, vals |-> <<>>, o |-> 0]
VScalar(c)  == [NoV EXCEPT !.k = "scalar", !.c = c]
VSeq(vals)  == [NoV EXCEPT !.k = "seq", !.vals = vals]
VRow(vals)  == [NoV EXCEPT !.k = "row", !.vals = vals]
VObj(o)     == [NoV EXCEPT !.k = "obj", !.o = o]
VPer(vals)  == [NoV EXCEPT !.k = "perpart", !.vals = vals]
NoAct == [op |-> "init", x |-> 0, y |-> 0, z |-> 0, a |-> CZero, b |-> CZero, idx |-> <<>>, v |-> NoV,
          how |-> "", ord |-> "N", ps |-> <<>>]

RNone      == [k |-> "none",   o |-> 0, v |-> <<>>, e |-> ""]
RScalar(z) == [k |-> "scalar", o |-> 0, v |-> <<z>>, e |-> ""]
RNew(o)    == [k |-> "new",    o |-> o, v |-> <<>>, e |-> ""]
RSame(o)   == [k |-> "same",   o |-> o, v |-> <<>>, e |-> ""]
RVal(v)    == [k |-> "val",    o |-> 0, v |-> v,    e |-> ""]
RRaise(e)  == [k |-> "raises", o |-> 0, v |-> <<>>, e |-> e]

Res(st, ret) == [st |-> st, ret |-> ret]
AddObj(st, o) == [st EXCEPT !.objs = Append(@, o)]
\* a new leaf on fresh memory holding vals (kind, field and dtype class of the template t)
Fresh(st, t, vals, shp) ==
  LET nb == Len(st.bufs) + 1 IN
    [bufs |-> Append(st.bufs, Buf(vals, shp, "?")),
     objs |-> Append(st.objs, Whole(t.ty, t.sk, t.cx, nb, shp, t.dt))]
NewId(st) == Len(st.objs) + 1

\* the values an assignment writes into a selection of m positions with result shape shp
AssignVals(st, V, m, shp) ==
  CASE V.k = "scalar" -> [k \in 1..m |-> V.c]
    [] V.k = "seq"    -> V.vals
    [] V.k = "row"    -> [k \in 1..m |-> V.vals[((k - 1) % shp[Len(shp)]) + 1]]
    [] V.k = "obj"    -> Val(st, V.o)
AllReal(vs) == \A k \in 1..Len(vs) : IsRealC(vs[k])

\* spaces of two element objects are equal (same kind, field, shape; products part-wise)
RECURSIVE SameSpace(_, _, _)
SameSpace(objs, i, j) ==
  LET p == objs[i] q == objs[j] IN
    /\ p.ty = "elem" /\ q.ty = "elem" /\ p.k = q.k /\ p.cx = q.cx /\ p.sk = q.sk /\ p.dt = q.dt
    /\ IF p.k = "leaf" THEN p.shp = q.shp
       ELSE /\ Len(p.parts) = Len(q.parts)
            /\ \A t \in 1..Len(p.parts) : SameSpace(objs, p.parts[t], q.parts[t])

\* writing out from src part after part equals writing from the pre-state: no part of `out` other than the
\* corresponding one is read through `src` (crosswise overlap of product operands is left unspecified)
NoCross(objs, out, src) ==
  LET lo == Leaves(objs, out) ls == Leaves(objs, src) IN
    \A s \in 1..Len(lo), t \in 1..Len(ls) : s # t => Cells(objs, lo[s]) \cap Cells(objs, ls[t]) = {}

\* deep copy of object i (dt = "keep" or the dtype class of the copy): returns [st, id]
RECURSIVE DeepCopy(_, _, _)
DeepCopy(st, i, dt) ==
  LET o == st.objs[i] IN
    IF o.k = "leaf" THEN
      LET s1 == Fresh(st, [o EXCEPT !.dt = IF dt = "keep" THEN o.dt ELSE dt], LeafVal(st.bufs, o), o.shp)
      IN [st |-> s1, id |-> Len(s1.objs)]
    ELSE
      LET RECURSIVE Go(_, _, _)
          Go(s, ps, acc) == IF ps = <<>> THEN [st |-> s, ids |-> acc]
                            ELSE LET r == DeepCopy(s, Head(ps), dt) IN Go(r.st, Tail(ps), Append(acc, r.id))
          g == Go(st, o.parts, <<>>)
          s2 == AddObj(g.st, Prod(o.cx, g.ids))
      IN [st |-> s2, id |-> Len(s2.objs)]

VConjS(u) == [k \in 1..Len(u) |-> CConj(u[k])]
VReS(u) == [k \in 1..Len(u) |-> CR(u[k][1])]
VImS(u) == [k \in 1..Len(u) |-> CR(u[k][2])]
VLin(a, u, b, w) == [k \in 1..Len(u) |-> CAdd(CMul(a, u[k]), CMul(b, w[k]))]
VBinS(f, u, w) == [k \in 1..Len(u) |->
                     CASE f = "add" -> CAdd(u[k], w[k]) [] f = "sub" -> CSub(u[k], w[k]) [] f = "mul" -> CMul(u[k], w[k])]

\* resolve a product index whose entries before the last address nested parts: returns the object id reached by the
\* leading integer entries and the remaining index
RECURSIVE Descend(_, _, _)
Descend(objs, i, idx) ==
  IF objs[i].k = "prod" /\ Len(idx) > 1 /\ idx[1].k = "int"
    THEN IF AxisOk(Len(objs[i].parts), idx[1])
           THEN Descend(objs, objs[i].parts[NormI(Len(objs[i].parts), idx[1].a) + 1], Tail(idx))
           ELSE [o |-> i, idx |-> idx, ok |-> FALSE]
    ELSE [o |-> i, idx |-> idx, ok |-> TRUE]

\* --- legality (shape / kind compatibility of an action with a state) ---
ValOk(st, V, x, S) ==
  LET m == Len(S.pos) IN
  /\ CASE V.k = "scalar" -> TRUE
       [] V.k = "seq"    -> S.shp # <<>> /\ Len(V.vals) = m
       [] V.k = "row"    -> Len(S.shp) = 2 /\ Len(V.vals) = S.shp[2]
       [] V.k = "obj"    -> /\ S.shp # <<>> /\ V.o \in 1..Len(st.objs)
                            /\ st.objs[V.o].k = "leaf" /\ st.objs[V.o].shp = S.shp
                            /\ (st.objs[V.o].cx => x.cx)
                            \* NumPy defines overlapping source and target for basic indices only
                            /\ (S.adv => Cells(st.objs, V.o) \cap {<<x.b, x.cells[k]>> : k \in 1..Len(x.cells)} = {})
       [] OTHER -> FALSE
  /\ (V.k \in {"scalar", "seq", "row"} /\ ~x.cx) =>
        (IF V.k = "scalar" THEN IsRealC(V.c) ELSE AllReal(V.vals))
NoDup(s) == \A i, j \in 1..Len(s) : i # j => s[i] # s[j]

IsObj(st, i) == i \in 1..Len(st.objs)
IsLeaf(st, i) == IsObj(st, i) /\ st.objs[i].k = "leaf"
IsElem(st, i) == IsObj(st, i) /\ st.objs[i].ty = "elem"
IsProd(st, i) == IsObj(st, i) /\ st.objs[i].k = "prod"
IsPower(st, i) == IsProd(st, i) /\ \A t \in 1..Len(st.objs[i].parts) :
                     /\ st.objs[st.objs[i].parts[t]].k = "leaf"
                     /\ st.objs[st.objs[i].parts[t]].shp = st.objs[st.objs[i].parts[1]].shp
                     /\ st.objs[st.objs[i].parts[t]].sk = st.objs[st.objs[i].parts[1]].sk

Legal(st, A) ==
  LET x == st.objs[A.x] IN
  CASE A.op = "getitem" ->
         /\ IsObj(st, A.x)
         /\ IF x.k = "leaf" THEN IdxOk(x.shp, A.idx)
            ELSE \* product: int | slice | list | (int, ..., rest)
              LET d == Descend(st.objs, A.x, A.idx) t == st.objs[d.o] IN
                /\ Len(A.idx) >= 1 /\ d.ok
                /\ IF t.k = "leaf" THEN d.o # A.x /\ IdxOk(t.shp, d.idx)
                   ELSE /\ Len(d.idx) = 1 /\ d.idx[1].k \in {"int", "sl", "list"} /\ AxisOk(Len(t.parts), d.idx[1])
                        /\ Len(AxisPos(Len(t.parts), d.idx[1])) >= 1
    [] A.op = "setitem" ->
         /\ IsObj(st, A.x)
         /\ IF x.k = "leaf" THEN
              /\ IdxOk(x.shp, A.idx)
              /\ ValOk(st, A.v, x, Sel(x.shp, A.idx))
              /\ NoDup(Sel(x.shp, A.idx).pos)
            ELSE
              LET d == Descend(st.objs, A.x, A.idx) t == st.objs[d.o] IN
                /\ Len(A.idx) >= 1 /\ d.ok
                /\ IF t.k = "leaf" THEN
                     /\ d.o # A.x /\ IdxOk(t.shp, d.idx) /\ ValOk(st, A.v, t, Sel(t.shp, d.idx))
                     /\ NoDup(Sel(t.shp, d.idx).pos)
                   ELSE
                     /\ Len(d.idx) = 1 /\ d.idx[1].k \in {"int", "sl", "list"} /\ AxisOk(Len(t.parts), d.idx[1])
                     \* z[i, ..., e] = v: nothing describes a list or one-value-per-part at the end of a tuple index
                     /\ (Len(A.idx) > 1 => d.idx[1].k # "list" /\ A.v.k # "perpart")
                     /\ LET ps == AxisPos(Len(t.parts), d.idx[1]) IN
                          /\ Len(ps) >= 1 /\ NoDup(ps)
                          /\ CASE A.v.k = "scalar" -> t.cx \/ IsRealC(A.v.c)
                               [] A.v.k = "perpart" -> /\ d.idx[1].k # "int" /\ Len(A.v.vals) = Len(ps)
                                                       /\ (t.cx \/ AllReal(A.v.vals))
                                                       \* a per-part list that could be read as ONE component is ambiguous
                                                       /\ ~(IsPower(st, d.o) /\ st.objs[t.parts[1]].shp = <<Len(ps)>>)
                               [] A.v.k = "seq" -> /\ d.idx[1].k = "int" /\ st.objs[t.parts[ps[1] + 1]].k = "leaf"
                                                   /\ Len(A.v.vals) = OSize(st.objs, t.parts[ps[1] + 1])
                                                   /\ (t.cx \/ AllReal(A.v.vals))
                               [] A.v.k = "obj" -> /\ IsElem(st, A.v.o)
                                                   /\ (d.idx[1].k # "int" => IsPower(st, d.o))
                                                   /\ \A q \in 1..Len(ps) : SameSpace(st.objs, t.parts[ps[q] + 1], A.v.o)
                                                   /\ \A q \in 1..Len(ps) : \A r \in 1..Len(ps) :
                                                        q # r => Cells(st.objs, t.parts[ps[q] + 1]) \cap Cells(st.objs, A.v.o) = {}
                                                   /\ \A q \in 1..Len(ps) : NoCross(st.objs, t.parts[ps[q] + 1], A.v.o)
                               [] OTHER -> FALSE
    [] A.op = "copy" -> /\ IsElem(st, A.x) /\ A.how \in {"copy", "copy.copy", "astype", "astype_other"}
                        /\ (A.how \in {"astype", "astype_other"} => x.k = "leaf")
    [] A.op = "asarray" -> /\ IsElem(st, A.x) /\ (x.k = "leaf" \/ IsPower(st, A.x))
                           /\ (A.how \in {"np.asarray(dtype=same)", "np.asarray(dtype=other)"} => x.k = "leaf")
    [] A.op = "asarray_out" ->
         /\ IsElem(st, A.x) /\ x.k = "leaf" /\ IsLeaf(st, A.y) /\ x.dt = "same"
         /\ LET y == st.objs[A.y] IN
              /\ y.ty = "arr" /\ y.dt = "same" /\ y.cx = x.cx /\ y.shp = x.shp /\ y.comp = "full"
              /\ y.cells = Iota(Len(st.bufs[y.b].v))
    [] A.op = "wrap" ->
         /\ IsLeaf(st, A.x) /\ A.how \in {"tensor", "discr", "array_wrap", "data_ptr"}
         /\ (A.ord # "N" => st.bufs[x.b].lay # "?")
         /\ (A.how = "array_wrap" => A.ord = "N" /\ x.dt = "same" /\ x.ty = "arr")
         \* [S.pointer]: the pointer of a whole contiguous array of the right dtype, order as the memory is laid out
         /\ (A.how = "data_ptr" => /\ A.ord \in {"C", "F"} /\ x.dt = "same" /\ x.comp = "full"
                                   /\ x.cells = Iota(Len(st.bufs[x.b].v)) /\ Len(x.cells) >= 1
                                   /\ Contig(st.bufs, x, A.ord))
    [] A.op = "tensor" -> IsLeaf(st, A.x) /\ x.ty = "elem" /\ x.sk = "discr"
    \* x.space.element(f) for the constant function f = c
    [] A.op = "sample" -> /\ IsLeaf(st, A.x) /\ x.ty = "elem" /\ x.sk = "discr" /\ x.dt = "same"
                          /\ A.v.k = "scalar" /\ (x.cx \/ IsRealC(A.v.c))
    [] A.op \in {"real", "imag", "conj"} -> IsElem(st, A.x)
    [] A.op \in {"setreal", "setimag"} ->
         /\ IsElem(st, A.x)
         /\ CASE A.v.k = "scalar" -> IsRealC(A.v.c)
              [] A.v.k = "seq" -> x.k = "leaf" /\ Len(A.v.vals) = Len(x.cells) /\ AllReal(A.v.vals)
              [] A.v.k = "obj" -> /\ IsElem(st, A.v.o) /\ ~st.objs[A.v.o].cx
                                  /\ OSize(st.objs, A.v.o) = OSize(st.objs, A.x)
                                  /\ st.objs[A.v.o].k = x.k
                                  /\ (x.k = "leaf" => st.objs[A.v.o].shp = x.shp)
                                  /\ (x.k = "prod" => /\ Len(st.objs[A.v.o].parts) = Len(x.parts)
                                                      /\ \A t \in 1..Len(x.parts) :
                                                           /\ st.objs[x.parts[t]].k = "leaf"
                                                           /\ st.objs[st.objs[A.v.o].parts[t]].k = "leaf"
                                                           /\ st.objs[x.parts[t]].shp = st.objs[st.objs[A.v.o].parts[t]].shp
                                                      /\ NoCross(st.objs, A.x, A.v.o))
              [] OTHER -> FALSE
    [] A.op = "conj_out" -> IsLeaf(st, A.x) /\ IsLeaf(st, A.y) /\ SameSpace(st.objs, A.x, A.y)
    [] A.op = "assign" -> IsElem(st, A.x) /\ IsElem(st, A.y) /\ SameSpace(st.objs, A.x, A.y) /\ NoCross(st.objs, A.x, A.y)
    [] A.op = "set_zero" -> IsElem(st, A.x)
    [] A.op = "lincomb" ->
         /\ IsElem(st, A.x) /\ IsElem(st, A.y) /\ IsElem(st, A.z)
         /\ SameSpace(st.objs, A.x, A.y) /\ SameSpace(st.objs, A.x, A.z)
         /\ NoCross(st.objs, A.x, A.y) /\ NoCross(st.objs, A.x, A.z)
         /\ (x.cx \/ (IsRealC(A.a) /\ IsRealC(A.b)))
    [] A.op = "ibin" ->
         /\ IsElem(st, A.x) /\ IsElem(st, A.y) /\ SameSpace(st.objs, A.x, A.y) /\ NoCross(st.objs, A.x, A.y)
         /\ A.how \in {"add", "sub", "mul"}
    [] A.op = "pelement" ->
         /\ Len(A.ps) >= 1
         /\ \A t \in 1..Len(A.ps) : IsElem(st, A.ps[t]) /\ st.objs[A.ps[t]].cx = st.objs[A.ps[1]].cx
         /\ \A s, t \in 1..Len(A.ps) : s # t => Cells(st.objs, A.ps[s]) \cap Cells(st.objs, A.ps[t]) = {}
    [] OTHER -> FALSE

(* --------------------------- transition function ------------------------ *)
\* getitem / setitem on a leaf t (object id ti) with index idx
LeafGet(st, ti, idx) ==
  LET t == st.objs[ti]
      S == Sel(t.shp, idx)
      vals == LET v == LeafVal(st.bufs, t) IN [k \in 1..Len(S.pos) |-> v[S.pos[k]]]
  IN  IF S.shp = <<>> THEN Res(st, RScalar(vals[1]))
      ELSE IF t.ty = "elem" /\ (t.sk = "discr" \/ S.arr) THEN Res(st, RVal(vals))   \* [discr getitem], index arrays: unspec
      ELSE IF S.adv THEN LET s1 == Fresh(st, t, vals, S.shp) IN Res(s1, RNew(Len(s1.objs)))
      ELSE Res(AddObj(st, [t EXCEPT !.cells = [k \in 1..Len(S.pos) |-> t.cells[S.pos[k]]], !.shp = S.shp,
                                    !.src = ti, !.spos = S.pos]),
               RNew(NewId(st)))

LeafSet(st, ti, idx, V) ==
  LET t == st.objs[ti]
      S == Sel(t.shp, idx)
  IN  Res([st EXCEPT !.bufs = LeafWrite(st.bufs, t, S.pos, AssignVals(st, V, Len(S.pos), S.shp))], RNone)

\* all leaves below a sequence of objects
RECURSIVE LeavesOf(_, _)
LeavesOf(objs, ps) == IF ps = <<>> THEN <<>> ELSE Leaves(objs, Head(ps)) \o LeavesOf(objs, Tail(ps))

ProdGet(st, ti, e, how) ==
  LET t == st.objs[ti]
      ps == AxisPos(Len(t.parts), e)
  IN  IF e.k = "int" THEN Res(AddObj(st, st.objs[t.parts[ps[1] + 1]]), RNew(NewId(st)))         \* the part itself
      ELSE IF e.k = "sl" THEN Res(AddObj(st, Prod(t.cx, [q \in 1..Len(ps) |-> t.parts[ps[q] + 1]])), RNew(NewId(st)))
      ELSE Res(st, RVal(FlattenSeq([q \in 1..Len(ps) |-> Val(st, t.parts[ps[q] + 1])])))         \* list: unspec

ProdSet(st, ti, e, V) ==
  LET t == st.objs[ti]
      ps == AxisPos(Len(t.parts), e)
      RECURSIVE Go(_, _)
      Go(bf, q) ==
        IF q > Len(ps) THEN bf
        ELSE LET p == t.parts[ps[q] + 1]
                 n == OSize(st.objs, p)
                 vals == CASE V.k = "scalar"  -> [k \in 1..n |-> V.c]
                           [] V.k = "perpart" -> [k \in 1..n |-> V.vals[q]]
                           [] V.k = "seq"     -> V.vals
                           [] V.k = "obj"     -> Val(st, V.o)
             IN Go(ObjWrite(bf, st.objs, p, "all", vals), q + 1)
  IN  Res([st EXCEPT !.bufs = Go(st.bufs, 1)], RNone)

PartVals(st, V, x) ==
  CASE V.k = "scalar" -> [k \in 1..OSize(st.objs, x) |-> V.c]
    [] V.k = "seq"    -> V.vals
    [] V.k = "obj"    -> Val(st, V.o)

Step(st, A) ==
  LET x == st.objs[A.x] IN
  CASE A.op = "getitem" ->
         IF x.k = "leaf" THEN LeafGet(st, A.x, A.idx)
         ELSE LET d == Descend(st.objs, A.x, A.idx) IN
                IF st.objs[d.o].k = "leaf" THEN LeafGet(st, d.o, d.idx) ELSE ProdGet(st, d.o, d.idx[1], A.how)
    [] A.op = "setitem" ->
         IF x.k = "leaf" THEN LeafSet(st, A.x, A.idx, A.v)
         ELSE LET d == Descend(st.objs, A.x, A.idx) IN
                IF st.objs[d.o].k = "leaf" THEN LeafSet(st, d.o, d.idx, A.v) ELSE ProdSet(st, d.o, d.idx[1], A.v)
    [] A.op = "copy" ->
         LET r == DeepCopy(st, A.x, IF A.how = "astype_other" THEN (IF x.dt = "same" THEN "other" ELSE "same") ELSE "keep")
         IN Res(r.st, RNew(r.id))
    [] A.op = "asarray" ->
         IF x.k = "leaf" /\ A.how \in {"np.asarray(dtype=same)", "np.asarray(dtype=other)"} THEN Res(st, RVal(Val(st, A.x)))
         ELSE IF x.k = "leaf" THEN Res(AddObj(st, [x EXCEPT !.ty = "arr", !.sk = "tensor", !.src = A.x,
                                                      !.spos = Iota(Len(x.cells))]), RNew(NewId(st)))
         ELSE Res(st, RVal(Val(st, A.x)))                                                        \* product: unspec
    [] A.op = "asarray_out" ->
         Res([st EXCEPT !.bufs = ObjWrite(st.bufs, st.objs, A.y, "all", Val(st, A.x))], RSame(A.y))
    [] A.op = "wrap" ->
         LET sk == IF A.how \in {"array_wrap", "data_ptr"} THEN "tensor" ELSE A.how
             share == x.dt = "same" /\ (A.ord = "N" \/ Contig(st.bufs, x, A.ord))
         IN  IF share THEN Res(AddObj(st, [x EXCEPT !.ty = "elem", !.sk = sk, !.src = A.x, !.spos = Iota(Len(x.cells))]),
                               RNew(NewId(st)))
             ELSE LET s1 == Fresh(st, [x EXCEPT !.ty = "elem", !.sk = sk, !.dt = "same"], LeafVal(st.bufs, x), x.shp)
                  IN Res(s1, RNew(Len(s1.objs)))
    [] A.op = "sample" ->
         LET s1 == Fresh(st, x, [k \in 1..Len(x.cells) |-> A.v.c], x.shp) IN Res(s1, RNew(Len(s1.objs)))
    [] A.op = "tensor" -> Res(AddObj(st, [x EXCEPT !.sk = "dtensor", !.src = A.x, !.spos = Iota(Len(x.cells))]), RNew(NewId(st)))
    [] A.op = "real" ->
         IF x.k = "leaf" /\ x.sk = "discr" THEN
           Res(AddObj(st, [x EXCEPT !.comp = SubComp(x, "re"), !.cx = FALSE, !.src = A.x, !.spos = Iota(Len(x.cells))]),
               RNew(NewId(st)))
         ELSE Res(st, RVal(VReS(Val(st, A.x))))
    [] A.op = "imag" ->
         IF x.k = "leaf" /\ x.sk = "discr" /\ x.cx THEN
           Res(AddObj(st, [x EXCEPT !.comp = "im", !.cx = FALSE, !.src = A.x, !.spos = Iota(Len(x.cells))]), RNew(NewId(st)))
         ELSE Res(st, RVal(VImS(Val(st, A.x))))
    [] A.op = "setreal" ->
         Res([st EXCEPT !.bufs = ObjWrite(st.bufs, st.objs, A.x, "re", PartVals(st, A.v, A.x))], RNone)
    [] A.op = "setimag" ->
         IF x.cx THEN Res([st EXCEPT !.bufs = ObjWrite(st.bufs, st.objs, A.x, "im", PartVals(st, A.v, A.x))], RNone)
         ELSE Res(st, RRaise("ValueError"))
    [] A.op = "conj" -> Res(st, RVal(VConjS(Val(st, A.x))))
    [] A.op = "conj_out" ->
         Res([st EXCEPT !.bufs = ObjWrite(st.bufs, st.objs, A.y, "all", VConjS(Val(st, A.x)))], RSame(A.y))
    [] A.op = "assign" ->
         Res([st EXCEPT !.bufs = ObjWrite(st.bufs, st.objs, A.x, "all", Val(st, A.y))], RNone)
    [] A.op = "set_zero" ->
         Res([st EXCEPT !.bufs = ObjWrite(st.bufs, st.objs, A.x, "all", [k \in 1..OSize(st.objs, A.x) |-> CZero])], RNone)
    [] A.op = "lincomb" ->
         Res([st EXCEPT !.bufs = ObjWrite(st.bufs, st.objs, A.x, "all", VLin(A.a, Val(st, A.y), A.b, Val(st, A.z)))],
             RSame(A.x))
    [] A.op = "ibin" ->
         Res([st EXCEPT !.bufs = ObjWrite(st.bufs, st.objs, A.x, "all", VBinS(A.how, Val(st, A.x), Val(st, A.y)))],
             RSame(A.x))
    [] A.op = "pelement" -> Res(AddObj(st, Prod(st.objs[A.ps[1]].cx, A.ps)), RNew(NewId(st)))

(* --------------------------- observations ------------------------------ *)
\* what a run on real objects can see after a call: the value of every live object and which objects share memory
\* (a product element shares what its leaves share)
Vals(st) == [i \in 1..Len(st.objs) |-> Val(st, i)]
SharePairs(st) ==
  LET F == [i \in 1..Len(st.objs) |-> Foot(st.objs, i)] IN
    {<<i, j>> \in (1..Len(st.objs)) \X (1..Len(st.objs)) : i < j /\ F[i] \cap F[j] # {}}

AllPairs(n) == [k \in 1..(n * n) |-> <<((k - 1) \div n) + 1, ((k - 1) % n) + 1>>]
PairSeq(s) == LET S == SharePairs(s) IN SelectSeq(AllPairs(Len(s.objs)), LAMBDA p : p \in S)
Obs(s, ret) == [vals |-> Vals(s), sh |-> PairSeq(s), ret |-> ret]

(* --------------- documented write set (for the frame law) --------------- *)
\* component-level cells an action is documented to write; everything else must keep its value
WriteSet(st, A) ==
  LET x == st.objs[A.x] IN
  CASE A.op = "setitem" ->
         LET d == IF x.k = "leaf" THEN [o |-> A.x, idx |-> A.idx] ELSE Descend(st.objs, A.x, A.idx)
             t == st.objs[d.o]
         IN  IF t.k = "leaf" THEN
               LET S == Sel(t.shp, d.idx) IN {<<t.b, t.cells[S.pos[k]], c>> : k \in 1..Len(S.pos), c \in CompSet(t.comp)}
             ELSE LET ps == AxisPos(Len(t.parts), d.idx[1]) IN UNION {Foot(st.objs, t.parts[ps[q] + 1]) : q \in 1..Len(ps)}
    [] A.op \in {"assign", "set_zero", "lincomb", "ibin"} -> Foot(st.objs, A.x)
    [] A.op \in {"asarray_out", "conj_out"} -> Foot(st.objs, A.y)
    [] A.op = "setreal" -> {f \in Foot(st.objs, A.x) : f[3] = "re" \/ ~x.cx}
    [] A.op = "setimag" -> IF x.cx THEN {f \in Foot(st.objs, A.x) : f[3] = "im"} ELSE {}
    [] OTHER -> {}

(* ------------- the documentation table, stated on its own --------------- *)
\* what the documentation says about the memory of the object an action hands out:
\*   "view"   shares memory with the indexed / wrapped object      "copy"  independent memory
\*   "unspec" only the value at the time of the call is specified  "none"  hands out nothing new
DocShare(st, A) ==
  LET x == st.objs[A.x] IN
  CASE A.op = "getitem" ->
         LET d == IF x.k = "leaf" THEN [o |-> A.x, idx |-> A.idx] ELSE Descend(st.objs, A.x, A.idx)
             t == st.objs[d.o]
         IN  IF t.k = "leaf" THEN
               (IF Sel(t.shp, d.idx).shp = <<>> THEN "none"                              \* scalar
                ELSE IF t.ty = "elem" /\ (t.sk = "discr" \/ Sel(t.shp, d.idx).arr) THEN "unspec"   \* "values : Tensor" / index arrays
                ELSE IF Sel(t.shp, d.idx).adv THEN "copy" ELSE "view")                   \* [T.getitem]
             ELSE (IF d.idx[1].k = "list" THEN "unspec" ELSE "view")                     \* [P.*]
    [] A.op = "copy" -> "copy"                                                           \* [T.copy]
    [] A.op = "asarray" -> IF x.k = "leaf" /\ A.how \notin {"np.asarray(dtype=same)", "np.asarray(dtype=other)"}
                             THEN "view" ELSE "unspec"                                 \* [T.asarray]; __array__(dtype): silent
    [] A.op = "wrap" -> IF x.dt = "same" /\ (A.ord = "N" \/ Contig(st.bufs, x, A.ord)) THEN "view" ELSE "copy"   \* [S.element]
    [] A.op = "tensor" -> "view"
    [] A.op = "sample" -> "copy"
    [] A.op = "real" -> IF x.k = "leaf" /\ x.sk = "discr" THEN "view" ELSE "unspec"      \* [T.real]
    [] A.op = "imag" -> IF x.k = "leaf" /\ x.sk = "discr" /\ x.cx THEN "view" ELSE "unspec"
    [] A.op = "conj" -> "unspec"
    [] A.op = "pelement" -> "view"
    [] OTHER -> "none"
\* the object whose memory a documented view shares
DocSource(st, A) ==
  IF A.op = "getitem" /\ st.objs[A.x].k = "prod" THEN Descend(st.objs, A.x, A.idx).o ELSE A.x
=============================================================================

------------------------------- MODULE FomSem -------------------------------
(***************************************************************************)
(* Layer A (extension EXT/fom): reference semantics of the figures of      *)
(* merit of odl.contrib.fom (supervised / unsupervised / util),            *)
(* odl.util.numerics.zscore and odl.contrib.param_opt.optimal_parameters,  *)
(* written from the DOCSTRINGS (formulas of the Notes sections, documented *)
(* examples, documented option semantics) - not from the code.             *)
(*                                                                         *)
(* Carriers: an image is a flat (C-order) sequence of rationals <<n,d>>;   *)
(* a space is [cs |-> cell sides (sequence of rationals, all 1 for tensor  *)
(* spaces), shape |-> sequence of naturals].  The documented || . ||_2,    *)
(* || . ||_1 and < . , . > are the SPACE norms / inner product, i.e. they  *)
(* carry the cell volume cv = product of the cell sides.                   *)
(*                                                                         *)
(* A case is a record                                                      *)
(*   [fn, cs, shape, f, g, m, norm, flb, x]                                *)
(* (m = <<>> : no mask; norm, flb in {0,1}; x = extra rational parameters) *)
(* and  Allowed(c)  is the set of documented outcomes  [k, v]  or the      *)
(* token ANY where the documentation is silent (degenerate denominators)   *)
(* or the documented value is irrational on this input ("irr": such cases  *)
(* are not compared exactly).                                              *)
(***************************************************************************)
EXTENDS ExactNum, Sequences, FiniteSets, Naturals, Integers, TLC

ANY == {[k |-> "any", v |-> NaN]}
IRR == {[k |-> "irr", v |-> NaN]}
IsAny(al) == \E o \in al : o.k = "any"
IsIrr(al) == \E o \in al : o.k = "irr"
Member(o, al) == \E a \in al : a.k = o.k /\ a.v = o.v
Val(q) == [k |-> "q", v |-> q]
Arr(s) == [k |-> "arr", v |-> s]
Err(n) == [k |-> "err", v |-> n]

(* ------------------------------ vectors -------------------------------- *)
VMul(f, m) == [i \in 1..Len(f) |-> QMul(f[i], m[i])]
VSub(f, g) == [i \in 1..Len(f) |-> QSub(f[i], g[i])]
VShift(f, c) == [i \in 1..Len(f) |-> QSub(f[i], c)]
VScale(f, c) == [i \in 1..Len(f) |-> QMul(f[i], c)]
Ones(n) == [i \in 1..n |-> QOne]
Sum(f) == QSumSeq(f)
SumSq(f) == QSumSeq([i \in 1..Len(f) |-> QSq(f[i])])
SumAbs(f) == QSumSeq([i \in 1..Len(f) |-> QAbs(f[i])])
RECURSIVE QProdSeq(_)
QProdSeq(s) == IF s = <<>> THEN QOne ELSE QMul(Head(s), QProdSeq(Tail(s)))
CellVol(cs) == QProdSeq(cs)
(* the documented space norms *)
Norm2Sq(cv, f) == QMul(cv, SumSq(f))
Norm1(cv, f) == QMul(cv, SumAbs(f))
Inner1(cv, f) == QMul(cv, Sum(f))                 \* <f, 1>
Vol1(cv, n) == Norm1(cv, Ones(n))                 \* || 1 ||_1
Vol2(cv, n) == Norm2Sq(cv, Ones(n))               \* || 1 ||_2^2
MeanOf(cv, f) == QDiv(Inner1(cv, f), Vol1(cv, Len(f)))     \* documented mean value <f,1> / ||1||_1
Masked(f, m) == IF m = <<>> THEN f ELSE VMul(f, m)         \* "data * mask is compared to ground_truth * mask"

\* fast integer square root (Newton), the ExactNum one scans linearly
RECURSIVE Newton(_, _)
Newton(n, x) == LET y == (x + n \div x) \div 2 IN IF y >= x THEN x ELSE Newton(n, y)
FISqrt(n) == IF n <= 1 THEN n ELSE Newton(n, n)
FIsSq(n) == n >= 0 /\ FISqrt(n) * FISqrt(n) = n
FIsSquare(p) == FIsSq(p[1]) /\ FIsSq(p[2])
FSqrt(p) == <<FISqrt(p[1]), FISqrt(p[2])>>              \* only if FIsSquare(p)
\* (sqrt(A) + sqrt(B))^2 = A + B + 2 sqrt(AB): rational iff AB is a rational square, iff B/A is one (A > 0);
\* sqrt(AB) = A sqrt(B/A)
SqrtPairOK(A, B) == QIsZero(A) \/ QIsZero(B) \/ FIsSquare(QDiv(B, A))
RootAB(A, B) == IF QIsZero(A) \/ QIsZero(B) THEN QZero ELSE QMul(A, FSqrt(QDiv(B, A)))
SumRootsSq(A, B) == QAdd(QAdd(A, B), QMul(QI(2), RootAB(A, B)))

(* --------------------- the five norm-based FOMs ------------------------- *)
\* MSE = ||f-g||_2^2 / ||1||_2^2 ;  MSE_N = ||f-g||_2^2 / (||f||_2 + ||g||_2)^2
MSE(cv, f0, g0, m, norm) ==
  LET f == Masked(f0, m)  g == Masked(g0, m)  num == Norm2Sq(cv, VSub(f, g)) IN
  IF norm = 0 THEN {Val(QDiv(num, Vol2(cv, Len(f))))}
  ELSE LET A == Norm2Sq(cv, f)  B == Norm2Sq(cv, g) IN
       IF QIsZero(A) /\ QIsZero(B) THEN ANY                       \* 0 / 0: documentation silent
       ELSE IF ~SqrtPairOK(A, B) THEN IRR
       ELSE {Val(QDiv(num, SumRootsSq(A, B)))}
\* MAE = ||f-g||_1 / ||1||_1 ;  MAE_N = ||f-g||_1 / (||f||_1 + ||g||_1)
MAE(cv, f0, g0, m, norm) ==
  LET f == Masked(f0, m)  g == Masked(g0, m)  num == Norm1(cv, VSub(f, g)) IN
  IF norm = 0 THEN {Val(QDiv(num, Vol1(cv, Len(f))))}
  ELSE LET den == QAdd(Norm1(cv, f), Norm1(cv, g)) IN
       IF QIsZero(den) THEN ANY ELSE {Val(QDiv(num, den))}
\* MVD = | mean f - mean g | ;  MVD_N = MVD / (|mean f| + |mean g|)
MVD(cv, f0, g0, m, norm) ==
  LET f == Masked(f0, m)  g == Masked(g0, m)
      mf == MeanOf(cv, f)  mg == MeanOf(cv, g)  num == QAbs(QSub(mf, mg)) IN
  IF norm = 0 THEN {Val(num)}
  ELSE LET den == QAdd(QAbs(mf), QAbs(mg)) IN
       IF QIsZero(den) THEN ANY ELSE {Val(QDiv(num, den))}
\* SDD = | ||f - mean f||_2 - ||g - mean g||_2 | ;  SDD_N = SDD / (sum of the two)
\* |sqrt A - sqrt B| / (sqrt A + sqrt B) = |A - B| / (sqrt A + sqrt B)^2
SDD(cv, f0, g0, m, norm) ==
  LET f == Masked(f0, m)  g == Masked(g0, m)
      A == Norm2Sq(cv, VShift(f, MeanOf(cv, f)))  B == Norm2Sq(cv, VShift(g, MeanOf(cv, g))) IN
  IF norm = 0 THEN (IF A = B THEN {Val(QZero)}
                    ELSE IF FIsSquare(A) /\ FIsSquare(B) THEN {Val(QAbs(QSub(FSqrt(A), FSqrt(B))))}
                    ELSE IRR)
  ELSE IF QIsZero(A) /\ QIsZero(B) THEN ANY
       ELSE IF ~SqrtPairOK(A, B) THEN IRR
       ELSE {Val(QDiv(QAbs(QSub(A, B)), SumRootsSq(A, B)))}
\* RD = |(max f - min f) - (max g - min g)| over the ROI selected by the binary mask; RD_N = RD / (sum of ranges)
Select(f, m) == IF m = <<>> THEN f ELSE SelectSeq([i \in 1..Len(f) |-> <<f[i], m[i]>>], LAMBDA p : ~QIsZero(p[2]))
Fst(ps) == [i \in 1..Len(ps) |-> ps[i][1]]
Roi(f, m) == IF m = <<>> THEN f ELSE Fst(Select(f, m))
Ptp(f) == QSub(QMaxSeq(f), QMinSeq(f))
RD(f0, g0, m, norm) ==
  LET f == Roi(f0, m)  g == Roi(g0, m) IN
  IF f = <<>> THEN ANY                                               \* empty ROI: not documented
  ELSE IF \E i \in 1..Len(m) : m[i] \notin {QZero, QOne} THEN ANY    \* "Binary mask": other weights not documented
  ELSE LET rf == Ptp(f)  rg == Ptp(g)  num == QAbs(QSub(rf, rg)) IN
       IF norm = 0 THEN {Val(num)}
       ELSE IF QIsZero(QAdd(rf, rg)) THEN ANY ELSE {Val(QDiv(num, QAdd(rf, rg)))}

\* mask : "Binary mask or index array to define ROI": an index array (0-based entries, given in m) selects the listed
\* entries.  A sequence of 0/1 of the image length can be read both ways: not decided (ANY).
RDIDX(f0, g0, idx, norm) ==
  LET n == Len(f0)  ii == [t \in 1..Len(idx) |-> idx[t][1]] IN
  IF Len(idx) = 0 \/ (Len(idx) = n /\ \A t \in 1..n : ii[t] \in {0, 1}) \/ \E t \in 1..Len(idx) : ii[t] < 0 \/ ii[t] >= n
    THEN ANY
  ELSE RD([t \in 1..Len(idx) |-> f0[ii[t] + 1]], [t \in 1..Len(idx) |-> g0[ii[t] + 1]], <<>>, norm)

(* -------------------------------- blurring ------------------------------ *)
\* Documented: BLUR = ||alpha (f-g)||_2^2, BLUR_N = ||alpha(f-g)||_2^2 / (||alpha f||_2^2 + ||alpha g||_2^2), AND
\* "if the mask argument is omitted, this FOM is equivalent to the mean squared error" (which divides by the volume
\* resp. by (||f|| + ||g||)^2).  The two statements disagree, so BOTH readings are admitted (weaker reading).
\* alpha is passed in as the weight image (exact only where it is 0/1, i.e. smoothness factor -> 0).
BLUR(cv, f0, g0, alpha, norm) ==
  LET f == Masked(f0, alpha)  g == Masked(g0, alpha)  num == Norm2Sq(cv, VSub(f, g))
      A == Norm2Sq(cv, f)  B == Norm2Sq(cv, g) IN
  IF norm = 0 THEN {Val(num), Val(QDiv(num, Vol2(cv, Len(f))))}
  ELSE IF QIsZero(A) /\ QIsZero(B) THEN ANY
       ELSE IF ~SqrtPairOK(A, B) THEN IRR                     \* one of the admitted readings is irrational here
       ELSE {Val(QDiv(num, QAdd(A, B))), Val(QDiv(num, SumRootsSq(A, B)))}
BlurStrict(cv, f0, g0, alpha, norm) ==       \* the displayed formulas alone
  LET f == Masked(f0, alpha)  g == Masked(g0, alpha)  num == Norm2Sq(cv, VSub(f, g))
      A == Norm2Sq(cv, f)  B == Norm2Sq(cv, g) IN
  IF norm = 0 THEN {Val(num)} ELSE IF QIsZero(QAdd(A, B)) THEN ANY ELSE {Val(QDiv(num, QAdd(A, B)))}

(* --------------------------------- zscore ------------------------------- *)
\* "Return arr normalized with mean 0 and unit variance. If the input has 0 variance, the result will also have 0
\* variance" (examples: zscore([1, 0]) = [1, -1]; zscore([1, 1]) = [0, 0]); plain (unweighted) mean / variance.
PlainMean(f) == QDiv(Sum(f), QI(Len(f)))
PlainVar(f) == QDiv(SumSq(VShift(f, PlainMean(f))), QI(Len(f)))
ZOK(f) == FIsSquare(PlainVar(f))
Z(f) == LET c == VShift(f, PlainMean(f))  v == PlainVar(f) IN
        IF QIsZero(v) THEN c ELSE VScale(c, QInv(FSqrt(v)))
ZSCORE(f) == IF ZOK(f) THEN {Arr(Z(f))} ELSE IRR

(* ---------------------------------- psnr -------------------------------- *)
\* Peak signal-to-noise ratio (the docstring refers to the Wikipedia definition 10 log10(MAX^2 / MSE); the documented
\* example psnr([1,1,1,1,1], [1,1,1,1,2]) = 13.010 fixes MAX = max |ground_truth| and MSE = the unnormalised
\* mean_squared_error).  Observed through R = 10^(psnr/10), which is the rational MAX^2 / MSE:
\*   data = ground_truth  -> +inf (documented)          R = Inf
\*   MAX = 0 (and MSE # 0) -> log10(0) = -inf           R = 0
\* force_lower_is_better: "the output is negated"       R -> 1/R
MaxAbs(f) == QMaxSeq([i \in 1..Len(f) |-> QAbs(f[i])])
QInvX(r) == IF r = Inf THEN QZero ELSE IF QIsZero(r) THEN Inf ELSE QInv(r)
PSNR(cv, f0, g0, useZ, flb) ==
  IF useZ = 1 /\ ~(ZOK(f0) /\ ZOK(g0)) THEN IRR
  ELSE LET f == IF useZ = 1 THEN Z(f0) ELSE f0
           g == IF useZ = 1 THEN Z(g0) ELSE g0
           mse == QDiv(Norm2Sq(cv, VSub(f, g)), Vol2(cv, Len(f)))
           mx == MaxAbs(g)
           r == IF QIsZero(mse) THEN Inf ELSE QDiv(QSq(mx), mse) IN
       {Val(IF flb = 1 THEN QInvX(r) ELSE r)}

(* ---------------------------------- ssim -------------------------------- *)
\* Window of size 1 (the Gaussian window is the single weight 1): mu_x = x, sigma_x = sigma_y = sigma_xy = 0, so
\* SSIM(x, y) = (2xy + c1)(c2) / ((x^2 + y^2 + c1)(c2)) per pixel, averaged over the image; c1 = (K1 L)^2,
\* c2 = (K2 L)^2, L = dynamic_range, default max(g) - min(g).  normalized: (SSIM + 1)/2.  force_lower_is_better:
\* -SSIM; with both, "the order is reversed before mapping": (-SSIM + 1)/2.
\* x = <<K1, K2, L>> with L = <<-1,1>> for the default.
SsimFlip(s, norm, flb) ==
  LET t == IF flb = 1 THEN QNeg(s) ELSE s IN IF norm = 1 THEN QHalf(QAdd(t, QOne)) ELSE t
SSIM1(f, g, x, norm, flb) ==
  LET L == IF x[3] = <<-1, 1>> THEN Ptp(g) ELSE x[3]
      c1 == QSq(QMul(x[1], L))  c2 == QSq(QMul(x[2], L)) IN
  IF QIsZero(c2) \/ \E i \in 1..Len(f) : QIsZero(QAdd(QAdd(QSq(f[i]), QSq(g[i])), c1)) THEN ANY
  ELSE LET pt == [i \in 1..Len(f) |-> QDiv(QAdd(QMul(QI(2), QMul(f[i], g[i])), c1),
                                             QAdd(QAdd(QSq(f[i]), QSq(g[i])), c1))]
           s == QDiv(Sum(pt), QI(Len(f))) IN
       {Val(SsimFlip(s, norm, flb))}

(* ------------------------- false_structures_mask ------------------------ *)
\* "Euclidean distance transform from each point in foreground.space to foreground" (example: uniform_discr(0,1,5),
\* foreground [0,0,1,0,0] -> [0.4, 0.2, 0, 0.2, 0.4]): distances in physical units (cell sides).  Observed SQUARED.
\* ValueError "if foreground is all zero or all one, or contains values not in {0, 1}".
Mod(a, N) == a - N * (a \div N)
RECURSIVE Strides(_)
Strides(shape) == IF Len(shape) = 1 THEN <<1>> ELSE LET t == Strides(Tail(shape)) IN <<t[1] * shape[2]>> \o t
Idx(i, shape) == LET st == Strides(shape) IN [a \in 1..Len(shape) |-> Mod((i - 1) \div st[a], shape[a])]
Dist2(i, j, cs, shape) ==
  LET p == Idx(i, shape)  q == Idx(j, shape) IN
  QSumSeq([a \in 1..Len(shape) |-> QSq(QMul(QI(p[a] - q[a]), cs[a]))])
QMinSet(S) == CHOOSE x \in S : \A y \in S : QLe(x, y)
FSM(cs, shape, fg, tens) ==
  LET n == Len(fg)  on == {i \in 1..n : fg[i] = QOne}  off == {i \in 1..n : fg[i] = QZero} IN
  IF on = {} \/ off = {} \/ on \cup off # 1..n THEN {Err("ValueError")}
  ELSE {[k |-> (IF tens = 1 THEN "tarr" ELSE "arr"), v |-> [i \in 1..n |-> QMinSet({Dist2(i, j, cs, shape) : j \in on})]]}
\* "The return value is a Tensor if foreground is one, too, otherwise a NumPy array": kind "tarr" / "arr"

(* --------------------------- filter_image_sep2d ------------------------- *)
\* "Filter an image with a separable filter": fh along axis 0, fv along axis 1; "padding: amount of zeros added to
\* the left and right of the image in all axes before FFT" (so the filtering is CIRCULAR on the padded image), result
\* has the shape of the image; default padding = min(max(len(fh), len(fv)) - 1, 64).  The docstring does not say
\* whether "filter" is convolution or correlation, nor which tap is the centre for even lengths: the four
\* combinations {conv, corr} x {centre (L-1) div 2, L div 2} are all admitted (weaker reading).
\* Filter sizes "can be at most the image sizes in the respective axes"; documented ValueError otherwise is NOT
\* promised, only that such sizes are allowed.
Pix(img, shape, i, j) == img[i * shape[2] + j + 1]                          \* 0-based i, j
PadAt(img, shape, p, i, j) ==                                              \* padded image, 0-based, size n+2p
  IF i >= p /\ i < p + shape[1] /\ j >= p /\ j < p + shape[2] THEN Pix(img, shape, i - p, j - p) ELSE QZero
TapIdx(i, k, mid, conv, N) == IF conv THEN Mod(i - (k - 1 - mid) + 4 * N, N) ELSE Mod(i + (k - 1 - mid) + 4 * N, N)
Filt1(get(_), N, filt, conv, mid, i) ==                                      \* one axis, circular of period N
  QSumSeq([k \in 1..Len(filt) |-> QMul(filt[k], get(TapIdx(i, k, mid, conv, N)))])
Sep2D(img, shape, fh, fv, p, conv, cshift) ==
  LET N0 == shape[1] + 2 * p  N1 == shape[2] + 2 * p
      mh == IF cshift THEN Len(fh) \div 2 ELSE (Len(fh) - 1) \div 2
      mv == IF cshift THEN Len(fv) \div 2 ELSE (Len(fv) - 1) \div 2
      \* filter along axis 1 first (rows), then axis 0
      rowf == [i \in 0..(N0 - 1) |-> [j \in 0..(N1 - 1) |->
                 LET G(jj) == PadAt(img, shape, p, i, jj) IN Filt1(G, N1, fv, conv, mv, j)]]
      full(i, j) == LET G(ii) == rowf[ii][j] IN Filt1(G, N0, fh, conv, mh, i)
  IN  [t \in 1..(shape[1] * shape[2]) |-> full(p + (t - 1) \div shape[2], p + Mod(t - 1, shape[2]))]
DefaultPad(fh, fv) == LET a == IF Len(fh) > Len(fv) THEN Len(fh) ELSE Len(fv) IN IF a - 1 < 64 THEN a - 1 ELSE 64
SEP2D(img, shape, fh, fv, pad) ==
  LET p == IF pad < 0 THEN DefaultPad(fh, fv) ELSE pad IN
  {Arr(Sep2D(img, shape, fh, fv, p, cv, cs)) : cv \in BOOLEAN, cs \in BOOLEAN}

\* haarpsi_weight_map: W = max(|g3 * f1|, |g3 * f2|), g3 = level-3 Haar filter: high-pass (-s,-s,-s,-s,s,s,s,s) in
\* axis k, low-pass (s x 8) in the other axis, s = sqrt 2 (so the separable product is 2 x the +-1 pattern: exact).
Rep(v, n) == [i \in 1..n |-> v]
Hi3 == Rep(QI(-1), 4) \o Rep(QI(1), 4)
Lo3 == Rep(QI(1), 8)
WMAP(f1, f2, shape, axis) ==
  LET fh == IF axis = 0 THEN Hi3 ELSE Lo3  fv == IF axis = 0 THEN Lo3 ELSE Hi3 IN
  {Arr([t \in 1..Len(f1) |-> QMul(QI(2), QMax(QAbs(Sep2D(f1, shape, fh, fv, 7, cv, cs)[t]),
                                             QAbs(Sep2D(f2, shape, fh, fv, 7, cv, cs)[t])))])
     : cv \in BOOLEAN, cs \in BOOLEAN}

(* ------------------------------ spherical_sum --------------------------- *)
\* "Sum image values over concentric annuli": N = int(sqrt(sum n^2) / binning_factor) bins on [0, rmax], rmax = radius
\* of the smallest ball (around 0) containing the domain.  Exact law used: the bins partition [0, rmax] and every
\* grid point lies in the domain, so the bin values sum to the sum of the image values; and the shape is (N,).
\* x = <<total>>: the case carries n2 = sum n^2 and the binning factor as rational
ISqrtQFloor(q) == FISqrt(QFloor(q))              \* floor(sqrt(q)) for q >= 0
NBins(shape, bf) ==                              \* int(sqrt(S) / bf) = floor(sqrt(S / bf^2))
  LET S == QSumSeq([a \in 1..Len(shape) |-> QI(shape[a] * shape[a])]) IN ISqrtQFloor(QDiv(S, QSq(bf)))
SPHSUM(img, shape, bf) == {[k |-> "sph", v |-> <<QI(NBins(shape, bf)), Sum(img)>>]}

(* --------------------------- optimal_parameters ------------------------- *)
\* "theta = argmin_theta sum_i fom(R_theta(data_i), phantom_i)".  Toy: R_theta(y) = theta * y, fom = squared distance
\* (any positive multiple): the objective is the quadratic  sum_i ||theta y_i - x_i||^2 with the unique minimiser
\* theta* = sum <x_i, y_i> / sum <y_i, y_i>.  Observed relationally (quantised result within +-slack).
ArgminScale(xs, ys) ==
  QDiv(QSumSeq([i \in 1..Len(xs) |-> Sum(VMul(xs[i], ys[i]))]), QSumSeq([i \in 1..Len(xs) |-> SumSq(ys[i])]))

(* ------------------------------- dispatcher ----------------------------- *)
Allowed(c) ==
  LET cv == CellVol(c.cs) IN
  CASE c.fn = "mse" -> MSE(cv, c.f, c.g, c.m, c.norm)
    [] c.fn = "mae" -> MAE(cv, c.f, c.g, c.m, c.norm)
    [] c.fn = "mvd" -> MVD(cv, c.f, c.g, c.m, c.norm)
    [] c.fn = "sdd" -> SDD(cv, c.f, c.g, c.m, c.norm)
    [] c.fn = "rd" -> RD(c.f, c.g, c.m, c.norm)
    [] c.fn = "rdidx" -> RDIDX(c.f, c.g, c.m, c.norm)
    [] c.fn = "nbins" -> {Val(QI(NBins(c.shape, c.x[1])))}
    [] c.fn = "blur" -> BLUR(cv, c.f, c.g, (IF c.m = <<>> THEN Ones(Len(c.f)) ELSE c.m), c.norm)
    [] c.fn = "psnr" -> PSNR(cv, c.f, c.g, c.norm, c.flb)          \* norm carries use_zscore
    [] c.fn = "ssim1" -> SSIM1(c.f, c.g, c.x, c.norm, c.flb)
    [] c.fn = "zscore" -> ZSCORE(c.f)
    [] c.fn = "fsm" -> FSM(c.cs, c.shape, c.f, c.norm)                \* norm = 1: foreground given as a Tensor
    [] c.fn = "sep2d" -> SEP2D(c.f, c.shape, c.g, c.m, c.norm)     \* g = fh, m = fv, norm = padding (-1 default)
    [] c.fn = "wmap" -> WMAP(c.f, c.g, c.shape, c.norm)            \* norm = axis
    [] c.fn = "sph" -> SPHSUM(c.f, c.shape, c.x[1])
    [] OTHER -> ANY
Matches(c, o) == LET al == Allowed(c) IN IsAny(al) \/ IsIrr(al) \/ Member(o, al)
=============================================================================

------------------------------- MODULE NormSem -------------------------------
(***************************************************************************)
(* Layer A (extension EXT/normalize): reference semantics of ODL's         *)
(* argument normalisers and small pure utilities                           *)
(*   odl/util/normalize.py  normalized_scalar_param_list,                  *)
(*       normalized_index_expression, normalized_nodes_on_bdry,            *)
(*       normalized_axes_tuple, safe_int_conv                              *)
(*   odl/util/utility.py    real_dtype, complex_dtype, is_*_dtype,         *)
(*       dtype_str, dtype_repr, unique, indent, dedent, array_str          *)
(*   odl/util/numerics.py   apply_on_boundary, fast_1d_tensor_mult         *)
(* written from the DOCSTRINGS (Parameters / Returns / Raises / Examples), *)
(* not from the code.                                                      *)
(*                                                                         *)
(* An abstract Python value is a record [k |-> kind, v |-> payload]:       *)
(*   none 0 | bool 0/1 | npbool 0/1 | int i | float <<n,d>> (exact)        *)
(*   str <<"a","b">> (sequence of characters)                              *)
(*   list <<values>>   any Python sequence given by the caller (the        *)
(*                     harness spells it list / tuple / 1-d ndarray)       *)
(*   tuple <<values>>  results only (a documented tuple)                   *)
(*   arr0 value (0-d ndarray) | gen <<values>> (generator)                 *)
(*   slice <<a,b,s>> with NONE = 99 for None | ell 0 (Ellipsis)            *)
(* "k" sorts before "v", so TLC compares the kind first and never compares *)
(* payloads of different kinds.                                            *)
(*                                                                         *)
(* The semantics of a call is the SET of outcomes the documentation        *)
(* allows: Ok(value), Err(class) ("*" = any exception that rejects the     *)
(* input, i.e. any class except the ones that signal a broken code path),  *)
(* or ANY where the documentation is silent about the input kind (no       *)
(* demand).                                                                *)
(***************************************************************************)
EXTENDS Integers, Sequences, FiniteSets, TLC

NONE == 99
VNone == [k |-> "none", v |-> 0]
VB(b) == [k |-> "bool", v |-> b]
VNB(b) == [k |-> "npbool", v |-> b]
VI(i) == [k |-> "int", v |-> i]
VF(n, d) == [k |-> "float", v |-> <<n, d>>]
VS(cs) == [k |-> "str", v |-> cs]
VTx(t) == [k |-> "text", v |-> t]            \* a string compared as a whole (results of dtype_str / dtype_repr)
VL(xs) == [k |-> "list", v |-> xs]
VT(xs) == [k |-> "tuple", v |-> xs]
VA0(x) == [k |-> "arr0", v |-> x]
VG(xs) == [k |-> "gen", v |-> xs]
VSl(a, b, s) == [k |-> "slice", v |-> <<a, b, s>>]
VEll == [k |-> "ell", v |-> 0]
Ok(v) == [k |-> "ok", v |-> v]
Err(c) == [k |-> "err", v |-> c]
ANY == {[k |-> "any", v |-> 0]}
\* exception classes that never count as "the input was rejected": they mean the rejecting code path itself is broken
Internal == {"NameError", "UnboundLocalError"}

Max2(a, b) == IF a >= b THEN a ELSE b
Min2(a, b) == IF a <= b THEN a ELSE b
Rep(x, n) == [i \in 1..n |-> x]
HasDup(s) == \E i, j \in DOMAIN s : i < j /\ s[i] = s[j]
IsBoolish(x) == x.k \in {"bool", "npbool"}

\* an observed outcome is accepted by a set of allowed outcomes
Matches(obs, allowed) ==
  \/ allowed = ANY
  \/ obs.k = "ok" /\ obs \in allowed
  \/ obs.k = "err" /\ \E a \in allowed : a.k = "err" /\ (a.v = obs.v \/ (a.v = "*" /\ obs.v \notin Internal))

(* ======================= normalized_axes_tuple ========================= *)
(* "Return a tuple of axes converted to positive integers ... according to *)
(* standard Python indexing from the right. axes: int or sequence of ints; *)
(* duplicate entries are not allowed; all entries must fulfill             *)
(* -ndim <= axis <= ndim - 1.  ndim: positive int."                        *)
(* The docstring example normalized_axes_tuple([0, -1, 2], ndim=3) ->      *)
(* (0, 2, 2) returns a duplicate that only appears after conversion: both  *)
(* readings (return it / reject it) are accepted for such input.           *)
AxN(a, nd) == IF a < 0 THEN a + nd ELSE a
AxesOfInts(s, nd) ==
  LET norm == [i \in 1..Len(s) |-> AxN(s[i], nd)]
      res  == Ok(VT([i \in 1..Len(s) |-> VI(norm[i])]))
  IN  IF nd <= 0 \/ (\E i \in 1..Len(s) : s[i] < -nd \/ s[i] > nd - 1) \/ HasDup(s) THEN {Err("*")}
      ELSE IF HasDup(norm) THEN {res, Err("*")}
      ELSE {res}
AxesAllowed(axes, ndim) ==
  IF ndim.k # "int" THEN ANY
  ELSE IF axes.k = "int" THEN AxesOfInts(<<axes.v>>, ndim.v)
  ELSE IF axes.k = "list" /\ (\A i \in 1..Len(axes.v) : axes.v[i].k = "int")
    THEN AxesOfInts([i \in 1..Len(axes.v) |-> axes.v[i].v], ndim.v)
  ELSE ANY                                   \* bool, float, None, str, generators, 0-d arrays: not documented

(* ==================== normalized_index_expression ====================== *)
(* indices: int, slice, Ellipsis or sequence of these; shape: target shape *)
(* "for error checking of out-of-bounds indices", also the number of axes. *)
(* Features: Ellipsis -> adequate number of slice(None); fewer indices     *)
(* than axes are filled up from the right; "at most as many entries as the *)
(* length of shape"; int_to_slice turns integers into "corresponding"      *)
(* slices so that indexing keeps the number of axes.                       *)
(* Results are compared up to NumPy equivalence on the given shape (an     *)
(* entry is characterised by the positions it selects and by whether it    *)
(* keeps the axis).                                                        *)
SlAll == VSl(NONE, NONE, NONE)
RECURSIVE RangeSeq(_, _, _)
RangeSeq(i, stop, step) ==
  IF (step > 0 /\ i >= stop) \/ (step < 0 /\ i <= stop) THEN <<>> ELSE <<i>> \o RangeSeq(i + step, stop, step)
\* Python's slice.indices(n): positions (0-based) selected by slice(a, b, s), s # 0, on an axis of length n, in order
SliceIdx(sl, n) ==
  LET step == IF sl[3] = NONE THEN 1 ELSE sl[3]
      lo   == IF step > 0 THEN 0 ELSE -1
      hi   == IF step > 0 THEN n ELSE n - 1
      Adj(x, dflt) == IF x = NONE THEN dflt ELSE IF x < 0 THEN Max2(x + n, lo) ELSE Min2(x, hi)
  IN  RangeSeq(Adj(sl[1], IF step > 0 THEN lo ELSE hi), Adj(sl[2], IF step > 0 THEN hi ELSE lo), step)
\* what one entry selects on an axis of length n; idx = <<-1>>: integer out of bounds
AxisSel(it, n) ==
  IF it.k = "int" THEN [keep |-> 0, idx |-> IF it.v >= -n /\ it.v < n THEN <<AxN(it.v, n)>> ELSE <<-1>>]
  ELSE [keep |-> 1, idx |-> SliceIdx(it.v, n)]
IdxItems(ind) == IF ind.k = "list" THEN ind.v ELSE <<ind>>
IdxDocumented(items) ==
  \A i \in 1..Len(items) : /\ items[i].k \in {"int", "slice", "ell"}
                           /\ (items[i].k = "slice" => items[i].v[3] # 0)
CountEll(items) == Cardinality({i \in 1..Len(items) : items[i].k = "ell"})
\* NumPy's expansion of an index tuple to one entry per axis (at most one Ellipsis, not more entries than axes)
IdxExpand(items, nd) ==
  IF CountEll(items) = 0 THEN items \o Rep(SlAll, nd - Len(items))
  ELSE LET e == CHOOSE i \in 1..Len(items) : items[i].k = "ell"
       IN  SubSeq(items, 1, e - 1) \o Rep(SlAll, nd - (Len(items) - 1)) \o SubSeq(items, e + 1, Len(items))
IdxNormal(items, shape, i2s) ==
  LET ex == IdxExpand(items, Len(shape))
  IN  [ax \in 1..Len(shape) |->
         IF ex[ax].k = "int" /\ i2s = 1
           THEN VSl(AxN(ex[ax].v, shape[ax]), AxN(ex[ax].v, shape[ax]) + 1, NONE)
           ELSE ex[ax]]
IndexAllowed(ind, shape, i2s) ==
  LET items == IdxItems(ind)
      nd    == Len(shape)
  IN  IF ~IdxDocumented(items) \/ CountEll(items) > 1 THEN ANY      \* None, bool, float ... entries; two Ellipsis
      ELSE IF Len(items) - CountEll(items) > nd THEN {Err("*")}     \* more entries than axes
      ELSE LET ex == IdxExpand(items, nd)
           IN  IF \E ax \in 1..nd : ex[ax].k = "int" /\ (ex[ax].v < -shape[ax] \/ ex[ax].v >= shape[ax])
                 THEN {Err("*")}                                    \* out-of-bounds integer
               ELSE IF \E ax \in 1..nd : ex[ax].k = "slice" /\
                          (SliceIdx(ex[ax].v, shape[ax]) = <<>> \/ ex[ax].v[1] = shape[ax])
                 \* a slice that selects nothing, or starts at the end of the axis: the documentation neither allows
                 \* nor forbids it ("Slices with empty axes not allowed" is only an error message of the code)
                 THEN {Ok(VT(IdxNormal(items, shape, i2s))), Err("*")}
               ELSE {Ok(VT(IdxNormal(items, shape, i2s)))}
\* NumPy equivalence of two normalised expressions on a shape
IdxEntryOK(it) == it.k \in {"int", "slice"} /\ (it.k = "slice" => it.v[3] # 0)
IdxEquiv(o, e, shape) ==
  /\ o.k = "tuple" /\ Len(o.v) = Len(shape)
  /\ \A ax \in 1..Len(shape) : IdxEntryOK(o.v[ax]) /\ AxisSel(o.v[ax], shape[ax]) = AxisSel(e.v[ax], shape[ax])
MatchesIndex(obs, allowed, shape) ==
  \/ allowed = ANY
  \/ obs.k = "ok" /\ \E a \in allowed : a.k = "ok" /\ IdxEquiv(obs.v, a.v, shape)
  \/ obs.k = "err" /\ Matches(obs, allowed)
\* row-major flat offsets selected by one entry per axis (an independent model of NumPy basic indexing)
RECURSIVE Prod(_, _)
Prod(shape, from) == IF from > Len(shape) THEN 1 ELSE shape[from] * Prod(shape, from + 1)
RECURSIVE FlatOf(_, _, _)
FlatOf(sels, shape, ax) ==
  IF ax > Len(shape) THEN <<0>>
  ELSE LET rest == FlatOf(sels, shape, ax + 1)
           st   == Prod(shape, ax + 1)
           m    == Len(rest)
       IN  [t \in 1..(Len(sels[ax]) * m) |-> sels[ax][((t - 1) \div m) + 1] * st + rest[((t - 1) % m) + 1]]
FlatSel(entries, shape) == FlatOf([ax \in 1..Len(shape) |-> AxisSel(entries[ax], shape[ax]).idx], shape, 1)

(* ====================== normalized_nodes_on_bdry ======================= *)
(* "a single boolean (global) or a sequence (per axis). Each entry of the  *)
(* sequence can either be a single boolean (global for the axis) or a      *)
(* boolean sequence of length 2.  Returns a list with `length` entries,    *)
(* each a 2-tuple of bool."  uniform_partition: "The length of the         *)
(* sequence must be ndim".  The flat one-axis spelling (left, right) with  *)
(* length = 1 is not documented but established: accepted or rejected.     *)
NobPair(a, b) == VT(<<VB(a), VB(b)>>)
NobItemValid(x) == IsBoolish(x) \/ (x.k = "list" /\ Len(x.v) = 2 /\ \A i \in 1..2 : IsBoolish(x.v[i]))
NobItemBoolSeq(x) == x.k = "list" /\ \A i \in 1..Len(x.v) : IsBoolish(x.v[i])
NobItem(x) == IF IsBoolish(x) THEN NobPair(x.v, x.v) ELSE NobPair(x.v[1].v, x.v[2].v)
NobAllowed(nob, length) ==
  IF length.k # "int" \/ length.v <= 0 THEN ANY                      \* "length : positive int"
  ELSE IF nob.k = "bool" THEN {Ok(VL(Rep(NobPair(nob.v, nob.v), length.v)))}
  ELSE IF nob.k = "list" THEN
         LET n == Len(nob.v) IN
         IF n = length.v THEN
              IF \A i \in 1..n : NobItemValid(nob.v[i]) THEN {Ok(VL([i \in 1..n |-> NobItem(nob.v[i])]))}
              ELSE IF \A i \in 1..n : NobItemValid(nob.v[i]) \/ NobItemBoolSeq(nob.v[i])
                THEN {Err("*")}                                      \* a boolean sequence of length other than 2
              ELSE ANY                                               \* entries that are not boolean at all
         ELSE IF length.v = 1 /\ n = 2 /\ IsBoolish(nob.v[1]) /\ IsBoolish(nob.v[2])
              THEN {Ok(VL(<<NobPair(nob.v[1].v, nob.v[2].v)>>)), Err("*")}
         ELSE {Err("*")}                                             \* wrong number of axes
  ELSE ANY                                                           \* numpy bool, int, None ... as the global value

(* =================== normalized_scalar_param_list ====================== *)
(* Rules of the docstring:                                                 *)
(*   * not a sequence                 -> single parameter                  *)
(*   * len(param) == length == 1      -> single parameter ([1] or '1')     *)
(*   * len(param) == length != 1      -> sequence of parameters            *)
(*   * otherwise                      -> single parameter                  *)
(*   "not applicable to parameters which are themselves iterable (e.g.     *)
(*    'abc' with length=3 will be interpreted as equivalent to             *)
(*    ['a', 'b', 'c'])"                                                    *)
(* Hence: a sequence whose entries (or which as a single parameter) would  *)
(* be iterable is outside the domain (ANY), EXCEPT the cases the docstring *)
(* spells out itself: strings ('10' broadcast; 'abc' split when            *)
(* len = length # 1).  For len = length = 1 the two readings differ only   *)
(* for iterable parameters: both [x] and [[x]] are accepted.               *)
(* param_conv is applied to every entry, None is kept if keep_none.        *)
IsPySeq(p) == p.k \in {"list", "str"}
IsIterable(x) == x.k \in {"list", "str", "gen", "tuple"}
SeqItems(p) == IF p.k = "str" THEN [i \in 1..Len(p.v) |-> VS(<<p.v[i]>>)] ELSE p.v
Unbox(x) == IF x.k = "arr0" THEN x.v ELSE x           \* a 0-d array and its entry are equal as list entries
\* exact value of a number-like value as <<n, d>>
NumOf(x) == IF x.k = "float" THEN x.v ELSE <<x.v, 1>>
IsNum(x) == x.k \in {"int", "bool", "npbool", "float"}
Trunc(q) == IF q[1] >= 0 THEN q[1] \div q[2] ELSE -((-q[1]) \div q[2])
Digits == [c \in {"0", "1", "2", "3", "4", "5", "6", "7", "8", "9"} |->
             CASE c = "0" -> 0 [] c = "1" -> 1 [] c = "2" -> 2 [] c = "3" -> 3 [] c = "4" -> 4
               [] c = "5" -> 5 [] c = "6" -> 6 [] c = "7" -> 7 [] c = "8" -> 8 [] c = "9" -> 9]
IsDigitStr(x) == x.k = "str" /\ Len(x.v) >= 1 /\ \A i \in 1..Len(x.v) : x.v[i] \in DOMAIN Digits
RECURSIVE StrInt(_)
StrInt(cs) == IF cs = <<>> THEN 0 ELSE StrInt(SubSeq(cs, 1, Len(cs) - 1)) * 10 + Digits[cs[Len(cs)]]
\* safe_int_conv: "Safely convert a single number to integer": integers are returned as int; a fractional float can
\* not be converted safely; an integral float may be converted or rejected; other kinds are not documented
SafeIntAllowed(x) ==
  IF x.k = "int" THEN {Ok(VI(x.v))}
  ELSE IF x.k = "float" THEN (IF x.v[2] = 1 THEN {Ok(VI(x.v[1])), Err("*")} ELSE {Err("*")})
  ELSE IF IsBoolish(x) THEN {Ok(VI(x.v)), Err("*")}
  ELSE ANY
\* the conversions used by the docstring examples and by ODL's own callers; result: a value, or Err
Conv(c, x0) ==
  LET x == Unbox(x0) IN
  CASE c = "none"  -> x
    [] c = "int"   -> IF IsNum(x) THEN VI(Trunc(NumOf(x)))
                      ELSE IF IsDigitStr(x) THEN VI(StrInt(x.v)) ELSE Err("*")
    [] c = "float" -> IF IsNum(x) THEN [k |-> "float", v |-> NumOf(x)]
                      ELSE IF IsDigitStr(x) THEN VF(StrInt(x.v), 1) ELSE Err("*")
    [] c = "myconv" -> IF x.k = "none" THEN VB(0)                   \* the docstring's own example
                       ELSE IF IsNum(x) THEN VB(IF NumOf(x)[1] = 0 THEN 0 ELSE 1)
                       ELSE IF x.k \in {"str", "list", "tuple"} THEN VB(IF Len(x.v) = 0 THEN 0 ELSE 1)
                       ELSE VB(1)
    [] c = "safeint" -> LET a == SafeIntAllowed(x) IN
                        IF a = ANY THEN [k |-> "any", v |-> 0]
                        ELSE IF Cardinality(a) = 1 THEN (CHOOSE o \in a : TRUE) ELSE [k |-> "any", v |-> 0]
UnwrapOk(o) == IF o.k = "ok" THEN o.v ELSE o
SplFromRaw(raw0, conv, keep, ret) ==
  LET raw == [i \in 1..Len(raw0) |-> Unbox(raw0[i])]
      cv  == [i \in 1..Len(raw) |-> IF raw[i].k = "none" /\ keep = 1 /\ conv # "none" THEN raw[i]
                                    ELSE UnwrapOk(Conv(conv, raw[i]))]
  IN  IF \E i \in 1..Len(raw) : cv[i].k = "any" THEN ANY
      ELSE IF \E i \in 1..Len(raw) : cv[i].k = "err" THEN {Err("*")}    \* whatever param_conv raises
      ELSE IF ret = 1 THEN {Ok(VT(<<VL(cv), VL(raw)>>))} ELSE {Ok(VL(cv))}
SplAllowed(param, length, conv, keep, ret) ==
  IF length.k # "int" THEN ANY
  ELSE IF length.v < 0 THEN {Err("*")}                                  \* "length : nonnegative int"
  ELSE LET n == length.v
           single == SplFromRaw(Rep(param, n), conv, keep, ret)
       IN  IF ~IsPySeq(param) THEN single                               \* not a sequence (None, numbers, generators, 0-d)
           ELSE IF Len(param.v) = n /\ n = 1
             THEN (IF param.k = "str" THEN single
                   ELSE IF IsIterable(param.v[1]) THEN ANY
                   ELSE LET a == single  b == SplFromRaw(param.v, conv, keep, ret)
                        IN  IF a = ANY \/ b = ANY THEN ANY ELSE a \cup b)
           ELSE IF Len(param.v) = n
             THEN (IF param.k = "list" /\ \E i \in 1..n : IsIterable(param.v[i]) THEN ANY
                   ELSE SplFromRaw(SeqItems(param), conv, keep, ret))
           ELSE IF param.k = "str" THEN single                          \* '10' with length 3 -> ['10', '10', '10']
           ELSE ANY                                                     \* an iterable as a single parameter

(* ============================ data types =============================== *)
(* abstract dtype: base name and shape (<<>> for a scalar dtype)           *)
IntBases == {"int8", "int16", "int32", "int64", "uint8", "uint16", "uint32", "uint64"}
FloatBases == {"float16", "float32", "float64", "float128"}
ComplexBases == {"complex64", "complex128", "complex256"}
OtherBases == {"bytes", "str", "object"}
VagueBases == {"bool", "datetime64", "timedelta64"}          \* neither clearly numeric nor clearly not: no demand
AllBases == IntBases \cup FloatBases \cup ComplexBases \cup OtherBases \cup VagueBases
RealOf(b) == CASE b = "complex64" -> "float32" [] b = "complex128" -> "float64" [] b = "complex256" -> "float128"
ComplexOf(b) == CASE b = "float32" -> "complex64" [] b = "float64" -> "complex128" [] b = "float128" -> "complex256"
VDt(b, shp) == [k |-> "dtype", v |-> <<b, shp>>]
VBool(t) == VB(IF t THEN 1 ELSE 0)
\* default: VNone or a marker value that is returned as is
NoCounterpart(dflt) == IF dflt.k = "none" THEN {Err("ValueError")} ELSE {Ok(dflt)}
DtypeAllowed(fn, b, shp, dflt) ==
  CASE fn = "is_numeric_dtype" ->
         IF b \in VagueBases THEN ANY ELSE {Ok(VBool(b \in IntBases \cup FloatBases \cup ComplexBases))}
    [] fn = "is_int_dtype" -> IF b \in VagueBases THEN ANY ELSE {Ok(VBool(b \in IntBases))}
    [] fn = "is_floating_dtype" -> {Ok(VBool(b \in FloatBases \cup ComplexBases))}
    [] fn = "is_real_dtype" -> IF b \in VagueBases THEN ANY ELSE {Ok(VBool(b \in IntBases \cup FloatBases))}
    [] fn = "is_real_floating_dtype" -> {Ok(VBool(b \in FloatBases))}
    [] fn = "is_complex_floating_dtype" -> {Ok(VBool(b \in ComplexBases))}
    [] fn = "real_dtype" ->
         IF b \in FloatBases THEN {Ok(VDt(b, shp))}
         ELSE IF b \in ComplexBases THEN {Ok(VDt(RealOf(b), shp))}
         ELSE IF b \in OtherBases THEN NoCounterpart(dflt)
         ELSE NoCounterpart(dflt) \cup {Ok(VDt(b, shp))}        \* integers / bool: "real" already, or no counterpart
    [] fn = "complex_dtype" ->
         IF b \in ComplexBases THEN {Ok(VDt(b, shp))}
         ELSE IF b \in FloatBases \ {"float16"} THEN {Ok(VDt(ComplexOf(b), shp))}
         ELSE IF b \in OtherBases THEN NoCounterpart(dflt)
         ELSE ANY                                               \* float16, integers, bool: not documented
    [] fn = "dtype_str" ->
         IF shp # <<>> \/ b \in OtherBases \cup VagueBases THEN ANY
         ELSE {Ok(VTx(CASE b = "int64" -> "int" [] b = "float64" -> "float" [] b = "complex128" -> "complex"
                        [] OTHER -> b))}
    [] fn = "dtype_repr" ->
         IF shp # <<>> \/ b \in OtherBases \cup VagueBases THEN ANY
         ELSE {Ok(VTx("'" \o (CASE b = "int64" -> "int" [] b = "float64" -> "float" [] b = "complex128" -> "complex"
                               [] OTHER -> b) \o "'"))}

(* ============================== unique ================================= *)
(* "Return the unique values in a sequence ... Order is guaranteed to be   *)
(* the same as in seq ... also works with unhashable types".               *)
(* Python equality: numbers compare by value across int / float / bool.    *)
RECURSIVE PyEq(_, _)
PyEq(x, y) ==
  IF IsNum(x) /\ IsNum(y) THEN NumOf(x) = NumOf(y)
  ELSE IF x.k # y.k THEN FALSE
  ELSE IF x.k \in {"list", "tuple"} THEN Len(x.v) = Len(y.v) /\ \A i \in 1..Len(x.v) : PyEq(x.v[i], y.v[i])
  ELSE x = y
RECURSIVE UniqueRef(_, _)
UniqueRef(s, acc) ==
  IF s = <<>> THEN acc
  ELSE IF \E i \in 1..Len(acc) : PyEq(acc[i], Head(s)) THEN UniqueRef(Tail(s), acc)
  ELSE UniqueRef(Tail(s), Append(acc, Head(s)))
UniqueAllowed(sq) == IF sq.k \in {"list", "str"} THEN {Ok(VL(UniqueRef(SeqItems(sq), <<>>)))} ELSE ANY
\* results of unique are compared with Python equality (unique([1, 1.0]) may keep either spelling of the same number)
MatchesUnique(obs, allowed) ==
  \/ allowed = ANY
  \/ obs.k = "ok" /\ \E a \in allowed : a.k = "ok" /\ obs.v.k = "list" /\ PyEq(obs.v, a.v)

(* ========================= indent / dedent ============================= *)
(* A text is a sequence of lines, a line a sequence of characters.         *)
(* indent: "Return a copy of string indented by indent_str ... String to   *)
(* be inserted before each new line".  dedent: "Revert the effect of       *)
(* indentation" - the examples fix: the COMMON number of leading           *)
(* indent_str copies (at most max_levels) is removed from every line.      *)
IndentRef(lines, ind) == [i \in 1..Len(lines) |-> ind \o lines[i]]
StartsWith(line, ind) == Len(line) >= Len(ind) /\ SubSeq(line, 1, Len(ind)) = ind
RECURSIVE Levels(_, _)
Levels(line, ind) == IF StartsWith(line, ind) THEN 1 + Levels(SubSeq(line, Len(ind) + 1, Len(line)), ind) ELSE 0
RECURSIVE MinOf(_)
MinOf(s) == IF Len(s) = 1 THEN s[1] ELSE Min2(s[1], MinOf(Tail(s)))
DedentRef(lines, ind, maxlv) ==
  LET lv0 == MinOf([i \in 1..Len(lines) |-> Levels(lines[i], ind)])
      lv  == IF maxlv = NONE THEN lv0 ELSE Min2(lv0, maxlv)
  IN  [i \in 1..Len(lines) |-> SubSeq(lines[i], lv * Len(ind) + 1, Len(lines[i]))]
\* texts the examples speak about: no line consists of indentation only (there the documentation is silent)
PlainText(lines, ind) ==
  /\ Len(lines) >= 1 /\ Len(ind) >= 1
  /\ \A i \in 1..Len(lines) : LET l == lines[i] IN
        SubSeq(l, Levels(l, ind) * Len(ind) + 1, Len(l)) # <<>>

(* ============================= array_str =============================== *)
(* "nprint: Maximum number of elements to print per axis in a.  For larger *)
(* arrays, a summary is printed, with nprint // 2 elements on each side    *)
(* and ... in the middle (per axis)."  Integer arrays of one or two axes;  *)
(* the result is compared as a nested token list, -1 standing for "...".   *)
DOTS == -1
\* acceptable renderings of one axis: "Maximum number of elements to print per axis. For larger arrays, a summary is
\* printed, with nprint // 2 elements on each side and ... in the middle (per axis)".  An axis of a larger array whose
\* length is above 2 * (nprint // 2) but not above nprint (odd nprint) may be printed fully or summarised.
SummOpts(s, nprint, larger) ==
  LET e == nprint \div 2
      summ == SubSeq(s, 1, e) \o <<DOTS>> \o SubSeq(s, Len(s) - e + 1, Len(s))
  IN  IF ~larger \/ Len(s) <= 2 * e THEN {s} ELSE IF Len(s) <= nprint THEN {s, summ} ELSE {summ}
ArrayStr1Set(row, nprint) == SummOpts(row, nprint, Len(row) > nprint)
ArrayStr2Set(rows, nprint) ==
  LET r == Len(rows)
      c == Len(rows[1])
      larger == r > nprint \/ c > nprint
      e == nprint \div 2
      modes == IF ~larger \/ c <= 2 * e THEN {"full"} ELSE IF c <= nprint THEN {"full", "summ"} ELSE {"summ"}
      Row(i, md) == IF md = "full" THEN rows[i] ELSE SubSeq(rows[i], 1, e) \o <<DOTS>> \o SubSeq(rows[i], c - e + 1, c)
  IN  {[t \in 1..Len(p) |-> IF p[t] = DOTS THEN <<DOTS>> ELSE Row(p[t], md)] :
         p \in SummOpts([i \in 1..r |-> i], nprint, larger), md \in modes}

(* =========================== apply_on_boundary ========================= *)
(* array: shape + row-major flat values (integers); func per axis a pair   *)
(* <<left, right>> of tokens "x2" "x3" "p1" "none"; which per axis a pair  *)
(* of 0/1; order a permutation of the axes (1-based).                      *)
(* only_once: "ensure that each boundary point appears in exactly one      *)
(* slice ... first-come, first-served" in the order given by axis_order;   *)
(* a sequence of functions "is applied per axis separately"; None entries  *)
(* and which_boundaries = False skip the axis (side).                      *)
ApplyTok(f, x) == CASE f = "x2" -> 2 * x [] f = "x3" -> 3 * x [] f = "p1" -> x + 1 [] f = "m1" -> x - 1
Coord(p, shape, ax) == (p \div Prod(shape, ax + 1)) % shape[ax]         \* p: 0-based flat offset
AobSide(st, shape, ax, side, f, on, once) ==
  \* st = [vals, done]; side 1 = left, 2 = right
  IF on = 0 \/ f = "none" THEN st
  ELSE LET pos == IF side = 1 THEN 0 ELSE shape[ax] - 1
           pts == {p \in 0..(Len(st.vals) - 1) : Coord(p, shape, ax) = pos /\ (once = 0 \/ p \notin st.done)}
       IN  [vals |-> [t \in 1..Len(st.vals) |-> IF (t - 1) \in pts THEN ApplyTok(f, st.vals[t]) ELSE st.vals[t]],
            done |-> st.done \cup pts]
RECURSIVE AobFold(_, _, _, _, _, _, _)
AobFold(st, shape, funcs, which, order, once, t) ==
  IF t > Len(order) THEN st
  ELSE LET ax == order[t]
           s1 == AobSide(st, shape, ax, 1, funcs[ax][1], which[ax][1], once)
           s2 == AobSide(s1, shape, ax, 2, funcs[ax][2], which[ax][2], once)
       IN  AobFold(s2, shape, funcs, which, order, once, t + 1)
AobRef(shape, vals, funcs, which, order, once) ==
  AobFold([vals |-> vals, done |-> {}], shape, funcs, which, order, once, 1).vals
IsPerm(order, nd) == Len(order) = nd /\ {order[i] : i \in 1..Len(order)} = 1..nd
\* lengths: "It must have length array.ndim" (func sequence), "The length of the sequence must be array.ndim"
\* (which_boundaries), "Permutation of range(array.ndim)" (axis_order)
\* Which entry of a func / which_boundaries SEQUENCE belongs to which axis when axis_order is not the identity is
\* ambiguous: "applied per axis separately" (entry a <-> axis a) - but the repository's own unit test
\* test_apply_on_boundary_axis_order_2d pairs entry t with the t-th PROCESSED axis.  Both pairings are accepted
\* (the same one for func and which_boundaries).
ByPosition(x, order) == [ax \in 1..Len(order) |-> x[CHOOSE t \in 1..Len(order) : order[t] = ax]]
AobAllowed(shape, vals, funcs, which, order, once) ==
  LET nd == Len(shape)
      Res(v) == Ok(VL([t \in 1..Len(vals) |-> VI(v[t])])) IN
  IF Len(funcs) # nd \/ Len(which) # nd \/ Len(order) # nd THEN {Err("*")}
  ELSE IF ~IsPerm(order, nd) THEN ANY
  ELSE {Res(AobRef(shape, vals, funcs, which, order, once)),
        Res(AobRef(shape, vals, ByPosition(funcs, order), ByPosition(which, order), order, once))}

(* ========================= fast_1d_tensor_mult ========================= *)
(* "multiplication of an n-dimensional array with an outer product of      *)
(* one-dimensional arrays"; axes: "None corresponds to the last            *)
(* len(onedim_arrs) axes, in ascending order"; "The sequence may not be    *)
(* longer than ndarr.ndim".                                                *)
RECURSIVE ProdOver(_, _, _, _, _)
ProdOver(p, shape, vecs, axes, t) ==
  IF t > Len(vecs) THEN 1 ELSE vecs[t][Coord(p, shape, axes[t]) + 1] * ProdOver(p, shape, vecs, axes, t + 1)
F1dAllowed(shape, vals, vecs, axes0) ==          \* axes0: <<NONE>> for None, else a sequence of (possibly negative) 0-based axes
  LET nd == Len(shape)
      given == axes0 # <<NONE>>
      ax0 == IF given THEN axes0 ELSE [t \in 1..Len(vecs) |-> nd - Len(vecs) + t - 1]
      axn == [t \in 1..Len(ax0) |-> IF ax0[t] < 0 THEN ax0[t] + nd ELSE ax0[t]]
  IN  IF Len(vecs) = 0 \/ Len(vecs) > nd \/ Len(ax0) # Len(vecs) THEN {Err("*")}
      ELSE IF \E t \in 1..Len(axn) : axn[t] < 0 \/ axn[t] >= nd THEN {Err("*")}
      ELSE IF HasDup(axn) \/ (\E t \in 1..Len(vecs) : Len(vecs[t]) # shape[axn[t] + 1]) THEN ANY
      ELSE {Ok(VL([t \in 1..Len(vals) |->
                     VI(vals[t] * ProdOver(t - 1, shape, vecs, [u \in 1..Len(axn) |-> axn[u] + 1], 1))]))}

(* =========================== signature_string ========================== *)
(* posargs "always included", joined by pos_sep; optargs: "Only those      *)
(* parameters that are different from the given default are included as    *)
(* name=value keyword pairs", joined by opt_sep; part_sep joins the two    *)
(* joined strings; "A provided single string is used for all joining       *)
(* operations"; empty parts are omitted (Examples).  Arguments are given   *)
(* by their repr (default mod '!r'): integers, strings, None.              *)
RECURSIVE JoinStr(_, _)
JoinStr(ss, sep) == IF ss = <<>> THEN "" ELSE IF Len(ss) = 1 THEN ss[1] ELSE ss[1] \o sep \o JoinStr(Tail(ss), sep)
SigStrRef(pos, opt, sep) ==
  LET ps == sep[1]
      os == IF Len(sep) = 1 THEN sep[1] ELSE sep[2]
      qs == IF Len(sep) = 1 THEN sep[1] ELSE sep[3]
      shown == SelectSeq(opt, LAMBDA o : o[2] # o[3])
      ostr  == [i \in 1..Len(shown) |-> shown[i][1] \o "=" \o shown[i][2]]
      parts == (IF pos # <<>> THEN <<JoinStr(pos, ps)>> ELSE <<>>) \o (IF shown # <<>> THEN <<JoinStr(ostr, os)>> ELSE <<>>)
  IN  JoinStr(parts, qs)

(* ============== the branch of the documentation that applies =========== *)
(* family name of a case: used in verdict signatures only                  *)
IdxCell(ind, shape, i2s) ==
  LET items == IdxItems(ind)  nd == Len(shape)
      sfx == IF i2s = 1 THEN "/int-to-slice" ELSE "" IN
  IF ~IdxDocumented(items) \/ CountEll(items) > 1 THEN "undocumented"
  ELSE IF Len(items) - CountEll(items) > nd THEN "too-many-indices"
  ELSE LET ex == IdxExpand(items, nd) IN
       IF \E ax \in 1..nd : ex[ax].k = "int" /\ ex[ax].v < -shape[ax] THEN "int-below-range" \o sfx
       ELSE IF \E ax \in 1..nd : ex[ax].k = "int" /\ ex[ax].v >= shape[ax] THEN "int-above-range" \o sfx
       ELSE IF \E ax \in 1..nd : ex[ax].k = "slice" /\ (SliceIdx(ex[ax].v, shape[ax]) = <<>> \/ ex[ax].v[1] = shape[ax])
         THEN "empty-or-end-slice"
       ELSE (IF CountEll(items) = 1 THEN "ellipsis" ELSE IF ind.k = "list" THEN "sequence" ELSE "single") \o sfx
Cell(fn, a) ==
  CASE fn = "axes" ->
         IF AxesAllowed(a.axes, a.ndim) = ANY THEN "undocumented"
         ELSE LET s == IF a.axes.k = "int" THEN <<a.axes.v>> ELSE [i \in 1..Len(a.axes.v) |-> a.axes.v[i].v]  nd == a.ndim.v IN
              IF nd <= 0 THEN "ndim-not-positive"
              ELSE IF \E i \in 1..Len(s) : s[i] < -nd \/ s[i] > nd - 1 THEN "out-of-range"
              ELSE IF HasDup(s) THEN "duplicate"
              ELSE IF HasDup([i \in 1..Len(s) |-> AxN(s[i], nd)]) THEN "duplicate-after-conversion"
              ELSE IF a.axes.k = "int" THEN "single" ELSE "sequence"
    [] fn = "index" -> IdxCell(a.ind, a.shape, a.i2s)
    [] fn = "nob" ->
         IF NobAllowed(a.nob, a.length) = ANY THEN "undocumented"
         ELSE IF a.nob.k = "bool" THEN "global"
         ELSE IF Len(a.nob.v) = a.length.v
           THEN (IF \A i \in 1..Len(a.nob.v) : NobItemValid(a.nob.v[i]) THEN "per-axis" ELSE "entry-length")
         ELSE IF a.length.v = 1 /\ Len(a.nob.v) = 2 /\ IsBoolish(a.nob.v[1]) /\ IsBoolish(a.nob.v[2]) THEN "flat-one-axis"
         ELSE "wrong-length"
    [] fn = "spl" ->
         IF a.length.k # "int" THEN "undocumented"
         ELSE IF a.length.v < 0 THEN "negative-length"
         ELSE IF SplAllowed(a.param, a.length, a.conv, a.keep, a.ret) = ANY THEN "undocumented"
         ELSE (IF ~IsPySeq(a.param) THEN "single"
               ELSE IF Len(a.param.v) = a.length.v /\ a.length.v = 1 THEN "one-entry"
               ELSE IF Len(a.param.v) = a.length.v THEN (IF a.param.k = "str" THEN "string-as-sequence" ELSE "sequence")
               ELSE "string-single")
              \o (IF a.conv = "none" THEN "" ELSE "/conv") \o (IF a.ret = 1 THEN "/nonconv" ELSE "")
    [] fn = "sic" -> a.x.k
    [] fn = "dtype" -> a.f
    [] fn = "aob" ->
         IF Len(a.funcs) # Len(a.shape) \/ Len(a.which) # Len(a.shape) \/ Len(a.order) # Len(a.shape) THEN "wrong-length"
         ELSE (IF a.once = 1 THEN "once" ELSE "repeated")
              \o (IF \E ax \in 1..Len(a.shape) : a.shape[ax] = 1 THEN "/size-1-axis" ELSE "")
              \o (IF a.order # [i \in 1..Len(a.order) |-> i] THEN "/reordered" ELSE "")
    [] fn = "f1d" -> IF \E o \in F1dAllowed(a.shape, a.vals, a.vecs, a.axes) : o.k = "ok" THEN "product" ELSE "rejected"
    [] OTHER -> fn

(* =============================== dispatcher ============================ *)
(* a case is [fn, a] with a record of arguments that depends on fn         *)
Allowed(fn, a) ==
  CASE fn = "axes"  -> AxesAllowed(a.axes, a.ndim)
    [] fn = "index" -> IndexAllowed(a.ind, a.shape, a.i2s)
    [] fn = "nob"   -> NobAllowed(a.nob, a.length)
    [] fn = "spl"   -> SplAllowed(a.param, a.length, a.conv, a.keep, a.ret)
    [] fn = "sic"   -> SafeIntAllowed(a.x)
    [] fn = "dtype" -> DtypeAllowed(a.f, a.base, a.shape, a.dflt)
    [] fn = "unique" -> UniqueAllowed(a.seq)
    [] fn = "indent" -> IF Len(a.lines) >= 1 /\ a.lines[Len(a.lines)] # <<>>            \* a trailing newline: silent
                          THEN {Ok(VL([i \in 1..Len(a.lines) |-> VS(IndentRef(a.lines, a.ind)[i])]))}
                          ELSE ANY
    [] fn = "dedent" -> IF PlainText(a.lines, a.ind)
                          THEN {Ok(VL([i \in 1..Len(a.lines) |-> VS(DedentRef(a.lines, a.ind, a.maxlv)[i])]))}
                          ELSE ANY
    [] fn = "arrstr1" -> IF a.nprint < 2 THEN ANY
                         ELSE {Ok(VL([i \in 1..Len(r) |-> VI(r[i])])) : r \in ArrayStr1Set(a.row, a.nprint)}
    [] fn = "arrstr2" -> IF a.nprint < 2 THEN ANY
                         ELSE {Ok(VL([i \in 1..Len(r) |-> VL([j \in 1..Len(r[i]) |-> VI(r[i][j])])])) :
                                 r \in ArrayStr2Set(a.rows, a.nprint)}
    [] fn = "aob"   -> AobAllowed(a.shape, a.vals, a.funcs, a.which, a.order, a.once)
    [] fn = "f1d"   -> F1dAllowed(a.shape, a.vals, a.vecs, a.axes)
    \* is_string: "Return True if obj behaves like a string, False else"
    [] fn = "isstr" -> IF a.x.k = "str" THEN {Ok(VB(1))}
                       ELSE IF a.x.k \in {"none", "bool", "int", "float", "list", "ell"} THEN {Ok(VB(0))} ELSE ANY
    [] fn = "sigstr" -> IF Len(a.sep) \in {1, 3} THEN {Ok(VTx(SigStrRef(a.pos, a.opt, a.sep)))} ELSE {Err("*")}
MatchesCase(fn, a, obs) ==
  CASE fn = "index"  -> MatchesIndex(obs, Allowed(fn, a), a.shape)
    [] fn = "unique" -> MatchesUnique(obs, Allowed(fn, a))
    [] OTHER         -> Matches(obs, Allowed(fn, a))
=============================================================================

------------------------------ MODULE SpdhgSem ------------------------------
(***************************************************************************)
(* Layer A (EXT/spdhg): reference semantics of the stochastic primal-dual   *)
(* hybrid gradient family of odl/contrib/solvers/spdhg, written from the    *)
(* docstrings of pdhg / spdhg / pa_spdhg / spdhg_generic / da_spdhg /       *)
(* spdhg_pesquet and the algorithms of the papers they cite ([CERS2017]     *)
(* Algorithms 1-3, [CP2011a] Algorithm 1 with the roles of the variables    *)
(* exchanged, [PR2015]).  Exact arithmetic on rationals <<n, d>>.           *)
(*                                                                         *)
(* Saddle problem  min_x max_y  sum_i <y_i, A_i x> - f_i^*(y_i) + g(x)     *)
(*   X = Q^n with inner product wX * <.,.>, Y_i = Q^{m_i} with wY_i * <.,.>*)
(*   A_i x = M_i x ;  A_i^* y = (wY_i / wX) * M_i^T y   (adjoint w.r.t.    *)
(*   the weighted inner products - "z = A^* y" of the docstrings)           *)
(*   f_i in  l2sq  1/2 ||. - b||^2      f^* prox_s(v) = (v - s b)/(1 + s)  *)
(*           box   indicator of [lo,hi] f^* prox_s(v) = v - s clip(v/s)    *)
(*           l1    c ||.||_1            f^* prox_s(v) = clip(v, -c, c)     *)
(*   g   in  l2sq  mu/2 ||.||^2         prox_t(v) = v / (1 + mu t)         *)
(*           box   indicator of [lo,hi] prox_t(v) = clip(v, lo, hi)        *)
(*           zero                       prox_t(v) = v                      *)
(*   (all of them independent of the constant weights: the weight cancels  *)
(*   in the prox of a functional defined with the space's own norm).       *)
(*                                                                         *)
(* SPDHG step ([CERS2017] Alg. 1; registers x, y, z = A^* y, zr = zbar):   *)
(*   x+    = prox_{tau g}(x - tau zr)                                      *)
(*   y_i+  = prox_{sigma_i f_i^*}(y_i + sigma_i A_i x+)   for i in S       *)
(*   y_i+  = y_i                                          for i not in S   *)
(*   dz_i  = A_i^*(y_i+ - y_i)                                             *)
(*   z+    = z + sum_{i in S} dz_i                                         *)
(*   zr+   = z+ + sum_{i in S} theta * extra_i * dz_i                      *)
(* with extra_i = 1 (spdhg_generic default) or 1/p_i (spdhg, pa_, da_).    *)
(***************************************************************************)
EXTENDS ExactNum, Sequences, FiniteSets

\* ---------------------------------------------------------------- vectors
\* addition over the least common denominator (ExactNum!QAdd multiplies the denominators first: 32-bit overflow on
\* dyadics that are perfectly small)
QAddL(p, q)   == LET g == Gcd(p[2], q[2]) IN QNorm(p[1] * (q[2] \div g) + q[1] * (p[2] \div g), (p[2] \div g) * q[2])
QSubL(p, q)   == QAddL(p, QNeg(q))
VZero(n)      == [j \in 1..n |-> QZero]
VAdd(u, v)    == [j \in 1..Len(u) |-> QAddL(u[j], v[j])]
VSub(u, v)    == [j \in 1..Len(u) |-> QSubL(u[j], v[j])]
VScale(q, v)  == [j \in 1..Len(v) |-> QMul(q, v[j])]
VAxpy(q, u, v) == VAdd(VScale(q, u), v)                \* q u + v
QClip(q, lo, hi) == QMax(lo, QMin(q, hi))
VClip(v, lo, hi) == [j \in 1..Len(v) |-> QClip(v[j], lo, hi)]
RECURSIVE QDotFrom(_, _, _)
QDotFrom(u, v, j) == IF j > Len(u) THEN QZero ELSE QAddL(QMul(u[j], v[j]), QDotFrom(u, v, j + 1))
QDot(u, v)    == QDotFrom(u, v, 1)
MatVec(M, x)  == [i \in 1..Len(M) |-> QDot(M[i], x)]
MatTVec(M, y, n) == [j \in 1..n |-> QDot([i \in 1..Len(M) |-> M[i][j]], y)]
RECURSIVE VSumSeq(_, _)
VSumSeq(s, n) == IF s = <<>> THEN VZero(n) ELSE VAdd(Head(s), VSumSeq(Tail(s), n))

\* ---------------------------------------------------------------- problem
\* P = [n, wX, g, blocks] ; block = [M, wY, f] ; f = [k, b, lo, hi, c] ; g = [k, mu, lo, hi]
NB(P)         == Len(P.blocks)
Blocks(P)     == 1..NB(P)
Fwd(P, i, x)  == MatVec(P.blocks[i].M, x)
Adj(P, i, y)  == VScale(QDiv(P.blocks[i].wY, P.wX), MatTVec(P.blocks[i].M, y, P.n))
AdjAll(P, y)  == VSumSeq([i \in 1..NB(P) |-> Adj(P, i, y[i])], P.n)
YZero(P)      == [i \in 1..NB(P) |-> VZero(Len(P.blocks[i].M))]

ProxFConj(f, s, v) ==
  CASE f.k = "l2sq" -> VScale(QInv(QAdd(QOne, s)), VSub(v, VScale(s, f.b)))
    [] f.k = "box"  -> VSub(v, VScale(s, VClip(VScale(QInv(s), v), f.lo, f.hi)))
    [] f.k = "l1"   -> VClip(v, QNeg(f.c), f.c)
ProxG(g, t, v) ==
  CASE g.k = "l2sq" -> VScale(QInv(QAdd(QOne, QMul(g.mu, t))), v)
    [] g.k = "box"  -> VClip(v, g.lo, g.hi)
    [] g.k = "zero" -> v

\* ---------------------------------------------------------------- the steps
\* stands for a real number / vector that is not rational; a tuple of a length no rational (2) and no vector of the
\* instances (n <= 8) has, so that TLC can compare it with them
Irr == <<"irrational", "", "", "", "", "", "", "", "">>
\* r = [x, y, z, zr] ; S a set of block indices ; sigma, extra sequences
DualUpd(P, i, yi, x1, s) == ProxFConj(P.blocks[i].f, s, VAxpy(s, Fwd(P, i, x1), yi))
SpdhgStep(P, r, S, tau, sigma, theta, extra) ==
  LET x1 == ProxG(P.g, tau, VSub(r.x, VScale(tau, r.zr)))
      y1 == [i \in 1..NB(P) |-> IF i \in S THEN DualUpd(P, i, r.y[i], x1, sigma[i]) ELSE r.y[i]]
      dz == [i \in 1..NB(P) |-> IF i \in S THEN Adj(P, i, VSub(y1[i], r.y[i])) ELSE VZero(P.n)]
      z1 == VAdd(r.z, VSumSeq(dz, P.n))
      \* theta = Irr (an accelerated variant whose theta_k is not rational): x+, y+, z+ are still exact, zr+ is not
      zr1 == IF S = {} THEN z1 ELSE IF theta = Irr THEN Irr
             ELSE VAdd(z1, VSumSeq([i \in 1..NB(P) |-> VScale(QMul(theta, extra[i]), dz[i])], P.n))
  IN  [x |-> x1, y |-> y1, z |-> z1, zr |-> zr1]

\* [PR2015] as documented by spdhg_pesquet: primal extrapolation 2 x+ - x, no zr register (zr is kept equal to z)
PesquetStep(P, r, S, tau, sigma) ==
  LET x1 == ProxG(P.g, tau, VSub(r.x, VScale(tau, r.z)))
      xr == VSub(VScale(QI(2), x1), r.x)
      y1 == [i \in 1..NB(P) |-> IF i \in S THEN DualUpd(P, i, r.y[i], xr, sigma[i]) ELSE r.y[i]]
      dz == [i \in 1..NB(P) |-> IF i \in S THEN Adj(P, i, VSub(y1[i], r.y[i])) ELSE VZero(P.n)]
      z1 == VAdd(r.z, VSumSeq(dz, P.n))
  IN  [x |-> x1, y |-> y1, z |-> z1, zr |-> z1]

\* "algorithm 1 in [CP2011a] but with extrapolation on the dual variable" (docstring of pdhg), written DIRECTLY on
\* (x, y, ybar) for one block, without the z bookkeeping:   d = [x, y, yb]
PdhgDirect(P, d, tau, sigma, theta) ==
  LET x1 == ProxG(P.g, tau, VSub(d.x, VScale(tau, Adj(P, 1, d.yb))))
      y1 == DualUpd(P, 1, d.y, x1, sigma)
  IN  [x |-> x1, y |-> y1, yb |-> VAdd(y1, VScale(theta, VSub(y1, d.y)))]

\* ---------------------------------------------------------------- acceleration ([CERS2017] Alg. 3 / Alg. 2)
ThetaOf(a) ==                                   \* (1 + 2 a)^(-1/2) where rational
  LET q == QAdd(QOne, QMul(QI(2), a)) IN IF QIsSquare(q) THEN QInv(QSqrt(q)) ELSE Irr
\* pa_spdhg: theta_k = (1 + 2 mu_g tau_k)^(-1/2) is used in iteration k, then sigma_i /= theta_k, tau *= theta_k
PaTheta(mug, tau) == ThetaOf(QMul(mug, tau))
\* da_spdhg: theta_k = (1 + 2 st_k)^(-1/2), sigma_i = st_k / (mu_i (p_i - 2 (1 - p_i) st_k)), then st *= theta, tau /= theta
DaTheta(st) == ThetaOf(st)
\* relational form for observed (quantised) numbers, slack 1/50:  theta^2 (1 + 2 mu_g tau) = 1
PaThetaRel(th, mug, tau) ==
  QLe(QAbs(QSubL(QMul(QMul(th, th), QAddL(QOne, QMul(QMul(QI(2), mug), tau))), QOne)), Q(1, 50))
DaSigma(st, mui, pi) == QDiv(st, QMul(mui, QSub(pi, QMul(QMul(QI(2), QSub(QOne, pi)), st))))

\* ---------------------------------------------------------------- saddle points (optimality conditions, step-size free)
\*   -A^* y in dg(x)   and   y_i in df_i(A_i x)
InNormalCone(v, x, lo, hi) ==            \* v in N_[lo,hi](x) componentwise
  \A j \in 1..Len(x) : /\ QLe(lo, x[j]) /\ QLe(x[j], hi)
                       /\ (QLt(lo, x[j]) /\ QLt(x[j], hi) => v[j] = QZero)
                       /\ (x[j] = lo /\ lo # hi => QLe(v[j], QZero))
                       /\ (x[j] = hi /\ lo # hi => QLe(QZero, v[j]))
SaddleG(P, x, z) ==
  LET v == VScale(QI(-1), z) IN
  CASE P.g.k = "l2sq" -> v = VScale(P.g.mu, x)
    [] P.g.k = "zero" -> v = VZero(P.n)
    [] P.g.k = "box"  -> InNormalCone(v, x, P.g.lo, P.g.hi)
SaddleF(f, u, y) ==                      \* y in df(u)
  CASE f.k = "l2sq" -> y = VSub(u, f.b)
    [] f.k = "box"  -> InNormalCone(y, u, f.lo, f.hi)
    [] f.k = "l1"   -> \A j \in 1..Len(u) : /\ QLe(QAbs(y[j]), f.c)
                                            /\ (u[j] # QZero => y[j] = QMul(f.c, QSign(u[j])))
IsSaddle(P, x, y) == /\ SaddleG(P, x, AdjAll(P, y))
                     /\ \A i \in 1..NB(P) : SaddleF(P.blocks[i].f, Fwd(P, i, x), y[i])

\* ================================================================ helpers of odl/contrib/solvers/spdhg/misc.py
\* ---- partition_equally_1d / divide_1Darray_equally (the names and the docstring of divide_1Darray_equally: "Divide an
\* array into equal chunks ... sub2ind: list of indices for each subset, ind2sub: list of subsets for each index")
SelectIdx(arr, I) == LET F[j \in 0..Len(arr)] == IF j = 0 THEN <<>> ELSE IF j \in I THEN Append(F[j - 1], arr[j]) ELSE F[j - 1]
                     IN  F[Len(arr)]
Interlaced(arr, np) == [i \in 1..np |-> SelectIdx(arr, {j \in 1..Len(arr) : (j - 1) % np = i - 1})]
RECURSIVE Concat(_)
Concat(ps) == IF ps = <<>> THEN <<>> ELSE Head(ps) \o Concat(Tail(ps))
\* order = "block": contiguous chunks in order (weak reading: nothing is said about their sizes)
IsBlockPartition(arr, parts, np) == Len(parts) = np /\ Concat(parts) = arr
\* divide_1Darray_equally(ind, nsub) for ind a permutation of 0..n-1:  ind2sub[v] = the subsets that contain index v
Ind2Sub(ind, np) == LET sub == Interlaced(ind, np) IN
  [v \in 1..Len(ind) |-> SelectIdx([i \in 1..np |-> i - 1], {i \in 1..np : \E j \in 1..Len(sub[i]) : sub[i][j] = v - 1})]

\* ---- KullbackLeiblerSmooth / KullbackLeiblerSmoothConvexConj (class docstrings; y data, r > 0 background, per component)
\* Values are rational only where the logarithm's argument is 1 (or its factor y is 0): elsewhere Irr (not judged exactly).
KLVal1(x, y, r) ==
  IF QLe(QZero, x)
    THEN (IF y = QZero THEN QAddL(x, r) ELSE IF y = QAddL(x, r) THEN QZero ELSE Irr)
    ELSE (IF y = QZero \/ y = r
            THEN QAddL(QAddL(QMul(QDiv(y, QMul(QI(2), QMul(r, r))), QMul(x, x)), QMul(QSubL(QOne, QDiv(y, r)), x)), QSubL(r, y))
            ELSE Irr)
KLGrad1(x, y, r) == IF QLe(QZero, x) THEN QSubL(QOne, QDiv(y, QAddL(x, r)))
                    ELSE QAddL(QMul(QDiv(y, QMul(r, r)), x), QSubL(QOne, QDiv(y, r)))
\* y > 0 (the code marks y = 0 as not covered)
KLConjVal1(p, y, r) ==
  IF QLe(QOne, p) THEN Inf
  ELSE IF QLt(p, QSubL(QOne, QDiv(y, r)))
    THEN (IF y = r THEN LET ry == QDiv(QMul(r, r), y) IN
            QAddL(QAddL(QMul(QHalf(ry), QMul(p, p)), QMul(QSubL(r, ry), p)),
                  QAddL(QHalf(ry), QSubL(QMul(Q(3, 2), y), QMul(QI(2), r))))
          ELSE Irr)
    ELSE (IF p = QZero THEN QZero ELSE Irr)
\* derivative of the documented phi^* (both branches are differentiable, the branches meet C^1 at 1 - y/r)
KLConjGrad1(p, y, r) ==
  IF QLt(p, QSubL(QOne, QDiv(y, r))) THEN LET ry == QDiv(QMul(r, r), y) IN QAddL(QMul(ry, p), QSubL(r, ry))
  ELSE QAddL(QNeg(r), QDiv(y, QSubL(QOne, p)))
\* p = prox_{s phi^*}(v)  <=>  p < 1 and (v - p) / s = (phi^*)'(p)     (phi^* is strictly convex and smooth on p < 1)
IsKLConjProx1(p, v, s, y, r) == QLt(p, QOne) /\ QDiv(QSubL(v, p), s) = KLConjGrad1(p, y, r)
SumOrIrr(vals) == IF \E j \in 1..Len(vals) : vals[j] = Irr THEN Irr
                  ELSE IF \E j \in 1..Len(vals) : vals[j] = Inf THEN Inf
                  ELSE LET F[j \in 0..Len(vals)] == IF j = 0 THEN QZero ELSE QAddL(F[j - 1], vals[j]) IN F[Len(vals)]

\* ---- bregman(f, v, subgrad): the Bregman distance  D(x) = f(x) - f(v) - <subgrad, x - v>   (w: constant weight of the space)
BregF(fk, w, x) == IF fk = "l2sq" THEN QMul(w, QDot(x, x)) ELSE QMul(w, SumOrIrr([j \in 1..Len(x) |-> QAbs(x[j])]))
BregVal(fk, w, x, v, p) == QSubL(QSubL(BregF(fk, w, x), BregF(fk, w, v)), QMul(w, QDot(p, VSub(x, v))))

\* ---- total_variation(domain) ("Total variation functional", default gradient: forward differences, Neumann boundary)
\* and TotalVariationNonNegative: alpha |grad x|_1 + char_fun(x >= 0) + beta/2 |x|_2^2.   img: rows of a rows x cols image,
\* cell sides hx (between rows), hy (between columns); |grad x|_1 = cell volume * sum of the pointwise Euclidean norms.
GradNorm(img, i, j, hx, hy) ==
  LET dx == IF i < Len(img) THEN QDiv(QSubL(img[i + 1][j], img[i][j]), hx) ELSE QZero
      dy == IF j < Len(img[i]) THEN QDiv(QSubL(img[i][j + 1], img[i][j]), hy) ELSE QZero
      q == QAddL(QMul(dx, dx), QMul(dy, dy))
  IN  IF QIsSquare(q) THEN QSqrt(q) ELSE Irr
Flat(img) == Concat(img)
TVVal(img, hx, hy) ==
  LET s == SumOrIrr(Concat([i \in 1..Len(img) |-> [j \in 1..Len(img[i]) |-> GradNorm(img, i, j, hx, hy)]]))
  IN  IF s = Irr THEN Irr ELSE QMul(QMul(hx, hy), s)
TVNNVal(img, hx, hy, alpha, beta) ==
  IF \E j \in 1..Len(Flat(img)) : QLt(Flat(img)[j], QZero) THEN Inf
  ELSE LET tv == TVVal(img, hx, hy) IN
       IF tv = Irr THEN Irr
       ELSE QAddL(QMul(alpha, tv), QMul(QHalf(beta), QMul(QMul(hx, hy), QDot(Flat(img), Flat(img)))))
=============================================================================

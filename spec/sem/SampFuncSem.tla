---------------------------- MODULE SampFuncSem ----------------------------
(***************************************************************************)
(* Layer A (EXT/sampfunc): what "sample f on these points" means, and what *)
(* the uniform_discr* factories build - written from the DOCUMENTATION     *)
(* (docstrings of sampling_function, its wrapper dual_use_func,            *)
(* point_collocation, DiscretizedSpace.element, uniform_discr*,            *)
(* uniform_partition and doc/source/guide/vectorization_guide.rst), not    *)
(* from the code.  Exact arithmetic on rationals.                          *)
(*                                                                         *)
(*  F    == [nd, vs, comps]   a function R^nd -> R^vs, one polynomial per  *)
(*          component (row-major over the value shape vs)                  *)
(*  Poly == [c, a, m]         x |-> c + SUM a[i]*x[i] + m * x[1] * x[nd]    *)
(*          (integer coefficients; exact on dyadic coordinates)            *)
(*  inp  == [form, cv, pts]   "mesh": coordinate vectors cv (one per axis),*)
(*          "arr": point array pts (documented shape (nd, N)),             *)
(*          "pt" : one point of the domain                                 *)
(*                                                                         *)
(* The meaning is SPELLING-FREE and HISTORY-FREE: nothing below mentions   *)
(* how the callable is written (returns a scalar per point / a             *)
(* broadcastable array / writes into out / ignores variables / is a nested *)
(* sequence of component callables and constants), nor what was called     *)
(* before.  "It is possible to return results that require broadcasting",  *)
(* "If a function does not use all components of the input, ODL tries to   *)
(* broadcast the result to the shape of the discretized space", "They can  *)
(* be given either as a single function returning an array-like of         *)
(* results, or as an array-like of member functions", "constants are       *)
(* allowed".                                                               *)
(***************************************************************************)
EXTENDS PartSem

RECURSIVE ProdSeq(_)
ProdSeq(s) == IF s = <<>> THEN 1 ELSE Head(s) * ProdSeq(Tail(s))
\* 0-based multi-index of the 0-based flat C-order index t in an array of shape sh, and back
Unravel(t, sh) == [i \in 1..Len(sh) |-> (t \div ProdSeq(SubSeq(sh, i + 1, Len(sh)))) % sh[i]]
RECURSIVE RavelFrom(_, _, _)
RavelFrom(idx, sh, i) == IF i > Len(sh) THEN 0 ELSE idx[i] * ProdSeq(SubSeq(sh, i + 1, Len(sh))) + RavelFrom(idx, sh, i + 1)
Ravel(idx, sh) == RavelFrom(idx, sh, 1)

(* ------------------------------ functions -------------------------------- *)
EvalP(P, x) ==
  LET nd == Len(x)
      RECURSIVE Lin(_)
      Lin(i) == IF i > nd THEN QZero ELSE QAdd(QMul(QI(P.a[i]), x[i]), Lin(i + 1))
  IN  QAdd(QAdd(QI(P.c), Lin(1)), QMul(QI(P.m), QMul(x[1], x[nd])))
Uses(P, i) == P.a[i] # 0 \/ (P.m # 0 /\ i \in {1, Len(P.a)})
UsedVars(P) == { i \in 1..Len(P.a) : Uses(P, i) }
NComp(F) == ProdSeq(F.vs)
\* f(x, c=0) = f(x) + c on every component: "Additional arguments that are passed on to func"
Shift(F, kw) == [F EXCEPT !.comps = [k \in 1..Len(F.comps) |-> [F.comps[k] EXCEPT !.c = @ + kw]]]

(* ------------------------------- inputs ---------------------------------- *)
SShape(inp) ==
  CASE inp.form = "mesh" -> [i \in 1..Len(inp.cv) |-> Len(inp.cv[i])]
    [] inp.form = "arr"  -> <<Len(inp.pts)>>
    [] OTHER             -> <<>>
\* the points in the order of the entries of the result ("as if an implicit loop around the call would iterate over all
\* points"): mesh = C order of the tensor grid
Points(inp) ==
  IF inp.form = "mesh"
    THEN LET sh == SShape(inp)
         IN  [t \in 1..ProdSeq(sh) |-> LET ix == Unravel(t - 1, sh) IN [i \in 1..Len(sh) |-> inp.cv[i][ix[i] + 1]]]
    ELSE inp.pts
InDom(dom, p) == \A i \in 1..Len(p) : QLe(dom.lo[i], p[i]) /\ QLe(p[i], dom.hi[i])
AllInDom(dom, inp) == \A t \in 1..Len(Points(inp)) : InDom(dom, Points(inp)[t])

(* ------------------------------ sampling --------------------------------- *)
\* element[value index k, point index] = f_k(point): shape = value shape + shape of the input
Sample(F, inp) ==
  LET P == Points(inp)  np == Len(P)
  IN  [sh |-> F.vs \o SShape(inp),
       v  |-> [t \in 1..(NComp(F) * np) |-> EvalP(F.comps[((t - 1) \div np) + 1], P[((t - 1) % np) + 1])]]

Ok(arr) == [k |-> "ok", err |-> "", sh |-> arr.sh, v |-> arr.v]
Err(c)  == [k |-> "err", err |-> c, sh |-> <<>>, v |-> <<>>]

(* One call of the wrapper returned by sampling_function(f, domain, out_dtype) (also through point_collocation):       *)
(*   call == [F, dom, inp, bc, out, xbad, dt, kw]                                                                       *)
(*   bc   : bounds_check  "dflt" (not passed: True) | "on" | "off"                                                     *)
(*   out  : "none" | "ok" (numpy array of shape out_dtype.shape + shape of x and the scalar type, C-contiguous) |        *)
(*          "nc" (the same, Fortran-ordered or a strided view: the documentation asks for no memory layout) |            *)
(*          "badshape" | "baddtype" | "notarray"                                                                        *)
(*   xbad : "" | a kind of x that is neither a point of the domain, nor an (nd, N) array, nor a length-nd meshgrid      *)
(* Raises (docstring): TypeError if x is not a valid vectorized evaluation argument; TypeError if out is neither None   *)
(* nor a numpy.ndarray of adequate shape and data type; ValueError if bounds_check and some points fall outside.       *)
(* The code raises ValueError for an array of inadequate shape / type: only "is rejected" is demanded there ("reject"). *)
Documented(c) ==
  IF c.xbad # "" THEN Err("TypeError")
  ELSE IF c.out = "notarray" THEN Err("TypeError")
  ELSE IF c.out \in {"badshape", "baddtype"} THEN Err("reject")
  ELSE IF c.bc # "off" /\ ~AllInDom(c.dom, c.inp) THEN Err("ValueError")
  ELSE Ok(Sample(Shift(c.F, c.kw), c.inp))
\* scalar type of the result: "Data type of a single output"; None = float for a scalar-valued function / an array-like
ResDType(dt) == IF dt = "none" THEN "f64" ELSE dt
\* an observed error class o satisfies the documented one d
ErrMatches(d, o) == IF d = "reject" THEN o \in {"TypeError", "ValueError"} ELSE o = d

\* sampling_function itself: an array-like of callables must match the shape of a shaped out_dtype
CtorDocumented(seqshape, dtshape) == IF seqshape # dtshape THEN "reject" ELSE "ok"

(* ------------------------------ factories -------------------------------- *)
(* uniform_discr(min_pt, max_pt, shape, nodes_on_bdry) / uniform_discr_fromintv / uniform_discr_frompartition:          *)
(* the partition is uniform_partition(min_pt, max_pt, shape, nodes_on_bdry) (PartSem), the default weighting is the    *)
(* cell volume, the default dtype float64.                                                                               *)
A4(mn, mx, n, h) == [min |-> mn, max |-> mx, n |-> n, h |-> h]
UdAxis(mn, mx, n, L, R) == UniformPartitionAxis(A4(mn, mx, n, NoneQ), L, R)
RECURSIVE QProdSeq(_)
QProdSeq(s) == IF s = <<>> THEN QOne ELSE QMul(Head(s), QProdSeq(Tail(s)))
\* axes == sequence of [min, max, n, L, R]
\* (a one-node axis has the single cell [min, max]: PartSem!CellSide)
CellVolume(axes) == QProdSeq([i \in 1..Len(axes) |-> CellSide(UdAxis(axes[i].min, axes[i].max, axes[i].n, axes[i].L, axes[i].R))])

(* uniform_discr_fromdiscr(discr, min_pt, max_pt, shape, cell_sides, nodes_on_bdry) - Notes section, per axis:          *)
(*   0 arguments : copy                                                                                                  *)
(*   1 argument  : [min,max]_pt -> keep sampling but translate;  shape / cell_sides -> keep domain, change sampling      *)
(*   2 arguments : min_pt + max_pt -> same number of samples;  [min,max]_pt + shape -> the old cell sides ("recompute    *)
(*                 min_pt from old cell_sides and new max_pt and shape");  [min,max]_pt + cell_sides -> the old shape    *)
(*                 ("recompute max_pt using the original shape with the new min_pt and cell_sides");                     *)
(*                 shape + cell_sides -> error                                                                           *)
(*   3+          : uniform_partition decides                                                                             *)
(* "keep sampling" of a translation is read as EITHER the extent and the shape OR the cell side and the shape are kept   *)
(* (the two differ only when nodes_on_bdry of the new space differs from the template's).                                *)
OldSide(o) == SideOf(o.min, o.max, o.n, o.L, o.R)
FdReadings(o, a) ==
  LET gm == ~IsNoneQ(a.min)  gx == ~IsNoneQ(a.max)  gn == a.n # NONE  gh == ~IsNoneQ(a.h)
      k  == NGiven(a)  os == OldSide(o)
  IN  IF k = 0 THEN {A4(o.min, o.max, o.n, NoneQ)}
      ELSE IF k = 1 THEN
        (IF gm THEN {A4(a.min, QAdd(o.max, QSub(a.min, o.min)), o.n, NoneQ), A4(a.min, NoneQ, o.n, os)}
         ELSE IF gx THEN {A4(QAdd(o.min, QSub(a.max, o.max)), a.max, o.n, NoneQ), A4(NoneQ, a.max, o.n, os)}
         ELSE IF gn THEN {A4(o.min, o.max, a.n, NoneQ)}
         ELSE {A4(o.min, o.max, NONE, a.h)})
      ELSE IF k = 2 THEN
        (IF gm /\ gx THEN {A4(a.min, a.max, o.n, NoneQ)}
         ELSE IF gm /\ gn THEN {A4(a.min, NoneQ, a.n, os)}
         ELSE IF gm /\ gh THEN {A4(a.min, NoneQ, o.n, a.h)}
         ELSE IF gx /\ gn THEN {A4(NoneQ, a.max, a.n, os)}
         ELSE IF gx /\ gh THEN {A4(NoneQ, a.max, o.n, a.h)}
         ELSE {})
      ELSE {a}
FdAllowed(o, a, L, R) == { UniformPartitionAxis(r, L, R) : r \in FdReadings(o, a) }
FdMustRaise(o, a, L, R) == \A ax \in FdAllowed(o, a, L, R) : IsErrAxis(ax)
FdMayRaise(o, a, L, R)  == FdAllowed(o, a, L, R) = {} \/ \E ax \in FdAllowed(o, a, L, R) : IsErrAxis(ax)
\* "the missing information is taken from the template space": the value type of the template unless dtype is passed
FdDType(tdt, given) == IF given = "" THEN tdt ELSE given

\* an observed axis [min, max, nodes] equals a documented one
AxisSame(ax, o) == ax.min = o.min /\ ax.max = o.max /\ ax.nodes = o.nodes

(* -------------------------- laws of the reference ------------------------ *)
\* sampling a mesh = sampling the array of its points (C order); a point = an array with that single column
LawMeshIsArray(F, inp) ==
  inp.form = "mesh" => Sample(F, inp).v = Sample(F, [form |-> "arr", cv |-> <<>>, pts |-> Points(inp)]).v
\* a component that does not use variable i takes the same value on points that differ in coordinate i only
LawIgnoredVariable(F, inp) ==
  \A k \in 1..Len(F.comps) : \A s, t \in 1..Len(Points(inp)) :
     (\A i \in UsedVars(F.comps[k]) : Points(inp)[s][i] = Points(inp)[t][i])
        => EvalP(F.comps[k], Points(inp)[s]) = EvalP(F.comps[k], Points(inp)[t])
\* fromdiscr without arguments and with the template's node placement is the template
LawFdCopy(o) == FdAllowed(o, A4(NoneQ, NoneQ, NONE, NoneQ), o.L, o.R) = {UniformAxis(o.min, o.max, o.n, o.L, o.R)}
\* a translation keeps the number of nodes and (same placement) the cell side
LawFdTranslate(o, mn) ==
  \A ax \in FdAllowed(o, A4(mn, NoneQ, NONE, NoneQ), o.L, o.R) :
     ~IsErrAxis(ax) /\ NN(ax) = o.n /\ ax.min = mn /\ QSub(ax.max, ax.min) = QSub(o.max, o.min)
=============================================================================

-------------------------------- MODULE Vec --------------------------------
(***************************************************************************)
(* Layer A: entry-wise vector arithmetic over Gaussian rationals.  A value  *)
(* is the flat C-order sequence of entries of a tensor / discretised /      *)
(* (flattened) product-space element.  Written from the property statement  *)
(* ("equal the entry-wise result computed independently"), not from ODL.    *)
(***************************************************************************)
EXTENDS ExactNum

VConst(n, c)      == [i \in 1..n |-> c]
VZeroN(n)         == VConst(n, CZero)
VOneN(n)          == VConst(n, COne)
VAdd(u, v)        == [i \in 1..Len(u) |-> CAdd(u[i], v[i])]
VSub(u, v)        == [i \in 1..Len(u) |-> CSub(u[i], v[i])]
VMul(u, v)        == [i \in 1..Len(u) |-> CMul(u[i], v[i])]
VDiv(u, v)        == [i \in 1..Len(u) |-> CDiv(u[i], v[i])]
VScal(a, u)       == [i \in 1..Len(u) |-> CMul(a, u[i])]
VNeg(u)           == [i \in 1..Len(u) |-> CNeg(u[i])]
VConj(u)          == [i \in 1..Len(u) |-> CConj(u[i])]
VLincomb(a, u, b, v) == [i \in 1..Len(u) |-> CAdd(CMul(a, u[i]), CMul(b, v[i]))]
VNoZero(u)        == \A i \in 1..Len(u) : u[i] # CZero
VPowN(u, k)       == [i \in 1..Len(u) |-> CPowN(u[i], k)]
VRecip(u)         == [i \in 1..Len(u) |-> CInv(u[i])]
VIsReal(u)        == \A i \in 1..Len(u) : IsRealC(u[i])
\* integer power with negative exponents = reciprocal of the positive power
VPow(u, k)        == IF k >= 0 THEN VPowN(u, k) ELSE VRecip(VPowN(u, -k))
VBin(f, u, v)     == CASE f = "add" -> VAdd(u, v) [] f = "sub" -> VSub(u, v)
                       [] f = "mul" -> VMul(u, v) [] f = "div" -> VDiv(u, v)
=============================================================================

------------------------------ MODULE FuncSem ------------------------------
(***************************************************************************)
(* Layer A for C07 / C08 / C09: what ODL's functionals MEAN.               *)
(*                                                                         *)
(* Written from the documentation and from convex analysis (DESIGN         *)
(* Appendix E7), never from a closed-form proximal:                        *)
(*                                                                         *)
(*   Val(sp, f, x)          value in Q u {Inf}; NaN = "not a rational I    *)
(*                          can name" (irrational / not evaluable)         *)
(*   InSubdiff(sp, f, x, g) g is a sub-gradient of f at x IN THE INNER     *)
(*                          PRODUCT OF sp:  f(z) >= f(x) + <g, z-x>_sp     *)
(*   ProxObjective, Cert, ArgminSet   prox optimality: p = prox_{sigma f}  *)
(*                          (x)  <=>  (x-p)/sigma \in subdiff f(p)         *)
(*   DirDeriv, Grad         derivative OF THE VALUES by the exact central  *)
(*                          stencil, valid only inside one polynomial      *)
(*                          piece (Piece / PolyDeg)                        *)
(*   ConjVal                f*(y) = <u,y> - f(u) for a lattice witness u   *)
(*                          with y \in subdiff f(u)  (Fenchel equality);   *)
(*                          no closed-form conjugate anywhere              *)
(*                                                                         *)
(* A space is [kind, m, n, W]: m components of n points, flat index        *)
(* (k-1)*n+i, W = weight of every flat entry in the inner product          *)
(* (rn: 1, weighted rn: c, uniform_discr: cell volume).  Vectors are       *)
(* sequences of rationals <<num, den>>.                                    *)
(*                                                                         *)
(* A functional expression is a record with the uniform field set          *)
(*    [op, s, c, v, u, args]                                               *)
(* s, c scalars (Q), v, u vectors (possibly <<>>), args sub-expressions.   *)
(***************************************************************************)
EXTENDS ExactNum, TLC

(* ----------------------------- vectors --------------------------------- *)
\* TLC keeps [i \in S |-> e] as a lazy lambda and re-evaluates e at EVERY application;
\* concatenation with <<>> forces it into an explicit tuple once (measured: 2.5x faster)
Strict(v)    == v \o <<>>
RConst(n, c) == Strict([i \in 1..n |-> c])
RAdd(x, y)   == Strict([i \in 1..Len(x) |-> QAdd(x[i], y[i])])
RSub(x, y)   == Strict([i \in 1..Len(x) |-> QSub(x[i], y[i])])
RMul(x, y)   == Strict([i \in 1..Len(x) |-> QMul(x[i], y[i])])
RDiv(x, y)   == Strict([i \in 1..Len(x) |-> QDiv(x[i], y[i])])
RScal(s, x)  == Strict([i \in 1..Len(x) |-> QMul(s, x[i])])
RNeg(x)      == Strict([i \in 1..Len(x) |-> QNeg(x[i])])
RPow(x, k)   == Strict([i \in 1..Len(x) |-> QPowN(x[i], k)])
RIsZero(x)   == \A i \in 1..Len(x) : x[i] = QZero
RNoZero(x)   == \A i \in 1..Len(x) : x[i] # QZero
RSumAll(x)   == QSumSeq([i \in 1..Len(x) |-> x[i]])
SgnI(q)      == IF q[1] > 0 THEN 1 ELSE IF q[1] < 0 THEN -1 ELSE 0
QGe(p, q)    == QLe(q, p)
QGt(p, q)    == QLt(q, p)
\* row-major square matrix times vector
MatVec(M, x) == LET n == Len(x) IN
  Strict([i \in 1..n |-> QSumSeq([j \in 1..n |-> QMul(M[(i - 1) * n + j], x[j])])])

(* ------------------------------ spaces --------------------------------- *)
Dim(sp)        == sp.m * sp.n
Inner(sp, x, y) == QSumSeq([i \in 1..Len(x) |-> QMul(sp.W[i], QMul(x[i], y[i]))])
NormSq(sp, x)  == Inner(sp, x, x)
IsVF(sp)       == sp.kind \in {"power", "wpower"}   \* vector field: m components over n points
\* WEIGHTED power space ProductSpace(X, m, weighting=cw) (kind "wpower", extra field cw = <<cw_1..cw_m>>; array or
\* constant weighting): cw[k] weighs component k in the inner product of the power space, W[(k-1)n+i] = cw[k] * (weight
\* of point i in X), AND in the point-wise norms of the vector-field functionals - documented in PointwiseNorm:
\* "||F(x)|| = [sum_j w_j |F_j(x)|^p]^(1/p), max_j w_j |F_j(x)| for p = inf; by default the weights are taken from
\* domain.weighting"; GroupL1Norm / IndicatorGroupL1UnitBall / Huber are defined through that point-wise norm.
CW(sp, k)      == IF sp.kind = "wpower" THEN sp.cw[k] ELSE QOne
CWj(sp, j)     == CW(sp, ((j - 1) \div sp.n) + 1)                 \* component weight of flat index j
PW(sp, i)      == IF sp.kind = "wpower" THEN QDiv(sp.W[i], sp.cw[1]) ELSE sp.W[i]   \* weight of point i in the base space X
WAbs(sp, x, j) == QMul(CWj(sp, j), QAbs(x[j]))
Part(sp, k)    == [kind |-> "part", m |-> 1, n |-> sp.n,
                   W |-> Strict([i \in 1..sp.n |-> sp.W[(k - 1) * sp.n + i]])]
PartVec(sp, x, k) == Strict([i \in 1..sp.n |-> x[(k - 1) * sp.n + i]])
\* squared Euclidean norm of the vector sitting at point i of a vector field
GrpSq(sp, x, i) == QSumSeq([k \in 1..sp.m |-> QMul(CW(sp, k), QSq(x[(k - 1) * sp.n + i]))])
\* on a scalar space every entry is its own group
NGrp(sp)       == IF IsVF(sp) THEN sp.n ELSE Dim(sp)
GSq(sp, x, i)  == IF IsVF(sp) THEN GrpSq(sp, x, i) ELSE QSq(x[i])
GIdx(sp, i)    == IF IsVF(sp) THEN {(k - 1) * sp.n + i : k \in 1..sp.m} ELSE {i}

\* point-wise 1- and max-norm of the vector at point i (rational for every rational field)
GAbs1(sp, x, i) == QSumSeq([k \in 1..sp.m |-> QMul(CW(sp, k), QAbs(x[(k - 1) * sp.n + i]))])
GMaxA(sp, x, i) == QMaxSeq([k \in 1..sp.m |-> QMul(CW(sp, k), QAbs(x[(k - 1) * sp.n + i]))])
\* un-weighted point-wise 1-norm (dual side of the weighted max-norm: in the coordinates u_k = cw_k x_k the pairing
\* <g, z>_sp is PW * sum_k g_k u_k, so g lives in the PLAIN l1 ball)
GAbs1U(sp, x, i) == QSumSeq([k \in 1..sp.m |-> QAbs(x[(k - 1) * sp.n + i])])
\* point-wise exponent of the group functionals, carried in the field s: 1 -> 1, Inf -> max, anything else -> 2
PExp(f)        == IF f.s = <<1, 1>> THEN 1 ELSE IF f.s = <<1, 0>> THEN 3 ELSE 2
\* KL prior: absent (v = <<>>) means the one-element
PriorAt(f, i)  == IF f.v = <<>> THEN <<1, 1>> ELSE f.v[i]

SpRn(n)        == [kind |-> "rn",    m |-> 1, n |-> n, W |-> RConst(n, QOne)]
SpRnW(n, c)    == [kind |-> "rnw",   m |-> 1, n |-> n, W |-> RConst(n, c)]
SpDiscr(n, V)  == [kind |-> "discr", m |-> 1, n |-> n, W |-> RConst(n, V)]
SpPower(m, n, V) == [kind |-> "power", m |-> m, n |-> n, W |-> RConst(m * n, V)]
\* (uniform_discr, n cells of volume V)^m with component weights cw
SpWPower(m, n, V, cw) == [kind |-> "wpower", m |-> m, n |-> n, cw |-> cw,
                          W |-> Strict([j \in 1..m * n |-> QMul(cw[((j - 1) \div n) + 1], V)])]
SpProd(n, c1, c2) == [kind |-> "pspace", m |-> 2, n |-> n,
                      W |-> Strict([j \in 1..2 * n |-> IF j <= n THEN c1 ELSE c2])]

(* ----------------- extended values: Q, Inf, NaN (= unknown) ------------- *)
XKnown(a)   == a[2] # 0
\* TLC integers have 32 bits and overflow is an ERROR: every operation on VALUES refuses operands beyond 15 bits
\* (products then stay below 2^30, sums of two products below 2^31) and answers "unknown" instead
Big(a)      == Abs(a[1]) > 30000 \/ a[2] > 30000
XAdd(a, b)  == IF a = Inf \/ b = Inf THEN Inf
               ELSE IF a[2] = 0 \/ b[2] = 0 \/ Big(a) \/ Big(b) THEN NaN ELSE QAdd(a, b)
XScal(s, a) == IF a[2] # 0 THEN (IF Big(a) \/ Big(s) THEN NaN ELSE QMul(s, a))
               ELSE IF a = Inf /\ s[1] > 0 THEN Inf ELSE NaN
XMul(a, b)  == IF a[2] = 0 \/ b[2] = 0 \/ Big(a) \/ Big(b) THEN NaN ELSE QMul(a, b)
\* a vector whose entries can be squared and summed (up to 6 entries, weights <= 4) inside 32 bits
Tame(x)     == \A i \in 1..Len(x) : Abs(x[i][1]) * x[i][2] <= 4096
XSqrt(q)    == IF QIsSquare(q) THEN QSqrt(q) ELSE NaN

(* ------------------------- expressions --------------------------------- *)
Mk(op, s, c, v, u, args) == [op |-> op, s |-> s, c |-> c, v |-> v, u |-> u, args |-> args]
Leaf(op)            == Mk(op, QZero, QZero, <<>>, <<>>, <<>>)
LeafS(op, s)        == Mk(op, s, QZero, <<>>, <<>>, <<>>)
LeafSC(op, s, c)    == Mk(op, s, c, <<>>, <<>>, <<>>)
Arg(f)  == f.args[1]
Arg2(f) == f.args[2]
LeafOps == {"L1", "L2", "L2sq", "Linf", "GroupL1", "Huber", "IndBox", "IndNonneg", "IndZero",
            "IndSum", "IndSimplex", "IndBall1", "IndBall2", "IndBallInf", "IndGroupBall",
            "Quad", "Const", "KL", "KLcc"}
IsLeaf(f) == f.args = <<>>

\* scalar Huber profile on t >= 0 given t^2 = q
\* (gamma = 0 is documented as the un-smoothed case: the (group) L1 norm)
HuberOfSq(gam, q) ==
  IF gam = QZero THEN XSqrt(q)
  ELSE IF QLe(q, QSq(gam)) THEN QDiv(q, QMul(QI(2), gam))
  ELSE LET r == XSqrt(q) IN IF XKnown(r) THEN QSub(r, QHalf(gam)) ELSE NaN

Ind(b) == IF b THEN QZero ELSE Inf
AbsSumW(sp, x) == QSumSeq([i \in 1..Len(x) |-> QMul(sp.W[i], QAbs(x[i]))])
MaxAbs(x)      == QMaxSeq([i \in 1..Len(x) |-> QAbs(x[i])])

(* the lattice on which conjugate witnesses are searched (overridable)     *)
LatQ(K, D)     == {Q(k, D) : k \in -K..K}
ConjLat1       == LatQ(16, 4)                   \* quarter lattice on [-4, 4]
ConjLatCoarse  == LatQ(6, 2)                    \* half lattice on [-3, 3]
\* explicit tuples (not lazily enumerated function sets of lambdas)
TupSet(n, S) == IF n = 1 THEN {<<a>> : a \in S}
                ELSE IF n = 2 THEN S \X S
                ELSE IF n = 3 THEN S \X S \X S
                ELSE S \X S \X S \X S
\* beyond 4 entries the witness lattice is not searched: the conjugate value stays "unknown"
ConjLatVecs(sp) == IF Dim(sp) <= 2 THEN TupSet(Dim(sp), ConjLat1)
                   ELSE IF Dim(sp) <= 4 THEN TupSet(Dim(sp), ConjLatCoarse) ELSE {}

(* ------------------------------- Val ----------------------------------- *)
RECURSIVE Val(_, _, _), InSubdiff(_, _, _, _)

\* f*(y) through a Fenchel-equality witness on the lattice: y \in subdiff f(u)
ConjWitnesses(sp, f, y) == TLCEval({u \in ConjLatVecs(sp) : InSubdiff(sp, f, u, y)})
ConjVal(sp, f, y) ==
  IF f.op = "Conj" THEN Val(sp, Arg(f), y)                    \* f** = f (f convex, closed)
  ELSE IF f.op = "InfConv"                                    \* sup over (u, z) separates
    THEN XAdd(Val(sp, Mk("Conj", QZero, QZero, <<>>, <<>>, <<Arg(f)>>), y),
              Val(sp, Mk("Conj", QZero, QZero, <<>>, <<>>, <<Arg2(f)>>), y))
  ELSE LET Wt == ConjWitnesses(sp, f, y)
       IN IF Wt = {} THEN NaN
          ELSE LET u == CHOOSE u \in Wt : TRUE
                   fu == Val(sp, f, u)
               IN IF XKnown(fu) THEN QSub(Inner(sp, u, y), fu) ELSE NaN

Val(sp, f, x) ==
  IF ~Tame(x) THEN NaN                      \* beyond the 32-bit budget of exact arithmetic: "unknown"
  ELSE IF f.args = <<>> THEN
  CASE f.op = "L1"    -> AbsSumW(sp, x)
    [] f.op = "L2"    -> XSqrt(NormSq(sp, x))
    [] f.op = "L2sq"  -> NormSq(sp, x)
    [] f.op = "Linf"  -> MaxAbs(x)                                       \* documented: un-weighted max
    [] f.op = "GroupL1" ->      \* sum_i w_i |x(i)|_p , p the point-wise exponent
         LET t == [i \in 1..NGrp(sp) |-> IF PExp(f) = 1 THEN GAbs1(sp, x, i)
                                         ELSE IF PExp(f) = 3 THEN GMaxA(sp, x, i) ELSE XSqrt(GSq(sp, x, i))]
         IN IF \E i \in 1..NGrp(sp) : ~XKnown(t[i]) THEN NaN
            ELSE QSumSeq([i \in 1..NGrp(sp) |-> QMul(PW(sp, i), t[i])])
    [] f.op = "Huber" ->
         LET t == [i \in 1..NGrp(sp) |-> HuberOfSq(f.s, GSq(sp, x, i))]
         IN IF \E i \in 1..NGrp(sp) : ~XKnown(t[i]) THEN NaN
            ELSE QSumSeq([i \in 1..NGrp(sp) |-> QMul(PW(sp, i), t[i])])
    [] f.op = "IndBox"     -> Ind(\A i \in 1..Len(x) : QLe(f.s, x[i]) /\ QLe(x[i], f.c))
    [] f.op = "IndNonneg"  -> Ind(\A i \in 1..Len(x) : x[i][1] >= 0)
    [] f.op = "IndZero"    -> IF RIsZero(x) THEN f.c ELSE Inf
    [] f.op = "IndSum"     -> Ind(RSumAll(x) = f.s)
    [] f.op = "IndSimplex" -> Ind(RSumAll(x) = f.s /\ \A i \in 1..Len(x) : x[i][1] >= 0)
    [] f.op = "IndBall1"   -> Ind(QLe(AbsSumW(sp, x), QOne))
    [] f.op = "IndBall2"   -> Ind(QLe(NormSq(sp, x), QOne))
    [] f.op = "IndBallInf" -> Ind(QLe(MaxAbs(x), QOne))
    [] f.op = "IndGroupBall" ->  \* max_i |x(i)|_p <= 1
         Ind(\A i \in 1..NGrp(sp) : QLe(IF PExp(f) = 1 THEN GAbs1(sp, x, i)
                                        ELSE IF PExp(f) = 3 THEN GMaxA(sp, x, i) ELSE GSq(sp, x, i), QOne))
    [] f.op = "Quad"  ->      \* <x, A x> + <b, x> + c , A = diag(v) (absent if v = <<>>)
         XAdd(XAdd(IF f.v = <<>> THEN QZero ELSE Inner(sp, x, RMul(f.v, x)),
                   IF f.u = <<>> THEN QZero ELSE Inner(sp, f.u, x)), f.c)
    [] f.op = "Const" -> f.c
    [] f.op = "KL"    ->      \* sum w (x - g + g ln(g/x)): rational only where the log vanishes
         IF \E i \in 1..Len(x) : x[i][1] <= 0 THEN Inf
         ELSE IF \A i \in 1..Len(x) : x[i] = PriorAt(f, i) THEN QZero ELSE NaN
    [] f.op = "KLcc"  ->      \* - sum w g ln(1 - x)
         \* (a zero prior entry contributes 0 for x_i <= 1 by the documented convention 0 log 0 = 0)
         IF \E i \in 1..Len(x) : PriorAt(f, i) # QZero /\ QGe(x[i], QOne) THEN Inf
         ELSE IF \E i \in 1..Len(x) : PriorAt(f, i) = QZero /\ QLt(QOne, x[i]) THEN NaN
         ELSE IF \A i \in 1..Len(x) : PriorAt(f, i) = QZero \/ x[i] = QZero THEN QZero ELSE NaN
  ELSE  (* ---- derivation rules: the documented meaning ---- *)
  CASE f.op = "Translate" -> Val(sp, Arg(f), RSub(x, f.u))
    [] f.op = "ArgScale"  -> Val(sp, Arg(f), RScal(f.s, x))
    [] f.op = "LScale"    -> XScal(f.s, Val(sp, Arg(f), x))
    [] f.op = "RVec"      -> Val(sp, Arg(f), RMul(f.v, x))
    [] f.op = "AddConst"  -> XAdd(Val(sp, Arg(f), x), f.c)
    [] f.op = "QuadPert"  ->  \* f + a ||x||^2 + <x, u> + c
         XAdd(Val(sp, Arg(f), x),
              XAdd(XAdd(XMul(f.s, NormSq(sp, x)),
                        IF f.u = <<>> THEN QZero ELSE Inner(sp, x, f.u)), f.c))
    [] f.op = "Sum"       -> XAdd(Val(sp, Arg(f), x), Val(sp, Arg2(f), x))
    [] f.op = "SepSum"    -> XAdd(Val(Part(sp, 1), Arg(f), PartVec(sp, x, 1)),
                                  Val(Part(sp, 2), Arg2(f), PartVec(sp, x, 2)))
    [] f.op = "Comp"      -> Val(sp, Arg(f), MatVec(f.v, x))
    [] f.op = "CompPow"   -> Val(sp, Arg(f), RPow(x, f.s[1]))      \* f o PowerOperator(k): nonlinear inner operator
    [] f.op = "Prod"      -> XMul(Val(sp, Arg(f), x), Val(sp, Arg2(f), x))
    [] f.op = "Quot"      -> LET a == Val(sp, Arg(f), x)  b == Val(sp, Arg2(f), x)
                             IN IF XKnown(a) /\ XKnown(b) /\ b # QZero /\ ~Big(a) /\ ~Big(b) THEN QDiv(a, b) ELSE NaN
    [] f.op = "Bregman"   ->  \* f(x) - f(y) - <p, x - y> , y = f.v, p = f.u
         LET fy == Val(sp, Arg(f), f.v)
             r  == XAdd(fy, Inner(sp, f.u, RSub(x, f.v)))
         IN IF ~XKnown(fy) \/ ~XKnown(r) THEN NaN
            ELSE XAdd(Val(sp, Arg(f), x), QNeg(r))
    [] f.op = "Conj"      -> ConjVal(sp, Arg(f), x)
    [] f.op = "InfConv"   -> NaN                     \* ODL offers no evaluation either

(* ---------------------------- InSubdiff -------------------------------- *)
\* g = t * x on the index set I with t > 0 and t^2 * q = 1   (g = x / sqrt(q), no root needed)
UnitDir(x, g, I, q) ==
  LET j == CHOOSE j \in I : x[j] # QZero
      t == QDiv(g[j], x[j])
  IN  /\ t[1] > 0
      /\ \A i \in I : g[i] = QMul(t, x[i])
      /\ QMul(QSq(t), q) = QOne
\* g = lam * x on I with lam >= 0
ConeDir(x, g, I) ==
  LET j == CHOOSE j \in I : x[j] # QZero
      lam == QDiv(g[j], x[j])
  IN  lam[1] >= 0 /\ \A i \in I : g[i] = QMul(lam, x[i])
BoxCone(lo, hi, x, g) ==
  /\ \A i \in 1..Len(x) : QLe(lo, x[i]) /\ QLe(x[i], hi)
  /\ \A i \in 1..Len(x) :
       IF lo = hi THEN TRUE
       ELSE IF x[i] = lo THEN g[i][1] <= 0
       ELSE IF x[i] = hi THEN g[i][1] >= 0
       ELSE g[i] = QZero

InSubdiff(sp, f, x, g) ==
  LET N == Len(x) IN
  IF f.args = <<>> THEN
  CASE f.op = "L1" ->
         \A i \in 1..N : IF x[i] = QZero THEN QLe(QAbs(g[i]), QOne) ELSE g[i] = QSign(x[i])
    [] f.op = "L2" ->
         IF RIsZero(x) THEN QLe(NormSq(sp, g), QOne)
         ELSE UnitDir(x, g, 1..N, NormSq(sp, x))
    [] f.op = "L2sq" -> g = RScal(QI(2), x)
    [] f.op = "Linf" ->
         LET M == MaxAbs(x) IN
         IF M = QZero THEN QLe(AbsSumW(sp, g), QOne)
         ELSE /\ \A i \in 1..N : IF QAbs(x[i]) = M THEN SgnI(g[i]) * SgnI(x[i]) >= 0 ELSE g[i] = QZero
              /\ AbsSumW(sp, g) = QOne
    [] f.op = "GroupL1" ->
         \A i \in 1..NGrp(sp) :
           IF PExp(f) = 1 THEN
             \A j \in GIdx(sp, i) : IF x[j] = QZero THEN QLe(QAbs(g[j]), QOne) ELSE g[j] = QSign(x[j])
           ELSE IF PExp(f) = 3 THEN
             LET M == GMaxA(sp, x, i) IN
             IF M = QZero THEN QLe(GAbs1U(sp, g, i), QOne)
             ELSE /\ \A j \in GIdx(sp, i) : IF WAbs(sp, x, j) = M THEN SgnI(g[j]) * SgnI(x[j]) >= 0 ELSE g[j] = QZero
                  /\ GAbs1U(sp, g, i) = QOne
           ELSE LET q == GSq(sp, x, i) IN
                IF q = QZero THEN QLe(GSq(sp, g, i), QOne) ELSE UnitDir(x, g, GIdx(sp, i), q)
    [] f.op = "Huber" ->
         \A i \in 1..NGrp(sp) :
           LET q == GSq(sp, x, i) IN
           IF f.s = QZero /\ q = QZero THEN QLe(GSq(sp, g, i), QOne)          \* gamma = 0: the norm itself
           ELSE IF f.s # QZero /\ QLe(q, QSq(f.s)) THEN \A j \in GIdx(sp, i) : g[j] = QDiv(x[j], f.s)
           ELSE UnitDir(x, g, GIdx(sp, i), q)
    [] f.op = "IndBox"     -> BoxCone(f.s, f.c, x, g)
    [] f.op = "IndNonneg"  -> BoxCone(QZero, Inf, x, g)
    [] f.op = "IndBallInf" -> BoxCone(QI(-1), QOne, x, g)
    [] f.op = "IndZero"    -> RIsZero(x)
    [] f.op = "IndSum" ->     \* normal cone of {sum x = s}: Euclidean multiples of 1, i.e. W g constant
         /\ RSumAll(x) = f.s
         /\ \A i \in 1..N : QMul(sp.W[i], g[i]) = QMul(sp.W[1], g[1])
    [] f.op = "IndSimplex" ->
         /\ RSumAll(x) = f.s
         /\ \A i \in 1..N : x[i][1] >= 0
         /\ LET P == {i \in 1..N : x[i][1] > 0} IN
            IF P = {} THEN TRUE
            ELSE LET j == CHOOSE j \in P : TRUE
                     mu == QMul(sp.W[j], g[j])
                 IN \A i \in 1..N : IF i \in P THEN QMul(sp.W[i], g[i]) = mu
                                    ELSE QLe(QMul(sp.W[i], g[i]), mu)
    [] f.op = "IndBall1" ->
         LET s == AbsSumW(sp, x) IN
         IF QLt(QOne, s) THEN FALSE
         ELSE IF QLt(s, QOne) THEN RIsZero(g)
         ELSE LET j == CHOOSE j \in 1..N : x[j] # QZero
                  lam == QMul(g[j], QSign(x[j]))
              IN /\ lam[1] >= 0
                 /\ \A i \in 1..N : IF x[i] = QZero THEN QLe(QAbs(g[i]), lam)
                                    ELSE g[i] = QMul(lam, QSign(x[i]))
    [] f.op = "IndBall2" ->
         LET s == NormSq(sp, x) IN
         IF QLt(QOne, s) THEN FALSE
         ELSE IF QLt(s, QOne) THEN RIsZero(g)
         ELSE ConeDir(x, g, 1..N)
    [] f.op = "IndGroupBall" ->
         \A i \in 1..NGrp(sp) :
           IF PExp(f) = 1 THEN       \* normal cone of the point-wise l1 ball
             LET s == GAbs1(sp, x, i) IN
             IF QLt(QOne, s) THEN FALSE
             ELSE IF QLt(s, QOne) THEN \A j \in GIdx(sp, i) : g[j] = QZero
             ELSE LET j0 == CHOOSE j \in GIdx(sp, i) : x[j] # QZero
                      lam == QMul(g[j0], QSign(x[j0]))
                  IN /\ lam[1] >= 0
                     /\ \A j \in GIdx(sp, i) : IF x[j] = QZero THEN QLe(QAbs(g[j]), lam)
                                               ELSE g[j] = QMul(lam, QSign(x[j]))
           ELSE IF PExp(f) = 3 THEN  \* point-wise max-norm ball = box [-1, 1] in every entry
             \A j \in GIdx(sp, i) :
               LET u == QMul(CWj(sp, j), x[j]) IN
               /\ QLe(QAbs(u), QOne)
               /\ (IF u = QI(-1) THEN g[j][1] <= 0 ELSE IF u = QOne THEN g[j][1] >= 0 ELSE g[j] = QZero)
           ELSE LET q == GSq(sp, x, i) IN
                IF QLt(QOne, q) THEN FALSE
                ELSE IF QLt(q, QOne) THEN \A j \in GIdx(sp, i) : g[j] = QZero
                ELSE ConeDir(x, g, GIdx(sp, i))
    [] f.op = "Quad" ->       \* gradient (A + A*) x + b with A = diag(v) self-adjoint
         g = Strict([i \in 1..N |-> QAdd(IF f.v = <<>> THEN QZero ELSE QMul(QI(2), QMul(f.v[i], x[i])),
                                          IF f.u = <<>> THEN QZero ELSE f.u[i])])
    [] f.op = "Const" -> RIsZero(g)
    [] f.op = "KL" ->
         \A i \in 1..N : x[i][1] > 0 /\ g[i] = QSub(QOne, QDiv(PriorAt(f, i), x[i]))
    [] f.op = "KLcc" ->
         \A i \in 1..N :
           IF PriorAt(f, i) = QZero
             THEN (QLt(x[i], QOne) /\ g[i] = QZero) \/ (x[i] = QOne /\ g[i][1] >= 0)   \* indicator of x_i <= 1
             ELSE QLt(x[i], QOne) /\ g[i] = QDiv(PriorAt(f, i), QSub(QOne, x[i]))
  ELSE  (* ---- calculus of sub-differentials (exact for these rules) ---- *)
  CASE f.op = "Translate" -> InSubdiff(sp, Arg(f), RSub(x, f.u), g)
    [] f.op = "ArgScale"  -> InSubdiff(sp, Arg(f), RScal(f.s, x), RScal(QInv(f.s), g))
    [] f.op = "LScale"    -> f.s[1] > 0 /\ InSubdiff(sp, Arg(f), x, RScal(QInv(f.s), g))
    [] f.op = "RVec"      -> RNoZero(f.v) /\ InSubdiff(sp, Arg(f), RMul(f.v, x), RDiv(g, f.v))
    [] f.op = "AddConst"  -> InSubdiff(sp, Arg(f), x, g)
    [] f.op = "QuadPert"  ->
         InSubdiff(sp, Arg(f), x,
                   RSub(RSub(g, RScal(QMul(QI(2), f.s), x)),
                        IF f.u = <<>> THEN RConst(N, QZero) ELSE f.u))
    [] f.op = "SepSum"    -> /\ InSubdiff(Part(sp, 1), Arg(f), PartVec(sp, x, 1), PartVec(sp, g, 1))
                             /\ InSubdiff(Part(sp, 2), Arg2(f), PartVec(sp, x, 2), PartVec(sp, g, 2))
    [] f.op = "Bregman"   -> InSubdiff(sp, Arg(f), x, RAdd(g, f.u))
    [] f.op = "Conj"      -> InSubdiff(sp, Arg(f), g, x)        \* g in df*(x) <=> x in df(g)
    [] OTHER -> FALSE

(* structural attributes *)
\* evaluating Val needs a witness scan somewhere inside
RECURSIVE HasConj(_)
HasConj(f) == f.op = "Conj" \/ \E k \in 1..Len(f.args) : HasConj(f.args[k])
RECURSIVE HasSubdiff(_), Convex(_), FiniteValued(_)
\* InSubdiff is a complete description of the sub-differential of f
HasSubdiff(f) ==
  IF IsLeaf(f) THEN TRUE
  ELSE IF f.op \in {"Sum", "Comp", "CompPow", "Prod", "Quot", "InfConv"} THEN FALSE
  ELSE \A k \in 1..Len(f.args) : HasSubdiff(f.args[k])
Convex(f) ==
  IF IsLeaf(f) THEN (f.op = "Quad" => \A i \in 1..Len(f.v) : f.v[i][1] >= 0)
  ELSE IF f.op \in {"Prod", "Quot", "CompPow"} THEN FALSE
  ELSE IF f.op = "LScale" /\ f.s[1] <= 0 THEN FALSE
  ELSE IF f.op = "QuadPert" /\ f.s[1] < 0 THEN FALSE
  ELSE \A k \in 1..Len(f.args) : Convex(f.args[k])
FiniteValued(f) ==
  IF IsLeaf(f) THEN f.op \in {"L1", "L2", "L2sq", "Linf", "GroupL1", "Huber", "Quad", "Const"}
  ELSE IF f.op \in {"Conj", "InfConv"} THEN FALSE
  ELSE \A k \in 1..Len(f.args) : FiniteValued(f.args[k])

(* ------------------------ proximal optimality -------------------------- *)
\* sigma is a vector of steps (a scalar step is the constant vector)
ProxDist(sp, sig, x, z) ==
  QSumSeq([i \in 1..Len(x) |-> QDiv(QMul(sp.W[i], QSq(QSub(z[i], x[i]))), QMul(QI(2), sig[i]))])
ProxObjective(sp, f, sig, x, z) == XAdd(Val(sp, f, z), ProxDist(sp, sig, x, z))
\* p = prox_{sigma f}(x)  <=>  (x - p) / sigma  \in  subdiff f(p)      (complete for convex f)
Cert(sp, f, sig, x, p) ==
  InSubdiff(sp, f, p, Strict([i \in 1..Len(x) |-> QDiv(QSub(x[i], p[i]), sig[i])]))
\* all certified points of the lattice {k/D : |k| <= K}^n.  The quotients (x_i - k/D)/sigma_i are
\* tabulated once per query; the scan itself only indexes tables.
ArgminScan(sp, f, sig, x, K, D) ==
  LET n  == Len(x)
      Ix == 1..(2 * K + 1)
      PT == Strict([k \in Ix |-> Q(k - K - 1, D)])
      G  == Strict([i \in 1..n |-> Strict([k \in Ix |-> QDiv(QSub(x[i], PT[k]), sig[i])])])
  IN IF n = 2       \* same scan, written with explicit pairs (measured 2x faster in TLC)
       THEN LET G1 == G[1]  G2 == G[2]
                hits == {kv \in Ix \X Ix :
                           InSubdiff(sp, f, <<PT[kv[1]], PT[kv[2]]>>, <<G1[kv[1]], G2[kv[2]]>>)}
            IN TLCEval({<<PT[kv[1]], PT[kv[2]]>> : kv \in hits})
       ELSE LET hits == {kv \in [1..n -> Ix] :
                           InSubdiff(sp, f, Strict([i \in 1..n |-> PT[kv[i]]]),
                                     Strict([i \in 1..n |-> G[i][kv[i]]]))}
            IN TLCEval({Strict([i \in 1..n |-> PT[kv[i]]]) : kv \in hits})

(* Search heuristic for coordinate-wise separable programs: scan every coordinate on its own    *)
(* (restriction of the program to that coordinate), then CERTIFY the assembled point with the   *)
(* full InSubdiff.  Soundness never depends on Separable(); completeness of the heuristic is    *)
(* checked on the model (MC_FuncMachine!FastPathAgrees).                                        *)
RECURSIVE Separable(_, _), Restrict(_, _, _)
Separable(sp, f) ==
  IF IsLeaf(f) THEN \/ f.op \in {"L1", "L2sq", "IndBox", "IndNonneg", "IndZero", "IndBallInf", "Quad",
                                  "Const", "KL", "KLcc"}
                    \/ f.op = "Huber" /\ ~IsVF(sp)
  ELSE IF f.op \in {"Translate", "ArgScale", "LScale", "RVec", "AddConst", "QuadPert", "Bregman", "Conj"}
         THEN Separable(sp, Arg(f))
  ELSE IF f.op = "SepSum" THEN Separable(Part(sp, 1), Arg(f)) /\ Separable(Part(sp, 2), Arg2(f))
  ELSE FALSE
Pick(v, i) == IF v = <<>> THEN <<>> ELSE <<v[i]>>
\* the program seen by coordinate i (flat index) alone
Restrict(sp, f, i) ==
  IF f.op = "SepSum"
    THEN IF i <= sp.n THEN Restrict(Part(sp, 1), Arg(f), i) ELSE Restrict(Part(sp, 2), Arg2(f), i - sp.n)
    ELSE Mk(f.op, f.s, f.c, Pick(f.v, i), Pick(f.u, i),
            Strict([k \in 1..Len(f.args) |-> Restrict(sp, f.args[k], i)]))
Sp1(sp, i) == [kind |-> "part", m |-> 1, n |-> 1, W |-> <<sp.W[i]>>]
ArgminSep(sp, f, sig, x, K, D) ==
  LET n  == Len(x)
      Ix == 1..(2 * K + 1)
      PT == Strict([k \in Ix |-> Q(k - K - 1, D)])
      hit == Strict([i \in 1..n |->
               LET fi == Restrict(sp, f, i)  si == Sp1(sp, i)
               IN TLCEval({k \in Ix : InSubdiff(si, fi, <<PT[k]>>, <<QDiv(QSub(x[i], PT[k]), sig[i])>>)})])
  IN IF \E i \in 1..n : hit[i] = {} THEN {}
     ELSE LET p == Strict([i \in 1..n |-> PT[CHOOSE k \in hit[i] : TRUE]])
          IN IF (\A i \in 1..n : Cardinality(hit[i]) = 1) /\ Cert(sp, f, sig, x, p) THEN {p} ELSE {}
ArgminSet(sp, f, sig, x, K, D) ==
  IF Separable(sp, f) THEN ArgminSep(sp, f, sig, x, K, D) ELSE ArgminScan(sp, f, sig, x, K, D)
\* value-probe form of optimality on a set of probes (used to cross-check InSubdiff on the model)
ValueOptimal(sp, f, sig, x, p, L) ==
  LET Fp == ProxObjective(sp, f, sig, x, p) IN
  XKnown(Fp) => \A z \in L : LET Fz == ProxObjective(sp, f, sig, x, z)
                             IN (Fz = Inf) \/ ~XKnown(Fz) \/ QLe(Fp, Fz)

(* --------------- derivative of the values (exact stencil) -------------- *)
Edge == 9
RECURSIVE Piece(_, _, _), PolyDeg(_, _)
\* polynomial degree bound of f on each of its pieces ; 99 = not piecewise polynomial
PolyDeg(sp, f) ==
  CASE f.op \in {"L1", "Linf"} -> 1
    [] f.op = "L2sq" -> 2
    [] f.op = "Huber" -> IF IsVF(sp) THEN 99 ELSE 2
    [] f.op = "Quad" -> IF f.v = <<>> THEN 1 ELSE 2
    [] f.op = "Const" -> 0
    [] f.op = "GroupL1" -> IF PExp(f) = 2 THEN 99 ELSE 1
    [] f.op \in {"Translate", "ArgScale", "LScale", "RVec", "AddConst", "Comp"} -> PolyDeg(sp, Arg(f))
    [] f.op = "CompPow" -> Min2(99, f.s[1] * PolyDeg(sp, Arg(f)))
    [] f.op = "QuadPert" -> Max2(PolyDeg(sp, Arg(f)), IF f.s = QZero THEN 1 ELSE 2)
    [] f.op = "Bregman"  -> Max2(PolyDeg(sp, Arg(f)), 1)
    [] f.op = "Sum"      -> Max2(PolyDeg(sp, Arg(f)), PolyDeg(sp, Arg2(f)))
    [] f.op = "SepSum"   -> Max2(PolyDeg(Part(sp, 1), Arg(f)), PolyDeg(Part(sp, 2), Arg2(f)))
    [] f.op = "Prod"     -> Min2(99, PolyDeg(sp, Arg(f)) + PolyDeg(sp, Arg2(f)))
    [] OTHER -> 99
\* signature of the polynomial piece x lies in ; an entry Edge = x is on a piece boundary
Piece(sp, f, x) ==
  CASE f.op = "L1" -> [i \in 1..Len(x) |-> IF x[i] = QZero THEN Edge ELSE SgnI(x[i])]
    [] f.op = "Linf" ->
         LET M == MaxAbs(x)
             A == {i \in 1..Len(x) : QAbs(x[i]) = M}
         IN IF M = QZero \/ Cardinality(A) # 1 THEN <<Edge>>
            ELSE LET j == CHOOSE j \in A : TRUE IN <<2 * j * SgnI(x[j])>>
    [] f.op = "Huber" ->
         IF IsVF(sp) THEN [i \in 1..NGrp(sp) |-> IF QLt(GSq(sp, x, i), QSq(f.s)) THEN 0
                                                  ELSE IF GSq(sp, x, i) = QSq(f.s) THEN Edge ELSE 2]
         ELSE [i \in 1..Len(x) |-> IF QLt(QAbs(x[i]), f.s) THEN 0
                                   ELSE IF QAbs(x[i]) = f.s THEN Edge ELSE 2 * SgnI(x[i])]
    [] f.op \in {"L2sq", "Quad", "Const"} -> <<>>
    \* smooth (not polynomial) pieces: used by the relational clauses only
    [] f.op = "L2" -> IF RIsZero(x) THEN <<Edge>> ELSE <<>>
    [] f.op = "GroupL1" ->
         IF PExp(f) = 1 THEN [j \in 1..Len(x) |-> IF x[j] = QZero THEN Edge ELSE SgnI(x[j])]
         ELSE IF PExp(f) = 3 THEN
           [i \in 1..NGrp(sp) |->
              LET M == GMaxA(sp, x, i)
                  A == {j \in GIdx(sp, i) : WAbs(sp, x, j) = M}
              IN IF M = QZero \/ Cardinality(A) # 1 THEN Edge
                 ELSE LET j == CHOOSE j \in A : TRUE IN 2 * j * SgnI(x[j])]
         ELSE [i \in 1..NGrp(sp) |-> IF GSq(sp, x, i) = QZero THEN Edge ELSE 1]
    [] f.op = "KL"   -> IF \E i \in 1..Len(x) : x[i][1] <= 0 THEN <<Edge>> ELSE <<>>
    [] f.op = "KLcc" -> IF \E i \in 1..Len(x) : QGe(x[i], QOne) THEN <<Edge>> ELSE <<>>
    [] f.op = "Quot" -> LET b == Val(sp, Arg2(f), x) IN
                        (IF b = QZero \/ b = Inf THEN <<Edge>> ELSE <<>>) \o Piece(sp, Arg(f), x) \o Piece(sp, Arg2(f), x)
    [] f.op = "Translate" -> Piece(sp, Arg(f), RSub(x, f.u))
    [] f.op = "ArgScale"  -> Piece(sp, Arg(f), RScal(f.s, x))
    [] f.op = "RVec"      -> Piece(sp, Arg(f), RMul(f.v, x))
    [] f.op = "Comp"      -> Piece(sp, Arg(f), MatVec(f.v, x))
    [] f.op = "CompPow"   -> Piece(sp, Arg(f), RPow(x, f.s[1]))
    [] f.op \in {"LScale", "AddConst", "QuadPert", "Bregman"} -> Piece(sp, Arg(f), x)
    [] f.op \in {"Sum", "Prod"} -> Piece(sp, Arg(f), x) \o Piece(sp, Arg2(f), x)
    [] f.op = "SepSum" -> Piece(Part(sp, 1), Arg(f), PartVec(sp, x, 1)) \o
                          Piece(Part(sp, 2), Arg2(f), PartVec(sp, x, 2))
    [] OTHER -> <<Edge>>
Interior(sp, f, x) == \A k \in 1..Len(Piece(sp, f, x)) : Piece(sp, f, x)[k] # Edge

\* f is differentiable at x (superset of Interior: C^1 functionals are differentiable on piece boundaries too)
RECURSIVE Differentiable(_, _, _)
Differentiable(sp, f, x) ==
  CASE f.op = "L1" -> RNoZero(x)
    [] f.op = "L2" -> ~RIsZero(x)
    [] f.op = "GroupL1" -> \A k \in 1..Len(Piece(sp, f, x)) : Piece(sp, f, x)[k] # Edge
    [] f.op \in {"L2sq", "Quad", "Const"} -> TRUE
    [] f.op = "Huber" -> f.s # QZero \/ \A i \in 1..NGrp(sp) : GSq(sp, x, i) # QZero
    [] f.op = "KL"   -> \A i \in 1..Len(x) : x[i][1] > 0
    [] f.op = "KLcc" -> \A i \in 1..Len(x) : QLt(x[i], QOne)
    [] f.op = "Linf" -> Piece(sp, f, x) # <<Edge>>
    [] f.op = "Translate" -> Differentiable(sp, Arg(f), RSub(x, f.u))
    [] f.op = "ArgScale"  -> Differentiable(sp, Arg(f), RScal(f.s, x))
    [] f.op = "RVec"      -> Differentiable(sp, Arg(f), RMul(f.v, x))
    [] f.op = "Comp"      -> Differentiable(sp, Arg(f), MatVec(f.v, x))
    [] f.op = "CompPow"   -> Differentiable(sp, Arg(f), RPow(x, f.s[1]))
    [] f.op \in {"LScale", "AddConst", "QuadPert", "Bregman"} -> Differentiable(sp, Arg(f), x)
    [] f.op \in {"Sum", "Prod"} -> Differentiable(sp, Arg(f), x) /\ Differentiable(sp, Arg2(f), x)
    [] f.op = "Quot" -> /\ Differentiable(sp, Arg(f), x) /\ Differentiable(sp, Arg2(f), x)
                        /\ XKnown(Val(sp, Arg2(f), x)) /\ Val(sp, Arg2(f), x) # QZero
    [] f.op = "SepSum" -> /\ Differentiable(Part(sp, 1), Arg(f), PartVec(sp, x, 1))
                          /\ Differentiable(Part(sp, 2), Arg2(f), PartVec(sp, x, 2))
    [] OTHER -> FALSE

\* x and x +- h d lie strictly inside one smooth piece of f (pieces are convex or complements of balls;
\* h is small against the lattice): the central-difference error of the VALUES then decays like h^2
SmoothAlong(sp, f, x, d, h) ==
  LET pc == Piece(sp, f, x) IN
  /\ \A j \in 1..Len(pc) : pc[j] # Edge
  /\ Piece(sp, f, RAdd(x, RScal(h, d))) = pc
  /\ Piece(sp, f, RSub(x, RScal(h, d))) = pc

StencilH(m) == IF m = 1 THEN Q(1, 8) ELSE Q(1, 2)       \* wide enough to keep 4th powers inside 32 bits
\* directional derivative of x |-> Val(f, x) along d, or NaN when the stencil is not exact here
DirDeriv(sp, f, x, d) ==
  LET deg == PolyDeg(sp, f)
      m   == IF deg <= 2 THEN 1 ELSE 2
      P(k) == RAdd(x, RScal(QMul(QI(k), StencilH(m)), d))
      pc  == Piece(sp, f, x)
      ok  == /\ deg <= 4
             \* the exact clause is stated on the quarter lattice with integer directions (32-bit rationals)
             /\ \A i \in 1..Len(x) : x[i][2] <= 4 /\ d[i][2] = 1
             \* 4th powers of the 5-point stencil stay inside 32 bits: half lattice, moderate size
             /\ deg > 2 => QLe(NormSq(sp, x), QI(64)) /\ \A i \in 1..Len(x) : x[i][2] <= 2
             /\ \A j \in 1..Len(pc) : pc[j] # Edge
             /\ \A k \in (-m)..m : Piece(sp, f, P(k)) = pc /\ XKnown(Val(sp, f, P(k))) /\ ~Big(Val(sp, f, P(k)))
  IN IF ~ok THEN NaN
     ELSE IF m = 1
       THEN QDiv(QSub(Val(sp, f, P(1)), Val(sp, f, P(-1))), QMul(QI(2), StencilH(m)))
       ELSE QDiv(QAdd(QSub(Val(sp, f, P(-2)), Val(sp, f, P(2))),
                      QMul(QI(8), QSub(Val(sp, f, P(1)), Val(sp, f, P(-1))))),
                 QMul(QI(12), StencilH(m)))
UnitVec(n, i) == Strict([j \in 1..n |-> IF j = i THEN QOne ELSE QZero])
\* Riesz representative in the inner product of sp ; NaN entries when not available
Grad(sp, f, x) ==
  Strict([i \in 1..Len(x) |-> LET dd == DirDeriv(sp, f, x, UnitVec(Len(x), i))
                              IN IF XKnown(dd) THEN QDiv(dd, sp.W[i]) ELSE NaN])
GradKnown(g) == \A i \in 1..Len(g) : XKnown(g[i])

(* ----- indicator functionals just outside their set -------------------------- *)
\* b + t d lies OUTSIDE dom f for EVERY t > 0 (decided exactly: b on the boundary of the closed convex set, d an
\* outward direction; radial directions d = b for the unit balls).  The implementation is then asked at
\* t = 2^-30, 2^-40: the value must be +inf - none of these classes documents a tolerance.
RECURSIVE OutsideRay(_, _, _, _)
OutsideRay(sp, f, b, d) ==
  LET N == Len(b) IN
  CASE f.op = "IndZero"    -> RIsZero(b) /\ ~RIsZero(d)
    [] f.op = "IndBox"     -> \E i \in 1..N : (b[i] = f.c /\ d[i][1] > 0) \/ (b[i] = f.s /\ d[i][1] < 0)
    [] f.op = "IndNonneg"  -> \E i \in 1..N : b[i] = QZero /\ d[i][1] < 0
    [] f.op = "IndBall1"   -> d = b /\ AbsSumW(sp, b) = QOne
    [] f.op = "IndBall2"   -> d = b /\ NormSq(sp, b) = QOne
    [] f.op = "IndBallInf" -> d = b /\ MaxAbs(b) = QOne
    [] f.op = "IndGroupBall" -> d = b /\ \E i \in 1..NGrp(sp) :
                                  (IF PExp(f) = 1 THEN GAbs1(sp, b, i) ELSE IF PExp(f) = 3 THEN GMaxA(sp, b, i)
                                   ELSE GSq(sp, b, i)) = QOne
    [] f.op = "Translate"  -> OutsideRay(sp, Arg(f), RSub(b, f.u), d)
    [] f.op = "AddConst"   -> OutsideRay(sp, Arg(f), b, d)
    \* conjugates of constant and affine functionals: dom f* is the single point 0 resp. u
    [] f.op = "Conj" /\ Arg(f).op = "Const" -> RIsZero(b) /\ ~RIsZero(d)
    [] f.op = "Conj" /\ Arg(f).op = "Quad" /\ Arg(f).v = <<>> -> b = Arg(f).u /\ ~RIsZero(d)
    [] OTHER -> FALSE

(* ----- is_linear: the flag claims a linear map; the VALUES can refute it ----- *)
\* (weak reading: the specification never asserts linearity, it only exhibits lattice points where
\*  additivity, homogeneity or f(0) = 0 fail)
LinearRefutedAt(sp, f, x, y) ==
  LET a == Val(sp, f, x)  b == Val(sp, f, y)  c == Val(sp, f, RAdd(x, y))
      d == Val(sp, f, RScal(QI(2), x))  z == Val(sp, f, RConst(Len(x), QZero))
  IN \/ XKnown(a) /\ XKnown(b) /\ XKnown(c) /\ ~Big(a) /\ ~Big(b) /\ c # QAdd(a, b)
     \/ XKnown(a) /\ XKnown(d) /\ ~Big(a) /\ d # QMul(QI(2), a)
     \/ XKnown(z) /\ z # QZero
     \/ a = Inf \/ b = Inf

(* ----- NumericalGradient: the documented difference quotients of the values --- *)
\* method m in {"forward", "backward", "central"}, step h ; entry i is the quotient along e_i, represented in
\* the inner product of sp (divided by the weight), so that <grad, d> is the difference quotient along d
NumGrad(sp, f, x, m, h) ==
  LET N == Len(x)
      P(i, t) == RAdd(x, RScal(t, UnitVec(N, i)))
      quo(i) == CASE m = "forward"  -> QDiv(QSub(Val(sp, f, P(i, h)), Val(sp, f, x)), h)
                  [] m = "backward" -> QDiv(QSub(Val(sp, f, x), Val(sp, f, P(i, QNeg(h)))), h)
                  [] m = "central"  -> QDiv(QSub(Val(sp, f, P(i, QHalf(h))), Val(sp, f, P(i, QNeg(QHalf(h))))), h)
      ok(i) == /\ XKnown(Val(sp, f, x)) /\ ~Big(Val(sp, f, x))
               /\ \A t \in {h, QNeg(h), QHalf(h), QNeg(QHalf(h))} : XKnown(Val(sp, f, P(i, t))) /\ ~Big(Val(sp, f, P(i, t)))
  IN Strict([i \in 1..N |-> IF ok(i) THEN QDiv(quo(i), sp.W[i]) ELSE NaN])

(* ------------------- Lipschitz bound: checked, never computed ---------- *)
LipschitzHolds(sp, L, x, y, gx, gy) ==
  LET dg == RSub(gx, gy)  dx == RSub(x, y) IN
  IF ~Tame(dg) \/ ~Tame(dx) \/ Big(QSq(L)) \/ Big(NormSq(sp, dx)) THEN TRUE        \* beyond 32 bits: no exact verdict
  ELSE QLe(NormSq(sp, dg), QMul(QSq(L), NormSq(sp, dx)))
=============================================================================

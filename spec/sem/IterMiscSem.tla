---------------------------- MODULE IterMiscSem ----------------------------
(***************************************************************************)
(* Layer A (extension stage "itermisc"): reference semantics of the        *)
(* iterative solvers that no listed property pins down by VALUE:           *)
(*                                                                         *)
(*   conjugate_gradient  textbook CG for  A x = b  with A self-adjoint in  *)
(*                       the space's OWN inner product <u,v>_w = sum w u v *)
(*   exp_zero_seq        documented closed form  t_m = base^(-m-1)         *)
(*   gauss_newton        (iteratively regularised) Gauss-Newton step: the  *)
(*                       linearised problem at x_k, Tikhonov-regularised   *)
(*                       with t_k around the start value x_0, solved       *)
(*                       EXACTLY (Cramer):                                 *)
(*        x_{k+1} = x_0 + (J*J + t_k I)^-1 J* (y - F(x_k) - J (x_0 - x_k)) *)
(*   mlem / osmlem       x <- x / s_i (.) A_i*(g_i / A_i x), subsets in    *)
(*                       order i = 1..M, s_i = A_i* 1 unless given         *)
(*   poisson_log_likelihood  sum(data log x - x)  (relational clauses in   *)
(*                       the trace specification, log is irrational)       *)
(*   landweber           `projection` option:  x+ = P(x - omega A*(A x - y)) *)
(*   kaczmarz            `omega` scalar / per operator, blocks in order      *)
(*   dca                 x+ = grad f*( grad g(x) )                         *)
(*   prox_dca            x+ = prox_{gamma f}( x + gamma grad g(x) )        *)
(*                                                                         *)
(* Written from the docstrings of odl/solvers/iterative/{iterative,        *)
(* statistical}.py, odl/solvers/nonsmooth/difference_convex.py and the     *)
(* cited textbooks - never from the loop bodies (those are layer C,        *)
(* spec/impl/IterMiscImpl.tla).  Numbers, vectors, matrices, functionals,  *)
(* Prox / Grad / GradConj / Val are those of SolverSem (C11/C12) - reused. *)
(*                                                                         *)
(* An adjoint between spaces with constant weights c_dom, c_ran is         *)
(* A* = (c_ran / c_dom) A^T : the factor is the instance field `ac`.       *)
(***************************************************************************)
EXTENDS SolverSem

RIsZero(u) == \A i \in 1..Len(u) : SIsZero(u[i])
RPos(u) == \A i \in 1..Len(u) : SPos(u[i])
RNonNeg(u) == \A i \in 1..Len(u) : u[i][1] >= 0 /\ u[i][2] > 0
RConst(a, n) == [i \in 1..n |-> a]
\* TLC keeps function constructors lazy and re-evaluates them at every application: force vectors / matrices once
FV(v) == v \o <<>>
FM(M) == [i \in 1..Len(M) |-> M[i] \o <<>>] \o <<>>

(* --------------------- weighted inner product ---------------------------- *)
WDot(w, u, v) == SSum([i \in 1..Len(u) |-> SMul(w[i], SMul(u[i], v[i]))])
SelfAdjointW(A, w) == \A i \in 1..Len(A), j \in 1..Len(A) : SMul(w[i], A[i][j]) = SMul(w[j], A[j][i])

(* --------------------- small exact linear algebra ------------------------ *)
MatT(M) == [j \in 1..Len(M[1]) |-> [i \in 1..Len(M) |-> M[i][j]]]
MatMul(A, B) == [i \in 1..Len(A) |-> [j \in 1..Len(B[1]) |-> SSum([k \in 1..Len(B) |-> SMul(A[i][k], B[k][j])])]]
MatScal(a, M) == [i \in 1..Len(M) |-> RScal(a, M[i])]
MatAdd(A, B) == [i \in 1..Len(A) |-> RAdd(A[i], B[i])]
MatAddDiag(M, t) == [i \in 1..Len(M) |-> [j \in 1..Len(M) |-> IF i = j THEN SAdd(M[i][j], t) ELSE M[i][j]]]
Det(M) ==
  CASE Len(M) = 1 -> M[1][1]
    [] Len(M) = 2 -> SSub(SMul(M[1][1], M[2][2]), SMul(M[1][2], M[2][1]))
    [] Len(M) = 3 ->
         SAdd(SSub(SMul(M[1][1], SSub(SMul(M[2][2], M[3][3]), SMul(M[2][3], M[3][2]))),
                   SMul(M[1][2], SSub(SMul(M[2][1], M[3][3]), SMul(M[2][3], M[3][1])))),
              SMul(M[1][3], SSub(SMul(M[2][1], M[3][2]), SMul(M[2][2], M[3][1]))))
ReplCol(M, c, u) == [i \in 1..Len(M) |-> [j \in 1..Len(M) |-> IF j = c THEN u[i] ELSE M[i][j]]]
\* Cramer's rule, square systems of size 1..3 with Det # 0
Solve(M, u) == LET d == Det(M) IN [j \in 1..Len(M) |-> SDiv(Det(ReplCol(M, j, u)), d)]

(* --------------------- conjugate gradient -------------------------------- *)
\* state [x, r, p, done]; done = the residual (or the curvature <p, A p>) vanished: the method has terminated, the
\* iterate does not move any more.
CGStart(A, b, x0) ==
  LET r == FV(RSub(b, MatVec(A, x0))) IN [x |-> x0, r |-> r, p |-> r, done |-> RIsZero(r)]
CGNext(A, w, s) ==
  IF s.done THEN s
  ELSE LET Ap  == FV(MatVec(A, s.p))
           pAp == WDot(w, s.p, Ap)
       IN  IF SIsZero(pAp) THEN [s EXCEPT !.done = TRUE]
           ELSE LET rr == WDot(w, s.r, s.r)
                    al == SDiv(rr, pAp)
                    r1 == FV(RSub(s.r, RScal(al, Ap)))
                    be == SDiv(WDot(w, r1, r1), rr)
                IN  [x |-> FV(RAdd(s.x, RScal(al, s.p))), r |-> r1, p |-> FV(RAdd(r1, RScal(be, s.p))), done |-> RIsZero(r1)]
RECURSIVE CGIter(_, _, _, _, _)
CGIter(A, w, b, x0, k) == IF k = 0 THEN CGStart(A, b, x0) ELSE CGNext(A, w, CGIter(A, w, b, x0, k - 1))
\* number of steps really taken within k requested ones (= number of callback invocations)
RECURSIVE CGTaken(_, _, _, _, _)
CGTaken(A, w, b, x0, k) ==
  IF k = 0 THEN 0
  ELSE LET s == CGIter(A, w, b, x0, k - 1)
       IN  IF s.done \/ SIsZero(WDot(w, s.p, MatVec(A, s.p))) THEN CGTaken(A, w, b, x0, k - 1)
           ELSE 1 + CGTaken(A, w, b, x0, k - 1)

(* --------------------- zero sequences ------------------------------------ *)
\* exp_zero_seq(base): "t_m = base^(-m-1)" (closed form; m = 0, 1, ...) - the recurrence t_m = t_(m-1) / base holds.
\* (the docstring's "t_0 = 1.0" contradicts its own closed form; the closed form is taken as the statement.)
ExpZero(base, m) == SInv(SPowN(base, m + 1))

(* --------------------- Gauss-Newton --------------------------------------- *)
\* operator  F(x) = L (x .^ pw) + M x   (M = <<>>: absent), Jacobian J(x) = L diag(pw x^(pw-1)) + M
GNF(I, x) == LET y == MatVec(I.L, RPow(x, I.pw)) IN IF I.M = <<>> THEN y ELSE RAdd(y, MatVec(I.M, x))
GNJ(I, x) ==
  LET JL == [i \in 1..Len(I.L) |-> [j \in 1..Len(x) |->
               IF I.pw = 1 THEN I.L[i][j] ELSE SMul(I.L[i][j], SMul(<<I.pw, 1>>, SPowN(x[j], I.pw - 1)))]]
  IN  IF I.M = <<>> THEN JL ELSE MatAdd(JL, I.M)
GNStep(I, x0, x, t) ==
  LET J  == FM(GNJ(I, x))
      Ja == FM(MatScal(I.ac, MatT(J)))                       \* the adjoint
      v  == FV(RSub(RSub(I.b, GNF(I, x)), MatVec(J, RSub(x0, x))))
      u  == FV(MatVec(Ja, v))
      N  == FM(MatAddDiag(MatMul(Ja, J), t))
  IN  FV(RAdd(x0, Solve(N, u)))
RECURSIVE GNIter(_, _, _)
GNIter(I, x0, k) == IF k = 0 THEN x0 ELSE GNStep(I, x0, GNIter(I, x0, k - 1), I.ts[k])

(* --------------------- MLEM / OSMLEM -------------------------------------- *)
\* I.As, I.gs : operators / data per subset; I.sens = <<>> (default A_i* 1) or one vector per subset
OSSens(I, i) == IF I.sens = <<>> THEN RScal(I.ac, MatTVec(I.As[i], ROne(Len(I.As[i])))) ELSE I.sens[i]
OSSub(I, i, x) ==
  LET q == FV(RDivE(I.gs[i], FV(MatVec(I.As[i], x))))
      s == FV(OSSens(I, i))
  IN  FV(RMul(x, RDivE(FV(RScal(I.ac, MatTVec(I.As[i], q))), s)))
RECURSIVE OSFrom(_, _, _)
OSFrom(I, x, i) == IF i > Len(I.As) THEN x ELSE OSFrom(I, OSSub(I, i, x), i + 1)
\* the sequence of ALL partial iterates of one sweep (callback is invoked after every partial update)
RECURSIVE OSPartials(_, _, _)
OSPartials(I, x, i) == IF i > Len(I.As) THEN <<>> ELSE LET y == OSSub(I, i, x) IN <<y>> \o OSPartials(I, y, i + 1)
\* applicability of the documented formula: no division by zero on the way
OSDefined(I, x) ==
  \A i \in 1..Len(I.As) :
     LET xi == IF i = 1 THEN x ELSE OSPartials(I, x, 1)[i - 1]
     IN  RPos(MatVec(I.As[i], xi)) /\ RPos(OSSens(I, i))

(* --------------------- Landweber / Kaczmarz with options -------------------- *)
\* (the plain iterations are C11 / C12 material - SolverSem!LandweberStep, KaczFrom; here: the `projection` option of
\*  landweber "modify the iterates in each iteration ... modify it in-place" and the `omega` spellings of kaczmarz
\*  "a single float ... same step for all operators, otherwise separate steps", with the adjoint factor ac)
\* I.proj : "none" | "nonneg" (x -> max(x, 0)) | "box01" (clip to [0, 1]);  I.om : relaxation parameter(s)
ProjOf(pk, u) ==
  CASE pk = "none"   -> u
    [] pk = "nonneg" -> [q \in 1..Len(u) |-> SMax(u[q], QZero)]
    [] pk = "box01"  -> [q \in 1..Len(u) |-> SMin(SMax(u[q], QZero), QOne)]
InProj(pk, u) == ProjOf(pk, u) = u
LWStep(I, x) ==
  FV(ProjOf(I.proj, FV(RSub(x, RScal(SMul(I.om[1], I.ac), MatTVec(I.L, FV(RSub(MatVec(I.L, x), I.b))))))))
KZSub(I, i, x) ==
  FV(RSub(x, RScal(SMul(I.om[i], I.ac), MatTVec(I.As[i], FV(RSub(MatVec(I.As[i], x), I.gs[i]))))))
RECURSIVE KZFrom(_, _, _)
KZFrom(I, x, i) == IF i > Len(I.As) THEN x ELSE KZFrom(I, KZSub(I, i, x), i + 1)
RECURSIVE KZPartials(_, _, _)
KZPartials(I, x, i) == IF i > Len(I.As) THEN <<>> ELSE LET y == KZSub(I, i, x) IN <<y>> \o KZPartials(I, y, i + 1)

(* --------------------- d.c. algorithms ------------------------------------- *)
\* f of kind "L2sq" for dca (f*.gradient closed form GradConj of SolverSem), any prox-able kind for prox_dca;
\* g of kind "L2sq" (gradient)
DCAStep(f, g, x) == FV(GradConj(f, FV(Grad(g, x))))
PDCAStep(f, g, gam, x) == FV(Prox(f, gam, FV(RAdd(x, RScal(gam, FV(Grad(g, x)))))))
DCObj(f, g, x) == SSub(Val(f, x), Val(g, x))
=============================================================================

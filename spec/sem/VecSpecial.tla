----------------------------- MODULE VecSpecial -----------------------------
(***************************************************************************)
(* Layer A (C01, "x all element values"): entry-wise arithmetic of the     *)
(* vector operations on the EXTENDED reals that a floating-point array can *)
(* hold:  finite rationals <<n,d>> (d > 0) and the tokens Inf, NegInf, NaN *)
(* of ExactNum.  Written from IEEE-754 / the documentation ("out = a*x1 +  *)
(* b*x2 ... equal the entry-wise result computed independently"), not from *)
(* the code.  Zeros are unsigned here (0.0 == -0.0 numerically): inputs    *)
(* never contain a negative zero and no operation below divides by a       *)
(* computed zero.                                                          *)
(*                                                                         *)
(* One abstract case is a record [op, a, b, x, y]:                         *)
(*   single-operand forms   smul (a*x)  sdiv (x/a)  neg  pos  copy  assign *)
(*                          sadd (x+a)  ssub (x-a)  rsub (a-x)  rdiv (a/x) *)
(*   two-operand forms      add sub mul div (entry-wise)                   *)
(*                          lincomb (a*x + b*y)                            *)
(* Expect(c) is the entry-wise IEEE result.  For lincomb with a ZERO       *)
(* coefficient the documentation is ambiguous about a non-finite entry of  *)
(* the operand that is multiplied by zero (IEEE: 0*inf = NaN; the library  *)
(* documents that zero assignment does not read its operands): Allowed(c)  *)
(* then also admits the result with that term dropped (weaker reading).    *)
(***************************************************************************)
EXTENDS ExactNum, Sequences, Integers, FiniteSets

XSign(p)   == IF p[1] > 0 THEN 1 ELSE IF p[1] < 0 THEN -1 ELSE 0      \* Inf -> 1, NegInf -> -1, NaN -> 0
XInfOf(s)  == IF s > 0 THEN Inf ELSE NegInf
XNeg(p)    == IF p = NaN THEN NaN ELSE <<-p[1], p[2]>>

XMul(p, q) == IF p = NaN \/ q = NaN THEN NaN
              ELSE IF IsFinite(p) /\ IsFinite(q) THEN QMul(p, q)
              ELSE IF XSign(p) = 0 \/ XSign(q) = 0 THEN NaN             \* 0 * inf
              ELSE XInfOf(XSign(p) * XSign(q))

XAdd(p, q) == IF p = NaN \/ q = NaN THEN NaN
              ELSE IF IsFinite(p) /\ IsFinite(q) THEN QAdd(p, q)
              ELSE IF ~IsFinite(p) /\ ~IsFinite(q) THEN (IF p = q THEN p ELSE NaN)   \* inf - inf
              ELSE IF IsFinite(p) THEN q ELSE p
XSub(p, q) == XAdd(p, XNeg(q))

\* division; a finite zero divisor is +0.0 (inputs carry no negative zero)
XDiv(p, q) == IF p = NaN \/ q = NaN THEN NaN
              ELSE IF IsFinite(p) /\ IsFinite(q)
                     THEN (IF q[1] # 0 THEN QDiv(p, q) ELSE IF p[1] = 0 THEN NaN ELSE XInfOf(XSign(p)))
              ELSE IF ~IsFinite(p) /\ ~IsFinite(q) THEN NaN                           \* inf / inf
              ELSE IF IsFinite(p) THEN QZero                                          \* finite / inf
              ELSE (IF XSign(q) >= 0 THEN p ELSE XNeg(p))                             \* inf / finite (incl. +0)

Map1(f(_), x)       == [i \in 1..Len(x) |-> f(x[i])]
Map2(f(_, _), x, y) == [i \in 1..Len(x) |-> f(x[i], y[i])]

SingleOps == {"smul", "sdiv", "neg", "pos", "copy", "assign", "sadd", "ssub", "rsub", "rdiv"}
PairOps   == {"add", "sub", "mul", "div", "lincomb"}

Expect(c) ==
  CASE c.op = "smul"   -> [i \in 1..Len(c.x) |-> XMul(c.a, c.x[i])]
    [] c.op = "sdiv"   -> [i \in 1..Len(c.x) |-> XDiv(c.x[i], c.a)]
    [] c.op = "neg"    -> [i \in 1..Len(c.x) |-> XNeg(c.x[i])]
    [] c.op \in {"pos", "copy", "assign"} -> c.x
    [] c.op = "sadd"   -> [i \in 1..Len(c.x) |-> XAdd(c.x[i], c.a)]
    [] c.op = "ssub"   -> [i \in 1..Len(c.x) |-> XSub(c.x[i], c.a)]
    [] c.op = "rsub"   -> [i \in 1..Len(c.x) |-> XSub(c.a, c.x[i])]
    [] c.op = "rdiv"   -> [i \in 1..Len(c.x) |-> XDiv(c.a, c.x[i])]
    [] c.op = "add"    -> Map2(XAdd, c.x, c.y)
    [] c.op = "sub"    -> Map2(XSub, c.x, c.y)
    [] c.op = "mul"    -> Map2(XMul, c.x, c.y)
    [] c.op = "div"    -> Map2(XDiv, c.x, c.y)
    [] c.op = "lincomb" -> [i \in 1..Len(c.x) |-> XAdd(XMul(c.a, c.x[i]), XMul(c.b, c.y[i]))]

\* entry-wise alternatives for a lincomb with a zero coefficient: the term may be dropped
DropZero(c) ==
  [i \in 1..Len(c.x) |->
     IF c.a = QZero /\ c.b = QZero THEN QZero
     ELSE IF c.b = QZero THEN XMul(c.a, c.x[i])
     ELSE IF c.a = QZero THEN XMul(c.b, c.y[i])
     ELSE XAdd(XMul(c.a, c.x[i]), XMul(c.b, c.y[i]))]

HasZeroCoeff(c) == c.op = "lincomb" /\ (c.a = QZero \/ c.b = QZero)

\* entry i of an observed vector is acceptable
EntryOK(c, i, v) == v = Expect(c)[i] \/ (HasZeroCoeff(c) /\ v = DropZero(c)[i])
Allowed(c, val) == Len(val) = Len(c.x) /\ \A i \in 1..Len(val) : EntryOK(c, i, val[i])
BadEntries(c, val) == IF Len(val) # Len(c.x) THEN {0} ELSE {i \in 1..Len(val) : ~EntryOK(c, i, val[i])}

(* ------------------------------- laws ---------------------------------- *)
\* checked by TLC on the value alphabet of MC_VecSpecial (sanity of the reference itself)
Laws(V) ==
  /\ \A p, q \in V : XAdd(p, q) = XAdd(q, p) /\ XMul(p, q) = XMul(q, p)
  /\ \A p \in V : XNeg(XNeg(p)) = p /\ XMul(p, QOne) = p /\ XAdd(p, QZero) = p /\ XDiv(p, QOne) = p
  /\ \A p, q \in V : XSub(p, q) = XNeg(XSub(q, p))
  /\ \A p, q \in V : XNeg(XMul(p, q)) = XMul(XNeg(p), q)
  /\ \A p \in V : (p # NaN) => (XMul(p, QZero) = (IF IsFinite(p) THEN QZero ELSE NaN))
  /\ \A p, q \in V : (IsFinite(p) /\ IsFinite(q)) =>
        /\ XAdd(p, q) = QAdd(p, q) /\ XMul(p, q) = QMul(p, q)
        /\ (q[1] # 0 => XDiv(p, q) = QDiv(p, q))
  \* a non-finite entry never becomes finite non-zero by scaling with a non-zero finite scalar
  /\ \A p, q \in V : (~IsFinite(p) /\ IsFinite(q) /\ q[1] # 0) => ~IsFinite(XMul(q, p))
=============================================================================

------------------------------- MODULE FDSem -------------------------------
(***************************************************************************)
(* Layer A (property C13): reference semantics of ODL's finite-difference   *)
(* operators, written from the documentation and the textbook definitions   *)
(* (DESIGN Appendix E4), NOT from odl/discr/diff_ops.py.                    *)
(*                                                                         *)
(*   D+ f_i = f_{i+1} - f_i      D- f_i = f_i - f_{i-1}                     *)
(*   D0 f_i = (f_{i+1} - f_{i-1}) / 2                                        *)
(*                                                                         *)
(* applied to the array extended by ONE cell beyond each end by the named  *)
(* boundary rule, divided by the cell side h.  Every operator is affine in  *)
(* the input:  out = M f + c * aff  (c = pad constant), so a configuration  *)
(* is decided for all inputs by its full matrix M and its affine vector.    *)
(* Matrices are sequences of rows; all entries exact rationals (ExactNum).  *)
(*                                                                         *)
(* Documented choices (marked <> in DESIGN E4):                             *)
(*  - 'symmetric' = edge-inclusive mirror f_0 = f_1, f_{n+1} = f_n (what   *)
(*    code and tests mean by the name), the same values as 'order0';        *)
(*  - 'order2' = "second-order accurate edges": first and last row are the *)
(*    one-sided three-point differences for EVERY method (for the central  *)
(*    method this coincides with the central stencil on the quadratic      *)
(*    extrapolation - law Order2CentralIsQuadraticExtension below);        *)
(*  - '<pad>_adjoint' with method m is DEFINED as minus the transpose of    *)
(*    '<pad>' with the adjoint method (forward <-> backward, central).      *)
(*  - length restrictions (order2 needs 3 entries, everything needs 2) are *)
(*    part of the reference: outside them the operator is undefined and     *)
(*    the implementation is expected to refuse.                             *)
(***************************************************************************)
EXTENDS ExactNum

Methods  == {"forward", "backward", "central"}
BasePads == {"constant", "symmetric", "periodic", "order0", "order1", "order2"}
AdjPads  == {"symmetric_adjoint", "order0_adjoint", "order1_adjoint", "order2_adjoint"}
Pads     == BasePads \cup AdjPads

IsAdjPad(p) == p \in AdjPads
BaseOf(p) == CASE p = "symmetric_adjoint" -> "symmetric"
               [] p = "order0_adjoint"    -> "order0"
               [] p = "order1_adjoint"    -> "order1"
               [] p = "order2_adjoint"    -> "order2"
               [] OTHER                   -> p
\* the documented pairing of a scheme with the scheme of its adjoint
AdjMethod(m) == CASE m = "forward" -> "backward" [] m = "backward" -> "forward" [] OTHER -> "central"
AdjPad(p) == CASE p = "constant" -> "constant"
               [] p = "periodic" -> "periodic"
               [] p \in AdjPads  -> BaseOf(p)
               [] OTHER          -> p \o "_adjoint"

MinLen(p) == IF BaseOf(p) = "order2" THEN 3 ELSE 2
Admissible(p, n) == n >= MinLen(p)
\* an operator is linear unless it pads with a non-zero constant
IsLinearCfg(p, c) == ~(p = "constant" /\ c # CZero)

(* ----------------------------- small linear algebra ---------------------- *)
QTwo == QI(2)
\* Identity on sequences / matrices.  (For TLC: SubSeq materialises a lazily defined sequence,
\* so that its entries are computed once instead of at every access.)
Eager(s)  == SubSeq(s, 1, Len(s))
EagerM(M) == Eager([i \in 1..Len(M) |-> Eager(M[i])])
Unit(n, j)  == [k \in 1..n |-> IF k = j THEN QOne ELSE QZero]
ZeroV(n)    == [k \in 1..n |-> QZero]
ZeroM(r, s) == [i \in 1..r |-> [j \in 1..s |-> QZero]]
NRows(M)    == Len(M)
NCols(M)    == IF Len(M) = 0 THEN 0 ELSE Len(M[1])
Transpose(M) == [j \in 1..NCols(M) |-> [i \in 1..NRows(M) |-> M[i][j]]]
MNeg(M)     == [i \in 1..NRows(M) |-> [j \in 1..NCols(M) |-> QNeg(M[i][j])]]
MScale(q, M) == [i \in 1..NRows(M) |-> [j \in 1..NCols(M) |-> QMul(q, M[i][j])]]
MAdd(A, B)  == [i \in 1..NRows(A) |-> [j \in 1..NCols(A) |-> QAdd(A[i][j], B[i][j])]]
MSub(A, B)  == MAdd(A, MNeg(B))
VQScale(q, v) == [i \in 1..Len(v) |-> QMul(q, v[i])]
VQAdd(u, v) == [i \in 1..Len(u) |-> QAdd(u[i], v[i])]
\* rational matrix times rational vector
MatVecQ(M, v) == [i \in 1..NRows(M) |-> QSumSeq([j \in 1..Len(v) |-> QMul(M[i][j], v[j])])]
\* rational matrix times Gaussian-rational vector
MatVecC(M, v) == [i \in 1..NRows(M) |-> CSumSeq([j \in 1..Len(v) |-> CScal(M[i][j], v[j])])]

(* ----------------------------- one axis, h = 1 -------------------------- *)
\* value of the one-cell extension at position t \in 0..n+1 (positions 1..n are the array)
ExtAt(pad, c, f, t) ==
  LET n == Len(f) IN
  IF t >= 1 /\ t <= n THEN f[t]
  ELSE CASE pad = "constant" -> c
         [] pad = "periodic" -> IF t < 1 THEN f[n] ELSE f[1]
         [] pad = "symmetric" -> IF t < 1 THEN f[1] ELSE f[n]
         [] pad = "order0"    -> IF t < 1 THEN f[1] ELSE f[n]
         [] pad = "order1"    -> IF t < 1 THEN QSub(QMul(QTwo, f[1]), f[2])
                                          ELSE QSub(QMul(QTwo, f[n]), f[n - 1])
         \* quadratic extrapolation (used only by the law about the central method)
         [] pad = "order2"    -> IF t < 1 THEN QAdd(QSub(QMul(QI(3), f[1]), QMul(QI(3), f[2])), f[3])
                                          ELSE QAdd(QSub(QMul(QI(3), f[n]), QMul(QI(3), f[n - 1])), f[n - 2])

StencilAt(method, pad, c, f, i) ==
  CASE method = "forward"  -> QSub(ExtAt(pad, c, f, i + 1), ExtAt(pad, c, f, i))
    [] method = "backward" -> QSub(ExtAt(pad, c, f, i), ExtAt(pad, c, f, i - 1))
    [] method = "central"  -> QHalf(QSub(ExtAt(pad, c, f, i + 1), ExtAt(pad, c, f, i - 1)))

\* second-order accurate one-sided three-point differences
OneSidedLeft(f)  == QHalf(QSub(QSub(QMul(QI(4), f[2]), QMul(QI(3), f[1])), f[3]))
OneSidedRight(f) == LET n == Len(f) IN
                    QHalf(QAdd(QSub(QMul(QI(3), f[n]), QMul(QI(4), f[n - 1])), f[n - 2]))

\* base (non-adjoint) padding modes, cell side 1, rational data
FD1(method, pad, c, f) ==
  LET n == Len(f) IN
  [i \in 1..n |->
     IF pad = "order2" /\ i = 1 THEN OneSidedLeft(f)
     ELSE IF pad = "order2" /\ i = n THEN OneSidedRight(f)
     ELSE StencilAt(method, pad, c, f, i)]

\* the matrix of a linear-affine map on Q^n given as an operator on vectors: columns = responses
BaseMat(method, pad, n) ==
  LET cols == EagerM([j \in 1..n |-> FD1(method, pad, QZero, Eager(Unit(n, j)))])
  IN  EagerM([i \in 1..n |-> [j \in 1..n |-> cols[j][i]]])
BaseAff(method, pad, n) == Eager(FD1(method, pad, QOne, Eager(ZeroV(n))))     \* coefficient of the pad constant

FDMat1(method, pad, n) ==
  IF IsAdjPad(pad) THEN EagerM(MNeg(Transpose(BaseMat(AdjMethod(method), BaseOf(pad), n))))
                   ELSE BaseMat(method, pad, n)
FDAff1(method, pad, n) == IF IsAdjPad(pad) THEN Eager(ZeroV(n)) ELSE BaseAff(method, pad, n)

\* with cell side h (a rational)
FDMat(method, pad, n, h) == EagerM(MScale(QInv(h), FDMat1(method, pad, n)))
FDAff(method, pad, n, h) == Eager(VQScale(QInv(h), FDAff1(method, pad, n)))

\* FD(method, pad, c, f, h): the partial derivative of a 1-d array f of Gaussian rationals
FD(method, pad, c, f, h) ==
  LET n == Len(f)
      lin == MatVecC(FDMat(method, pad, n, h), f)
      aff == FDAff(method, pad, n, h)
  IN  [i \in 1..n |-> CAdd(lin[i], CScal(aff[i], c))]

(* ----------------------------- Laplacian, one axis ---------------------- *)
\* three-point stencil f_{i+1} - 2 f_i + f_{i-1} on the extension; admissible modes as documented
LapPads == {"constant", "symmetric", "periodic", "order0", "symmetric_adjoint", "order0_adjoint"}
Lap1(pad, c, f) ==
  [i \in 1..Len(f) |->
     QAdd(QSub(ExtAt(pad, c, f, i + 1), QMul(QTwo, f[i])), ExtAt(pad, c, f, i - 1))]
LapBaseMat(pad, n) ==
  LET cols == EagerM([j \in 1..n |-> Lap1(pad, QZero, Eager(Unit(n, j)))])
  IN  EagerM([i \in 1..n |-> [j \in 1..n |-> cols[j][i]]])
LapMat1(pad, n) == IF IsAdjPad(pad) THEN EagerM(Transpose(LapBaseMat(BaseOf(pad), n))) ELSE LapBaseMat(pad, n)
LapAff1(pad, n) == IF IsAdjPad(pad) THEN Eager(ZeroV(n)) ELSE Eager(Lap1(pad, QOne, Eager(ZeroV(n))))
LapMat(pad, n, h) == EagerM(MScale(QInv(QMul(h, h)), LapMat1(pad, n)))
LapAff(pad, n, h) == Eager(VQScale(QInv(QMul(h, h)), LapAff1(pad, n)))

(* ----------------------------- N-d arrays ------------------------------- *)
\* an array is its flat C-order sequence together with its shape <<n_1, ..., n_d>>
RECURSIVE ProdFrom(_, _)
ProdFrom(shape, a) == IF a > Len(shape) THEN 1 ELSE shape[a] * ProdFrom(shape, a + 1)
Size(shape) == ProdFrom(shape, 1)
Stride(shape, a) == ProdFrom(shape, a + 1)
Coord(shape, k, a) == ((k - 1) \div Stride(shape, a)) % shape[a]      \* 0-based coordinate of flat index k
SameLine(shape, a, k, l) ==
  k - Coord(shape, k, a) * Stride(shape, a) = l - Coord(shape, l, a) * Stride(shape, a)

\* coordinate along axis a of every flat index, and the flat index of the first entry of its line
CoordTab(shape, a) == Eager([k \in 1..Size(shape) |-> Coord(shape, k, a)])
LineTab(shape, a)  == Eager([k \in 1..Size(shape) |-> k - Coord(shape, k, a) * Stride(shape, a)])

\* apply  y = M x + c*aff  along axis a to every line of a Gaussian-rational array
AxisApply(M, aff, c, shape, a, arr) ==
  LET st == Stride(shape, a)
      n  == shape[a]
      co == CoordTab(shape, a)
      ln == LineTab(shape, a)
  IN  [k \in 1..Size(shape) |->
         CAdd(CSumSeq([t \in 1..n |-> CScal(M[co[k] + 1][t], arr[ln[k] + (t - 1) * st])]),
              CScal(aff[co[k] + 1], c))]
\* the same map as a full matrix on flat arrays
AxisMat(M, shape, a) ==
  LET N  == Size(shape)
      co == CoordTab(shape, a)
      ln == LineTab(shape, a)
  IN  EagerM([k \in 1..N |-> [l \in 1..N |->
         IF ln[k] = ln[l] THEN M[co[k] + 1][co[l] + 1] ELSE QZero]])
AxisAff(aff, shape, a) == Eager([k \in 1..Size(shape) |-> aff[Coord(shape, k, a) + 1]])

CVAdd(u, v) == [i \in 1..Len(u) |-> CAdd(u[i], v[i])]
CVZero(n)   == [i \in 1..n |-> CZero]
RECURSIVE CVSumSeq(_, _)
CVSumSeq(vs, n) == IF vs = <<>> THEN CVZero(n) ELSE CVAdd(Head(vs), CVSumSeq(Tail(vs), n))

AdmissibleShape(pad, shape) == \A a \in 1..Len(shape) : Admissible(pad, shape[a])

\* partial derivative along axis a; hs = per-axis cell sides
PD(method, pad, c, hs, shape, a, arr) ==
  AxisApply(FDMat(method, pad, shape[a], hs[a]), FDAff(method, pad, shape[a], hs[a]), c, shape, a, arr)
\* gradient: tuple of partial derivatives
Grad(method, pad, c, hs, shape, arr) ==
  [a \in 1..Len(shape) |-> PD(method, pad, c, hs, shape, a, arr)]
\* divergence of a tuple of arrays: sum of the partial derivatives of the components
Div(method, pad, c, hs, shape, arrs) ==
  CVSumSeq([a \in 1..Len(shape) |-> PD(method, pad, c, hs, shape, a, arrs[a])], Size(shape))
\* Laplacian: sum over the axes of the three-point second differences
Lap(pad, c, hs, shape, arr) ==
  CVSumSeq([a \in 1..Len(shape) |->
              AxisApply(LapMat(pad, shape[a], hs[a]), LapAff(pad, shape[a], hs[a]), c, shape, a, arr)],
           Size(shape))

\* reference adjoints on uniformly weighted spaces: the transposes of the matrices above
PDAdj(method, pad, hs, shape, a, arr) ==
  AxisApply(Transpose(FDMat(method, pad, shape[a], hs[a])), ZeroV(shape[a]), CZero, shape, a, arr)
GradAdj(method, pad, hs, shape, arrs) ==
  CVSumSeq([a \in 1..Len(shape) |-> PDAdj(method, pad, hs, shape, a, arrs[a])], Size(shape))
DivAdj(method, pad, hs, shape, arr) ==
  [a \in 1..Len(shape) |-> PDAdj(method, pad, hs, shape, a, arr)]
LapAdj(pad, hs, shape, arr) ==
  CVSumSeq([a \in 1..Len(shape) |->
              AxisApply(Transpose(LapMat(pad, shape[a], hs[a])), ZeroV(shape[a]), CZero, shape, a, arr)],
           Size(shape))

(* ----------------------------- full matrices on flat arrays ------------- *)
RECURSIVE ConcatSeqs(_)
ConcatSeqs(ss) == IF ss = <<>> THEN <<>> ELSE Head(ss) \o ConcatSeqs(Tail(ss))
RECURSIVE MSumSeq(_, _, _)
MSumSeq(Ms, r, s) == IF Ms = <<>> THEN ZeroM(r, s) ELSE MAdd(Head(Ms), MSumSeq(Tail(Ms), r, s))
RECURSIVE VQSumSeq(_, _)
VQSumSeq(vs, n) == IF vs = <<>> THEN ZeroV(n) ELSE VQAdd(Head(vs), VQSumSeq(Tail(vs), n))

PDMat(method, pad, hs, shape, a) == AxisMat(FDMat(method, pad, shape[a], hs[a]), shape, a)
PDAffV(method, pad, hs, shape, a) == AxisAff(FDAff(method, pad, shape[a], hs[a]), shape, a)
\* gradient: the component blocks stacked (rows of component 1, then component 2, ...)
GradMat(method, pad, hs, shape) == ConcatSeqs([a \in 1..Len(shape) |-> PDMat(method, pad, hs, shape, a)])
GradAffV(method, pad, hs, shape) == ConcatSeqs([a \in 1..Len(shape) |-> PDAffV(method, pad, hs, shape, a)])
\* divergence: the component blocks side by side
DivMat(method, pad, hs, shape) ==
  LET N == Size(shape)
      blocks == [a \in 1..Len(shape) |-> PDMat(method, pad, hs, shape, a)]
  IN  [k \in 1..N |-> ConcatSeqs([a \in 1..Len(shape) |-> blocks[a][k]])]
DivAffV(method, pad, hs, shape) ==
  VQSumSeq([a \in 1..Len(shape) |-> PDAffV(method, pad, hs, shape, a)], Size(shape))
LapMatND(pad, hs, shape) ==
  MSumSeq([a \in 1..Len(shape) |-> AxisMat(LapMat(pad, shape[a], hs[a]), shape, a)], Size(shape), Size(shape))
LapAffV(pad, hs, shape) ==
  VQSumSeq([a \in 1..Len(shape) |-> AxisAff(LapAff(pad, shape[a], hs[a]), shape, a)], Size(shape))
=============================================================================

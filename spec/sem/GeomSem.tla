------------------------------ MODULE GeomSem ------------------------------
(***************************************************************************)
(* Layer A for property C19: acquisition geometries as RIGID MOTIONS over  *)
(* exact rationals.  Written from the property statement, DESIGN E10 and   *)
(* the documented conventions of the ODL geometry classes (class and       *)
(* method docstrings), not from the code.                                  *)
(*                                                                         *)
(*   scalar   Q   = <<n, d>>            (ExactNum)                         *)
(*   vector   tuple of Q  (length 2 or 3)                                  *)
(*   matrix   tuple of row vectors                                         *)
(*   angle    [bc, bs, m]  : the angle  m * atan2(bs, bc)  with a rational *)
(*            point (bc, bs) of the unit circle; (cos, sin) of the angle   *)
(*            is the m-th power of bc + i bs  -- again rational.           *)
(*   param    [q, c, s]    : detector parameter; flat directions use the   *)
(*            length q, curved directions the arc angle atan2(s, c).       *)
(*                                                                         *)
(* Geometry descriptor  g  (all fields always present):                    *)
(*   cls  "par2d" | "par3dax" | "par3deu" | "fan" | "cone"                 *)
(*   t    translation                                                      *)
(*   p0   det_pos_init argument (parallel classes; <<>> = class default)   *)
(*   k    rotation axis, rational unit vector (axis classes)               *)
(*   e    src_to_det_init, rational unit vector (<<>> = default)           *)
(*   ax   explicit initial detector axes (<<>> = default frame)            *)
(*   rs, rd  source / detector radius;  z0 offset_along_axis               *)
(*   dz   pitch * theta0 / (2 pi) for the base angle theta0 (helical)      *)
(*   det  [kind |-> "flat" | "circ" | "cyl" | "sph", r |-> Q]              *)
(*   ss, ds  constant source / detector shifts (d, t [, axis])             *)
(*   mat  init matrix rows for frommatrix (<<>> = plain constructor)       *)
(***************************************************************************)
EXTENDS ExactNum

(* ---------------- rational arithmetic with lcm-based addition ---------- *)
\* keeps intermediate denominators at the lcm instead of the product
QAddL(p, q) ==
  IF p[2] = q[2] THEN QNorm(p[1] + q[1], p[2])
  ELSE LET g == Gcd(p[2], q[2])
       IN  QNorm(p[1] * (q[2] \div g) + q[1] * (p[2] \div g), (p[2] \div g) * q[2])
QSubL(p, q) == QAddL(p, QNeg(q))

(* ------------------------------ vectors -------------------------------- *)
\* Vectors and matrices are built as EXPLICIT tuples: TLC evaluates <<...>> eagerly, whereas a function
\* constructor [i \in 1..n |-> e] is re-evaluated on every index access (quadratic blow-up when nested).
Tup(n, F(_)) == CASE n = 0 -> <<>>
                  [] n = 1 -> <<F(1)>>
                  [] n = 2 -> <<F(1), F(2)>>
                  [] n = 3 -> <<F(1), F(2), F(3)>>
                  [] n = 4 -> <<F(1), F(2), F(3), F(4)>>
GAdd(u, v)   == Tup(Len(u), LAMBDA i : QAddL(u[i], v[i]))
GSub(u, v)   == Tup(Len(u), LAMBDA i : QSubL(u[i], v[i]))
GScale(a, v) == Tup(Len(v), LAMBDA i : QMul(a, v[i]))
GNeg(v)      == Tup(Len(v), LAMBDA i : QNeg(v[i]))
RECURSIVE GDotFrom(_, _, _)
GDotFrom(u, v, i) == IF i > Len(u) THEN QZero
                     ELSE QAddL(QMul(u[i], v[i]), GDotFrom(u, v, i + 1))
GDot(u, v)   == GDotFrom(u, v, 1)
GNorm2(v)    == GDot(v, v)
GCross(u, v) == << QSubL(QMul(u[2], v[3]), QMul(u[3], v[2])),
                   QSubL(QMul(u[3], v[1]), QMul(u[1], v[3])),
                   QSubL(QMul(u[1], v[2]), QMul(u[2], v[1])) >>
GZeroV(n)    == Tup(n, LAMBDA i : QZero)
GUnitV(n, j) == Tup(n, LAMBDA i : IF i = j THEN QOne ELSE QZero)
\* normalisation of a vector whose squared length is the square of a rational
GHasRatNorm(v) == QIsSquare(GNorm2(v)) /\ GNorm2(v) # QZero
GUnit(v)     == GScale(QInv(QSqrt(GNorm2(v))), v)

(* ------------------------------ matrices ------------------------------- *)
MCol(M, j)    == Tup(Len(M), LAMBDA i : M[i][j])
MatVec(M, v)  == Tup(Len(M), LAMBDA i : GDot(M[i], v))
MTranspose(M) == Tup(Len(M[1]), LAMBDA j : MCol(M, j))
MatMul(A, B)  == LET Bt == MTranspose(B) IN Tup(Len(A), LAMBDA i : Tup(Len(Bt), LAMBDA j : GDot(A[i], Bt[j])))
MIdent(n)     == Tup(n, LAMBDA i : GUnitV(n, i))
MAdd(A, B)    == Tup(Len(A), LAMBDA i : GAdd(A[i], B[i]))
MScale(a, A)  == Tup(Len(A), LAMBDA i : GScale(a, A[i]))
MDet2(M)      == QSubL(QMul(M[1][1], M[2][2]), QMul(M[1][2], M[2][1]))
\* det via the triple product; the cross product of two rows of a rotation is the third row,
\* so intermediate values normalise back to small denominators
MDet3(M)      == GDot(M[1], GCross(M[2], M[3]))
MDet(M)       == IF Len(M) = 2 THEN MDet2(M) ELSE MDet3(M)
IsRotation(M) == /\ MatMul(M, MTranspose(M)) = MIdent(Len(M))
                 /\ MDet(M) = QOne

(* ------------------------------- angles -------------------------------- *)
\* (cos, sin) of m * atan2(bs, bc):  powers of the unit complex number bc + i bs
CsMul(a, b) == << QSubL(QMul(a[1], b[1]), QMul(a[2], b[2])),
                  QAddL(QMul(a[1], b[2]), QMul(a[2], b[1])) >>
RECURSIVE CsPowN(_, _)
CsPowN(a, n) == IF n = 0 THEN <<QOne, QZero>> ELSE CsMul(a, CsPowN(a, n - 1))
CsPow(a, m)  == IF m >= 0 THEN CsPowN(a, m) ELSE CsPowN(<<a[1], QNeg(a[2])>>, -m)
AngCS(a)     == CsPow(<<a.bc, a.bs>>, a.m)
OnCircle(cs) == QAddL(QSq(cs[1]), QSq(cs[2])) = QOne

(* ------------------------------ rotations ------------------------------ *)
\* counter-clockwise rotation in the plane
Rot2(cs) == << <<cs[1], QNeg(cs[2])>>, <<cs[2], cs[1]>> >>
RotZ(cs) == << <<cs[1], QNeg(cs[2]), QZero>>, <<cs[2], cs[1], QZero>>, <<QZero, QZero, QOne>> >>
RotX(cs) == << <<QOne, QZero, QZero>>, <<QZero, cs[1], QNeg(cs[2])>>, <<QZero, cs[2], cs[1]>> >>
\* Euler angles in ZXZ order: Z(phi) X(theta) Z(psi)
Euler(c1, c2, c3) == MatMul(RotZ(c1), MatMul(RotX(c2), RotZ(c3)))
\* cross-product matrix [k]x
CrossMat(k) == << <<QZero, QNeg(k[3]), k[2]>>, <<k[3], QZero, QNeg(k[1])>>, <<QNeg(k[2]), k[1], QZero>> >>
OuterMat(k) == Tup(3, LAMBDA i : Tup(3, LAMBDA j : QMul(k[i], k[j])))
\* Rodrigues: counter-clockwise rotation about the unit vector k
Rodrigues(k, cs) ==
  MAdd(MAdd(MScale(cs[1], MIdent(3)), MScale(cs[2], CrossMat(k))),
       MScale(QSubL(QOne, cs[1]), OuterMat(k)))

\* documented rotation_matrix_from_to for UNIT vectors: the minimal rotation taking u to v
RotFromTo2(u, v) ==
  Rot2(<< GDot(u, v), QSubL(QMul(u[1], v[2]), QMul(u[2], v[1])) >>)
PerpVec(u) == IF u[1] = QZero /\ u[2] = QZero THEN <<QOne, QZero, QZero>>
              ELSE GUnit(<<QNeg(u[2]), u[1], QZero>>)
RotFromTo3(u, v) ==
  LET w == GCross(u, v)
      c == GDot(u, v)
  IN  IF w = GZeroV(3)
        THEN (IF QLt(QZero, c) THEN MIdent(3)
              ELSE Rodrigues(PerpVec(u), <<QNeg(QOne), QZero>>))
        ELSE \* I + [w]x + [w]x^2 / (1 + c)
             MAdd(MAdd(MIdent(3), CrossMat(w)),
                  MScale(QInv(QAddL(QOne, c)), MatMul(CrossMat(w), CrossMat(w))))
RotFromTo(u, v) == IF Len(u) = 2 THEN RotFromTo2(u, v) ELSE RotFromTo3(u, v)

(* ------------------------- class defaults (documented) ----------------- *)
NDim(cls) == IF cls \in {"par2d", "fan"} THEN 2 ELSE 3
IsParallel(cls) == cls \in {"par2d", "par3dax", "par3deu"}
IsAxisCls(cls)  == cls \in {"par3dax", "cone"}
E2x == GUnitV(2, 1)    E2y == GUnitV(2, 2)
E3x == GUnitV(3, 1)    E3y == GUnitV(3, 2)    E3z == GUnitV(3, 3)
DefPos(cls)  == IF NDim(cls) = 2 THEN E2y ELSE E3y           \* det_pos_init / src_to_det_init
DefAxes(cls) == IF NDim(cls) = 2 THEN <<E2x>> ELSE <<E3x, E3z>>
DefAxis      == E3z

\* The frame at angle 0: [t, c2d (centre -> detector ref point, before rotation), c2s (centre -> source),
\*  axes (unit detector axes), k (rotation axis), e (unit source->detector)]
\* following the constructor documentation of each class.
Frame(g) ==
  LET n == NDim(g.cls) IN
  IF g.mat # <<>> THEN
    \* frommatrix: the left (n x n) block transforms the class defaults, a last column translates
    LET A   == Tup(n, LAMBDA i : Tup(n, LAMBDA j : g.mat[i][j]))
        tr  == IF Len(g.mat[1]) > n THEN Tup(n, LAMBDA i : g.mat[i][n + 1]) ELSE GZeroV(n)
        pos == MatVec(A, DefPos(g.cls))
        axs == Tup(Len(DefAxes(g.cls)), LAMBDA j : GUnit(MatVec(A, DefAxes(g.cls)[j])))
        kk  == IF IsAxisCls(g.cls) THEN GUnit(MatVec(A, DefAxis)) ELSE <<>>
    IN  [t |-> tr, pos |-> pos, e |-> GUnit(pos), axes |-> axs, k |-> kk]
  ELSE IF IsAxisCls(g.cls) THEN
    \* defaults are rotated by the minimal rotation from (0,0,1) to the axis
    LET rot == RotFromTo3(DefAxis, g.k)
        given == IF g.cls = "cone" THEN g.e ELSE g.p0
        pos == IF given = <<>> THEN MatVec(rot, DefPos(g.cls)) ELSE given
        axs == IF g.ax = <<>> THEN Tup(2, LAMBDA j : MatVec(rot, DefAxes(g.cls)[j])) ELSE g.ax
    IN  [t |-> g.t, pos |-> pos, e |-> IF g.cls = "cone" THEN pos ELSE <<>>, axes |-> axs, k |-> g.k]
  ELSE
    \* par2d / fan / par3deu: defaults are rotated by the minimal rotation from the default
    \* position vector to the (normalised) given one
    LET given == IF g.cls = "fan" THEN g.e ELSE g.p0
        pos == IF given = <<>> THEN DefPos(g.cls) ELSE given
        axs == IF g.ax # <<>> THEN g.ax
               ELSE IF given = <<>> \/ pos = GZeroV(n) THEN DefAxes(g.cls)
               ELSE LET rot == RotFromTo(DefPos(g.cls), GUnit(pos))
                    IN  Tup(Len(DefAxes(g.cls)), LAMBDA j : MatVec(rot, DefAxes(g.cls)[j]))
    IN  [t |-> g.t, pos |-> pos, e |-> IF g.cls = "fan" THEN pos ELSE <<>>, axes |-> axs, k |-> <<>>]

(* ------------------------------ queries -------------------------------- *)
\* The "...F" operators take the frame f = Frame(g) and the rotation R = RotAtF(g, f, a) as
\* arguments (so that a caller evaluates them once); the plain names are the public interface.

\* rotation matrix at the motion parameter a (an angle, or <<a1,a2,a3>> for Euler geometries)
RotAtF(g, f, a) ==
  CASE g.cls \in {"par2d", "fan"}     -> Rot2(AngCS(a))
    [] g.cls \in {"par3dax", "cone"}  -> Rodrigues(f.k, AngCS(a))
    [] g.cls = "par3deu"              -> Euler(AngCS(a[1]), AngCS(a[2]), AngCS(a[3]))

\* detector normal: 2d (normal, tangent) right-handed; 3d (t1, t2, normal) right-handed
\* UNIT normal; the two axes of a 2-d detector need only be linearly independent (sheared and left-handed
\* frames are legal), so the cross product of the unit tangents is normalised (|t1 x t2| rational in scenarios)
Normal(axes) == IF Len(axes) = 1 THEN << axes[1][2], QNeg(axes[1][1]) >>
                ELSE LET c == GCross(axes[1], axes[2]) IN IF GNorm2(c) = QOne THEN c ELSE GUnit(c)

\* intrinsic detector surface point for parameter u (sequence of params)
Surface(det, axes, u) ==
  LET n == Normal(axes) IN
  CASE det.kind = "flat" /\ Len(axes) = 1 -> GScale(u[1].q, axes[1])
    [] det.kind = "flat" /\ Len(axes) = 2 -> GAdd(GScale(u[1].q, axes[1]), GScale(u[2].q, axes[2]))
    [] det.kind = "circ" ->      \* r sin(phi) a + r (1 - cos(phi)) n
         GAdd(GScale(QMul(det.r, u[1].s), axes[1]),
              GScale(QMul(det.r, QSubL(QOne, u[1].c)), n))
    [] det.kind = "cyl" ->       \* r sin(phi) a1 + h a2 + r (1 - cos(phi)) n
         GAdd(GAdd(GScale(QMul(det.r, u[1].s), axes[1]), GScale(u[2].q, axes[2])),
              GScale(QMul(det.r, QSubL(QOne, u[1].c)), n))
    [] det.kind = "sph" ->       \* r sin(phi)cos(th) a1 + r sin(th) a2 + r (1 - cos(phi)cos(th)) n
         GAdd(GAdd(GScale(QMul(det.r, QMul(u[1].s, u[2].c)), axes[1]),
                   GScale(QMul(det.r, u[2].s), axes[2])),
              GScale(QMul(det.r, QSubL(QOne, QMul(u[1].c, u[2].c))), n))

\* direction of motion of the point p under the counter-clockwise rotation (tangent to the trajectory)
Tangent(f, p) == IF Len(p) = 2 THEN << QNeg(p[2]), p[1] >> ELSE GCross(f.k, p)

\* height along the axis at angle a (helical motion): z0 + pitch * theta / 2pi = z0 + dz * m
AxisShift(g, a) == QAddL(g.z0, QMul(g.dz, QI(a.m)))

Pad3(v) == IF Len(v) >= 3 THEN v[3] ELSE QZero

\* centre -> source and centre -> detector reference point at angle 0 (divergent beams), incl. shifts:
\* source shifts along (detector-to-source, tangent [, axis]), detector shifts along
\* (source-to-detector, tangent [, axis])
CenterToSrc0(g, f) ==
  GAdd(GScale(QNeg(g.rs), f.e),
       GAdd(GScale(g.ss[1], GNeg(f.e)), GScale(g.ss[2], Tangent(f, GNeg(f.e)))))
CenterToDet0(g, f) ==
  GAdd(GScale(g.rd, f.e),
       GAdd(GScale(g.ds[1], f.e), GScale(g.ds[2], Tangent(f, f.e))))

SrcPosF(g, f, R, a) ==
  LET base == GAdd(f.t, MatVec(R, CenterToSrc0(g, f)))
  IN  IF g.cls = "cone" THEN GAdd(base, GScale(QAddL(AxisShift(g, a), Pad3(g.ss)), f.k)) ELSE base

DetRefPointF(g, f, R, a) ==
  IF IsParallel(g.cls) THEN GAdd(f.t, MatVec(R, f.pos))
  ELSE LET base == GAdd(f.t, MatVec(R, CenterToDet0(g, f)))
       IN  IF g.cls = "cone" THEN GAdd(base, GScale(QAddL(AxisShift(g, a), Pad3(g.ds)), f.k)) ELSE base

DetAxesF(f, R) == Tup(Len(f.axes), LAMBDA j : MatVec(R, f.axes[j]))

DetPointF(g, f, R, a, u) == GAdd(DetRefPointF(g, f, R, a), MatVec(R, Surface(g.det, f.axes, u)))

\* un-normalised detector -> source vector (divergent beams); unit ray direction (parallel beams)
DetToSrcF(g, f, R, a, u) ==
  IF IsParallel(g.cls) THEN MatVec(R, Normal(f.axes))
  ELSE GSub(SrcPosF(g, f, R, a), DetPointF(g, f, R, a, u))

RotAt(g, a)       == RotAtF(g, Frame(g), a)
SrcPos(g, a)      == LET f == Frame(g) IN SrcPosF(g, f, RotAtF(g, f, a), a)
DetRefPoint(g, a) == LET f == Frame(g) IN DetRefPointF(g, f, RotAtF(g, f, a), a)
DetAxes(g, a)     == LET f == Frame(g) IN DetAxesF(f, RotAtF(g, f, a))
DetPoint(g, a, u) == LET f == Frame(g) IN DetPointF(g, f, RotAtF(g, f, a), a, u)
DetToSrc(g, a, u) == LET f == Frame(g) IN DetToSrcF(g, f, RotAtF(g, f, a), a, u)

(* ---------------------- broadcasting shape rule ------------------------ *)
\* NumPy broadcasting of two shapes; <<-1>> = incompatible
RECURSIVE PadLeft(_, _)
PadLeft(s, n) == IF Len(s) >= n THEN s ELSE PadLeft(<<1>> \o s, n)
Bcast2(s, t) ==
  IF s = <<-1>> \/ t = <<-1>> THEN <<-1>>
  ELSE LET n == Max2(Len(s), Len(t))
           a == PadLeft(s, n)
           b == PadLeft(t, n)
       IN  IF \A i \in 1..n : a[i] = b[i] \/ a[i] = 1 \/ b[i] = 1
             THEN [i \in 1..n |-> IF a[i] = 1 THEN b[i] ELSE a[i]]
             ELSE <<-1>>
RECURSIVE BcastAll(_)
BcastAll(ss) == IF Len(ss) = 0 THEN <<>> ELSE Bcast2(Head(ss), BcastAll(Tail(ss)))
\* documented output shape of det_point_position / det_to_src:
\*   broadcast(bcast_mparam, bcast_dparam).shape + (ndim,)
\* mshapes / dshapes: the shapes of the (one or several) motion / detector parameter arrays
BcastShape(mshapes, dshapes, ndim) ==
  LET b == Bcast2(BcastAll(mshapes), BcastAll(dshapes))
  IN  IF b = <<-1>> THEN <<-1>> ELSE b \o <<ndim>>
\* single-argument functions: broadcast(*mparam).shape + tail
MShape(mshapes, tail) ==
  LET b == BcastAll(mshapes) IN IF b = <<-1>> THEN <<-1>> ELSE b \o tail

(* ------------------------- slicing by angle index ---------------------- *)
\* Python slice semantics on a grid of n angles: indices (1-based here) kept by [start:stop:step],
\* "none" bounds given as the token 99 ; step > 0
SliceNorm(i, n) == IF i < 0 THEN Max2(i + n, 0) ELSE Min2(i, n)
RECURSIVE SliceFrom(_, _, _)
SliceFrom(lo, hi, st) == IF lo >= hi THEN <<>> ELSE <<lo + 1>> \o SliceFrom(lo + st, hi, st)
SliceIdx(n, start, stop, step) ==
  LET lo == IF start = 99 THEN 0 ELSE SliceNorm(start, n)
      hi == IF stop = 99 THEN n ELSE SliceNorm(stop, n)
  IN  SliceFrom(lo, hi, step)

(* ------------------------ detector coverage ---------------------------- *)
\* squared radius of the smallest cylinder about the rotation axis (through the origin, along the last
\* coordinate) that contains the volume: the largest x^2 + y^2 over ALL corners of the domain
CornerRho2(c) == QAddL(QSq(c[1]), QSq(c[2]))
Rho2(corners) == QMaxSeq([i \in 1..Len(corners) |-> CornerRho2(corners[i])])
\* Parallel beam, detector axis perpendicular to the rays: a point at distance rho from the axis is projected to
\* a detector coordinate of magnitude at most rho, and the bound is attained during a half turn
ParHalfWidth2(rho2) == rho2

\* Divergent beam, flat detector through the detector reference point and perpendicular to the
\* central ray: a point at distance rho from the rotation centre is projected to a detector
\* coordinate of magnitude at most  rho (rs + rd) / sqrt(rs^2 - rho^2)   (tangent ray), and this
\* bound is attained.  Squared to stay rational.
CoverHalfWidth2(rho2, rs, rd) ==
  QDiv(QMul(rho2, QSq(QAddL(rs, rd))), QSubL(QSq(rs), rho2))
\* vertical: a point at height z and horizontal distance <= rho from the axis, nearest to the source,
\* is projected to height  |z| (rs + rd) / (rs - rho)
CoverHalfHeight(z, rs, rd, rho) == QDiv(QMul(QAbs(z), QAddL(rs, rd)), QSubL(rs, rho))
=============================================================================

------------------------------ MODULE BlockOpSem ------------------------------
(***************************************************************************)
(* Layer A: reference semantics of ODL's product-space BLOCK OPERATORS      *)
(* (odl/operator/pspace_ops.py), written from the docstrings:               *)
(*                                                                         *)
(*   ProductSpaceOperator([[A, B], [C, D]])([x, y]) = [A(x)+B(y), C(x)+D(y)]*)
(*      "0 or None means ignore, or the implicit zero operator";            *)
(*      domain / range inferred from the operators, "this requires each     *)
(*      column / row to contain at least one operator", otherwise domain= / *)
(*      range= must be given;                                               *)
(*   adjoint    = "the transpose of the matrix and the adjoint of each      *)
(*                component operator";                                      *)
(*   derivative = the matrix of the component derivatives at x_j, a linear  *)
(*                operator; a linear operator is its own derivative;        *)
(*   BroadcastOperator(op1, op2)(x) = [op1(x), op2(x)]                      *)
(*   ReductionOperator(op1, op2)(x) = op1(x[0]) + op2(x[1])                 *)
(*   DiagonalOperator(op1, op2)(x)  = [op1(x[0]), op2(x[1])]                *)
(*      each also as (operator, n) = n repetitions;                         *)
(*   ComponentProjection(space, i | list | slice)(x) = x_i / (x_i)_{i in I};*)
(*      its adjoint extends along the index and sets zero along the others; *)
(*   P[i, j] = the operator at (i, j) or 0;  P[i] = row i as a              *)
(*      ReductionOperator (missing entries = zero operators).               *)
(*                                                                         *)
(* Component operators are operator EXPRESSIONS of OpSem; a block adds the  *)
(* factor spaces it maps between.  Factor spaces: "V" = F^2 with weights W, *)
(* "S" = F^1 with weight 1.  The product space carries the plain sum of the *)
(* factor inner products (weighted PRODUCT spaces are documented as not     *)
(* supported).  An element of X_1 x ... x X_n is the tuple of its parts.    *)
(***************************************************************************)
EXTENDS OpSem

Dim(t)    == IF t = "V" THEN 2 ELSE 1
Wt(t)     == IF t = "V" THEN W ELSE <<QOne>>
ZeroOf(t) == VZeroN(Dim(t))

(* ------------------------------ blocks --------------------------------- *)
ZeroLeaf    == Leaf("zero", CZero, <<>>, <<>>)
IdLeaf      == Leaf("id", CZero, <<>>, <<>>)
MatLeaf(M)  == Leaf("mat", CZero, <<>>, M)
Blk(e, d, r) == [p |-> TRUE, e |-> e, d |-> d, r |-> r]       \* e : X_d -> X_r
NoB          == [p |-> FALSE, e |-> ZeroLeaf, d |-> "-", r |-> "-"]   \* None / 0 : absent block

\* value of a block at a point of its domain factor (the typed zero operator maps into its range factor)
BlkEval(b, x) == IF b.e.t = "zero" THEN ZeroOf(b.r) ELSE Eval(b.e, x)
BlkLinear(b)  == IsLinear(b.e)

(* ---------------------------- normal form ------------------------------ *)
(* Every block operator MEANS a matrix of blocks B (Len(ran) x Len(dom))    *)
(* between the product of the factors dom and the product of the factors    *)
(* ran; df / rf say that the domain / range is the single factor itself and *)
(* not a product space of length one (Broadcast / Reduction / projection on *)
(* an integer index).  k remembers which API the object offers.             *)
NF(k, B, dom, ran, df, rf) ==
  [ok |-> TRUE, why |-> "", k |-> k, B |-> B, dom |-> dom, ran |-> ran, df |-> df, rf |-> rf]
Rej(why) ==
  [ok |-> FALSE, why |-> why, k |-> "-", B |-> <<>>, dom |-> <<>>, ran |-> <<>>, df |-> FALSE, rf |-> FALSE]

ColTypes(B, j) == { B[i][j].d : i \in { i \in 1..Len(B) : B[i][j].p } }
RowTypes(B, i) == { B[i][j].r : j \in { j \in 1..Len(B[i]) : B[i][j].p } }
\* the documented inference of one factor: the common space of the operators present, or the given one
InferOne(S, given) ==
  LET T == S \cup (IF given = "" THEN {} ELSE {given})
  IN  IF T = {} THEN "empty" ELSE IF Cardinality(T) > 1 THEN "clash" ELSE CHOOSE t \in T : TRUE

NormPso(rows, gdom, gran) ==
  LET m == Len(rows)
      n == Len(rows[1])
      dom == [j \in 1..n |-> InferOne(ColTypes(rows, j), IF gdom = <<>> THEN "" ELSE gdom[j])]
      ran == [i \in 1..m |-> InferOne(RowTypes(rows, i), IF gran = <<>> THEN "" ELSE gran[i])]
  IN  IF \E j \in 1..n : dom[j] = "clash" THEN Rej("domains-disagree")
      ELSE IF \E i \in 1..m : ran[i] = "clash" THEN Rej("ranges-disagree")
      ELSE IF \E j \in 1..n : dom[j] = "empty" THEN Rej("empty-column")
      ELSE IF \E i \in 1..m : ran[i] = "empty" THEN Rej("empty-row")
      ELSE NF("pso", rows, dom, ran, FALSE, FALSE)

ProjNF(space, idx, one) ==
  NF("proj",
     [r \in 1..Len(idx) |-> [c \in 1..Len(space) |->
         IF c = idx[r] THEN Blk(IdLeaf, space[c], space[c]) ELSE NoB]],
     space, [r \in 1..Len(idx) |-> space[idx[r]]], FALSE, one)
EmbNF(space, idx, one) ==
  NF("emb",
     [r \in 1..Len(space) |-> [c \in 1..Len(idx) |->
         IF r = idx[c] THEN Blk(IdLeaf, space[r], space[r]) ELSE NoB]],
     [c \in 1..Len(idx) |-> space[idx[c]]], space, one, FALSE)

(* An operator DESCRIPTION (what the user writes):                         *)
(*   [k, rows, dom, ran, idx, one, rep]                                     *)
(*   k = "pso" : rows = tuple of rows of blocks; dom / ran = <<>> or the    *)
(*               explicitly given factor tuples                             *)
(*   k = "bc" | "red" | "diag" : rows = the operators (a tuple of blocks);  *)
(*               rep = n > 0 : written as (operator, n), rows = <<op>>      *)
(*   k = "proj" | "emb" : dom = the product space, idx = 1-based indices,   *)
(*               one = TRUE for an integer index (range is the factor)      *)
Desc(k, rows, dom, ran, idx, one, rep) ==
  [k |-> k, rows |-> rows, dom |-> dom, ran |-> ran, idx |-> idx, one |-> one, rep |-> rep]
Parts(o) == IF o.rep > 0 THEN [i \in 1..o.rep |-> o.rows[1]] ELSE o.rows

NormOp(o) ==
  CASE o.k = "pso"  -> NormPso(o.rows, o.dom, o.ran)
    [] o.k = "bc"   -> LET P == Parts(o)
                           N == NormPso([i \in 1..Len(P) |-> <<P[i]>>], <<>>, <<>>)
                       IN  IF N.ok THEN [N EXCEPT !.k = "bc", !.df = TRUE] ELSE N
    [] o.k = "red"  -> LET N == NormPso(<<Parts(o)>>, <<>>, <<>>)
                       IN  IF N.ok THEN [N EXCEPT !.k = "red", !.rf = TRUE] ELSE N
    [] o.k = "diag" -> LET P == Parts(o)
                           n == Len(P)
                           N == NormPso([i \in 1..n |-> [j \in 1..n |-> IF i = j THEN P[i] ELSE NoB]], o.dom, o.ran)
                       IN  IF N.ok THEN [N EXCEPT !.k = "diag"] ELSE N
    [] o.k = "proj" -> ProjNF(o.dom, o.idx, o.one)
    [] o.k = "emb"  -> EmbNF(o.dom, o.idx, o.one)

NRows(N) == Len(N.ran)
NCols(N) == Len(N.dom)
Present(N) == { <<i, j>> \in (1..NRows(N)) \X (1..NCols(N)) : N.B[i][j].p }

(* ------------------------------ evaluation ----------------------------- *)
RECURSIVE VSumSeq(_, _)
VSumSeq(s, z) == IF s = <<>> THEN z ELSE VAdd(Head(s), VSumSeq(Tail(s), z))

\* [A(x)]_i = sum_j A_ij(x_j); an absent block contributes nothing, a row without blocks gives zero
EvalN(N, x) ==
  [i \in 1..NRows(N) |->
     VSumSeq([j \in 1..NCols(N) |-> IF N.B[i][j].p THEN BlkEval(N.B[i][j], x[j]) ELSE ZeroOf(N.ran[i])],
             ZeroOf(N.ran[i]))]

LinearN(N) == \A p \in Present(N) : BlkLinear(N.B[p[1]][p[2]])

\* documented bookkeeping: shape of the matrix, len, size
ShapeN(N) == <<NRows(N), NCols(N)>>
LenN(N)   == IF N.k = "bc" THEN NRows(N) ELSE IF N.k \in {"red", "diag"} THEN NCols(N) ELSE NRows(N)
SizeN(N)  == IF N.k \in {"bc", "red", "diag"} THEN LenN(N) ELSE NRows(N) * NCols(N)

(* ---------------------------- aliased calls ---------------------------- *)
(* P(x, out=x).  The documentation of Operator.__call__ does not speak about *)
(* aliasing; what IS stated (property C10, and DiagonalOperator being what   *)
(* SeparableSum.proximal returns) is that scaling / multiplication /         *)
(* translation / assignment operators may be applied in place to their own   *)
(* input.  The claim made here is the weakest one that covers this: when     *)
(* row i reads x_i alone and every component is such an operator, the        *)
(* aliased call leaves in x what P(x) returns.  Nothing is claimed otherwise.*)
SeparableN(N) == N.dom = N.ran /\ ~N.df /\ ~N.rf /\ \A p \in Present(N) : p[1] = p[2]
RECURSIVE LeafKindsOf(_)
LeafKindsOf(e) == IF IsLeaf(e) THEN {e.t}
                  ELSE LeafKindsOf(e.l) \cup (IF e.t \in {"sum", "sub", "comp"} THEN LeafKindsOf(e.r) ELSE {})
AliasSafeLeaves == {"id", "scale", "mulvec", "zero", "const", "shift"}
DescBlocks(o) == IF o.k = "pso" THEN { o.rows[i][j] : i \in 1..Len(o.rows), j \in 1..Len(o.rows[1]) }
                 ELSE { o.rows[i] : i \in 1..Len(o.rows) }
RootLeafKinds(o) == UNION { LeafKindsOf(b.e) : b \in { b \in DescBlocks(o) : b.p } }
AliasClaimed(o, N) == o.k \in {"pso", "diag"} /\ SeparableN(N) /\ RootLeafKinds(o) \subseteq AliasSafeLeaves

(* ------------------------------- adjoint ------------------------------- *)
\* the adjoint of ONE block between weighted factors: the unique N with <Ax,y>_r = <x,Ny>_d
\* (TLC keeps function constructors lazy: ForceMat evaluates a matrix once and for all)
ForceMat(M) == [i \in 1..Len(M) |-> M[i] \o <<>>] \o <<>>
BlkMat(b) ==
  LET cols == [j \in 1..Dim(b.d) |-> BlkEval(b, Unit(Dim(b.d), j)) \o <<>>] \o <<>>
  IN  ForceMat([i \in 1..Dim(b.r) |-> [j \in 1..Dim(b.d) |-> cols[j][i]]])
BlkAdjMat(b) ==
  LET M == BlkMat(b)
  IN  ForceMat([i \in 1..Dim(b.d) |-> [j \in 1..Dim(b.r) |->
         CScal(QDiv(Wt(b.r)[j], Wt(b.d)[i]), CConj(M[j][i]))]])
AdjBlk(b) == IF b.p THEN Blk(MatLeaf(BlkAdjMat(b)), b.r, b.d) ELSE NoB

AdjKind(k) == CASE k = "pso" -> "pso" [] k = "bc" -> "red" [] k = "red" -> "bc" [] k = "diag" -> "diag"
                [] k = "proj" -> "emb" [] k = "emb" -> "proj" [] OTHER -> k
\* "taking the transpose of the matrix and the adjoint of each component operator"
AdjN(N) ==
  NF(AdjKind(N.k),
     ForceMat([j \in 1..NCols(N) |-> [i \in 1..NRows(N) |-> AdjBlk(N.B[i][j])]]),
     N.ran, N.dom, N.rf, N.df)

(* ------------------------------ derivative ----------------------------- *)
\* directional derivative of one block FROM ITS VALUES (exact 5-point stencil, polynomial degree <= 4)
BlkDirD(b, x, d) ==
  LET pt(k) == VAdd(x, VScal(CInt(k), d))
      terms == [k \in 1..5 |-> VScal(CR(StencilW[k]), BlkEval(b, pt(k - 3))) \o <<>>] \o <<>>
  IN  [i \in 1..Dim(b.r) |-> CSumSeq([k \in 1..5 |-> terms[k][i]])]
BlkJac(b, x) ==
  LET cols == [j \in 1..Dim(b.d) |-> BlkDirD(b, x, Unit(Dim(b.d), j)) \o <<>>] \o <<>>
  IN  ForceMat([i \in 1..Dim(b.r) |-> [j \in 1..Dim(b.d) |-> cols[j][i]]])
DerivBlk(b, x) == IF b.p THEN Blk(MatLeaf(BlkJac(b, x)), b.d, b.r) ELSE NoB
\* the matrix of the blocks' derivatives at x_j (same kind of object, linear)
DerivN(N, x) ==
  NF(N.k, ForceMat([i \in 1..NRows(N) |-> [j \in 1..NCols(N) |-> DerivBlk(N.B[i][j], x[j])]]),
     N.dom, N.ran, N.df, N.rf)

\* the Frechet derivative of the WHOLE operator from its values (what the documentation promises)
XAdd(x, y)  == [c \in 1..Len(x) |-> VAdd(x[c], y[c])]
XScal(a, x) == [c \in 1..Len(x) |-> VScal(a, x[c])]
DirDN(N, x, d) ==
  LET vals == [k \in 1..5 |-> ForceMat(EvalN(N, XAdd(x, XScal(CInt(k - 3), d))))] \o <<>>
  IN  [i \in 1..NRows(N) |-> [c \in 1..Dim(N.ran[i]) |->
         CSumSeq([k \in 1..5 |-> CMul(CR(StencilW[k]), vals[k][i][c])])]]

(* ------------------------------- inverse ------------------------------- *)
Det(M) == IF Len(M) = 1 THEN M[1][1] ELSE CSub(CMul(M[1][1], M[2][2]), CMul(M[1][2], M[2][1]))
InvMat(M) ==
  IF Len(M) = 1 THEN << <<CInv(M[1][1])>> >>
  ELSE LET di == CInv(Det(M))
       IN  << <<CMul(di, M[2][2]), CNeg(CMul(di, M[1][2]))>>,
              <<CNeg(CMul(di, M[2][1])), CMul(di, M[1][1])>> >>
BlkInvertible(b) == b.p /\ b.d = b.r /\ BlkLinear(b) /\ Det(BlkMat(b)) # CZero
InvBlk(b) == IF b.p THEN Blk(MatLeaf(ForceMat(InvMat(BlkMat(b)))), b.r, b.d) ELSE NoB
\* DiagonalOperator.inverse: "[[A^-1, 0], [0, B^-1]]"
InvDiagN(N) ==
  NF("diag", ForceMat([i \in 1..NRows(N) |-> [j \in 1..NCols(N) |-> InvBlk(N.B[i][j])]]), N.ran, N.dom, FALSE, FALSE)
DiagInvertible(N) == N.k = "diag" /\ \A i \in 1..NRows(N) : BlkInvertible(N.B[i][i])

(* ------------------------------- indexing ------------------------------ *)
\* a component operator on its own (what P[i, j], B[i], R[i], D[i] hand out)
PlainN(b) == NF("plain", << <<b>> >>, <<b.d>>, <<b.r>>, TRUE, TRUE)
Int0      == NF("int0", <<>>, <<>>, <<>>, FALSE, FALSE)          \* the integer 0
BlockN(N, i, j) == IF N.B[i][j].p THEN PlainN(N.B[i][j]) ELSE Int0
\* P[i]: "a row is extracted as a ReductionOperator", absent entries are zero operators
RowN(N, i) ==
  NF("red",
     << [j \in 1..NCols(N) |-> IF N.B[i][j].p THEN N.B[i][j] ELSE Blk(ZeroLeaf, N.dom[j], N.ran[i])] \o <<>> >>,
     N.dom, <<N.ran[i]>>, FALSE, TRUE)

(* ------------------------- product-space helpers ----------------------- *)
UnitX(types, j, k) == [c \in 1..Len(types) |-> IF c = j THEN Unit(Dim(types[c]), k) ELSE ZeroOf(types[c])]
BasisX(types) == { UnitX(types, j, k) : j \in 1..Len(types), k \in 1..2 } \ { UnitX(types, j, 2) : j \in { j \in 1..Len(types) : Dim(types[j]) = 1 } }
ZeroX(types)  == [c \in 1..Len(types) |-> ZeroOf(types[c])]
\* plain sum of the factor inner products
InnerX(u, v, types) ==
  CSumSeq([c \in 1..Len(types) |->
     CSumSeq([k \in 1..Dim(types[c]) |-> CScal(Wt(types[c])[k], CMul(u[c][k], CConj(v[c][k])))])])

(* -------------------- laws of the reference (for TLC) ------------------ *)
\* AdjN really is THE adjoint in the product inner products (on a basis: complete for linear maps)
LawAdjoint(N) ==
  LinearN(N) =>
    LET A == AdjN(N)
    IN  \A x \in BasisX(N.dom), y \in BasisX(N.ran) :
           InnerX(EvalN(N, x), y, N.ran) = InnerX(x, EvalN(A, y), N.dom)
LawBiAdjoint(N) ==
  LinearN(N) => LET AA == AdjN(AdjN(N)) IN \A x \in BasisX(N.dom) : EvalN(AA, x) = EvalN(N, x)
\* the matrix of block derivatives is the Frechet derivative of the whole map; linear maps are their own derivative
\* (stencil = FALSE skips the value-based side for operators already known to be linear: bounded instances use it for
\* the linear objects that .adjoint / .derivative hand out, whose linearity is checked by LinearityLaw)
LawDerivative(N, pts, stencil) ==
  \A x \in pts :
     LET D == DerivN(N, x)
     IN  \A d \in BasisX(N.dom) :
            /\ (stencil \/ ~LinearN(N)) => EvalN(D, d) = DirDN(N, x, d)
            /\ LinearN(N) => EvalN(D, d) = EvalN(N, d)
LawRow(N, pts) ==
  N.k = "pso" => \A x \in pts, i \in 1..NRows(N) : EvalN(RowN(N, i), x) = <<EvalN(N, x)[i]>>
\* P[i, j] is the (i, j) component: for a linear P, feeding x_j alone produces P[i, j](x_j) in row i
LawBlock(N, pts) ==
  (N.k = "pso" /\ LinearN(N)) =>
     \A x \in pts, i \in 1..NRows(N), j \in 1..NCols(N) :
        LET only == [c \in 1..NCols(N) |-> IF c = j THEN x[c] ELSE ZeroOf(N.dom[c])]
            bn   == BlockN(N, i, j)
        IN  EvalN(N, only)[i] = (IF bn.k = "int0" THEN ZeroOf(N.ran[i]) ELSE EvalN(bn, <<x[j]>>)[1])
LawInverse(N, pts) ==
  DiagInvertible(N) =>
     LET I == InvDiagN(N) IN \A x \in pts : EvalN(I, EvalN(N, x)) = x /\ EvalN(N, EvalN(I, x)) = x
=============================================================================

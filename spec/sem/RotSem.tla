------------------------------- MODULE RotSem -------------------------------
(***************************************************************************)
(* Layer A (EXT/rotphantom): reference semantics of the rotation utilities *)
(* of odl/tomo/util/utility.py and of the geometric phantoms of            *)
(* odl/phantom/geometric.py, written from the DOCSTRINGS (and the Wikipedia*)
(* formulas they cite), not from the code.  Exact arithmetic on rationals: *)
(* an angle is given by the rational point cs = <<cos, sin>> of the unit   *)
(* circle (Pythagorean triples, multiples of pi/2), axes are rational unit *)
(* vectors, so every documented value is a rational (lattice idea of C19;  *)
(* the vector / matrix algebra of GeomSem is reused, nothing is redone).   *)
(*                                                                         *)
(*   scalar Q = <<n, d>>; vector = tuple of Q; matrix = tuple of rows      *)
(*   NONE     = <<>>    (Python None);  OFFQ = <<0, 0>> = a number that is *)
(*              not on the lattice (NaN / inf / irrational observation)    *)
(***************************************************************************)
EXTENDS GeomSem, TLC

NONE == <<>>            \* a tuple, so that it can be compared with vectors / matrices / index tuples
OFFQ == <<0, 0>>
RECURSIVE Prod(_)
Prod(s) == IF s = <<>> THEN 1 ELSE Head(s) * Prod(Tail(s))
SeqAll(s, P(_)) == \A i \in 1..Len(s) : P(s[i])
IsUnitCS(cs) == OnCircle(cs)
CsNeg(cs)    == <<cs[1], QNeg(cs[2])>>            \* the angle -a
CsZero       == <<QOne, QZero>>
E3(j)        == GUnitV(3, j)

(* ====================== euler_matrix (docstring) ======================= *)
\* "phi: either 2D counter-clockwise rotation angle or first Euler angle; theta, psi: second and third Euler
\*  angles; if both are None a 2D rotation matrix is computed, otherwise a 3D rotation where None is equivalent
\*  to 0.0; the rotation is performed in ZXZ rotation order (Wikipedia, Euler angles, rotation matrix Z1 X2 Z3);
\*  the columns are the rotated unit vectors as seen from the canonical system"
EulerDoc(phi, theta, psi) ==
  IF theta = NONE /\ psi = NONE THEN Rot2(phi)
  ELSE Euler(phi, IF theta = NONE THEN CsZero ELSE theta, IF psi = NONE THEN CsZero ELSE psi)
EulerNDim(theta, psi) == IF theta = NONE /\ psi = NONE THEN 2 ELSE 3

(* ----- NumPy broadcasting of the angle arguments (documented: "the shape of the returned array is
   broadcast(phi, theta, psi).shape + (ndim, ndim)"); an argument is [sh |-> shape, v |-> flat C-order values] ---- *)
Pad(s, r) == [i \in 1..r |-> IF i <= r - Len(s) THEN 1 ELSE s[i - (r - Len(s))]]
BShape(a, b) ==
  LET r == Max2(Len(a), Len(b))  A == Pad(a, r)  B == Pad(b, r)
  IN  [i \in 1..r |-> IF A[i] = 1 THEN B[i] ELSE A[i]]
BCompatible(a, b) ==
  LET r == Max2(Len(a), Len(b))  A == Pad(a, r)  B == Pad(b, r)
  IN  \A i \in 1..r : A[i] = B[i] \/ A[i] = 1 \/ B[i] = 1
\* multi-index (0-based entries) of the flat C-order position k (0-based) in shape sh
RECURSIVE Unravel(_, _)
Unravel(k, sh) == IF sh = <<>> THEN <<>>
                  ELSE LET rest == Prod(Tail(sh)) IN <<k \div rest>> \o Unravel(k % rest, Tail(sh))
RECURSIVE Ravel(_, _)
Ravel(mi, sh) == IF sh = <<>> THEN 0 ELSE Head(mi) * Prod(Tail(sh)) + Ravel(Tail(mi), Tail(sh))
\* flat position in an argument of shape insh that position k of the broadcast shape outsh reads
SrcIndex(k, outsh, insh) ==
  LET r == Len(outsh)  P == Pad(insh, r)  mi == Unravel(k, outsh)
  IN  Ravel([i \in 1..r |-> IF P[i] = 1 THEN 0 ELSE mi[i]], P)
\* the argument None is the record NoArg (a record, so that it can be compared with arguments)
NoArg == [sh |-> <<>>, v |-> <<>>]
BGet(arg, k, outsh) == IF arg = NoArg THEN NONE ELSE arg.v[SrcIndex(k, outsh, arg.sh) + 1]
ShapeOf(arg) == arg.sh
\* the documented vectorised euler_matrix: [sh |-> broadcast shape, mats |-> matrices in C order]
EulerVec(phi, theta, psi) ==
  LET sh == BShape(BShape(ShapeOf(phi), ShapeOf(theta)), ShapeOf(psi))
  IN  [sh |-> sh,
       mats |-> [k \in 1..Prod(sh) |-> EulerDoc(BGet(phi, k - 1, sh), BGet(theta, k - 1, sh), BGet(psi, k - 1, sh))]]

(* ============== axis_rotation_matrix / axis_rotation (docstrings) ============== *)
\* "Matrix of the rotation around an axis in 3d according to Rodrigues' rotation formula; axis: assumed to be a
\*  unit vector; angle(s) of counter-clockwise rotation"
AxisRotMat(k, cs) == Rodrigues(k, cs)
AxisRotMatVec(k, ang) == [sh |-> ang.sh, mats |-> [i \in 1..Prod(ang.sh) |-> AxisRotMat(k, ang.v[i])]]
\* "Rotate a vector or an array of vectors around an axis in 3d; axis_shift: shift the rotation center by this vector"
AxisRot(k, cs, v, shift) ==
  LET s == IF shift = NONE THEN GZeroV(3) ELSE shift
  IN  GAdd(s, MatVec(AxisRotMat(k, cs), GSub(v, s)))
\* "... note that only shifts perpendicular to axis matter" (a law of the reference, checked by TLC)
PerpPart(k, s) == GSub(s, GScale(GDot(k, s), k))
ShiftLaw(k, cs, v, s) == AxisRot(k, cs, v, s) = AxisRot(k, cs, v, PerpPart(k, s))

(* ================== rotation_matrix_from_to (docstring) ================= *)
\* "Return a matrix that rotates from_vec to to_vec in 2d or 3d; the matrix does not include scaling.
\*  In 3d the matrix corresponds to a rotation around the normal n = u x v (u, v the normalised vectors) by the
\*  angle arccos(<u, v>); for collinear u, v a perpendicular vector is chosen as n and the angle is 0 if <u, v> > 0,
\*  otherwise pi.  The vectors should not be very close to zero or collinear."
Collinear(u, v) == IF Len(u) = 2 THEN QSubL(QMul(u[1], v[2]), QMul(u[2], v[1])) = QZero
                   ELSE GCross(u, v) = GZeroV(3)
FromToPosed(u, v) == Len(u) = Len(v) /\ Len(u) \in {2, 3} /\ GHasRatNorm(u) /\ GHasRatNorm(v)
\* which documented case applies
FromToCell(u, v) ==
  IF ~Collinear(u, v) THEN (IF Len(u) = 2 THEN "2d" ELSE "3d")
  ELSE IF QLt(QZero, GDot(u, v)) THEN (IF Len(u) = 2 THEN "2d-parallel" ELSE "3d-parallel")
  ELSE (IF Len(u) = 2 THEN "2d-antiparallel" ELSE "3d-antiparallel")
\* clauses a returned matrix M violates (M entries may be OFFQ)
MatOnLattice(M) == \A i \in 1..Len(M) : \A j \in 1..Len(M[i]) : M[i][j][2] # 0
FromToClauses(u, v, M) ==
  LET uh == GUnit(u)  vh == GUnit(v)  cell == FromToCell(u, v) IN
  IF cell \in {"2d-parallel", "2d-antiparallel"} THEN {}     \* "should not be collinear", no 2d statement: no demand
  ELSE IF Len(M) # Len(u) \/ ~SeqAll(M, LAMBDA r : Len(r) = Len(u)) THEN {"shape"}
  ELSE IF ~MatOnLattice(M) THEN {"not-a-rotation"}
  ELSE (IF MatMul(M, MTranspose(M)) # MIdent(Len(u)) THEN {"orthogonal"} ELSE {})
       \cup (IF MDet(M) # QOne THEN {"determinant"} ELSE {})
       \cup (IF MatVec(M, uh) # vh THEN {"image"} ELSE {})
       \cup (CASE cell \in {"2d", "3d"} -> (IF M # RotFromTo(uh, vh) THEN {"rotation"} ELSE {})
               [] cell = "3d-parallel" -> (IF M # MIdent(3) THEN {"angle-zero"} ELSE {})
               [] cell = "3d-antiparallel" -> (IF MatMul(M, M) # MIdent(3) THEN {"angle-pi"} ELSE {}))
\* the reference has the documented properties itself (law checked by TLC on the bounded instance)
FromToLaw(u, v) ==
  LET uh == GUnit(u)  vh == GUnit(v)  M == RotFromTo(uh, vh) IN
  /\ IsRotation(M)
  /\ MatVec(M, uh) = vh
  /\ (Len(u) = 3 /\ ~Collinear(u, v)) => MatVec(M, GCross(uh, vh)) = GCross(uh, vh)

(* ===================== transform_system (docstring) ===================== *)
\* "If matrix is not None, transform principal_vec and all vectors in other_vecs by matrix, ignoring
\*  principal_default.  If matrix is None, compute the rotation matrix from principal_default to principal_vec, not
\*  including the dilation; apply that rotation to all vectors in other_vecs.  None entries are appended as-is.  The
\*  first entry is (the transformed) principal_vec, followed by the transformed other_vecs."
MapOthers(M, others) == [i \in 1..Len(others) |-> IF others[i] = NONE THEN NONE ELSE MatVec(M, others[i])]
TSysCell(pv, pd, mat) == IF mat # NONE THEN "matrix" ELSE FromToCell(pd, pv)
\* the expectation where the documentation determines it
TSysDetermined(pv, pd, mat) == TSysCell(pv, pd, mat) # "3d-antiparallel"
TSysExpected(pv, pd, others, mat) ==
  LET cell == TSysCell(pv, pd, mat) IN
  CASE cell = "matrix" -> <<MatVec(mat, pv)>> \o MapOthers(mat, others)
    [] cell \in {"2d-parallel", "3d-parallel"} -> <<pv>> \o others
    [] cell = "2d-antiparallel" -> <<pv>> \o MapOthers(MScale(QNeg(QOne), MIdent(2)), others)
    [] OTHER -> <<pv>> \o MapOthers(RotFromTo(GUnit(pd), GUnit(pv)), others)
VecOnLattice(v) == v = NONE \/ \A i \in 1..Len(v) : v[i][2] # 0
\* 3d anti-parallel: the rotation about the unspecified perpendicular axis is only constrained relationally
TSysRelational(pv, pd, others, out) ==
  LET ph == GUnit(pd)  qh == GUnit(pv)
      idx == {i \in 1..Len(others) : others[i] # NONE}
  IN  (IF out[1] # pv THEN {"principal"} ELSE {})
      \cup (IF \E i \in 1..Len(others) : (others[i] = NONE) # (out[i + 1] = NONE) THEN {"none-entry"} ELSE {})
      \cup (IF \E i \in idx : out[i + 1] # NONE /\ GDot(out[i + 1], qh) # GDot(others[i], ph) THEN {"image"} ELSE {})
      \cup (IF \E i, j \in idx : out[i + 1] # NONE /\ out[j + 1] # NONE
                                 /\ GDot(out[i + 1], out[j + 1]) # GDot(others[i], others[j]) THEN {"orthogonal"} ELSE {})
TSysClauses(pv, pd, others, mat, out) ==
  IF Len(out) # Len(others) + 1 THEN {"length"}
  ELSE IF ~SeqAll(out, VecOnLattice) THEN {"not-a-number"}
  ELSE IF TSysDetermined(pv, pd, mat)
    THEN (IF out = TSysExpected(pv, pd, others, mat) THEN {} ELSE {"value"})
  ELSE TSysRelational(pv, pd, others, out)

(* =================== perpendicular_vector (docstring) =================== *)
\* "Return a vector perpendicular to vec: array of same shape as vec such that dot(vec, perp_vec) == 0 (along the
\*  last axis if there are multiple vectors)"; every example returns a unit vector; the examples themselves:
PerpExamples == << << <<QZero, QOne>>, <<QNeg(QOne), QZero>> >>,
                   << <<QOne, QZero>>, <<QZero, QOne>> >>,
                   << <<QZero, QOne, QZero>>, <<QNeg(QOne), QZero, QZero>> >>,
                   << <<QZero, QZero, QOne>>, <<QOne, QZero, QZero>> >>,
                   << <<QOne, QZero, QZero>>, <<QZero, QOne, QZero>> >> >>
PerpOne(v, w) ==
  IF Len(w) # Len(v) THEN {"shape"}
  ELSE IF ~VecOnLattice(w) THEN {"not-a-number"}
  ELSE (IF GDot(v, w) # QZero THEN {"orthogonal"} ELSE {})
       \cup (IF GNorm2(w) # QOne THEN {"unit"} ELSE {})
       \cup (IF \E i \in 1..Len(PerpExamples) : PerpExamples[i][1] = v /\ PerpExamples[i][2] # w THEN {"example"} ELSE {})
PerpClauses(sh, vs, osh, ws) ==
  (IF osh # sh THEN {"shape"} ELSE {})
  \cup (IF Len(ws) # Len(vs) THEN {"shape"} ELSE UNION {PerpOne(vs[i], ws[i]) : i \in 1..Len(vs)})

(* ====================== is_inside_bounds (docstring) ==================== *)
\* "True if all values lie in params (an IntervalProd: closed box), False otherwise"
InBox(p, lo, hi) == \A i \in 1..Len(lo) : QLe(lo[i], p[i]) /\ QLe(p[i], hi[i])
InsideBounds(pts, lo, hi) == \A k \in 1..Len(pts) : InBox(pts[k], lo, hi)

(* ============================== phantoms =============================== *)
\* A space is a tuple of axes [lo, hi, n]: uniform_discr(min_pt, max_pt, shape) samples at the cell midpoints.
GridPt(ax, i) == QAddL(ax.lo, QMul(Q(2 * i + 1, 2 * ax.n), QSubL(ax.hi, ax.lo)))          \* i = 0 .. n-1
ShapeOfSpace(sp) == [i \in 1..Len(sp) |-> sp[i].n]
\* "The provided ellipsoids need to be specified relative to the reference rectangle [-1, -1] x [1, 1]"; the docstring
\* example (a radius-1 circle on uniform_discr([-1,-1],[1,1],[5,5]) touches exactly the outermost grid points) fixes the
\* reading: the outermost GRID POINTS are the points -1 and +1; "if space.shape is 1 in an axis, a corresponding slice
\* of the phantom is created": that axis sits at 0.
NormCoord(n, i) == IF n = 1 THEN QZero ELSE QSubL(Q(2 * i, n - 1), QOne)
\* ellipse / ellipsoid e = [val, ax (half-axes), c (centre), rot (<<cs>> in 2d, <<phi, theta, psi>> in 3d)]:
\* the axis-aligned ellipsoid rotated by euler_matrix(rot) ("rotation angle in 2D or Euler angles in 3D") about its centre
EllRot(e) == IF Len(e.c) = 2 THEN Rot2(e.rot[1]) ELSE Euler(e.rot[1], e.rot[2], e.rot[3])
RECURSIVE QuadFrom(_, _, _)
QuadFrom(y, ax, i) == IF i > Len(y) THEN QZero ELSE QAddL(QDiv(QSq(y[i]), QSq(ax[i])), QuadFrom(y, ax, i + 1))
EllQuad(e, Rt, t) == QuadFrom(MatVec(Rt, GSub(t, e.c)), e.ax, 1)
\* relative margin (1/128) around the boundary inside which no value is demanded (the floating-point test may go either
\* way); written without large products: TLC integers are 32-bit
EllClass(q) ==
  LET n == q[1]  d == q[2] IN
  IF n >= 2 * d THEN "out"
  ELSE IF d <= 4000000 THEN (IF n * 128 < 127 * d THEN "in" ELSE IF n * 128 > 129 * d THEN "out" ELSE "edge")
  ELSE (IF n < d - (d \div 128) - 1 THEN "in" ELSE IF n > d + (d \div 128) + 1 THEN "out" ELSE "edge")
\* value of the phantom at the normalised point t: "the phantom is created by adding the values of each ellipse";
\* OFFQ when the point is in the margin of some ellipse
RECURSIVE EllSum(_, _, _, _)
EllSum(ells, Rts, t, i) ==
  IF i > Len(ells) THEN QZero
  ELSE LET cl == EllClass(EllQuad(ells[i], Rts[i], t))
           rest == EllSum(ells, Rts, t, i + 1)
       IN  IF cl = "edge" \/ rest = OFFQ THEN OFFQ
           ELSE IF cl = "in" THEN QAddL(ells[i].val, rest) ELSE rest
\* phantom on a grid of the given shape: flat C-order sequence
EllPhantom(shape, ells) ==
  LET Rts == [i \in 1..Len(ells) |-> MTranspose(EllRot(ells[i]))] \o <<>>
  IN  [k \in 1..Prod(shape) |->
         LET mi == Unravel(k - 1, shape)
             t  == Tup(Len(shape), LAMBDA a : NormCoord(shape[a], mi[a]))
         IN  EllSum(ells, Rts, t, 1)] \o <<>>
\* min_pt / max_pt given as CELL BOUNDARY indices i0 / i1 of the partition (or NONE):
\* "use these vectors to determine the bounding box of the phantom instead of space.min_pt and space.max_pt; providing
\*  one of them results in a shift (new_min_pt = min_pt, new_max_pt = space.max_pt + (min_pt - space.min_pt));
\*  providing both results in a scaled version of the phantom"
EllPhantomBox(shape, ells, i0, i1) ==
  IF i0 = NONE /\ i1 = NONE THEN EllPhantom(shape, ells)
  ELSE IF i0 # NONE /\ i1 # NONE THEN
    LET sub == [a \in 1..Len(shape) |-> i1[a] - i0[a]]
        ph  == EllPhantom(sub, ells)
    IN  [k \in 1..Prod(shape) |->
           LET mi == Unravel(k - 1, shape) IN
           IF \A a \in 1..Len(shape) : i0[a] <= mi[a] /\ mi[a] < i1[a]
             THEN ph[Ravel([a \in 1..Len(shape) |-> mi[a] - i0[a]], sub) + 1] ELSE QZero]
  ELSE
    LET sft == IF i0 # NONE THEN i0 ELSE [a \in 1..Len(shape) |-> i1[a] - shape[a]]       \* shift in cells
        ph  == EllPhantom(shape, ells)
    IN  [k \in 1..Prod(shape) |->
           LET mi == Unravel(k - 1, shape)  src == [a \in 1..Len(shape) |-> mi[a] - sft[a]] IN
           IF \A a \in 1..Len(shape) : 0 <= src[a] /\ src[a] < shape[a] THEN ph[Ravel(src, shape) + 1] ELSE QZero]
BoxCell(i0, i1) == IF i0 = NONE /\ i1 = NONE THEN "full" ELSE IF i0 # NONE /\ i1 # NONE THEN "both"
                   ELSE IF i0 # NONE THEN "min-only" ELSE "max-only"
\* cylinders_from_ellipses: "Create 3d cylinders from ellipses": same cross-section in every slice of the last axis
CylPhantom(shape3, ells2) ==
  LET ph == EllPhantom(<<shape3[1], shape3[2]>>, ells2)
  IN  [k \in 1..Prod(shape3) |-> ph[(k - 1) \div shape3[3] + 1]]

\* cuboid: "min_pt: lower left corner of the cuboid; if None, a quarter of the extent from space.min_pt towards the
\* inside is chosen; max_pt: upper right corner; if None, min_pt plus half the extent is chosen" (example: the cuboid lies
\* in the middle of the domain and extends halfway towards all sides).  Points exactly on a face: no demand.
CubLo(sp, lo) == IF lo # NONE THEN lo ELSE Tup(Len(sp), LAMBDA a : QAddL(QMul(Q(3, 4), sp[a].lo), QMul(Q(1, 4), sp[a].hi)))
CubHi(sp, lo, hi) ==
  IF hi # NONE THEN hi
  ELSE IF lo = NONE THEN Tup(Len(sp), LAMBDA a : QAddL(QMul(Q(1, 4), sp[a].lo), QMul(Q(3, 4), sp[a].hi)))
  ELSE Tup(Len(sp), LAMBDA a : QAddL(lo[a], QMul(Q(1, 2), QSubL(sp[a].hi, sp[a].lo))))
CubClass1(x, l, h) == IF x = l \/ x = h THEN "edge" ELSE IF QLt(l, x) /\ QLt(x, h) THEN "in" ELSE "out"
CubValue(sp, l, h, mi) ==
  LET cls == {CubClass1(GridPt(sp[a], mi[a]), l[a], h[a]) : a \in 1..Len(sp)}
  IN  IF "out" \in cls THEN QZero ELSE IF "edge" \in cls THEN OFFQ ELSE QOne
\* "max_pt None -> min_pt plus half the extent" and "a quarter from the max towards the inside" coincide only for the
\* default min_pt; with an explicit min_pt and max_pt None the sentence and the symmetric reading differ: no demand
CubDemanded(lo, hi) == ~(lo # NONE /\ hi = NONE)
CubPhantom(sp, lo, hi) ==
  LET l == CubLo(sp, lo)  h == CubHi(sp, lo, hi)  shape == ShapeOfSpace(sp)
  IN  [k \in 1..Prod(shape) |-> CubValue(sp, l, h, Unravel(k - 1, shape))]

\* smooth_cuboid (relational): "cuboid with smooth variations; axis: dimension(s) along which the smooth variation should
\* happen; values have range [0, 1]".  Observed values are quantised integers v / D: every value lies in [0, 1], and inside
\* the cuboid (resp. outside) two grid points that agree in the coordinates of `axis` carry the same value (+- 2 quanta)
SmoothCubClauses(sp, lo, hi, axes, o) ==
  LET l == CubLo(sp, lo)  h == CubHi(sp, lo, hi)  shape == ShapeOfSpace(sp)
      cls == [k \in 1..Prod(shape) |-> CubValue(sp, l, h, Unravel(k - 1, shape))] \o <<>>
      key == [k \in 1..Prod(shape) |-> LET mi == Unravel(k - 1, shape) IN [j \in 1..Len(axes) |-> mi[axes[j] + 1]]] \o <<>>
  IN  IF Len(o.v) # Prod(shape) THEN {"shape"}
      ELSE (IF \E k \in 1..Len(o.v) : o.v[k] < 0 \/ o.v[k] > o.D THEN {"range"} ELSE {})
           \cup (IF CubDemanded(lo, hi) /\ \E k1, k2 \in 1..Len(o.v) :
                       /\ k1 < k2 /\ cls[k1] = cls[k2] /\ cls[k1] # OFFQ /\ key[k1] = key[k2]
                       /\ Abs(o.v[k1] - o.v[k2]) > 2 THEN {"variation"} ELSE {})

\* defrise: "phantom with regularly spaced ellipses; nellipses: number of ellipses, if more ellipses are used each becomes
\* thinner; alternating: True if the ellipses should have alternating densities (+1, -1), otherwise all have value +1"
\* The table (defrise_ellipses) is data; the documentation constrains it as follows
DefriseTableClauses(dim, n, alt, tab, thinNext) ==
  IF Len(tab) # n THEN {"count"}
  ELSE (IF ~alt /\ \E i \in 1..n : tab[i].val # QOne THEN {"values"} ELSE {})
       \cup (IF alt /\ ((\E i \in 1..n : tab[i].val \notin {QOne, QNeg(QOne)})
                        \/ (\E i \in 1..(n - 1) : tab[i].val = tab[i + 1].val)) THEN {"alternating"} ELSE {})
       \cup (IF \E i \in 1..n : tab[i].ax # tab[1].ax \/ tab[i].rot # tab[1].rot
                                \/ \E a \in 1..(dim - 1) : tab[i].c[a] # tab[1].c[a] THEN {"same-ellipse"} ELSE {})
       \cup (IF (\E i \in 1..(n - 2) : QSubL(tab[i + 1].c[dim], tab[i].c[dim]) # QSubL(tab[i + 2].c[dim], tab[i + 1].c[dim]))
               \/ (\E i \in 1..(n - 1) : ~QLt(tab[i].c[dim], tab[i + 1].c[dim]))
               \/ (\E i \in 1..n : tab[i].c[dim] # QNeg(tab[n + 1 - i].c[dim])) THEN {"regular-spacing"} ELSE {})
       \cup (IF n >= 1 /\ ~QLt(thinNext, tab[1].ax[dim]) THEN {"thinner"} ELSE {})

\* number of 4-connected components of a set of index tuples (indicate_proj_axis: "the number (n) of rectangles in a
\* parallel-beam projection along a main axis (0, 1, or 2) indicates the projection to be along the (n-1)th dimension")
Adjacent(p, q) == LET ds == [a \in 1..Len(p) |-> Abs(p[a] - q[a])] IN
                  (\A a \in 1..Len(p) : ds[a] <= 1) /\ Cardinality({a \in 1..Len(p) : ds[a] = 1}) = 1
RECURSIVE Reach(_, _)
Reach(F, S) == LET N == F \cup {y \in S : \E x \in F : Adjacent(x, y)} IN IF N = F THEN F ELSE Reach(N, S)
RECURSIVE Components(_)
Components(S) == IF S = {} THEN 0 ELSE LET c == CHOOSE x \in S : TRUE IN 1 + Components(S \ Reach({c}, S))
\* support of the projection along `axis` (1-based) of the flat non-negative array v of the given shape
ProjSupport(shape, v, axis) ==
  {[a \in 1..(Len(shape) - 1) |-> Unravel(k - 1, shape)[IF a < axis THEN a ELSE a + 1]] :
      k \in {kk \in 1..Len(v) : v[kk] # 0}}
\* the 2d docstring example, literally
ProjAxisExample8x8 ==
  <<0,0,0,0,0,0,0,0,  0,0,0,1,1,0,0,0,  0,0,0,1,1,0,0,0,  0,0,0,0,0,0,0,0,
    0,0,0,0,0,0,0,0,  0,0,0,0,1,0,0,0,  0,0,0,1,0,0,0,0,  0,0,0,0,0,0,0,0>>
=============================================================================

------------------------------ MODULE InterpSem ------------------------------
(***************************************************************************)
(* Layer A (C15): sampling of functions on rectilinear grids and nearest / *)
(* linear / per-axis interpolation of grid data, over exact (Gaussian)     *)
(* rationals.  Written from the property statement, the docstrings of      *)
(* nearest_interpolator / linear_interpolator / per_axis_interpolator and  *)
(* DESIGN Appendix E5 - not from the code.                                 *)
(*                                                                         *)
(*   cvs   == Seq(Seq(Q))   coordinate vectors g_1 < ... < g_n per axis     *)
(*   f     == Seq(C)        grid values, flat in C order (last axis fastest)*)
(*   poly  == Seq([c |-> C, e |-> Seq(Nat)])  sum of c * prod x_k^e_k       *)
(*   x     == Seq(Q)        one evaluation point                            *)
(***************************************************************************)
EXTENDS ExactNum

\* addition through the least common denominator (keeps 32-bit intermediates small)
QAddL(p, q) == LET g == Gcd(p[2], q[2])
               IN  QNorm(p[1] * (q[2] \div g) + q[1] * (p[2] \div g), (p[2] \div g) * q[2])
CAddL(z, w) == <<QAddL(z[1], w[1]), QAddL(z[2], w[2])>>
RECURSIVE CSumL(_)
CSumL(s) == IF s = <<>> THEN CZero ELSE CAddL(Head(s), CSumL(Tail(s)))
RECURSIVE QSumL(_)
QSumL(s) == IF s = <<>> THEN QZero ELSE QAddL(Head(s), QSumL(Tail(s)))

(* ------------------------- functions ------------------------------------ *)
RECURSIVE ProdPow(_, _, _)
ProdPow(x, e, k) == IF k > Len(e) THEN QOne ELSE QMul(QPowN(x[k], e[k]), ProdPow(x, e, k + 1))
EvalPoly(poly, x) == CSumL([m \in 1..Len(poly) |-> CScal(ProdPow(x, poly[m].e, 1), poly[m].c)])
Mono(c, e) == [c |-> c, e |-> e]

(* ------------------------- grids ----------------------------------------- *)
GShape(cvs) == [k \in 1..Len(cvs) |-> Len(cvs[k])]
RECURSIVE ProdFrom(_, _)
ProdFrom(shape, k) == IF k > Len(shape) THEN 1 ELSE shape[k] * ProdFrom(shape, k + 1)
GSize(cvs)      == ProdFrom(GShape(cvs), 1)
Stride(shape, k) == ProdFrom(shape, k + 1)
\* 0-based flat index <-> 0-based multi-index (C order)
MultiOf(shape, t) == [k \in 1..Len(shape) |-> (t \div Stride(shape, k)) % shape[k]]
NodeOf(cvs, t)  == LET mi == MultiOf(GShape(cvs), t) IN [k \in 1..Len(cvs) |-> cvs[k][mi[k] + 1]]
\* "creating an element from a callable yields exactly the callable's values at the grid points"
Sample(poly, cvs) == [t \in 1..GSize(cvs) |-> EvalPoly(poly, NodeOf(cvs, t - 1))]

(* ------------------------- value types (dtype classes) -------------------- *)
(* "exactly the callable's values" in a space of a given value type: the exact value, rounded to   *)
(* the precision of the type.  dt \in {"int", "f32", "f64", "c64", "c128"}.  Values here are dyadic  *)
(* with < 31 bits, so f64 / c128 hold them exactly; f32 / c64 keep 24 significant bits, round to   *)
(* nearest, ties to even (IEEE); an integer type holds a value only if it is an integer.           *)
RECURSIVE BitLen(_)
BitLen(n) == IF n = 0 THEN 0 ELSE 1 + BitLen(n \div 2)
RECURSIVE Pow2(_)
Pow2(d) == IF d = 0 THEN 1 ELSE 2 * Pow2(d - 1)
Round24(q) ==
  LET a == Abs(q[1])  m == BitLen(a)
  IN  IF m <= 24 THEN q
      ELSE LET P == Pow2(m - 24)  r == a % P  t == a \div P
               up == (2 * r > P) \/ (2 * r = P /\ t % 2 = 1)
               t2 == IF up THEN t + 1 ELSE t
           IN  QNorm((IF q[1] < 0 THEN -1 ELSE 1) * t2 * P, q[2])
CastQ(dt, q) == IF dt \in {"f32", "c64"} THEN Round24(q) ELSE q
CastC(dt, z) == <<CastQ(dt, z[1]), CastQ(dt, z[2])>>
\* is the value of the callable representable at all in the type (otherwise the statement is silent)
CastDefined(dt, z) == CASE dt = "int" -> z[1][2] = 1 /\ z[2] = QZero
                        [] dt \in {"f32", "f64"} -> z[2] = QZero
                        [] OTHER -> TRUE
\* function descriptors: polynomial, or the piecewise  x -> 0 if x_1 < theta else x_1
FnEval(fn, x) == IF fn.kind = "poly" THEN EvalPoly(fn.poly, x)
                 ELSE IF QLt(x[1], fn.theta) THEN CZero ELSE CR(x[1])
SampleFn(fn, cvs) == [t \in 1..GSize(cvs) |-> FnEval(fn, NodeOf(cvs, t - 1))]
\* THE history-free statement: what a call in value type dt must return, whatever was called before
ExpectCall(fn, cvs, dt) == [t \in 1..GSize(cvs) |-> CastC(dt, SampleFn(fn, cvs)[t])]
DefinedCall(fn, cvs, dt) == [t \in 1..GSize(cvs) |-> CastDefined(dt, SampleFn(fn, cvs)[t])]

(* ------------------------- one axis -------------------------------------- *)
First(cv) == cv[1]
Last(cv)  == cv[Len(cv)]
FirstStep(cv) == QSub(cv[2], cv[1])
LastStep(cv)  == QSub(cv[Len(cv)], cv[Len(cv) - 1])
Inside(cv, x) == QLe(First(cv), x) /\ QLe(x, Last(cv))
\* nearest: the node with minimal |x - g_j|; the ambiguity at midpoints is resolved to the RIGHT neighbour
NearestIdx(cv, x) ==
  CHOOSE j \in 1..Len(cv) : \A i \in 1..Len(cv) :
     \/ QLt(QAbs(QSub(x, cv[j])), QAbs(QSub(x, cv[i])))
     \/ (QAbs(QSub(x, cv[j])) = QAbs(QSub(x, cv[i])) /\ j >= i)
\* linear: between the two surrounding nodes weights (1 - t, t); outside the hull the data is continued
\* linearly to an implicit 0 at a virtual node placed one edge step beyond the outermost node (documented:
\* "the extra interpolation node is placed at the same distance as the second-to-last")
LinDefined(cv, x) == /\ QLe(QSub(First(cv), FirstStep(cv)), x)
                     /\ QLe(x, QAdd(Last(cv), LastStep(cv)))
LinearW(cv, x) ==
  IF QLt(x, First(cv)) THEN <<<<1, QSub(QOne, QDiv(QSub(First(cv), x), FirstStep(cv)))>>>>
  ELSE IF QLt(Last(cv), x) THEN <<<<Len(cv), QSub(QOne, QDiv(QSub(x, Last(cv)), LastStep(cv)))>>>>
  ELSE LET j == CHOOSE j \in 1..(Len(cv) - 1) : QLe(cv[j], x) /\ QLe(x, cv[j + 1])
                      /\ \A i \in 1..(Len(cv) - 1) : (QLe(cv[i], x) /\ QLe(x, cv[i + 1])) => i <= j
           t == QDiv(QSub(x, cv[j]), QSub(cv[j + 1], cv[j]))
       IN  <<<<j, QSub(QOne, t)>>, <<j + 1, t>>>>
AxisW(scheme, cv, x) == IF scheme = "nearest" THEN <<<<NearestIdx(cv, x), QOne>>>> ELSE LinearW(cv, x)
AxisDefined(scheme, cv, x) == scheme = "nearest" \/ LinDefined(cv, x)
Defined(cvs, schemes, x) == \A k \in 1..Len(cvs) : AxisDefined(schemes[k], cvs[k], x[k])
InHull(cvs, x) == \A k \in 1..Len(cvs) : Inside(cvs[k], x[k])

(* ------------------------- N-d: tensor product over the axes -------------- *)
RECURSIVE Blend(_, _, _, _, _, _)
\* st = strides of the grid shape (computed once per evaluation)
Blend(f, st, W, k, off, w) ==
  IF k > Len(st) THEN CScal(w, f[off + 1])
  ELSE CSumL([p \in 1..Len(W[k]) |->
                Blend(f, st, W, k + 1, off + (W[k][p][1] - 1) * st[k], QMul(w, W[k][p][2]))])
Strides(shape) == [k \in 1..Len(shape) |-> Stride(shape, k)]
PerAxis(f, cvs, schemes, x) ==
  Blend(f, Strides(GShape(cvs)), [k \in 1..Len(cvs) |-> AxisW(schemes[k], cvs[k], x[k])], 1, 0, QOne)
AllOf(cvs, s) == [k \in 1..Len(cvs) |-> s]
Linear(f, cvs, x) == PerAxis(f, cvs, AllOf(cvs, "linear"), x)
\* nearest needs no arithmetic on the values: it is an index (works for any value type)
NearestMulti(cvs, x) == [k \in 1..Len(cvs) |-> NearestIdx(cvs[k], x[k]) - 1]         \* 0-based multi-index
RECURSIVE FlatFrom(_, _, _)
FlatFrom(shape, mi, k) == IF k > Len(shape) THEN 0 ELSE mi[k] * Stride(shape, k) + FlatFrom(shape, mi, k + 1)
FlatOf(shape, mi) == FlatFrom(shape, mi, 1)
Nearest(f, cvs, x) == f[FlatOf(GShape(cvs), NearestMulti(cvs, x)) + 1]

(* ------------------------- laws of C15 ------------------------------------ *)
\* every scheme combination reproduces the node values exactly
LawNodes(f, cvs, schemes) == \A t \in 1..GSize(cvs) : PerAxis(f, cvs, schemes, NodeOf(cvs, t - 1)) = f[t]
\* linear interpolation is exact for (multi-)affine functions anywhere inside the grid
LawAffine(poly, cvs, x) == InHull(cvs, x) => Linear(Sample(poly, cvs), cvs, x) = EvalPoly(poly, x)
\* nearest returns a node of minimal distance, the right one on ties
LawNearest(cv, x) ==
  LET j == NearestIdx(cv, x)
  IN  /\ \A i \in 1..Len(cv) : QLe(QAbs(QSub(x, cv[j])), QAbs(QSub(x, cv[i])))
      /\ \A i \in (j + 1)..Len(cv) : QLt(QAbs(QSub(x, cv[j])), QAbs(QSub(x, cv[i])))
\* inside the hull the weights are a convex combination; the all-nearest per-axis scheme is nearest
LawWeights(cvs, schemes, x) ==
  InHull(cvs, x) => \A k \in 1..Len(cvs) :
     LET W == AxisW(schemes[k], cvs[k], x[k])
     IN  /\ QSumL([p \in 1..Len(W) |-> W[p][2]]) = QOne
         /\ \A p \in 1..Len(W) : QLe(QZero, W[p][2])
LawPerAxisNearest(f, cvs, x) == PerAxis(f, cvs, AllOf(cvs, "nearest"), x) = Nearest(f, cvs, x)
\* the zero extension is continuous at the hull and vanishes at the virtual node
LawZeroExt(cv) ==
  /\ LinearW(cv, QSub(First(cv), FirstStep(cv))) = <<<<1, QZero>>>>
  /\ LinearW(cv, QAdd(Last(cv), LastStep(cv))) = <<<<Len(cv), QZero>>>>
=============================================================================

------------------------------- MODULE DFTSem -------------------------------
(***************************************************************************)
(* Layer A (reference semantics) for property C18, Fourier part.           *)
(*                                                                         *)
(* Every matrix entry of a discrete Fourier transform is  c * w_M^e  with  *)
(* w_M = exp(2 pi i / M),  e \in 0..M-1,  c \in {0, 1, 1/N}.  The tables   *)
(* below are written from the DEFINITION of the multi-axis DFT and of the  *)
(* continuous Fourier integral sampled on the documented reciprocal grid   *)
(* (DESIGN Appendix E9), never from the code:                              *)
(*                                                                         *)
(*   DFT      F[k,j]  = prod_{a in axes} w_{n_a}^{sign k_a j_a}            *)
(*                      * prod_{a notin axes} [k_a = j_a]                   *)
(*   inverse  = (1/N) * the same with the inverse operator's sign,         *)
(*              N = prod_{a in axes} n_a                                    *)
(*   half-complex: k_last ranges over 0..n_last \div 2 only                *)
(*   FT       G[k,j]  = mag_k * exp(sign i x_j . xi_k),                    *)
(*              x_j = x0 + j s,  xi_k = xi_0 + k 2pi/(s n)  per axis,      *)
(*              xi_0 = -pi/s (shifted) | -(pi/s)(1 - 1/n) (not shifted)    *)
(*              mag_k = prod_a s_a sinc(xi_k s_a / 2) / sqrt(2 pi) > 0     *)
(*                                                                         *)
(* Tables are tuples of tuples of integers: entry -1 means "exactly 0",    *)
(* entry e >= 0 means  c * w_M^e.  Multi-indices are C-ordered.            *)
(* A transform configuration is a record                                   *)
(*   [shape, axes, sign, hc]            (axes 0-based, in call order;      *)
(*                                       sign \in {-1, 1})                 *)
(* and for the continuous transform additionally                           *)
(*   shifts (one BOOLEAN per entry of axes),                               *)
(*   x0 (one rational <<a,b>> = x0/stride per entry of axes).              *)
(***************************************************************************)
EXTENDS ExactNum, TLC

Lcm(a, b) == (a \div Gcd(a, b)) * b

\* Semantically the identity on tuples.  TLC keeps [i \in 1..n |-> e] as an unevaluated closure and
\* re-evaluates e on every application; concatenation normalises it into an explicit tuple once.
Tup(f) == f \o <<>>

RECURSIVE ISumTo(_, _)
ISumTo(s, i) == IF i = 0 THEN 0 ELSE s[i] + ISumTo(s, i - 1)
ISum(s) == ISumTo(s, Len(s))

RECURSIVE IProdTo(_, _)
IProdTo(s, i) == IF i = 0 THEN 1 ELSE s[i] * IProdTo(s, i - 1)
Prod(s) == IProdTo(s, Len(s))

RECURSIVE LcmTo(_, _)
LcmTo(s, i) == IF i = 0 THEN 1 ELSE Lcm(s[i], LcmTo(s, i - 1))
LcmSeq(s) == LcmTo(s, Len(s))

(* ------------------------- multi-indices (C order) --------------------- *)
StrideOf(shape, a) == Prod(SubSeq(shape, a + 1, Len(shape)))
Unravel(f, shape) == Tup([a \in 1..Len(shape) |-> (f \div StrideOf(shape, a)) % shape[a]])
Ravel(idx, shape) == ISum([a \in 1..Len(shape) |-> idx[a] * StrideOf(shape, a)])

AxSet(axes)  == {axes[i] : i \in 1..Len(axes)}
LastAx(axes) == axes[Len(axes)]
AxLen(shape, axes, i) == shape[axes[i] + 1]        \* length of the i-th transformed axis

\* the range-shape rule: the LAST entry of axes is halved for half-complex transforms
RanShape(shape, axes, hc) ==
  IF hc THEN [shape EXCEPT ![LastAx(axes) + 1] = (@ \div 2) + 1] ELSE shape

NTrans(shape, axes) == Prod([i \in 1..Len(axes) |-> AxLen(shape, axes, i)])

(* ------------------------------- DFT ----------------------------------- *)
DFTPeriod(shape, axes) == LcmSeq([i \in 1..Len(axes) |-> AxLen(shape, axes, i)])

\* exponent of the (kk, jj) entry (multi-indices), -1 for a structural zero; M = DFTPeriod
DFTEntry(shape, axes, sign, M, kk, jj) ==
  IF \E a \in 1..Len(shape) : (a - 1) \notin AxSet(axes) /\ kk[a] # jj[a] THEN -1
  ELSE (sign * ISum([i \in 1..Len(axes) |->
             kk[axes[i] + 1] * jj[axes[i] + 1] * (M \div AxLen(shape, axes, i))])) % M

\* all multi-indices of a shape in C order (explicit tuple of tuples)
AllIdx(shape) == Tup([f \in 1..Prod(shape) |-> Unravel(f - 1, shape)])

\* forward table: rows = range multi-indices, columns = domain multi-indices; c = 1
DFTExp(shape, axes, sign, hc) ==
  LET M  == DFTPeriod(shape, axes)
      KK == AllIdx(RanShape(shape, axes, hc))
      JJ == AllIdx(shape)
  IN  Tup([k \in 1..Len(KK) |-> Tup([j \in 1..Len(JJ) |->
         DFTEntry(shape, axes, sign, M, KK[k], JJ[j])])])

\* complex-to-complex inverse table: rows = real-space indices, columns = frequency indices;
\* c = 1/NTrans ; `sign` is the sign of the INVERSE operator's exponent
IDFTExp(shape, axes, sign) ==
  LET M  == DFTPeriod(shape, axes)
      JJ == AllIdx(shape)
  IN  Tup([j \in 1..Len(JJ) |-> Tup([k \in 1..Len(JJ) |->
         DFTEntry(shape, axes, sign, M, JJ[j], JJ[k])])])

(* ------------------ exact sums of roots of unity ----------------------- *)
(* Polynomials with integer coefficients are tuples (p[i+1] = coefficient  *)
(* of x^i).  sum_e cnt[e] w_M^e = 0  iff  Phi_M divides sum_e cnt[e] x^e.  *)
PolyDeg(p) == Len(p) - 1
PolyMul(p, q) ==
  Tup([i \in 1..(Len(p) + Len(q) - 1) |->
     ISum([a \in 1..Len(p) |-> IF i - a + 1 >= 1 /\ i - a + 1 <= Len(q) THEN p[a] * q[i - a + 1] ELSE 0])])
\* x^m - 1
XmMinus1(m) == Tup([i \in 1..(m + 1) |-> IF i = 1 THEN -1 ELSE IF i = m + 1 THEN 1 ELSE 0])

\* long division by a MONIC polynomial d; returns [q, r] (r has length Len(d) - 1)
RECURSIVE PolyDivStep(_, _, _, _)
PolyDivStep(p, d, i, q) ==       \* eliminate coefficient at position i (1-based) of p
  IF i < Len(d) THEN [q |-> q, r |-> SubSeq(p, 1, Len(d) - 1)]
  ELSE LET c == p[i]
           off == i - Len(d)
           p2 == Tup([t \in 1..Len(p) |-> IF t > off /\ t <= i THEN p[t] - c * d[t - off] ELSE p[t]])
       IN  PolyDivStep(p2, d, i - 1, [q EXCEPT ![off + 1] = c])
PolyDivMod(p, d) ==
  IF Len(p) < Len(d) THEN [q |-> <<0>>, r |-> p \o [t \in 1..(Len(d) - 1 - Len(p)) |-> 0]]
  ELSE PolyDivStep(p, d, Len(p), Tup([t \in 1..(Len(p) - Len(d) + 1) |-> 0]))

Divisors(m) == {d \in 1..m : m % d = 0}
\* cyclotomic polynomial Phi_m = (x^m - 1) / prod_{d | m, d < m} Phi_d
RECURSIVE Cyclo(_)
RECURSIVE CycloProd(_, _)
CycloProd(S, acc) == IF S = {} THEN acc
                     ELSE LET d == CHOOSE d \in S : TRUE IN CycloProd(S \ {d}, PolyMul(acc, Cyclo(d)))
Cyclo(m) == IF m = 1 THEN <<-1, 1>>
            ELSE PolyDivMod(XmMinus1(m), CycloProd(Divisors(m) \ {m}, <<1>>)).q

\* Reduction table: RedTab(M, phi)[e+1] = coefficients (length deg Phi_M) of x^e mod Phi_M,
\* e \in 0..M-1, built by repeated multiplication by x.
MulXMod(v, phi) ==        \* (x * v) mod phi, v of length d = deg phi, phi monic of length d + 1
  LET d == Len(v)
      c == v[d]
  IN  Tup([t \in 1..d |-> (IF t = 1 THEN 0 ELSE v[t - 1]) - c * phi[t]])
RECURSIVE RedBuild(_, _, _)
RedBuild(tab, M, phi) ==
  IF Len(tab) = M THEN tab ELSE RedBuild(Append(tab, MulXMod(tab[Len(tab)], phi)), M, phi)
RedTab(M, phi) ==
  LET d == Len(phi) - 1
  IN  RedBuild(<<Tup([t \in 1..d |-> IF t = 1 THEN 1 ELSE 0])>>, M, phi)

\* canonical representative in Z[x]/(Phi_M) of  sum_t w_M^{exps[t]}  (entries -1 are skipped)
RootSumRed(exps, red) ==
  [t \in 1..Len(red[1]) |-> ISum([k \in 1..Len(exps) |-> IF exps[k] = -1 THEN 0 ELSE red[exps[k] + 1][t]])]
\* TRUE iff  sum_t w_M^{exps[t]} = c  (c an integer)
RootSumIs(exps, red, c) ==
  LET r == RootSumRed(exps, red) IN \A t \in 1..Len(r) : r[t] = (IF t = 1 THEN c ELSE 0)

\* canonical form of  sum_t w_M^{exps[t]}  (name of DESIGN Appendix B)
RootSum(exps, M) == RootSumRed(exps, RedTab(M, Cyclo(M)))

(* ---- laws the reference must satisfy (checked by TLC on every config) -- *)
\* inverse o forward = identity for complex-to-complex transforms:
\*   sum_k (1/N) w^{-sign..} w^{sign..} = [j' = j]       (root-of-unity sum rule)
RoundTripExact(shape, axes, sign) ==
  LET M   == DFTPeriod(shape, axes)
      red == RedTab(M, Cyclo(M))
      F   == DFTExp(shape, axes, sign, FALSE)
      G   == IDFTExp(shape, axes, -sign)
      n   == Prod(shape)
      N   == NTrans(shape, axes)
  IN  \A j2 \in 1..n : \A j \in 1..n :
        LET exps == Tup([k \in 1..n |-> IF G[j2][k] = -1 \/ F[k][j] = -1 THEN -1
                                        ELSE (G[j2][k] + F[k][j]) % M])
        IN  RootSumIs(exps, red, IF j2 = j THEN N ELSE 0)

\* Hermitian symmetry of the transform of a real signal: the half-complex table is the
\* restriction of the full table, and the discarded rows are the conjugates of kept rows:
\*   F[-k, j] = conj F[k, j]   (so a half spectrum determines the full one; the half-complex
\*   inverse is "Hermitian completion followed by the full inverse")
NegIdx(kk, shape, axes) ==
  Tup([a \in 1..Len(shape) |-> IF (a - 1) \in AxSet(axes) THEN (shape[a] - kk[a]) % shape[a] ELSE kk[a]])
HermitianOK(shape, axes) ==
  LET M    == DFTPeriod(shape, axes)
      full == DFTExp(shape, axes, -1, FALSE)
      half == DFTExp(shape, axes, -1, TRUE)
      rs   == RanShape(shape, axes, TRUE)
      n    == Prod(shape)
      la   == LastAx(axes) + 1
  IN  /\ \A k \in 1..Prod(rs) : half[k] = full[Ravel(Unravel(k - 1, rs), shape) + 1]
      /\ \A k \in 1..n : \A j \in 1..n :
           LET kk == Unravel(k - 1, shape)
               k2 == Ravel(NegIdx(kk, shape, axes), shape) + 1
           IN  IF full[k][j] = -1 THEN full[k2][j] = -1
               ELSE full[k2][j] = (M - full[k][j]) % M
      \* every full row is a kept row or the mirror image of a kept row
      /\ \A k \in 1..n :
           LET kk == Unravel(k - 1, shape)
           IN  kk[la] <= shape[la] \div 2 \/ NegIdx(kk, shape, axes)[la] <= shape[la] \div 2

(* ------------------- continuous Fourier transform ---------------------- *)
\* reference reciprocal grid point k of an axis with n samples, in units of 2 pi / stride
\*   shifted:      -1/2 + k/n            not shifted:  -(n-1)/(2n) + k/n
RecipPt(n, shift, k) == Q(2 * k - n + (IF shift THEN 0 ELSE 1), 2 * n)
\* number of reciprocal points kept on an axis
RecipLen(n, halved) == IF halved THEN (n \div 2) + 1 ELSE n
\* the reference reciprocal grid of one axis in physical units 2 pi / stride (name of DESIGN Appendix B):
\* tuple of rationals q_k with  xi_k = q_k * 2 pi / stride
RecipGrid(n, shift, halved) == Tup([k \in 1..RecipLen(n, halved) |-> RecipPt(n, shift, k - 1)])

\* a common period of all phases of one axis: x_j xi_k / 2pi = (a + j b)(2k - n + d) / (2 b n)
FTAxisPeriod(n, x0) == 2 * x0[2] * n
FTPeriod(shape, axes, x0) ==
  LcmSeq([i \in 1..Len(axes) |-> FTAxisPeriod(AxLen(shape, axes, i), x0[i])])

\* phase exponent of one axis: sign * (x0/s + j) * RecipPt * M
FTAxisExp(n, shift, x0, sign, k, j, M) ==
  sign * (x0[1] + j * x0[2]) * (2 * k - n + (IF shift THEN 0 ELSE 1)) * (M \div (2 * x0[2] * n))

FTEntry(shape, axes, sign, shifts, x0, M, kk, jj) ==       \* M = FTPeriod
  IF \E a \in 1..Len(shape) : (a - 1) \notin AxSet(axes) /\ kk[a] # jj[a] THEN -1
  ELSE ISum([i \in 1..Len(axes) |->
               FTAxisExp(AxLen(shape, axes, i), shifts[i], x0[i], sign,
                         kk[axes[i] + 1], jj[axes[i] + 1], M)]) % M

\* forward phase table (rows = reciprocal multi-indices, columns = real-space multi-indices)
FTPhaseExp(shape, axes, sign, hc, shifts, x0) ==
  LET M  == FTPeriod(shape, axes, x0)
      KK == AllIdx(RanShape(shape, axes, hc))
      JJ == AllIdx(shape)
  IN  Tup([k \in 1..Len(KK) |-> Tup([j \in 1..Len(JJ) |->
         FTEntry(shape, axes, sign, shifts, x0, M, KK[k], JJ[j])])])

\* inverse phase table of a complex-to-complex transform (rows = real space, columns = frequencies);
\* `sign` is the sign parameter of the INVERSE operator
IFTPhaseExp(shape, axes, sign, shifts, x0) ==
  LET M  == FTPeriod(shape, axes, x0)
      JJ == AllIdx(shape)
  IN  Tup([j \in 1..Len(JJ) |-> Tup([k \in 1..Len(JJ) |->
         FTEntry(shape, axes, sign, shifts, x0, M, JJ[k], JJ[j])])])

\* normalised frequencies (units of 2 pi / stride) of row k, one rational per transformed axis:
\* the documented magnitude of the row is  prod_i stride_i * sinc(pi f_i) / sqrt(2 pi)
FTRowFreqs(shape, axes, hc, shifts) ==
  LET rs == RanShape(shape, axes, hc)
  IN  Tup([k \in 1..Prod(rs) |-> Tup([i \in 1..Len(axes) |->
         RecipPt(AxLen(shape, axes, i), shifts[i], Unravel(k - 1, rs)[axes[i] + 1])])])

\* law: the shifted grid contains 0 for even n, the un-shifted one for odd n, and the
\* half-complex grid ends at the largest non-positive ... (documented in reciprocal_grid)
RecipGridLaws(n) ==
  /\ (n % 2 = 0) => \E k \in 0..(n - 1) : RecipPt(n, TRUE, k) = QZero
  /\ (n % 2 = 1) => \E k \in 0..(n - 1) : RecipPt(n, FALSE, k) = QZero
  /\ \A k \in 0..(n - 1) : RecipPt(n, FALSE, k) = QNeg(RecipPt(n, FALSE, n - 1 - k))     \* symmetric
  /\ RecipPt(n, TRUE, 0) = Q(-1, 2)
  /\ \A sh \in BOOLEAN : \A k \in 0..(RecipLen(n, TRUE) - 1) :
       QLe(RecipPt(n, sh, k), Q(1, 2 * n))                      \* kept half: non-positive up to half a cell
=============================================================================
